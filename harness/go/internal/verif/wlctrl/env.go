//go:build verif

// Package wlctrl: correspondence workloads of the controller layer (C07, C08,
// C11–C14, C16–C18). The REAL DefaultController (log processor, Numscript
// compiler + VM, postings→script conversion of the API) runs over
// memstore.Backend, the in-memory store contract.
package wlctrl

import (
	"context"
	"encoding/json"
	"errors"
	"fmt"
	"math/big"
	"sort"
	"strings"
	"time"

	logging "github.com/formancehq/go-libs/v5/pkg/observe/log"
	"github.com/formancehq/go-libs/v5/pkg/storage/postgres"
	"github.com/formancehq/go-libs/v5/pkg/types/metadata"
	libtime "github.com/formancehq/go-libs/v5/pkg/types/time"

	ledger "github.com/formancehq/ledger/internal"
	"github.com/formancehq/ledger/internal/api/bulking"
	ledgercontroller "github.com/formancehq/ledger/internal/controller/ledger"
	"github.com/formancehq/ledger/internal/machine"
	ledgerstore "github.com/formancehq/ledger/internal/storage/ledger"
	"github.com/formancehq/ledger/internal/verif/gen"
	"github.com/formancehq/ledger/internal/verif/memstore"
)

// ---- universe --------------------------------------------------------------------

var Accounts = []string{"world", "bank", "users:001", "users:002", "orders:x:1", "fees"}
var Assets = []string{"USD/2", "EUR", "COIN"}
var MetaKeys = []string{"k1", "k2", "role", "ünï", "q\"uo\\te", "ctl\u0001<&>", "partner"}
var MetaVals = []string{"", "v", "w", "vip", "héllo ☃", "q\"uo\\te", "tab\tnl\n\u0001", "users:002", "<b>&amp;"}
var Refs = []string{"ref-1", "ref\"2", "réf-3", "r4\\", "r5\u0002"}
var IKs = []string{"ik-1", "ik\"2", "ík-3", "ik4\\n", "ik5"}
var Versions = []string{"v1", "v2", "v3"}

// T0 is the origin of the logical clock; op i runs at T0 + (i+1)·10 s.
var T0 = time.Date(2024, 1, 1, 0, 0, 0, 0, time.UTC)

func NowOf(i int) int64 { return T0.Add(time.Duration(i+1) * 10 * time.Second).UnixMicro() }

// Grid: explicit transaction timestamps — far past, just before the first op,
// equal to the clock of ops 2 and 5 (ties), between ops, far future.
var Grid = []int64{
	T0.Add(-24 * time.Hour).UnixMicro(),
	T0.Add(-1 * time.Microsecond).UnixMicro(),
	T0.Add(30 * time.Second).UnixMicro(),
	T0.Add(60 * time.Second).UnixMicro(),
	T0.Add(75 * time.Second).UnixMicro(),
	T0.Add(365 * 24 * time.Hour).UnixMicro(),
}

func timeOf(us *int64) libtime.Time {
	if us == nil {
		return libtime.Time{}
	}
	return libtime.New(time.UnixMicro(*us))
}

// Scripts: the Numscript pool of the script-form creates (machine runtime).
var Scripts = map[string]string{
	"send":          "send [USD/2 10] (\n  source = @bank\n  destination = @users:001\n)",
	"send-world":    "send [EUR 7] (\n  source = @world\n  destination = @bank\n)",
	"overdraft":     "send [USD/2 25] (\n  source = @bank allowing unbounded overdraft\n  destination = @users:002\n)",
	"overdraft-cap": "send [COIN 5] (\n  source = @fees allowing overdraft up to [COIN 8]\n  destination = @orders:x:1\n)",
	"meta": "send [USD/2 3] (\n  source = @world\n  destination = @users:001\n)\n" +
		"set_tx_meta(\"k1\", \"from-script\")\nset_tx_meta(\"n\", 42)\n" +
		"set_account_meta(@users:001, \"role\", \"vip\")\nset_account_meta(@fees, \"k2\", \"x\")",
	"vars": "vars {\n  account $dst\n  monetary $amt\n}\nsend $amt (\n  source = @world\n  destination = $dst\n)",
	"split": "send [COIN 9] (\n  source = @world\n  destination = {\n    1/3 to @users:001\n    remaining to @users:002\n  }\n)\n" +
		"send [COIN 2] (\n  source = @users:001\n  destination = @fees\n)",
	"meta-only": "set_tx_meta(\"k1\", \"nothing\")",
	"meta-read": "vars {\n  account $dst = meta(@bank, \"partner\")\n}\nsend [EUR 3] (\n  source = @world\n  destination = $dst\n)",
	"all":       "send [USD/2 *] (\n  source = @users:001\n  destination = @bank\n)",
	"bad":       "send [USD/2 10] (\n  source = \n",
	// two sources: when @bank covers the amount, @fees is locked (GetBalances inserts its
	// (0,0) accounts_volumes row) but not used: a zero row the import never creates
	"two-src": "send [USD/2 1] (\n  source = {\n    @bank\n    @fees\n  }\n  destination = @users:001\n)",
}

var ScriptNames = func() []string {
	ret := make([]string, 0, len(Scripts))
	for k := range Scripts {
		ret = append(ret, k)
	}
	sort.Strings(ret)
	return ret
}()

// Charts: the schema pool (chart of accounts with default metadata).
var Charts = []string{
	`{"world":{},"bank":{".metadata":{"role":{"default":"treasury"},"k2":{"default":"d2"}}},"users":{"$id":{".metadata":{"role":{"default":"user"}}}},"orders":{"$o":{"$n":{}}},"fees":{}}`,
	`{"world":{},"bank":{},"users":{"$id":{".pattern":"^[0-9]{3}$",".metadata":{"k1":{"default":"chart-k1"},"ünï":{"default":"☃"}}}},"fees":{".metadata":{"k2":{"default":""}}}}`,
	`{"world":{},"bank":{".metadata":{"partner":{"default":"users:002"}}},"users":{"001":{}},"orders":{"x":{"1":{".metadata":{"q\"uo\\te":{"default":"q\"uo\\te"}}}}}}`,
}

// TemplateSets: the transaction-template sections of the schema pool ("" = none).
var TemplateSets = []string{
	``, ``, ``, ``, ``,
	`{"PAY":{"script":"send [USD/2 4] (\n  source = @world\n  destination = @users:001\n)"},"FEE":{"description":"fee","script":"send [COIN 1] (\n  source = @users:001\n  destination = @fees\n)","runtime":"machine"}}`,
	`{"PAY":{"script":"send [EUR 2] (\n  source = @bank allowing unbounded overdraft\n  destination = @users:002\n)\nset_tx_meta(\"k2\", \"tpl\")"}}`,
	`{"BAD":{"script":"send [USD/2 4] (\n  source = "}}`,
	`{"PAY":{"script":"send [USD/2 4] (\n  source = @world\n  destination = @bank\n)","runtime":"nope"}}`,
}

var TemplateNames = []string{"PAY", "FEE", "NOPE"}

// ---- ops ---------------------------------------------------------------------------

// Op kinds.
const (
	KCreateP    = "createP"
	KCreateS    = "createS"
	KRevert     = "revert"
	KSaveTxMeta = "saveTxMeta"
	KSaveAcMeta = "saveAccMeta"
	KDelTxMeta  = "delTxMeta"
	KDelAcMeta  = "delAccMeta"
	KSchema     = "insertSchema"
)

var WriteKinds = []string{KCreateP, KCreateS, KRevert, KSaveTxMeta, KSaveAcMeta, KDelTxMeta, KDelAcMeta, KSchema}

// Op is one controller request (the "in" of a history).
type Op struct {
	K   string `json:"k"`
	Now int64  `json:"now"`
	Dry bool   `json:"dry"`
	IK  string `json:"ik"`
	SV  string `json:"sv"`
	// create
	Postings []memstore.CPosting `json:"postings,omitempty"`
	Force    bool                `json:"force,omitempty"`
	Script   string              `json:"script,omitempty"`
	Template string              `json:"template,omitempty"`
	Vars     map[string]string   `json:"vars,omitempty"`
	TS       *int64              `json:"ts"`
	Ref      string              `json:"ref"`
	Runtime  string              `json:"runtime,omitempty"`
	// Mut: which single input field this re-send of an earlier request changes (generator label)
	Mut  string              `json:"mut,omitempty"`
	Meta [][2]string         `json:"meta"`
	AM   []memstore.CAccMeta `json:"am"`
	// revert / transaction metadata
	ID  uint64 `json:"id"`
	AED bool   `json:"aed,omitempty"`
	// account metadata
	Addr string `json:"addr,omitempty"`
	Key  string `json:"key,omitempty"`
	// schema
	Version   string          `json:"version,omitempty"`
	Chart     json.RawMessage `json:"chart,omitempty"`     // null: SchemaData without chart
	Templates json.RawMessage `json:"templates,omitempty"` // the schema's `transactions` section
}

func metaOf(kv [][2]string) metadata.Metadata {
	m := metadata.Metadata{}
	for _, e := range kv {
		m[e[0]] = e[1]
	}
	return m
}

func accMetaOf(am []memstore.CAccMeta) map[string]metadata.Metadata {
	if am == nil {
		return nil
	}
	ret := map[string]metadata.Metadata{}
	for _, e := range am {
		ret[e.Addr] = metaOf(e.Meta)
	}
	return ret
}

// MachineObs: what the real Numscript runtime answered for one Execute (the
// machine itself is modelled elsewhere; the controller model takes this as an
// oracle for script-form creates and re-computes it for postings-form ones).
type MachineObs struct {
	Err      string              `json:"err"`
	Postings []memstore.CPosting `json:"postings"`
	Meta     [][2]string         `json:"meta"`
	AM       []memstore.CAccMeta `json:"am"`
	// Calls: the store calls the runtime made
	Calls []MCall `json:"calls"`
	// Attempt: 1 for the first attempt of the operation, 2… for the retries (= number of
	// BeginTX calls made on the root handle so far, failed ones included)
	Attempt int `json:"attempt"`
}

// MCall: one store call of the runtime: GetBalances(q) or Accounts().GetOne(a).
type MCall struct {
	M string      `json:"m"`
	Q [][2]string `json:"q,omitempty"`
	A string      `json:"a,omitempty"`
}

// ChartRow: the real chart's answer for one address of the universe.
type ChartRow struct {
	Addr     string      `json:"addr"`
	Found    bool        `json:"found"`
	Defaults [][2]string `json:"defaults"`
}

// Resp is the canonical controller response.
type Resp struct {
	Err   string         `json:"err"`
	Hit   bool           `json:"hit"`
	Log   *memstore.CLog `json:"log"`
	OutOK bool           `json:"outOk"` // the separately returned output equals log.Data
	Panic string         `json:"panic,omitempty"`
	Msg   string         `json:"msg,omitempty"` // error text (not compared)
}

// Delta: the rows of a snapshot that differ from the previous snapshot (rows
// are never deleted: every table only grows or updates in place).
type Delta struct {
	Txs      []memstore.CTx      `json:"txs,omitempty"`
	Accounts []memstore.CAccount `json:"accounts,omitempty"`
	Vols     []memstore.CVol     `json:"vols,omitempty"`
	Logs     []memstore.CLog     `json:"logs,omitempty"`
	Schemas  []memstore.CSchema  `json:"schemas,omitempty"`
	// Shrunk: some row disappeared (never expected) — the full snapshot is then in Full.
	Shrunk bool           `json:"shrunk,omitempty"`
	Full   *memstore.Snap `json:"full,omitempty"`
}

type OpOut struct {
	Resp Resp   `json:"resp"`
	IH   string `json:"ih"` // ComputeIdempotencyHash of the input
	// Req: the input as the controller receives it, field by field (see canonReq)
	Req     string       `json:"req,omitempty"`
	Machine []MachineObs `json:"machine,omitempty"`
	Chart   []ChartRow   `json:"chartTable,omitempty"`
	// ChartCanon: json.Marshal of the parsed chart (what snapshots show)
	ChartCanon string `json:"chartCanon,omitempty"`
	// Templates: ids of the schema's transaction templates; TplBad: rejected by validation
	Templates []string  `json:"templates,omitempty"`
	TplBad    bool      `json:"tplBad,omitempty"`
	Trace     []string  `json:"trace"`
	Delta     Delta     `json:"delta"`
	Seq       [2]uint64 `json:"seq"` // sequences (tx, log) after the op
}

func rowKey(v any) string {
	switch r := v.(type) {
	case memstore.CTx:
		return fmt.Sprint(*r.ID)
	case memstore.CAccount:
		return r.Addr
	case memstore.CVol:
		return r.Account + "\x00" + r.Asset
	case memstore.CLog:
		return fmt.Sprint(*r.ID)
	case memstore.CSchema:
		return r.V
	}
	panic("rowKey")
}

func diffRows[T any](prev, cur []T) (changed []T, shrunk bool) {
	old := map[string]string{}
	for _, r := range prev {
		b, _ := json.Marshal(r)
		old[rowKey(r)] = string(b)
	}
	seen := 0
	for _, r := range cur {
		b, _ := json.Marshal(r)
		k := rowKey(r)
		if o, ok := old[k]; ok {
			seen++
			if o == string(b) {
				continue
			}
		}
		changed = append(changed, r)
	}
	return changed, seen != len(prev)
}

func DiffSnap(prev, cur memstore.Snap) Delta {
	var d Delta
	var s1, s2, s3, s4, s5 bool
	d.Txs, s1 = diffRows(prev.Txs, cur.Txs)
	d.Accounts, s2 = diffRows(prev.Accounts, cur.Accounts)
	d.Vols, s3 = diffRows(prev.Vols, cur.Vols)
	d.Logs, s4 = diffRows(prev.Logs, cur.Logs)
	d.Schemas, s5 = diffRows(prev.Schemas, cur.Schemas)
	if s1 || s2 || s3 || s4 || s5 {
		d.Shrunk = true
		d.Full = &cur
	}
	return d
}

func (d Delta) Empty() bool {
	return len(d.Txs)+len(d.Accounts)+len(d.Vols)+len(d.Logs)+len(d.Schemas) == 0 && !d.Shrunk
}

// ---- error classification -------------------------------------------------------------

func ClassifyErr(err error) string {
	switch {
	case err == nil:
		return ""
	case errors.Is(err, ledgercontroller.ErrInvalidIdempotencyInput{}):
		return "invalid-idempotency-input"
	case errors.Is(err, ledgercontroller.ErrSchemaNotFound{}):
		return "schema-not-found"
	case errors.Is(err, ledgercontroller.ErrSchemaNotSpecified{}):
		return "schema-not-specified"
	case errors.Is(err, ledgercontroller.ErrSchemaValidationError{}):
		return "schema-validation"
	case errors.Is(err, ledgercontroller.ErrSchemaAlreadyExists{}):
		return "schema-already-exists"
	case errors.Is(err, ledger.ErrInvalidSchema{}):
		return "invalid-schema"
	case errors.Is(err, ledgercontroller.ErrAlreadyReverted{}):
		return "already-reverted"
	case errors.Is(err, &machine.ErrInsufficientFund{}):
		return "insufficient-funds"
	case errors.Is(err, &ledgercontroller.ErrMetadataOverride{}):
		return "metadata-override"
	case errors.Is(err, ledgercontroller.ErrNoPostings):
		return "no-postings"
	case errors.Is(err, ledgercontroller.ErrCompilationFailed{}):
		return "compilation-failed"
	case errors.Is(err, &machine.ErrInvalidVars{}):
		return "invalid-vars"
	case errors.Is(err, &machine.ErrMissingMetadata{}):
		return "missing-metadata"
	case errors.Is(err, &machine.ErrNegativeAmount{}):
		return "negative-amount"
	case errors.Is(err, ledgerstore.ErrTransactionReferenceConflict{}):
		return "reference-conflict"
	case errors.Is(err, ledgerstore.ErrIdempotencyKeyConflict{}):
		return "ik-conflict"
	case errors.Is(err, ledgerstore.ErrConcurrentTransaction{}):
		return "concurrent-transaction"
	case errors.Is(err, ledgercontroller.ErrImport{}):
		return "import"
	case errors.Is(err, postgres.ErrNotFound):
		return "not-found"
	case errors.Is(err, postgres.ErrDeadlockDetected):
		return "deadlock"
	case errors.Is(err, context.Canceled):
		return "canceled"
	case errors.Is(err, memstore.ErrCommitFailed):
		return "commit-failed"
	case errors.Is(err, memstore.ErrInjected):
		return "injected"
	default:
		return "other"
	}
}

func errMsg(err error) string {
	if err == nil {
		return ""
	}
	s := err.Error()
	if len(s) > 160 {
		s = s[:160]
	}
	return s
}

// ---- the recording Numscript parser ------------------------------------------------------

// recParser wraps the real parser: the runtime it returns is the real one, its
// Execute result is recorded together with the store calls it made.
type recParser struct {
	inner ledgercontroller.NumscriptParser
	env   *Env
}

type recRuntime struct {
	inner ledgercontroller.NumscriptRuntime
	env   *Env
}

func (p *recParser) Parse(script string) (ledgercontroller.NumscriptRuntime, error) {
	rt, err := p.inner.Parse(script)
	if err != nil {
		p.env.machine = append(p.env.machine, MachineObs{Err: ClassifyErr(err), Postings: []memstore.CPosting{},
			Meta: [][2]string{}, AM: []memstore.CAccMeta{}, Calls: []MCall{}, Attempt: p.env.attempt()})
		return nil, err
	}
	return &recRuntime{inner: rt, env: p.env}, nil
}

func (r *recRuntime) Execute(ctx context.Context, store ledgercontroller.Store, vars map[string]string) (*ledgercontroller.NumscriptExecutionResult, error) {
	before := len(r.env.B.Trace())
	attempt := r.env.attempt()
	res, err := r.inner.Execute(ctx, store, vars)
	obs := MachineObs{Attempt: attempt, Err: ClassifyErr(err), Postings: []memstore.CPosting{}, Meta: [][2]string{}, AM: []memstore.CAccMeta{}}
	if err == nil {
		obs.Postings = memstore.CanonPostings(res.Postings)
		obs.Meta = memstore.CanonMeta(res.Metadata)
		obs.AM = memstore.CanonAccMeta(res.AccountMetadata)
	}
	obs.Calls = []MCall{}
	for _, c := range r.env.B.Trace()[before:] {
		mc := MCall{M: c.M, Q: c.Q}
		if c.M != "GetBalances" {
			mc.A = c.A
		}
		obs.Calls = append(obs.Calls, mc)
	}
	r.env.machine = append(r.env.machine, obs)
	return res, err
}

// ---- environment -----------------------------------------------------------------------

// Env: one ledger with its real controller over a Backend.
type Env struct {
	B    memstore.Backend
	L    ledger.Ledger
	Ctrl *ledgercontroller.DefaultController
	// W: the controller the ops go through (Ctrl itself, or the state-tracker facade over it)
	W       ledgercontroller.Controller
	Strict  bool
	machine []MachineObs
	prev    memstore.Snap
	// handle renaming of the current op
	names map[string]string
	nTx   int
}

func NewEnv(b memstore.Backend, name string, strict bool) *Env {
	l := ledger.Ledger{Name: name, ID: 1, State: ledger.StateInitializing}
	l.Bucket = "_default"
	l.Features = map[string]string{
		"MOVES_HISTORY": "OFF", "MOVES_HISTORY_POST_COMMIT_EFFECTIVE_VOLUMES": "DISABLED",
		"HASH_LOGS": "DISABLED", "ACCOUNT_METADATA_HISTORY": "DISABLED", "TRANSACTION_METADATA_HISTORY": "DISABLED",
		"INDEX_ADDRESS_SEGMENTS": "OFF", "INDEX_TRANSACTION_ACCOUNTS": "OFF",
	}
	e := &Env{B: b, L: l, Strict: strict}
	parser := &recParser{inner: ledgercontroller.NewDefaultNumscriptParser(), env: e}
	mode := ledgercontroller.SchemaEnforcementAudit
	if strict {
		mode = ledgercontroller.SchemaEnforcementStrict
	}
	e.Ctrl = ledgercontroller.NewDefaultController(l, b.NewStore(l), parser, parser,
		&recParser{inner: ledgercontroller.NewInterpreterNumscriptParser(nil), env: e},
		ledgercontroller.WithSchemaEnforcementMode(mode))
	e.W = e.Ctrl
	e.prev = b.Snapshot(name)
	return e
}

// NewFacadeEnv: like NewEnv, but the ops go through the REAL state tracker
// (controllerFacade.handleState / Import) — needs a Mem with EnableSQL.
func NewFacadeEnv(b *memstore.Mem, name string, strict bool) *Env {
	b.EnableSQL()
	return NewEnv(b, name, strict)
}

// BaseCtx: background context with a silent logger.
func BaseCtx() context.Context {
	return logging.ContextWithLogger(context.Background(), logging.NopZap())
}

// attempt: which attempt of the current operation is running.
func (e *Env) attempt() int {
	n := 0
	for _, c := range e.B.Trace() {
		if c.M == "BeginTX" && c.H == "root" {
			n++
		}
	}
	if n == 0 {
		n = 1
	}
	return n
}

// canonical handle names per op: root, t1, t1.1, t2, …
func (e *Env) handle(h string) string {
	if h == "root" {
		return h
	}
	base, rest, _ := strings.Cut(h, ".")
	n, ok := e.names[base]
	if !ok {
		e.nTx++
		n = fmt.Sprintf("t%d", e.nTx)
		e.names[base] = n
	}
	if rest != "" {
		return n + "." + rest
	}
	return n
}

func (e *Env) traceStrings(calls []memstore.Call) []string {
	ret := make([]string, 0, len(calls))
	for _, c := range calls {
		s := e.handle(c.H) + " " + c.M
		if c.M == "GetBalances" || c.M == "Accounts.GetOne" {
			s += " " + c.A
		}
		if c.E != "" {
			s += " !" + c.E
		}
		ret = append(ret, s)
	}
	return ret
}

func bigOf(s string) *big.Int {
	v, ok := new(big.Int).SetString(s, 10)
	if !ok {
		panic("bad integer " + s)
	}
	return v
}

// BuildCreate builds the controller input of a create op the way the v2 API
// does (bulking.TransactionRequest.ToCore → TxToScriptData for postings).
func BuildCreate(op Op) (*ledgercontroller.CreateTransaction, error) {
	req := bulking.TransactionRequest{
		Timestamp: timeOf(op.TS), Reference: op.Ref, Metadata: metaOf(op.Meta),
		AccountMetadata: accMetaOf(op.AM), Force: op.Force, Runtime: ledger.RuntimeType(op.Runtime),
	}
	if op.K == KCreateP {
		for _, p := range op.Postings {
			req.Postings = append(req.Postings, ledger.NewPosting(p.S, p.D, p.A, bigOf(p.N)))
		}
	} else {
		req.Script = ledgercontroller.ScriptV1{Script: ledgercontroller.Script{Plain: Scripts[op.Script], Template: op.Template}}
		if op.Vars != nil {
			req.Script.Vars = map[string]any{}
			for k, v := range op.Vars {
				req.Script.Vars[k] = v
			}
		}
	}
	return req.ToCore()
}

func params[T any](op Op, in T) ledgercontroller.Parameters[T] {
	return ledgercontroller.Parameters[T]{DryRun: op.Dry, IdempotencyKey: op.IK, SchemaVersion: op.SV, Input: in}
}

// schemaData parses the chart JSON with the real chart code.
func schemaData(op Op) (ledger.SchemaData, error) {
	var sd ledger.SchemaData
	if len(op.Chart) == 0 || string(op.Chart) == "null" {
		return sd, nil
	}
	var chart ledger.ChartOfAccounts
	if err := json.Unmarshal(op.Chart, &chart); err != nil {
		return sd, err
	}
	sd.Chart = chart
	if len(op.Templates) > 0 && string(op.Templates) != "null" {
		if err := json.Unmarshal(op.Templates, &sd.Transactions); err != nil {
			return sd, err
		}
	}
	return sd, nil
}

// templateIDs: the sorted ids of the schema's transaction templates, and whether
// NewSchema / insertSchema will reject them (unknown runtime or a script the real
// compiler refuses) — an oracle: programs are the machine model's concern.
func templateIDs(sd ledger.SchemaData) ([]string, bool) {
	ids := make([]string, 0, len(sd.Transactions))
	bad := sd.Transactions.Validate() != nil
	for id, t := range sd.Transactions {
		ids = append(ids, id)
		if _, err := ledgercontroller.NewDefaultNumscriptParser().Parse(t.Script); err != nil {
			bad = true
		}
	}
	sort.Strings(ids)
	return ids, bad
}

func chartTable(sd ledger.SchemaData) []ChartRow {
	rows := make([]ChartRow, 0, len(Accounts))
	if sd.Chart == nil {
		return rows
	}
	for _, a := range Accounts {
		acc, err := sd.Chart.FindAccountSchema(a)
		row := ChartRow{Addr: a, Found: err == nil && acc != nil, Defaults: [][2]string{}}
		if row.Found {
			row.Defaults = memstore.CanonMeta(acc.DefaultMetadata())
		}
		rows = append(rows, row)
	}
	return rows
}

// Run executes one op on the real controller and renders everything observable.
func (e *Env) Run(ctx context.Context, op Op) OpOut {
	e.B.SetNow(libtime.New(time.UnixMicro(op.Now)))
	e.B.ResetTrace()
	e.machine = nil
	e.names = map[string]string{}
	e.nTx = 0
	var out OpOut
	var (
		log *ledger.Log
		hit bool
		err error
		ret ledger.LogPayload
	)
	out.Resp.Panic = gen.Guard(func() {
		switch op.K {
		case KCreateP, KCreateS:
			in, berr := BuildCreate(op)
			if berr != nil {
				err = fmt.Errorf("request validation: %w", berr)
				return
			}
			p := params(op, *in)
			out.IH = ledger.ComputeIdempotencyHash(p.Input)
			out.Req = canonCreate(in)
			var r *ledger.CreatedTransaction
			log, r, hit, err = e.W.CreateTransaction(ctx, p)
			if r != nil {
				ret = *r
			}
		case KRevert:
			p := params(op, ledgercontroller.RevertTransaction{Force: op.Force, AtEffectiveDate: op.AED,
				TransactionID: op.ID, Metadata: metaOf(op.Meta)})
			out.IH = ledger.ComputeIdempotencyHash(p.Input)
			out.Req = reqString("revert", "force", op.Force, "atEffectiveDate", op.AED, "id", op.ID, "metadata", canonMap(metaOf(op.Meta)))
			var r *ledger.RevertedTransaction
			log, r, hit, err = e.W.RevertTransaction(ctx, p)
			if r != nil {
				ret = *r
			}
		case KSaveTxMeta:
			p := params(op, ledgercontroller.SaveTransactionMetadata{TransactionID: op.ID, Metadata: metaOf(op.Meta)})
			out.IH = ledger.ComputeIdempotencyHash(p.Input)
			out.Req = reqString("saveTxMeta", "id", op.ID, "metadata", canonMap(metaOf(op.Meta)))
			log, hit, err = e.W.SaveTransactionMetadata(ctx, p)
		case KSaveAcMeta:
			p := params(op, ledgercontroller.SaveAccountMetadata{Address: op.Addr, Metadata: metaOf(op.Meta)})
			out.IH = ledger.ComputeIdempotencyHash(p.Input)
			out.Req = reqString("saveAccMeta", "address", op.Addr, "metadata", canonMap(metaOf(op.Meta)))
			log, hit, err = e.W.SaveAccountMetadata(ctx, p)
		case KDelTxMeta:
			p := params(op, ledgercontroller.DeleteTransactionMetadata{TransactionID: op.ID, Key: op.Key})
			out.IH = ledger.ComputeIdempotencyHash(p.Input)
			out.Req = reqString("delTxMeta", "id", op.ID, "key", op.Key)
			log, hit, err = e.W.DeleteTransactionMetadata(ctx, p)
		case KDelAcMeta:
			p := params(op, ledgercontroller.DeleteAccountMetadata{Address: op.Addr, Key: op.Key})
			out.IH = ledger.ComputeIdempotencyHash(p.Input)
			out.Req = reqString("delAccMeta", "address", op.Addr, "key", op.Key)
			log, hit, err = e.W.DeleteAccountMetadata(ctx, p)
		case KSchema:
			sd, serr := schemaData(op)
			if serr != nil {
				err = fmt.Errorf("request validation: %w", serr)
				return
			}
			out.Chart = chartTable(sd)
			out.Templates, out.TplBad = templateIDs(sd)
			if sd.Chart != nil {
				cc, _ := json.Marshal(sd.Chart)
				out.ChartCanon = string(cc)
			}
			p := params(op, ledgercontroller.InsertSchema{Version: op.Version, Data: sd})
			out.IH = ledger.ComputeIdempotencyHash(p.Input)
			if sdj, merr := json.Marshal(sd); merr == nil {
				out.Req = reqString("insertSchema", "version", op.Version, "data", string(sdj))
			}
			var r *ledger.InsertedSchema
			log, r, hit, err = e.W.InsertSchema(ctx, p)
			if r != nil {
				ret = *r
			}
		default:
			err = fmt.Errorf("unknown op kind %q", op.K)
		}
	})
	out.Resp.Err = ClassifyErr(err)
	out.Resp.Msg = errMsg(err)
	out.Resp.Hit = hit
	out.Resp.OutOK = true
	if err == nil && out.Resp.Panic == "" {
		out.Resp.Log = memstore.CanonLog(log)
		if ret != nil && log != nil {
			a, _ := json.Marshal(memstore.CanonPayload(ret))
			b, _ := json.Marshal(out.Resp.Log.Data)
			out.Resp.OutOK = string(a) == string(b)
		}
	}
	out.Machine = e.machine
	out.Trace = e.traceStrings(e.B.Trace())
	cur := e.B.Snapshot(e.L.Name)
	out.Delta = DiffSnap(e.prev, cur)
	e.prev = cur
	tx, lg := e.B.Sequences(e.L.Name)
	out.Seq = [2]uint64{tx, lg}
	return out
}
