//go:build verif

package wlctrl

import (
	"encoding/json"
	"fmt"
	"math/rand"
	"strconv"

	"github.com/formancehq/ledger/internal/verif/gen"
	"github.com/formancehq/ledger/internal/verif/memstore"
)

// Workload "ctrlhist": random sequential histories through the real
// DefaultController over memstore; after every op the canonical response, the
// store-call trace, the Numscript runtime's answer and the snapshot delta.

// Prop: the property whose predicate the driver evaluates on the real outputs
// (set by vrctrl's -prop flag; empty = all of them).
var Prop string

type HistIn struct {
	Prop   string `json:"prop,omitempty"`
	Strict bool   `json:"strict"`
	Ops    []Op   `json:"ops"`
}

type HistOut struct {
	Ops []OpOut `json:"ops"`
}

// genState: what the generator remembers of the history so far (only to aim
// at interesting targets; never used as an oracle).
type genState struct {
	txIDs    []uint64
	reverted []uint64
	iks      []Op
	versions []string
	refs     []string
	// templated: the latest schema defines transaction templates
	templated bool
	// force: when set, genOp draws an op of this kind
	force string
}

func (g *genState) observe(op Op, out OpOut) {
	if out.Resp.Err != "" || out.Resp.Panic != "" || out.Resp.Log == nil || op.Dry || out.Resp.Hit {
		return
	}
	if op.IK != "" {
		g.iks = append(g.iks, op)
	}
	d := out.Resp.Log.Data
	switch op.K {
	case KCreateP, KCreateS:
		if d.Tx != nil && d.Tx.ID != nil {
			g.txIDs = append(g.txIDs, *d.Tx.ID)
		}
		if op.Ref != "" {
			g.refs = append(g.refs, op.Ref)
		}
	case KRevert:
		if d.Tx != nil && d.Tx.ID != nil {
			g.txIDs = append(g.txIDs, *d.Tx.ID)
		}
		g.reverted = append(g.reverted, op.ID)
	case KSchema:
		g.versions = append(g.versions, op.Version)
		g.templated = len(out.Templates) > 0
	}
}

func genMeta(r *rand.Rand, min, max int) [][2]string {
	n := min + r.Intn(max-min+1)
	seen := map[string]bool{}
	ret := [][2]string{}
	for i := 0; i < n; i++ {
		k := gen.Pick(r, MetaKeys)
		if seen[k] {
			continue
		}
		seen[k] = true
		ret = append(ret, [2]string{k, gen.Pick(r, MetaVals)})
	}
	return ret
}

func genAmount(r *rand.Rand) string {
	switch r.Intn(10) {
	case 0:
		return "0"
	case 1, 2, 3, 4, 5:
		return strconv.Itoa([]int{1, 2, 3, 5, 7, 10, 25, 50, 100}[r.Intn(9)])
	case 6, 7:
		return strconv.Itoa(r.Intn(1000))
	default:
		return gen.BigAmount(r).String()
	}
}

func genPostings(r *rand.Rand) []memstore.CPosting {
	n := 1 + r.Intn(3)
	if r.Intn(12) == 0 {
		n = 4 + r.Intn(3)
	}
	ps := make([]memstore.CPosting, 0, n)
	if r.Intn(8) == 0 {
		// fund x, move x→x (self-posting), then spend exactly the same amount from x:
		// the tracked balance of x must survive its own self-posting
		x, y := gen.Pick(r, Accounts[1:]), gen.Pick(r, Accounts[1:])
		a, amt := gen.Pick(r, Assets), genAmount(r)
		ps = append(ps, memstore.CPosting{S: "world", D: x, A: a, N: amt},
			memstore.CPosting{S: x, D: x, A: a, N: amt}, memstore.CPosting{S: x, D: y, A: a, N: amt})
		return ps
	}
	for i := 0; i < n; i++ {
		src := "world"
		if r.Intn(10) < 3 {
			src = gen.Pick(r, Accounts)
		}
		dst := gen.Pick(r, Accounts)
		if dst == src && r.Intn(4) > 0 {
			dst = gen.Pick(r, Accounts)
		}
		p := memstore.CPosting{S: src, D: dst, A: gen.Pick(r, Assets), N: genAmount(r)}
		if src != "world" && r.Intn(5) > 0 {
			p.N = strconv.Itoa([]int{0, 1, 1, 2, 3, 5}[r.Intn(6)])
		}
		// swap pattern: a→b in X then b→a in Y (multi-asset back and forth)
		if i > 0 && r.Intn(5) == 0 {
			prev := ps[i-1]
			p.S, p.D = prev.D, prev.S
			if r.Intn(2) == 0 {
				p.A = prev.A
			}
		}
		ps = append(ps, p)
	}
	return ps
}

func genOp(c *gen.Ctx, g *genState, i int) Op {
	r := c.R
	op := Op{Now: NowOf(i), Meta: [][2]string{}}
	// idempotency-key reuse: same input (hit) or different input (validation error)
	reuse := 9
	if Prop == "C13" {
		reuse = 3 // the property is about key reuse: most histories re-send several requests
	}
	if len(g.iks) > 0 && r.Intn(reuse) == 0 {
		prev := g.iks[r.Intn(len(g.iks))]
		if c := r.Intn(5); c < 4 {
			// same key: the same request (recorded outcome), or the same request with
			// EXACTLY ONE input field changed (must be refused, whatever the field)
			cp := cloneOp(prev)
			cp.Mut = ""
			if c >= 2 {
				cp, _ = MutateOne(r, prev)
			}
			cp.Now = op.Now
			cp.Dry = r.Intn(6) == 0
			if r.Intn(4) == 0 {
				cp.SV = ""
			}
			return cp
		}
		op.IK = prev.IK
	} else if r.Intn(4) == 0 {
		op.IK = gen.Pick(r, IKs) + strconv.Itoa(r.Intn(3))
	}
	op.Dry = r.Intn(10) == 0
	switch {
	case len(g.versions) > 0 && r.Intn(10) < 8:
		op.SV = g.versions[len(g.versions)-1]
	case len(g.versions) > 1 && r.Intn(4) == 0:
		op.SV = g.versions[r.Intn(len(g.versions))]
	case r.Intn(25) == 0:
		op.SV = "v9"
	}
	pickTx := func() uint64 {
		switch {
		case len(g.txIDs) == 0 || r.Intn(8) == 0:
			return uint64(len(g.txIDs) + 1 + r.Intn(4))
		case len(g.reverted) > 0 && r.Intn(6) == 0:
			return g.reverted[r.Intn(len(g.reverted))]
		default:
			return g.txIDs[r.Intn(len(g.txIDs))]
		}
	}
	w := r.Intn(100)
	if len(g.txIDs) == 0 && w >= 45 && w < 70 {
		w = 0
	}
	if g.force != "" {
		w = map[string]int{KCreateP: 0, KCreateS: 32, KRevert: 45, KSaveTxMeta: 58, KSaveAcMeta: 66,
			KDelTxMeta: 78, KDelAcMeta: 84, KSchema: 91}[g.force]
	}
	switch {
	case w < 32:
		op.K = KCreateP
		op.Postings = genPostings(r)
		op.Force = r.Intn(10) == 0
	case w < 45:
		op.K = KCreateS
		op.Script = gen.Pick(r, ScriptNames)
		if (g.templated && r.Intn(2) == 0) || r.Intn(30) == 0 {
			op.Template = gen.Pick(r, TemplateNames)
			op.Script = ""
		}
		if op.Script == "vars" {
			op.Vars = map[string]string{"dst": gen.Pick(r, Accounts[1:]), "amt": gen.Pick(r, Assets) + " " + genAmount(r)}
			if r.Intn(10) == 0 {
				delete(op.Vars, "amt")
			}
		}
	case w < 58:
		op.K = KRevert
		op.ID = pickTx()
		op.Force = r.Intn(3) == 0
		op.AED = r.Intn(3) == 0
		op.Meta = genMeta(r, 0, 1)
	case w < 66:
		op.K = KSaveTxMeta
		op.ID = pickTx()
		op.Meta = genMeta(r, 1, 2)
	case w < 78:
		op.K = KSaveAcMeta
		op.Addr = gen.Pick(r, Accounts)
		op.Meta = genMeta(r, 1, 2)
	case w < 84:
		op.K = KDelTxMeta
		op.ID = pickTx()
		op.Key = gen.Pick(r, MetaKeys)
	case w < 91:
		op.K = KDelAcMeta
		op.Addr = gen.Pick(r, Accounts)
		op.Key = gen.Pick(r, MetaKeys)
	default:
		op.K = KSchema
		op.Version = gen.Pick(r, Versions)
		if r.Intn(12) == 0 {
			op.Chart = json.RawMessage("null")
		} else {
			op.Chart = json.RawMessage(gen.Pick(r, Charts))
		}
		if t := gen.Pick(r, TemplateSets); t != "" {
			op.Templates = json.RawMessage(t)
		}
	}
	if op.K == KCreateP || op.K == KCreateS {
		if r.Intn(2) == 0 {
			ts := gen.Pick(r, Grid)
			op.TS = &ts
		}
		switch {
		case len(g.refs) > 0 && r.Intn(8) == 0:
			op.Ref = g.refs[r.Intn(len(g.refs))]
		case r.Intn(4) == 0:
			op.Ref = gen.Pick(r, Refs) + strconv.Itoa(r.Intn(4))
		}
		op.Meta = genMeta(r, 0, 2)
		if r.Intn(3) == 0 {
			n := 1 + r.Intn(2)
			seen := map[string]bool{}
			for j := 0; j < n; j++ {
				a := gen.Pick(r, Accounts)
				if seen[a] {
					continue
				}
				seen[a] = true
				op.AM = append(op.AM, memstore.CAccMeta{Addr: a, Meta: genMeta(r, 1, 2)})
			}
		}
	}
	return op
}

// RunHistory replays fixed ops on a fresh ledger.
func RunHistory(in HistIn) HistOut {
	e := NewEnv(memstore.New(), "l1", in.Strict)
	out := HistOut{Ops: make([]OpOut, 0, len(in.Ops))}
	for _, op := range in.Ops {
		out.Ops = append(out.Ops, e.Run(BaseCtx(), op))
	}
	return out
}

func histLen(c *gen.Ctx) int {
	n := 8 + c.R.Intn(18)
	if c.Wide && c.R.Intn(4) == 0 {
		n = 26 + c.R.Intn(55)
	}
	return n
}

func init() {
	gen.Register("ctrlhist", func(c *gen.Ctx) error {
		if c.Replay != "" {
			ins, err := c.ReplayInputs("ctrlhist")
			if err != nil {
				return err
			}
			for _, raw := range ins {
				var in HistIn
				if err := json.Unmarshal(raw, &in); err != nil {
					return err
				}
				if Prop != "" {
					in.Prop = Prop
				}
				if err := c.Emit("ctrlhist", in, RunHistory(in)); err != nil {
					return err
				}
			}
			return nil
		}
		for i := 0; i < c.N; i++ {
			in := HistIn{Prop: Prop, Strict: c.R.Intn(2) == 0}
			e := NewEnv(memstore.New(), "l1", in.Strict)
			g := &genState{}
			out := HistOut{}
			n := histLen(c)
			for j := 0; j < n; j++ {
				op := genOp(c, g, j)
				o := e.Run(BaseCtx(), op)
				g.observe(op, o)
				in.Ops = append(in.Ops, op)
				out.Ops = append(out.Ops, o)
			}
			if err := c.Emit("ctrlhist", in, out); err != nil {
				return fmt.Errorf("emit: %w", err)
			}
		}
		return nil
	})
}
