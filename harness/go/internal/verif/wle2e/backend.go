//go:build verif

// Package wle2e: the SECOND LEG of the controller-layer checks (DESIGN §9.2): the
// same workloads builder-ctrl runs over memstore (the in-memory store contract),
// here over the REAL SQL store (internal/storage/ledger + storage/driver +
// storage/system, rendered by bun) over pgfake → LeanPG.
//
// LeanPG is a Lean MODEL of PostgreSQL: there is no real Postgres in this
// sandbox. Every SQL statement the real store renders is executed by that model.
//
// backend.go: memstore.Backend over pgfake. The store handed to the controller is
// the real system.DefaultStoreAdapter over the real ledgerstore.Store, wrapped in
// a recording decorator that produces the same call trace memstore produces
// (method, handle, error class), so that builder-ctrl's Lean handlers
// (Ledger.Driver.Ctrl) can be reused unchanged.
package wle2e

import (
	"context"
	"database/sql"
	"encoding/hex"
	"encoding/json"
	"errors"
	"fmt"
	"os"
	"sort"
	"strings"
	"time"

	"github.com/jackc/pgx/v5/pgconn"
	"github.com/uptrace/bun"

	"github.com/formancehq/go-libs/v5/pkg/query"
	"github.com/formancehq/go-libs/v5/pkg/storage/bun/paginate"
	"github.com/formancehq/go-libs/v5/pkg/storage/migrations"
	"github.com/formancehq/go-libs/v5/pkg/storage/postgres"
	"github.com/formancehq/go-libs/v5/pkg/types/metadata"
	libtime "github.com/formancehq/go-libs/v5/pkg/types/time"

	ledger "github.com/formancehq/ledger/internal"
	ledgercontroller "github.com/formancehq/ledger/internal/controller/ledger"
	systemcontroller "github.com/formancehq/ledger/internal/controller/system"
	"github.com/formancehq/ledger/internal/storage/bucket"
	"github.com/formancehq/ledger/internal/storage/common"
	storagedriver "github.com/formancehq/ledger/internal/storage/driver"
	ledgerstore "github.com/formancehq/ledger/internal/storage/ledger"
	systemstore "github.com/formancehq/ledger/internal/storage/system"
	"github.com/formancehq/ledger/internal/verif/memstore"
	"github.com/formancehq/ledger/internal/verif/minisql"
	"github.com/formancehq/ledger/internal/verif/pgfake"
	"github.com/formancehq/ledger/pkg/features"
)

// Backend is memstore.Backend over the real SQL store on the modelled Postgres.
type Backend struct {
	Srv *pgfake.Server
	Drv *storagedriver.Driver
	Sys *systemstore.DefaultStore
	// Ledgers: the ledgers created through NewStore, as the storage driver returned them (real ids)
	Ledgers map[string]*ledger.Ledger
	// Stores: the root SQL store of each ledger (as returned by the storage driver's CreateLedger)
	Stores map[string]*ledgerstore.Store
	// BucketOf: bucket to use for a ledger name at creation ("" = a bucket of its own, named after the ledger)
	BucketOf map[string]string
	// FeaturesOf: features to create a ledger with (nil = the ones NewStore receives)
	FeaturesOf map[string]map[string]string

	now   int64
	trace []memstore.Call
	nTx   int
	// store-call faults (memstore.Fault semantics, delivered through the SQL driver)
	faults      []memstore.Fault // the plan (one-shot faults, each at its own call number)
	faultsFired []bool
	cur         *memstore.Fault // the planned fault delivered at the call being executed
	calls       int
	fired       bool
	commitArmed bool
	commitFired bool
	cancel      func()
	// curCall: index in trace of the store call being executed (-1 = none)
	curCall int
	// callRanges: per trace entry, the range [lo, hi) of statements (indices in Srv.Log(), which is
	// reset at the start of every operation) the call issued
	callRanges [][2]int
	// opEnd: number of statements of the operation proper (the first snapshot / sequence peek after
	// ResetTrace marks its end; -1 = still running)
	opStart, opEnd int
	// QuiesceTimeouts: how often a pooled connection was still in use after the grace period
	QuiesceTimeouts int
	// leaked: pooled connections known never to come back
	leaked int
}

var _ memstore.Backend = (*Backend)(nil)

var lpgPrivate string

// privateLpg: a private copy of the LeanPG executable, made once per run. The shared binary
// (lean/.lake/build/bin/ldriver_sql) is re-linked by every concurrently running check — for a moment it
// does not exist, and a run against another tree may replace it by that tree's model; one run must talk
// to ONE modelled Postgres from its first case to its last.
func privateLpg() (string, error) {
	if lpgPrivate != "" {
		return lpgPrivate, nil
	}
	src := pgfake.DefaultLpgPath()
	var data []byte
	var err error
	deadline := time.Now().Add(5 * time.Minute)
	for {
		data, err = os.ReadFile(src)
		if err == nil && len(data) > 0 {
			break
		}
		if time.Now().After(deadline) {
			return "", fmt.Errorf("LeanPG executable %s not available: %v", src, err)
		}
		time.Sleep(2 * time.Second)
	}
	f, err := os.CreateTemp("", "vre2e-lpg-*")
	if err != nil {
		return "", err
	}
	if _, err := f.Write(data); err != nil {
		return "", err
	}
	_ = f.Close()
	if err := os.Chmod(f.Name(), 0o755); err != nil {
		return "", err
	}
	lpgPrivate = f.Name()
	return lpgPrivate, nil
}

// RemovePrivateLpg deletes the private copy (end of a workload).
func RemovePrivateLpg() {
	if lpgPrivate != "" {
		_ = os.Remove(lpgPrivate)
		lpgPrivate = ""
	}
}

// Start launches one LeanPG process and the real storage driver over it.
func Start() (*Backend, error) {
	path, err := privateLpg()
	if err != nil {
		return nil, err
	}
	srv, err := pgfake.Start(path)
	if err != nil {
		return nil, fmt.Errorf("LeanPG (the modelled Postgres) is not available — lake build ldriver_sql: %w", err)
	}
	db := srv.DB()
	b := &Backend{
		Srv:        srv,
		Drv:        storagedriver.New(db, ledgerstore.NewFactory(db), bucket.NewDefaultFactory(), systemstore.NewStoreFactory()),
		Sys:        systemstore.New(db),
		Ledgers:    map[string]*ledger.Ledger{},
		Stores:     map[string]*ledgerstore.Store{},
		BucketOf:   map[string]string{},
		FeaturesOf: map[string]map[string]string{},
		curCall:    -1,
	}
	// The model's clock is pinned: every statement of an operation sees the operation's `now`
	// (LeanPG adds 1000 µs before each statement).
	srv.Hook = func(session int, q string) {
		if b.now != 0 {
			_, _ = srv.Raw(map[string]any{"k": "clock", "us": b.now - 1000})
		}
	}
	return b, nil
}

func (b *Backend) Close() { b.Srv.Close() }

// CreateLedger creates a ledger through the REAL storage driver (system store row, bucket
// instantiation on first use, bucket.AddLedger) and remembers its store.
func (b *Backend) CreateLedger(name, bucketName string, feats map[string]string) (*ledger.Ledger, *ledgerstore.Store, error) {
	cfg := ledger.Configuration{Bucket: bucketName, Features: map[string]string{}, Metadata: metadata.Metadata{}}
	for k, v := range feats {
		// (builder-ctrl's environment also names index features that no longer exist in this tree)
		if _, known := features.FeatureConfigurations[k]; known {
			cfg.Features[k] = v
		}
	}
	l, err := ledger.New(name, cfg)
	if err != nil {
		return nil, nil, err
	}
	store, err := b.Drv.CreateLedger(context.Background(), l)
	if err != nil {
		return nil, nil, err
	}
	b.Ledgers[name] = l
	b.Stores[name] = store
	return l, store, nil
}

// NewStore (memstore.Backend): creates the ledger through the real storage driver and
// returns the recording decorator over the real store adapter.
func (b *Backend) NewStore(l ledger.Ledger) ledgercontroller.Store {
	if _, exists := b.Stores[l.Name]; exists {
		// reopening: a fresh decorator over the existing ledger's root store
		return b.RootStore(l.Name)
	}
	bucketName, ok := b.BucketOf[l.Name]
	if !ok || bucketName == "" {
		bucketName = "b" + l.Name
	}
	feats := b.FeaturesOf[l.Name]
	if feats == nil {
		feats = l.Features
	}
	saved := b.now
	b.now = 0
	_, store, err := b.CreateLedger(l.Name, bucketName, feats)
	b.now = saved
	if err != nil {
		panic(fmt.Errorf("wle2e: CreateLedger %s: %w", l.Name, err))
	}
	return &tstore{b: b, inner: systemcontroller.NewDefaultStoreAdapter(store), name: "root"}
}

// RootStore: a fresh recording decorator over the ledger's root SQL store.
func (b *Backend) RootStore(name string) ledgercontroller.Store {
	return &tstore{b: b, inner: systemcontroller.NewDefaultStoreAdapter(b.Stores[name]), name: "root"}
}

func (b *Backend) InjectFault(f memstore.Fault) { b.InjectFaults([]memstore.Fault{f}) }

// InjectFaults arms a plan of one-shot store-call faults (memstore's semantics: the call counter
// restarts at 0; FaultCommit / AndCommit arm the failing top-level COMMIT).
func (b *Backend) InjectFaults(fs []memstore.Fault) {
	b.calls, b.fired, b.commitFired = 0, false, false
	b.commitArmed = false
	b.faults, b.cur = nil, nil
	for _, f := range fs {
		if f.Kind == memstore.FaultCommit || f.AndCommit {
			b.commitArmed = true
		}
		if f.Kind != memstore.FaultCommit {
			b.faults = append(b.faults, f)
		}
	}
	b.faultsFired = make([]bool, len(b.faults))
}

// nextFault: the planned fault for the current call number, if any (one-shot).
func (b *Backend) nextFault() *memstore.Fault {
	for i := range b.faults {
		if !b.faultsFired[i] && b.faults[i].At == b.calls {
			b.faultsFired[i] = true
			b.fired = true
			return &b.faults[i]
		}
	}
	return nil
}

func (b *Backend) ClearFault() {
	b.faults, b.faultsFired, b.cur = nil, nil, nil
	b.calls = 0
	b.commitArmed = false
	b.Srv.ClearFaults()
}
func (b *Backend) FaultFired() bool        { return b.fired || b.commitFired }
func (b *Backend) Trace() []memstore.Call  { return append([]memstore.Call(nil), b.trace...) }
func (b *Backend) ResetTrace() {
	b.trace, b.callRanges, b.curCall = nil, nil, -1
	b.Srv.ResetLog()
	b.opStart, b.opEnd = 0, -1
}

func (b *Backend) markOpEnd() {
	if b.opEnd >= 0 {
		return
	}
	b.Quiesce()
	// a statement fault the operation did not reach must not hit the harness's own statements
	b.Srv.ClearFaults()
	log := b.Srv.Log()
	b.opEnd = len(log)
	b.healSessions(0)
}

// healSessions: a COMMIT / ROLLBACK that fails on the wire ends the transaction on a real server
// (and database/sql considers it ended, handing the connection back to the pool); pgfake's injected
// fault leaves the MODELLED session inside its failed transaction: end it, as the server would.
func (b *Backend) healSessions(from int) {
	log := b.Srv.Log()
	for i := from; i < len(log); i++ {
		s := log[i]
		if s.Err == "" {
			continue
		}
		t := strings.ToUpper(strings.TrimSpace(s.SQL))
		if strings.HasPrefix(t, "COMMIT") || (strings.HasPrefix(t, "ROLLBACK") && !strings.HasPrefix(t, "ROLLBACK TO")) {
			b.RollbackSession(s.Session)
		}
	}
}
func (b *Backend) SetNow(t libtime.Time)   { b.now = t.UnixMicro() }
func (b *Backend) SetCancel(cancel func()) { b.cancel = cancel }

// ResyncSequences: done by the real handleState on the SQL side; nothing to do here.
func (b *Backend) ResyncSequences(string) {}

// Sequences reads the current values of the ledger's two sequences WITHOUT a net
// effect: nextval, then setval back (there is no currval in the modelled Postgres).
func (b *Backend) Sequences(name string) (uint64, uint64) {
	l := b.Ledgers[name]
	if l == nil {
		return 0, 0
	}
	b.markOpEnd()
	saved := b.now
	b.now = 0
	defer func() { b.now = saved }()
	peek := func(seq string) uint64 {
		full := fmt.Sprintf(`"%s"."%s_%d"`, l.Bucket, seq, l.ID)
		var v int64
		if err := b.Srv.SQLDB().QueryRow(fmt.Sprintf(`select nextval('%s')`, full)).Scan(&v); err != nil {
			panic(fmt.Errorf("wle2e: nextval %s: %w", full, err))
		}
		var back string
		if v <= 1 {
			back = fmt.Sprintf(`select setval('%s', 1, false)`, full)
		} else {
			back = fmt.Sprintf(`select setval('%s', %d, true)`, full, v-1)
		}
		if _, err := b.Srv.SQLDB().Exec(back); err != nil {
			panic(fmt.Errorf("wle2e: setval %s: %w", full, err))
		}
		return uint64(v - 1)
	}
	return peek("transaction_id"), peek("log_id")
}

// Quiesce waits until every pooled connection is back (database/sql rolls a
// transaction back asynchronously when its context is cancelled).
func (b *Backend) Quiesce() {
	deadline := time.Now().Add(3 * time.Second)
	for b.Srv.SQLDB().Stats().InUse > b.leaked && time.Now().Before(deadline) {
		time.Sleep(200 * time.Microsecond)
	}
	if n := b.Srv.SQLDB().Stats().InUse; n > b.leaked {
		// a connection that never comes back: the code under test left a transaction open (e.g. a
		// panic between BeginTX and Rollback). Reported by the handle-discipline predicate
		// (transaction-not-closed); do not wait for it again.
		b.QuiesceTimeouts++
		b.leaked = n
		if os.Getenv("VERIF_E2E_DEBUG") != "" {
			fmt.Fprintf(os.Stderr, "wle2e: quiesce timeout (in use %d) trace=%v\n", n, b.trace)
		}
	}
}

// RollbackSession sends ROLLBACK to a LeanPG session directly (a statement-level
// fault injected on COMMIT leaves the modelled session inside its failed transaction
// while database/sql considers the transaction finished; a real server would have
// ended the transaction when COMMIT failed).
func (b *Backend) RollbackSession(session int) {
	st, err := minisql.Parse("ROLLBACK")
	if err != nil {
		return
	}
	_, _ = b.Srv.Raw(map[string]any{"k": "sql", "s": session, "ast": st.JSON()})
}

// LedgerState reads `_system.ledgers.state` through the real system store.
func (b *Backend) LedgerState(name string) string {
	saved := b.now
	b.now = 0
	defer func() { b.now = saved }()
	l, err := b.Sys.GetLedger(context.Background(), name)
	if err != nil {
		return "error:" + err.Error()
	}
	return l.State
}

// ---------------------------------------------------------------------------
// error classes (memstore's, plus what the SQL driver adds)
// ---------------------------------------------------------------------------

func isInjectedPg(err error) bool {
	var pge *pgconn.PgError
	return errors.As(err, &pge) && pge.Code == "XX000" && strings.Contains(pge.Message, "injected")
}

func pgCode(err error) string {
	var pge *pgconn.PgError
	if errors.As(err, &pge) {
		return pge.Code
	}
	return ""
}

func errClass(err error) string {
	switch {
	case err == nil:
		return ""
	case errors.Is(err, postgres.ErrNotFound):
		return "not-found"
	case errors.Is(err, postgres.ErrDeadlockDetected):
		return "deadlock"
	case pgCode(err) == "40P01":
		return "deadlock"
	case errors.Is(err, context.Canceled):
		return "canceled"
	case errors.Is(err, memstore.ErrInjected), isInjectedPg(err):
		return "injected"
	case errors.Is(err, memstore.ErrCommitFailed):
		return "commit-failed"
	case errors.Is(err, ledgerstore.ErrIdempotencyKeyConflict{}):
		return "ik-conflict"
	case errors.Is(err, ledgerstore.ErrTransactionReferenceConflict{}):
		return "reference-conflict"
	case errors.Is(err, ledgerstore.ErrConcurrentTransaction{}):
		return "concurrent-transaction"
	case errors.Is(err, postgres.ErrConstraintsFailed{}):
		return "constraint"
	case pgCode(err) == "25P02":
		return "aborted"
	case errors.Is(err, sql.ErrTxDone):
		return "tx-done"
	case pgCode(err) == "40001":
		return "serialization"
	default:
		return "error"
	}
}

// ---------------------------------------------------------------------------
// the recording decorator
// ---------------------------------------------------------------------------

type tstore struct {
	b      *Backend
	inner  ledgercontroller.Store
	name   string
	parent *tstore
	nSave  int
	depth  int
}

var _ ledgercontroller.Store = (*tstore)(nil)

func (s *tstore) isTx() bool { return s.parent != nil }

// enter records the call; when the armed store-call fault is due, the NEXT SQL
// statement is made to fail by the driver (or the context is cancelled), so the
// failure travels through the real store's error handling.
func (s *tstore) enter(method, args string) int {
	b := s.b
	b.trace = append(b.trace, memstore.Call{N: len(b.trace) + 1, H: s.name, M: method, A: args})
	idx := len(b.trace) - 1
	lo := len(b.Srv.Log())
	b.callRanges = append(b.callRanges, [2]int{lo, lo})
	b.curCall = idx
	b.calls++
	b.cur = b.nextFault()
	if b.cur != nil {
		switch b.cur.Kind {
		case memstore.FaultDeadlock:
			b.Srv.InjectFault(1, "deadlock")
		case memstore.FaultCancel:
			if b.cancel != nil {
				b.cancel()
			}
		default:
			// generic error; also "ik-conflict": the statement fails (the SQL transaction is aborted, as a
			// unique violation would do) and the decorator answers ErrIdempotencyKeyConflict
			b.Srv.InjectFault(1, "error")
		}
	}
	return idx
}

func (s *tstore) leave(idx int, err error) error {
	b := s.b
	b.trace[idx].E = errClass(err)
	b.curCall = -1
	if idx < len(b.callRanges) {
		b.callRanges[idx][1] = len(b.Srv.Log())
		if err != nil && (b.trace[idx].M == "Commit" || b.trace[idx].M == "Rollback") {
			b.healSessions(b.callRanges[idx][0])
		}
	}
	// a store-call fault armed for this call that no statement consumed must not leak into the next call
	if b.cur != nil {
		b.Srv.ClearFaults()
		if b.cur.Kind == memstore.FaultIKConflict && err != nil && (isInjectedPg(err) || errors.Is(err, memstore.ErrInjected)) {
			b.cur = nil
			b.trace[idx].E = "ik-conflict"
			return ledgerstore.NewErrIdempotencyKeyConflict("")
		}
		b.cur = nil
	}
	if err != nil && isInjectedPg(err) {
		// the controller sees a generic store error; keep memstore's sentinel in the chain so that
		// the canonical error class is the contract's ("injected")
		return fmt.Errorf("%w (%v)", memstore.ErrInjected, err)
	}
	return err
}

func (s *tstore) BeginTX(ctx context.Context, o *sql.TxOptions) (ledgercontroller.Store, *bun.Tx, error) {
	idx := s.enter("BeginTX", "")
	st, tx, err := s.inner.BeginTX(ctx, o)
	if err != nil {
		return nil, nil, s.leave(idx, err)
	}
	child := &tstore{b: s.b, inner: st, parent: s}
	if s.isTx() {
		s.nSave++
		child.name = fmt.Sprintf("%s.%d", s.name, s.nSave)
		child.depth = s.depth + 1
	} else {
		s.b.nTx++
		child.name = fmt.Sprintf("tx%d", s.b.nTx)
	}
	_ = s.leave(idx, nil)
	return child, tx, nil
}

// settle: when the context of a transaction is cancelled, database/sql rolls the transaction back
// from a background goroutine; whether a Commit / Rollback issued right after sees the transaction
// already finished (sql.ErrTxDone) is a race in the real code. The contract (memstore) fixes the
// schedule "the background rollback runs first": wait for it.
func (s *tstore) settle(ctx context.Context) {
	if ctx != nil && ctx.Err() != nil {
		s.b.Quiesce()
	}
}

func (s *tstore) Commit(ctx context.Context) error {
	idx := s.enter("Commit", "")
	b := s.b
	if !(b.cur != nil && b.cur.Kind == memstore.FaultCancel) {
		// (cancelled right at the Commit: database/sql's Commit checks the context first and answers
		// context.Canceled unless the background rollback already ran — the contract's answer)
		s.settle(ctx)
	}
	if b.commitArmed && !b.commitFired && s.depth == 0 && s.isTx() && b.cur == nil {
		// failing COMMIT: the connection dies at COMMIT, the server rolls the transaction back
		b.commitFired = true
		b.Srv.InjectFault(1, "conn")
		err := s.inner.Commit(ctx)
		b.Srv.ClearFaults()
		b.trace[idx].E = "commit-failed"
		b.curCall = -1
		if err == nil {
			return nil
		}
		return fmt.Errorf("%w (%v)", memstore.ErrCommitFailed, err)
	}
	err := s.inner.Commit(ctx)
	if err != nil && pgCode(err) == "40P01" && !errors.Is(err, postgres.ErrDeadlockDetected) {
		// DEVIATION from the contract, recorded (harmless): ledgerstore.Store.Commit returns the driver's
		// error as is (no postgres.ResolveError), memstore answers postgres.ErrDeadlockDetected. No caller
		// distinguishes the two on a failed COMMIT (it is never retried). Canonicalised here.
		err = fmt.Errorf("%w (%v)", postgres.ErrDeadlockDetected, err)
	}
	if err != nil && strings.Contains(err.Error(), "connection lost (injected)") {
		// the connection died at COMMIT (statement-level fault "conn"): the contract's failing COMMIT
		err = fmt.Errorf("%w (%v)", memstore.ErrCommitFailed, err)
	}
	return s.leave(idx, err)
}

func (s *tstore) Rollback(ctx context.Context) error {
	idx := s.enter("Rollback", "")
	firedHere := s.b.cur != nil && s.b.cur.Kind == memstore.FaultCancel
	s.settle(ctx)
	err := s.leave(idx, s.inner.Rollback(ctx))
	if firedHere {
		// a context cancelled right at the Rollback: database/sql answers nil or ErrTxDone (race with its
		// background rollback), the contract says context.Canceled; the controller only logs it. Label as the contract does.
		s.b.trace[idx].E = "canceled"
	}
	return err
}

func (s *tstore) LockLedger(ctx context.Context) (ledgercontroller.Store, bun.IDB, func() error, error) {
	idx := s.enter("LockLedger", "")
	st, conn, release, err := s.inner.LockLedger(ctx)
	if err != nil {
		return nil, nil, nil, s.leave(idx, err)
	}
	_ = s.leave(idx, nil)
	// same handle name: memstore's LockLedger returns the store itself
	locked := &tstore{b: s.b, inner: st, name: s.name, parent: s.parent, depth: s.depth}
	return locked, conn, release, nil
}

func balanceQueryPairs(q ledgerstore.BalanceQuery) [][2]string {
	seen := map[[2]string]bool{}
	pairs := make([][2]string, 0)
	for account, assets := range q {
		for _, asset := range assets {
			k := [2]string{account, asset}
			if !seen[k] {
				seen[k] = true
				pairs = append(pairs, k)
			}
		}
	}
	sort.Slice(pairs, func(i, j int) bool {
		if pairs[i][0] != pairs[j][0] {
			return pairs[i][0] < pairs[j][0]
		}
		return pairs[i][1] < pairs[j][1]
	})
	return pairs
}

func (s *tstore) GetBalances(ctx context.Context, q ledgerstore.BalanceQuery) (ledger.Balances, error) {
	pairs := balanceQueryPairs(q)
	parts := make([]string, 0, len(pairs))
	for _, p := range pairs {
		parts = append(parts, p[0]+"/"+p[1])
	}
	idx := s.enter("GetBalances", strings.Join(parts, ","))
	s.b.trace[idx].Q = pairs
	ret, err := s.inner.GetBalances(ctx, q)
	return ret, s.leave(idx, err)
}

func (s *tstore) CommitTransaction(ctx context.Context, tx *ledger.Transaction) error {
	idx := s.enter("CommitTransaction", "")
	return s.leave(idx, s.inner.CommitTransaction(ctx, tx))
}

func (s *tstore) RevertTransaction(ctx context.Context, id uint64, at libtime.Time) (*ledger.Transaction, bool, error) {
	idx := s.enter("RevertTransaction", fmt.Sprint(id))
	tx, mod, err := s.inner.RevertTransaction(ctx, id, at)
	return tx, mod, s.leave(idx, err)
}

func (s *tstore) UpdateTransactionMetadata(ctx context.Context, id uint64, m metadata.Metadata, at libtime.Time) (*ledger.Transaction, bool, error) {
	idx := s.enter("UpdateTransactionMetadata", fmt.Sprint(id))
	tx, mod, err := s.inner.UpdateTransactionMetadata(ctx, id, m, at)
	return tx, mod, s.leave(idx, err)
}

func (s *tstore) DeleteTransactionMetadata(ctx context.Context, id uint64, key string, at libtime.Time) (*ledger.Transaction, bool, error) {
	idx := s.enter("DeleteTransactionMetadata", fmt.Sprint(id))
	tx, mod, err := s.inner.DeleteTransactionMetadata(ctx, id, key, at)
	return tx, mod, s.leave(idx, err)
}

func (s *tstore) UpdateAccountsMetadata(ctx context.Context, m map[string]metadata.Metadata, at libtime.Time) error {
	keys := make([]string, 0, len(m))
	for k := range m {
		keys = append(keys, k)
	}
	sort.Strings(keys)
	idx := s.enter("UpdateAccountsMetadata", strings.Join(keys, ","))
	return s.leave(idx, s.inner.UpdateAccountsMetadata(ctx, m, at))
}

func (s *tstore) UpsertAccounts(ctx context.Context, accounts ...ledger.AccountWithDefaultMetadata) error {
	addrs := make([]string, 0, len(accounts))
	for _, a := range accounts {
		addrs = append(addrs, a.Address)
	}
	idx := s.enter("UpsertAccounts", strings.Join(addrs, ","))
	return s.leave(idx, s.inner.UpsertAccounts(ctx, accounts...))
}

func (s *tstore) DeleteAccountMetadata(ctx context.Context, address, key string) error {
	idx := s.enter("DeleteAccountMetadata", address)
	return s.leave(idx, s.inner.DeleteAccountMetadata(ctx, address, key))
}

func (s *tstore) InsertSchema(ctx context.Context, data *ledger.Schema) error {
	idx := s.enter("InsertSchema", data.Version)
	return s.leave(idx, s.inner.InsertSchema(ctx, data))
}

func (s *tstore) FindSchema(ctx context.Context, version string) (*ledger.Schema, error) {
	idx := s.enter("FindSchema", version)
	ret, err := s.inner.FindSchema(ctx, version)
	return ret, s.leave(idx, err)
}

func (s *tstore) FindSchemas(ctx context.Context, q common.PaginatedQuery[any]) (*paginate.Cursor[ledger.Schema], error) {
	idx := s.enter("FindSchemas", "")
	ret, err := s.inner.FindSchemas(ctx, q)
	return ret, s.leave(idx, err)
}

func (s *tstore) FindLatestSchemaVersion(ctx context.Context) (*string, error) {
	idx := s.enter("FindLatestSchemaVersion", "")
	ret, err := s.inner.FindLatestSchemaVersion(ctx)
	return ret, s.leave(idx, err)
}

func (s *tstore) InsertLog(ctx context.Context, log *ledger.Log) error {
	idx := s.enter("InsertLog", log.Type.String())
	return s.leave(idx, s.inner.InsertLog(ctx, log))
}

func (s *tstore) ReadLogWithIdempotencyKey(ctx context.Context, ik string) (*ledger.Log, error) {
	idx := s.enter("ReadLogWithIdempotencyKey", ik)
	ret, err := s.inner.ReadLogWithIdempotencyKey(ctx, ik)
	return ret, s.leave(idx, err)
}

func (s *tstore) IsUpToDate(ctx context.Context) (bool, error) { return true, nil }
func (s *tstore) GetMigrationsInfo(ctx context.Context) ([]migrations.Info, error) {
	return nil, nil
}

// ---- resources ---------------------------------------------------------------

func matchValue(b query.Builder, key string) string {
	if b == nil {
		return ""
	}
	ret := ""
	_ = b.Walk(func(operator, k string, value *any) error {
		if k == key && operator == "$match" && ret == "" {
			ret = fmt.Sprint(*value)
		}
		return nil
	})
	return ret
}

type tres[T, O any] struct {
	s     *tstore
	name  string
	key   string
	inner common.PaginatedResource[T, O]
}

func (r tres[T, O]) GetOne(ctx context.Context, q common.ResourceQuery[O]) (*T, error) {
	idx := r.s.enter(r.name+".GetOne", matchValue(q.Builder, r.key))
	ret, err := r.inner.GetOne(ctx, q)
	return ret, r.s.leave(idx, err)
}

func (r tres[T, O]) Count(ctx context.Context, q common.ResourceQuery[O]) (int, error) {
	idx := r.s.enter(r.name+".Count", "")
	ret, err := r.inner.Count(ctx, q)
	return ret, r.s.leave(idx, err)
}

func (r tres[T, O]) Paginate(ctx context.Context, q common.PaginatedQuery[O]) (*paginate.Cursor[T], error) {
	idx := r.s.enter(r.name+".Paginate", "")
	ret, err := r.inner.Paginate(ctx, q)
	return ret, r.s.leave(idx, err)
}

func (s *tstore) Accounts() common.PaginatedResource[ledger.Account, any] {
	return tres[ledger.Account, any]{s: s, name: "Accounts", key: "address", inner: s.inner.Accounts()}
}
func (s *tstore) Logs() common.PaginatedResource[ledger.Log, any] {
	return tres[ledger.Log, any]{s: s, name: "Logs", key: "id", inner: s.inner.Logs()}
}
func (s *tstore) Transactions() common.PaginatedResource[ledger.Transaction, any] {
	return tres[ledger.Transaction, any]{s: s, name: "Transactions", key: "id", inner: s.inner.Transactions()}
}
func (s *tstore) AggregatedBalances() common.Resource[ledger.AggregatedVolumes, ledger.GetAggregatedVolumesOptions] {
	return s.inner.AggregatedBalances()
}
func (s *tstore) Volumes() common.PaginatedResource[ledger.VolumesWithBalanceByAssetByAccount, ledger.GetVolumesOptions] {
	return s.inner.Volumes()
}

// ---------------------------------------------------------------------------
// Dump → builder-ctrl's snapshot shape
// ---------------------------------------------------------------------------

// RawDump: table → rows (column → value as LeanPG dumps it).
type RawDump map[string][]map[string]any

func (b *Backend) RawDump(name string) (RawDump, json.RawMessage, error) {
	raw, err := b.Srv.Dump(name)
	if err != nil {
		return nil, nil, err
	}
	dec := json.NewDecoder(strings.NewReader(string(raw)))
	dec.UseNumber()
	var d RawDump
	if err := dec.Decode(&d); err != nil {
		return nil, nil, err
	}
	return d, raw, nil
}

func dumpTime(v any) *int64 {
	s, ok := v.(string)
	if !ok || s == "" {
		return nil
	}
	t, err := time.Parse("2006-01-02T15:04:05.999999Z07:00", s)
	if err != nil {
		t, err = time.Parse(time.RFC3339Nano, s)
		if err != nil {
			panic(fmt.Errorf("wle2e: bad timestamp %q in dump", s))
		}
	}
	us := t.UnixMicro()
	return &us
}

func dumpStr(v any) string {
	switch x := v.(type) {
	case nil:
		return ""
	case string:
		return x
	case json.Number:
		return x.String()
	case map[string]any:
		if h, ok := x["hex"].(string); ok { // bytea
			raw, err := hex.DecodeString(h)
			if err == nil {
				return string(raw)
			}
		}
	}
	return fmt.Sprint(v)
}

// dumpJSON returns the JSON text of a jsonb / json / text-encoded-json column.
func dumpJSON(v any) []byte {
	switch x := v.(type) {
	case nil:
		return []byte("null")
	case string:
		return []byte(x)
	case map[string]any:
		if j, ok := x["json"]; ok {
			bts, _ := json.Marshal(j)
			return bts
		}
	}
	bts, _ := json.Marshal(v)
	return bts
}

func dumpMeta(v any) [][2]string {
	m := metadata.Metadata{}
	_ = json.Unmarshal(dumpJSON(v), &m)
	return memstore.CanonMeta(m)
}

func tableOf(d RawDump, suffix string) []map[string]any {
	for name, rows := range d {
		if strings.HasSuffix(name, "."+suffix) && !strings.HasPrefix(name, "_system.") {
			if len(rows) > 0 {
				return rows
			}
		}
	}
	return nil
}

func timeOfUs(us *int64) libtime.Time {
	if us == nil {
		return libtime.Time{}
	}
	return libtime.New(time.UnixMicro(*us).UTC())
}

// SnapOfDump maps the committed tables of a ledger to memstore.Snap.
func SnapOfDump(d RawDump) memstore.Snap {
	s := memstore.Snap{Txs: []memstore.CTx{}, Accounts: []memstore.CAccount{}, Vols: []memstore.CVol{}, Logs: []memstore.CLog{}, Schemas: []memstore.CSchema{}}
	for _, r := range tableOf(d, "transactions") {
		tx := ledger.Transaction{}
		var id uint64
		fmt.Sscan(dumpStr(r["id"]), &id)
		tx.ID = &id
		if err := json.Unmarshal(dumpJSON(r["postings"]), &tx.Postings); err != nil {
			panic(fmt.Errorf("wle2e: postings of tx %d: %w", id, err))
		}
		tx.Metadata = metadata.Metadata{}
		_ = json.Unmarshal(dumpJSON(r["metadata"]), &tx.Metadata)
		tx.Reference = dumpStr(r["reference"])
		tx.Timestamp = timeOfUs(dumpTime(r["timestamp"]))
		tx.InsertedAt = timeOfUs(dumpTime(r["inserted_at"]))
		tx.UpdatedAt = timeOfUs(dumpTime(r["updated_at"]))
		if rv := dumpTime(r["reverted_at"]); rv != nil {
			t := timeOfUs(rv)
			tx.RevertedAt = &t
		}
		tx.Template = dumpStr(r["template"])
		if r["post_commit_volumes"] != nil {
			_ = json.Unmarshal(dumpJSON(r["post_commit_volumes"]), &tx.PostCommitVolumes)
		}
		s.Txs = append(s.Txs, *memstore.CanonTx(&tx))
	}
	sort.SliceStable(s.Txs, func(i, j int) bool { return *s.Txs[i].ID < *s.Txs[j].ID })
	for _, r := range tableOf(d, "accounts") {
		s.Accounts = append(s.Accounts, memstore.CAccount{Addr: dumpStr(r["address"]), Meta: dumpMeta(r["metadata"]),
			FU: dumpTime(r["first_usage"]), Ins: dumpTime(r["insertion_date"]), Upd: dumpTime(r["updated_at"])})
	}
	sort.SliceStable(s.Accounts, func(i, j int) bool { return s.Accounts[i].Addr < s.Accounts[j].Addr })
	for _, r := range tableOf(d, "accounts_volumes") {
		s.Vols = append(s.Vols, memstore.CVol{Account: dumpStr(r["accounts_address"]), Asset: dumpStr(r["asset"]),
			In: dumpStr(r["input"]), Out: dumpStr(r["output"])})
	}
	sort.SliceStable(s.Vols, func(i, j int) bool {
		if s.Vols[i].Account != s.Vols[j].Account {
			return s.Vols[i].Account < s.Vols[j].Account
		}
		return s.Vols[i].Asset < s.Vols[j].Asset
	})
	for _, r := range tableOf(d, "logs") {
		var id uint64
		fmt.Sscan(dumpStr(r["id"]), &id)
		typ := ledger.LogTypeFromString(dumpStr(r["type"]))
		payload, err := ledger.HydrateLog(typ, dumpJSON(r["data"]))
		if err != nil {
			s.Logs = append(s.Logs, memstore.CLog{ID: &id, Type: "unhydratable:" + err.Error()})
			continue
		}
		core := ledger.Log{Type: typ, Data: payload, Date: timeOfUs(dumpTime(r["date"])), IdempotencyKey: dumpStr(r["idempotency_key"]),
			IdempotencyHash: dumpStr(r["idempotency_hash"]), ID: &id, SchemaVersion: dumpStr(r["schema_version"])}
		s.Logs = append(s.Logs, *memstore.CanonLog(&core))
	}
	sort.SliceStable(s.Logs, func(i, j int) bool { return *s.Logs[i].ID < *s.Logs[j].ID })
	for _, r := range tableOf(d, "schemas") {
		sc := ledger.Schema{Version: dumpStr(r["version"]), CreatedAt: timeOfUs(dumpTime(r["created_at"]))}
		if r["chart"] != nil {
			if err := json.Unmarshal(dumpJSON(r["chart"]), &sc.Chart); err != nil {
				s.Schemas = append(s.Schemas, memstore.CSchema{V: sc.Version, Chart: "error:" + err.Error()})
				continue
			}
		}
		if r["transactions"] != nil {
			_ = json.Unmarshal(dumpJSON(r["transactions"]), &sc.Transactions)
		}
		s.Schemas = append(s.Schemas, *memstore.CanonSchema(&sc))
	}
	sort.SliceStable(s.Schemas, func(i, j int) bool { return s.Schemas[i].V < s.Schemas[j].V })
	return s
}

// Snapshot (memstore.Backend): the committed tables of the ledger, from LeanPG's dump.
func (b *Backend) Snapshot(name string) memstore.Snap {
	b.markOpEnd()
	d, _, err := b.RawDump(name)
	if err != nil {
		panic(fmt.Errorf("wle2e: dump %s: %w", name, err))
	}
	return SnapOfDump(d)
}
