//go:build verif

package wle2e

import (
	"context"
	"database/sql"
	"encoding/json"
	"fmt"
	"math/big"

	"github.com/uptrace/bun"

	"github.com/formancehq/go-libs/v5/pkg/types/metadata"

	ledger "github.com/formancehq/ledger/internal"
	"github.com/formancehq/ledger/internal/api/bulking"
	ledgercontroller "github.com/formancehq/ledger/internal/controller/ledger"
	systemcontroller "github.com/formancehq/ledger/internal/controller/system"
	"github.com/formancehq/ledger/internal/verif/gen"
	"github.com/formancehq/ledger/internal/verif/memstore"
	"github.com/formancehq/ledger/internal/verif/wlctrl"
)

// Workload "sqlimport" = builder-ctrl's "ctrlimport" (C08 replay, C11, C12) over the REAL SQL
// store on the modelled Postgres: history on ledger A through the real state tracker, real
// Export, JSON wire encoding, real Import (state tracker → controller.Import → importLog, one
// SQL transaction per log, session advisory lock) into a fresh ledger B, snapshot of B from
// LeanPG's dump, then more writes on B — each through one of the three API paths: single
// request, non-atomic bulk, atomic bulk (the last two through the REAL Bulker; the atomic one
// through the state tracker's BeginTX) — whose ids must continue the imported ones.

const (
	PathSingle = "single"
	PathBulk   = "bulk"
	PathAtomic = "atomic"
)

// ImpIn: builder-ctrl's input + the API path of every extra write.
type ImpIn struct {
	wlctrl.ImpIn
	Paths []string `json:"paths"`
	// Trackers: which of TWO state trackers opened on the copy before its first write serves each
	// extra write (0 / 1): the second one still believes the ledger is initializing after the first
	// one moved it to in-use — its guarded UPDATE must then find nothing to do (no second setval)
	Trackers []int `json:"trackers"`
}

func bigFromString(s string) (*big.Int, bool) { return new(big.Int).SetString(s, 10) }

// ---- a Controller decorator that records what the write methods answer --------------------

type captured struct {
	log *ledger.Log
	ret any
	hit bool
	err error
	n   int
}

type capCtrl struct {
	ledgercontroller.Controller
	cap *captured
}

func (c *capCtrl) BeginTX(ctx context.Context, o *sql.TxOptions) (ledgercontroller.Controller, *bun.Tx, error) {
	ctrl, tx, err := c.Controller.BeginTX(ctx, o)
	if err != nil {
		return nil, nil, err
	}
	return &capCtrl{Controller: ctrl, cap: c.cap}, tx, nil
}

func (c *capCtrl) CreateTransaction(ctx context.Context, p ledgercontroller.Parameters[ledgercontroller.CreateTransaction]) (*ledger.Log, *ledger.CreatedTransaction, bool, error) {
	log, ret, hit, err := c.Controller.CreateTransaction(ctx, p)
	*c.cap = captured{log: log, ret: ret, hit: hit, err: err, n: c.cap.n + 1}
	return log, ret, hit, err
}
func (c *capCtrl) RevertTransaction(ctx context.Context, p ledgercontroller.Parameters[ledgercontroller.RevertTransaction]) (*ledger.Log, *ledger.RevertedTransaction, bool, error) {
	log, ret, hit, err := c.Controller.RevertTransaction(ctx, p)
	*c.cap = captured{log: log, ret: ret, hit: hit, err: err, n: c.cap.n + 1}
	return log, ret, hit, err
}
func (c *capCtrl) SaveTransactionMetadata(ctx context.Context, p ledgercontroller.Parameters[ledgercontroller.SaveTransactionMetadata]) (*ledger.Log, bool, error) {
	log, hit, err := c.Controller.SaveTransactionMetadata(ctx, p)
	*c.cap = captured{log: log, hit: hit, err: err, n: c.cap.n + 1}
	return log, hit, err
}
func (c *capCtrl) SaveAccountMetadata(ctx context.Context, p ledgercontroller.Parameters[ledgercontroller.SaveAccountMetadata]) (*ledger.Log, bool, error) {
	log, hit, err := c.Controller.SaveAccountMetadata(ctx, p)
	*c.cap = captured{log: log, hit: hit, err: err, n: c.cap.n + 1}
	return log, hit, err
}
func (c *capCtrl) DeleteTransactionMetadata(ctx context.Context, p ledgercontroller.Parameters[ledgercontroller.DeleteTransactionMetadata]) (*ledger.Log, bool, error) {
	log, hit, err := c.Controller.DeleteTransactionMetadata(ctx, p)
	*c.cap = captured{log: log, hit: hit, err: err, n: c.cap.n + 1}
	return log, hit, err
}
func (c *capCtrl) DeleteAccountMetadata(ctx context.Context, p ledgercontroller.Parameters[ledgercontroller.DeleteAccountMetadata]) (*ledger.Log, bool, error) {
	log, hit, err := c.Controller.DeleteAccountMetadata(ctx, p)
	*c.cap = captured{log: log, hit: hit, err: err, n: c.cap.n + 1}
	return log, hit, err
}

// ---- routing one request through the REAL Bulker -----------------------------------------------

// bulkRouter is the controller wlctrl.Env sends its requests to: depending on `path` the
// request goes straight to the state tracker, or becomes a one-element bulk run by the real
// Bulker over the state tracker (atomic: Bulker → BeginTX → element → Commit).
type bulkRouter struct {
	ledgercontroller.Controller
	path string
	op   wlctrl.Op
	// bulkErr: error of Bulker.Run itself (atomic COMMIT failure)
	used string
}

func elementOf(op wlctrl.Op) (bulking.BulkElement, bool) {
	el := bulking.BulkElement{IdempotencyKey: op.IK}
	md := func(kv [][2]string) metadata.Metadata {
		m := metadata.Metadata{}
		for _, e := range kv {
			m[e[0]] = e[1]
		}
		return m
	}
	switch op.K {
	case wlctrl.KCreateP, wlctrl.KCreateS:
		// every field wlctrl.BuildCreate sets (the bulk path must carry the same request as the single path)
		req := bulking.TransactionRequest{Reference: op.Ref, Metadata: md(op.Meta), Force: op.Force, Runtime: ledger.RuntimeType(op.Runtime)}
		if op.TS != nil {
			req.Timestamp = timeOfUs(op.TS)
		}
		if op.AM != nil {
			req.AccountMetadata = map[string]metadata.Metadata{}
			for _, e := range op.AM {
				req.AccountMetadata[e.Addr] = md(e.Meta)
			}
		}
		if op.K == wlctrl.KCreateP {
			for _, p := range op.Postings {
				n, ok := bigFromString(p.N)
				if !ok {
					return el, false
				}
				req.Postings = append(req.Postings, ledger.NewPosting(p.S, p.D, p.A, n))
			}
		} else {
			req.Script = ledgercontroller.ScriptV1{Script: ledgercontroller.Script{Plain: wlctrl.Scripts[op.Script], Template: op.Template}}
			if op.Vars != nil {
				req.Script.Vars = map[string]any{}
				for k, v := range op.Vars {
					req.Script.Vars[k] = v
				}
			}
		}
		el.Action, el.Data = bulking.ActionCreateTransaction, req
	case wlctrl.KRevert:
		el.Action = bulking.ActionRevertTransaction
		el.Data = bulking.RevertTransactionRequest{ID: op.ID, Force: op.Force, AtEffectiveDate: op.AED, Metadata: md(op.Meta)}
	case wlctrl.KSaveTxMeta:
		id, _ := json.Marshal(op.ID)
		el.Action = bulking.ActionAddMetadata
		el.Data = bulking.AddMetadataRequest{TargetType: ledger.MetaTargetTypeTransaction, TargetID: id, Metadata: md(op.Meta)}
	case wlctrl.KSaveAcMeta:
		id, _ := json.Marshal(op.Addr)
		el.Action = bulking.ActionAddMetadata
		el.Data = bulking.AddMetadataRequest{TargetType: ledger.MetaTargetTypeAccount, TargetID: id, Metadata: md(op.Meta)}
	case wlctrl.KDelTxMeta:
		id, _ := json.Marshal(op.ID)
		el.Action = bulking.ActionDeleteMetadata
		el.Data = bulking.DeleteMetadataRequest{TargetType: ledger.MetaTargetTypeTransaction, TargetID: id, Key: op.Key}
	case wlctrl.KDelAcMeta:
		id, _ := json.Marshal(op.Addr)
		el.Action = bulking.ActionDeleteMetadata
		el.Data = bulking.DeleteMetadataRequest{TargetType: ledger.MetaTargetTypeAccount, TargetID: id, Key: op.Key}
	default:
		return el, false
	}
	return el, true
}

// viaBulk runs the current op as a one-element bulk. ok=false: this op cannot travel in a bulk
// (dry run, schema insertion) — the caller falls back to the single path.
func (r *bulkRouter) viaBulk(ctx context.Context) (*captured, bool) {
	if r.path == PathSingle || r.path == "" || r.op.Dry {
		return nil, false
	}
	el, ok := elementOf(r.op)
	if !ok {
		return nil, false
	}
	r.used = r.path
	cp := &captured{}
	bulker := bulking.NewBulker(&capCtrl{Controller: r.Controller, cap: cp})
	bulk := make(bulking.Bulk, 1)
	bulk <- el
	close(bulk)
	results := make(chan bulking.BulkElementResult, 1)
	runErr := bulker.Run(ctx, bulk, results, bulking.BulkingOptions{Atomic: r.path == PathAtomic, SchemaVersion: r.op.SV})
	var res *bulking.BulkElementResult
	for x := range results {
		x := x
		res = &x
	}
	switch {
	case runErr != nil:
		// the bulk as a whole failed (atomic COMMIT): nothing the element answered stands
		return &captured{err: fmt.Errorf("bulk: %w", runErr)}, true
	case cp.n == 0 && res != nil && res.Error != nil:
		// the element never reached the controller (request rejected by the Bulker)
		return &captured{err: fmt.Errorf("request validation: %w", res.Error)}, true
	case cp.n == 0:
		return &captured{err: fmt.Errorf("bulk element not processed")}, true
	}
	return cp, true
}

func (r *bulkRouter) CreateTransaction(ctx context.Context, p ledgercontroller.Parameters[ledgercontroller.CreateTransaction]) (*ledger.Log, *ledger.CreatedTransaction, bool, error) {
	if c, ok := r.viaBulk(ctx); ok {
		ret, _ := c.ret.(*ledger.CreatedTransaction)
		return c.log, ret, c.hit, c.err
	}
	return r.Controller.CreateTransaction(ctx, p)
}
func (r *bulkRouter) RevertTransaction(ctx context.Context, p ledgercontroller.Parameters[ledgercontroller.RevertTransaction]) (*ledger.Log, *ledger.RevertedTransaction, bool, error) {
	if c, ok := r.viaBulk(ctx); ok {
		ret, _ := c.ret.(*ledger.RevertedTransaction)
		return c.log, ret, c.hit, c.err
	}
	return r.Controller.RevertTransaction(ctx, p)
}
func (r *bulkRouter) SaveTransactionMetadata(ctx context.Context, p ledgercontroller.Parameters[ledgercontroller.SaveTransactionMetadata]) (*ledger.Log, bool, error) {
	if c, ok := r.viaBulk(ctx); ok {
		return c.log, c.hit, c.err
	}
	return r.Controller.SaveTransactionMetadata(ctx, p)
}
func (r *bulkRouter) SaveAccountMetadata(ctx context.Context, p ledgercontroller.Parameters[ledgercontroller.SaveAccountMetadata]) (*ledger.Log, bool, error) {
	if c, ok := r.viaBulk(ctx); ok {
		return c.log, c.hit, c.err
	}
	return r.Controller.SaveAccountMetadata(ctx, p)
}
func (r *bulkRouter) DeleteTransactionMetadata(ctx context.Context, p ledgercontroller.Parameters[ledgercontroller.DeleteTransactionMetadata]) (*ledger.Log, bool, error) {
	if c, ok := r.viaBulk(ctx); ok {
		return c.log, c.hit, c.err
	}
	return r.Controller.DeleteTransactionMetadata(ctx, p)
}
func (r *bulkRouter) DeleteAccountMetadata(ctx context.Context, p ledgercontroller.Parameters[ledgercontroller.DeleteAccountMetadata]) (*ledger.Log, bool, error) {
	if c, ok := r.viaBulk(ctx); ok {
		return c.log, c.hit, c.err
	}
	return r.Controller.DeleteAccountMetadata(ctx, p)
}

// ---- environment: state tracker over the SQL store ---------------------------------------------------

// facadeEnvSQL: an Env on ledger `name` (created on first use, reopened afterwards — the state
// tracker then starts from the state stored in `_system.ledgers`, as a restarted service does).
func facadeEnvSQL(b *Backend, name string, strict bool) (*wlctrl.Env, *bulkRouter) {
	e := wlctrl.NewEnv(b, name, strict)
	real := *b.Ledgers[name]
	real.State = b.LedgerState(name)
	e.L = real
	r := &bulkRouter{Controller: systemcontroller.VerifCtrlStateTracker(e.Ctrl, real)}
	e.W = r
	return e, r
}

func exportLogsSQL(e *wlctrl.Env) (logs []ledger.Log, canon []memstore.CLog, wireOK bool, err error) {
	wireOK = true
	err = e.W.Export(wlctrl.BaseCtx(), ledgercontroller.ExportWriterFn(func(_ context.Context, log ledger.Log) error {
		data, err := json.Marshal(log)
		if err != nil {
			return err
		}
		var back ledger.Log
		if err := json.Unmarshal(data, &back); err != nil {
			return err
		}
		a, _ := json.Marshal(memstore.CanonLog(&log))
		c, _ := json.Marshal(memstore.CanonLog(&back))
		if string(a) != string(c) {
			wireOK = false
		}
		logs = append(logs, back)
		canon = append(canon, *memstore.CanonLog(&back))
		return nil
	}))
	return
}

func importStreamSQL(b *Backend, e *wlctrl.Env, now int64, logs []ledger.Log) wlctrl.ImportStep {
	st := wlctrl.ImportStep{N: len(logs), Stream: []int{}}
	for _, l := range logs {
		st.Stream = append(st.Stream, int(*l.ID))
	}
	b.SetNow(timeOfUs(&now))
	b.ResetTrace()
	ch := make(chan ledger.Log, len(logs))
	for _, l := range logs {
		ch <- l
	}
	close(ch)
	var err error
	st.Panic = gen.Guard(func() { err = e.W.Import(wlctrl.BaseCtx(), ch) })
	b.Quiesce()
	st.Err = wlctrl.ClassifyErr(err)
	if err != nil {
		st.Msg = err.Error()
		if len(st.Msg) > 200 {
			st.Msg = st.Msg[:200]
		}
	}
	if st.Panic != "" {
		st.Err = "panic"
	}
	name := e.L.Name
	st.State = b.LedgerState(name)
	st.Snap = b.Snapshot(name)
	tx, lg := b.Sequences(name)
	st.Seq = [2]uint64{tx, lg}
	return st
}

func RunImportSQL(in ImpIn) (out wlctrl.ImpOut, err error) {
	b, err := backend(12)
	if err != nil {
		return out, err
	}
	srcName, dstName := freshName("s"), freshName("d")
	src, _ := facadeEnvSQL(b, srcName, in.Strict)
	for _, op := range in.Ops {
		out.Src = append(out.Src, src.Run(wlctrl.BaseCtx(), op))
		b.Quiesce()
	}
	out.SrcSnap = b.Snapshot(srcName)
	out.SrcState = b.LedgerState(srcName)
	logs, canon, wireOK, err := exportLogsSQL(src)
	if err != nil {
		return out, fmt.Errorf("export: %w", err)
	}
	out.Exported, out.WireOK = canon, wireOK
	if out.Exported == nil {
		out.Exported = []memstore.CLog{}
	}
	dst, router := facadeEnvSQL(b, dstName, in.Strict)
	now := wlctrl.NowOf(len(in.Ops) + 5)
	k := in.K
	if k > len(logs) {
		k = len(logs)
	}
	switch in.Variant {
	case wlctrl.VOk:
		out.Steps = append(out.Steps, importStreamSQL(b, dst, now, logs))
	case wlctrl.VTwoParts:
		out.Steps = append(out.Steps, importStreamSQL(b, dst, now, logs[:k]))
		out.Steps = append(out.Steps, importStreamSQL(b, dst, now+1000000, logs[k:]))
	case wlctrl.VInUse:
		if in.Pre != nil {
			o := dst.Run(wlctrl.BaseCtx(), *in.Pre)
			out.PreOut = &o
		}
		out.Steps = append(out.Steps, importStreamSQL(b, dst, now, logs))
	case wlctrl.VTwice:
		out.Steps = append(out.Steps, importStreamSQL(b, dst, now, logs))
		out.Steps = append(out.Steps, importStreamSQL(b, dst, now+1000000, logs))
	case wlctrl.VFailAtK:
		stream := append([]ledger.Log{}, logs[:k]...)
		if len(logs) > 0 {
			stream = append(stream, logs[0])
		}
		out.Steps = append(out.Steps, importStreamSQL(b, dst, now, stream))
	default:
		return out, fmt.Errorf("unknown variant %q", in.Variant)
	}
	// the extra writes: the ledger is reopened (snapshot deltas restart from the imported state;
	// the state tracker starts from the stored ledger state)
	dst, router = facadeEnvSQL(b, dstName, in.Strict)
	routers := []*bulkRouter{router, {Controller: systemcontroller.VerifCtrlStateTracker(dst.Ctrl, dst.L)}}
	for i, op := range in.Extra {
		r := routers[0]
		if i < len(in.Trackers) && in.Trackers[i] == 1 {
			r = routers[1]
		}
		dst.W = r
		r.op, r.used = op, PathSingle
		r.path = PathSingle
		if i < len(in.Paths) {
			r.path = in.Paths[i]
		}
		out.Extra = append(out.Extra, dst.Run(wlctrl.BaseCtx(), op))
		b.Quiesce()
	}
	out.DstState = b.LedgerState(dstName)
	return out, nil
}

func init() {
	gen.Register("sqlimport", func(c *gen.Ctx) error {
		defer closeBackend()
		ins, err := inputs(c, "ctrlimport", "ctrlimport", 1)
		if err != nil {
			return err
		}
		for _, raw := range ins {
			var in ImpIn
			if err := json.Unmarshal(raw, &in); err != nil {
				return err
			}
			if c.Replay == "" {
				// boundary of the id-order check of Import: re-sending log 1 right after log 1
				if in.Variant == wlctrl.VFailAtK && in.K != 1 && c.R.Intn(3) == 0 {
					in.K = 1
				}
				in.Paths = make([]string, len(in.Extra))
				for i := range in.Paths {
					in.Paths[i] = gen.Pick(c.R, []string{PathSingle, PathBulk, PathAtomic})
				}
				// the first write after the import is the one that resynchronises the sequences: every path must do it
				if len(in.Paths) > 0 {
					in.Paths[0] = []string{PathSingle, PathBulk, PathAtomic}[c.R.Intn(3)]
				}
				// tracker 0 serves the first writes, then the stale tracker 1 comes in, then both at random
				in.Trackers = make([]int, len(in.Extra))
				first := 1 + c.R.Intn(3)
				// the write right before the stale tracker's first one leaves a gap in the sequences when it
				// can (a dry-run create draws ids and rolls back): a second resynchronisation would then rewind them
				if first-1 < len(in.Extra) && first >= 2 {
					if k := in.Extra[first-1].K; k == wlctrl.KCreateP || k == wlctrl.KCreateS {
						in.Extra[first-1].Dry = true
					}
				}
				for i := range in.Trackers {
					switch {
					case i < first:
						in.Trackers[i] = 0
					case i == first:
						in.Trackers[i] = 1
					default:
						in.Trackers[i] = c.R.Intn(2)
					}
				}
			}
			in.Prop = Prop
			out, err := RunImportSQL(in)
			if err != nil {
				return err
			}
			if err := c.Emit("ctrlimport", in, out); err != nil {
				return err
			}
		}
		return nil
	})
}
