//go:build verif

package wle2e

import (
	"bufio"
	"bytes"
	"encoding/json"
	"fmt"

	"github.com/formancehq/ledger/internal/verif/gen"
	"github.com/formancehq/ledger/internal/verif/wlctrl"
)

// Workload "sqlctrlhist" = builder-ctrl's "ctrlhist" over the REAL SQL store on the
// modelled Postgres (LeanPG). The histories are drawn by builder-ctrl's own
// generator (its registered workload is run, case by case, into a buffer — the
// generator adapts to what memstore answered, and the SQL store is claimed to
// answer the same); each history is then replayed through the real
// DefaultController over the real store adapter / ledgerstore.Store / bun /
// pgfake / LeanPG. The emitted case has builder-ctrl's shape (f = "ctrlhist"), so
// its Lean handler compares, after EVERY op: response, store-call trace with
// handles, sequences, and the full snapshot — the snapshot now coming from
// LeanPG's dump of the bucket tables.

var (
	theBackend  *Backend
	caseCounter int
	casesOnSrv  int
)

// Prop: the property whose predicates the Lean handler evaluates (-prop).
var Prop string

// backend returns the shared LeanPG server; a fresh one every `every` cases so that
// dumps and the `_system.ledgers` scans stay small.
func backend(every int) (*Backend, error) {
	if theBackend != nil && casesOnSrv >= every {
		theBackend.Close()
		theBackend = nil
	}
	if theBackend == nil {
		b, err := Start()
		if err != nil {
			return nil, err
		}
		theBackend = b
		casesOnSrv = 0
	}
	casesOnSrv++
	return theBackend, nil
}

func closeBackend() {
	if theBackend != nil {
		theBackend.Close()
		theBackend = nil
	}
	RemovePrivateLpg()
}

func freshName(prefix string) string {
	caseCounter++
	return fmt.Sprintf("%s%d", prefix, caseCounter)
}

// drawBatch runs n cases of a workload of builder-ctrl (same PRNG) and returns their inputs.
func drawBatch(c *gen.Ctx, workload string, n int) ([]json.RawMessage, error) {
	var buf bytes.Buffer
	sub := &gen.Ctx{R: c.R, N: n, Wide: c.Wide, Out: bufio.NewWriter(&buf)}
	wlctrl.Prop = Prop // builder-ctrl's generators direct some cases by property (reference / key reuse for C14 / C13)
	if err := gen.Workloads[workload](sub); err != nil {
		return nil, err
	}
	_ = sub.Out.Flush()
	var ret []json.RawMessage
	for _, ln := range bytes.Split(bytes.TrimSpace(buf.Bytes()), []byte("\n")) {
		var line struct {
			In json.RawMessage `json:"in"`
		}
		if err := json.Unmarshal(ln, &line); err != nil {
			return nil, fmt.Errorf("drawing from %s: %w", workload, err)
		}
		ret = append(ret, line.In)
	}
	return ret, nil
}

// drawFrom: one case.
func drawFrom(c *gen.Ctx, workload string) (json.RawMessage, error) {
	ins, err := drawBatch(c, workload, 1)
	if err != nil {
		return nil, err
	}
	return ins[0], nil
}

// inputs: the replay inputs of f, or n inputs drawn from builder-ctrl's workload in batches
// (its ctrlfault generator cycles through the write kinds × dry-run by case index).
func inputs(c *gen.Ctx, f, workload string, batch int) ([]json.RawMessage, error) {
	if c.Replay != "" {
		return c.ReplayInputs(f)
	}
	var ret []json.RawMessage
	for len(ret) < c.N {
		k := batch
		if c.N-len(ret) < k {
			k = c.N - len(ret)
		}
		ins, err := drawBatch(c, workload, k)
		if err != nil {
			return nil, err
		}
		ret = append(ret, ins...)
	}
	return ret, nil
}

// RunHistorySQL replays fixed ops on a fresh ledger (its own bucket) over the SQL store.
func RunHistorySQL(in wlctrl.HistIn) (wlctrl.HistOut, error) {
	b, err := backend(40)
	if err != nil {
		return wlctrl.HistOut{}, err
	}
	e := wlctrl.NewEnv(b, freshName("h"), in.Strict)
	out := wlctrl.HistOut{Ops: make([]wlctrl.OpOut, 0, len(in.Ops))}
	for _, op := range in.Ops {
		out.Ops = append(out.Ops, e.Run(wlctrl.BaseCtx(), op))
		b.Quiesce()
	}
	return out, nil
}

func init() {
	gen.Register("sqlctrlhist", func(c *gen.Ctx) error {
		defer closeBackend()
		var ins []json.RawMessage
		if c.Replay != "" {
			var err error
			if ins, err = c.ReplayInputs("ctrlhist"); err != nil {
				return err
			}
		}
		n := c.N
		if c.Replay != "" {
			n = len(ins)
		}
		for i := 0; i < n; i++ {
			var raw json.RawMessage
			if c.Replay != "" {
				raw = ins[i]
			} else {
				var err error
				if raw, err = drawFrom(c, "ctrlhist"); err != nil {
					return err
				}
			}
			var in wlctrl.HistIn
			if err := json.Unmarshal(raw, &in); err != nil {
				return err
			}
			in.Prop = Prop
			out, err := RunHistorySQL(in)
			if err != nil {
				return err
			}
			if err := c.Emit("ctrlhist", in, out); err != nil {
				return err
			}
		}
		return nil
	})
}

// Workload "e2elpg": one `histself` line, answered by `ldriver_sql` (the LeanPG executable) itself.
// Its purpose is to make `bin/check` list `ldriver_sql` among the drivers it rebuilds, so that the
// MODELLED Postgres the other workloads of a fragment talk to is the one regenerated from the
// checked tree's migrations (translator t2_schema → Generated/Schema.lean → ldriver_sql).
func init() {
	gen.Register("e2elpg", func(c *gen.Ctx) error {
		const base = int64(1700000000000000)
		type posting struct {
			Source      string `json:"source"`
			Destination string `json:"destination"`
			Amount      string `json:"amount"`
			Asset       string `json:"asset"`
		}
		ops := []map[string]any{
			{"op": "tx", "at": base, "timestamp": nil, "postings": []posting{{"world", "users:alice", "100", "USD/2"}},
				"reference": "", "metadata": map[string]string{"k": "v"}, "accountMetadata": map[string]any{}, "force": false},
			{"op": "tx", "at": base + 1000, "timestamp": base - 5000, "postings": []posting{{"users:alice", "bank", "40", "USD/2"}},
				"reference": "r1", "metadata": map[string]string{}, "accountMetadata": map[string]any{}, "force": true},
			{"op": "revert", "at": base + 2000, "id": 1, "force": true, "atEffectiveDate": false, "metadata": map[string]string{}},
		}
		return c.Emit("histself", map[string]any{"ops": ops}, map[string]any{})
	})
}
