//go:build verif

package wle2e

import (
	"bytes"
	"context"
	"encoding/base64"
	"encoding/json"
	"fmt"
	"math/big"
	"math/rand"
	"net/http"
	"net/http/httptest"
	"strings"

	"github.com/formancehq/go-libs/v5/pkg/authn/jwt"
	"github.com/formancehq/go-libs/v5/pkg/types/metadata"

	ledger "github.com/formancehq/ledger/internal"
	"github.com/formancehq/ledger/internal/api"
	ledgercontroller "github.com/formancehq/ledger/internal/controller/ledger"
	systemcontroller "github.com/formancehq/ledger/internal/controller/system"
	"github.com/formancehq/ledger/internal/verif/gen"
)

// Workload "tplrun" (C37 end to end + C38 on the template-run route): the REAL chi router over the
// REAL system controller / DefaultController.RunQuery / SQL store on the MODELLED Postgres (LeanPG).
// A ledger with some history carries a schema (inserted through POST /v2/{ledger}/schemas/{version})
// that declares query templates on all four resources (accounts, transactions, logs, volumes; with and
// without a filter body). One case = one template × one page size:
//
//	(a) the template is run page by page — POST /v2/{ledger}/queries/{id}/run, first with
//	    {"params":{"pageSize":n}}, then with {"cursor": <next of the previous page>} — and the DIRECT
//	    list query it describes (GET /v2/{ledger}/<resource>?pageSize=n with the same filter as body) is
//	    paged the same way: the two sequences of pages must be identical (C37: runQuery_eq_list,
//	    cursor_continues_same_query);
//	(b) the run is repeated with MALFORMED cursors: not base64, base64 of non-JSON / null / an array /
//	    a scalar, JSON with wrongly typed pageSize / offset / filter, a damaged valid cursor, the empty
//	    string: every one must be answered 4xx (C38) without any effect; a VALID cursor of ANOTHER
//	    resource's listing must not be answered 5xx.

type TplIn struct {
	Prop     string `json:"prop,omitempty"`
	Template string `json:"template"`
	Resource string `json:"resource"`
	// Filter: the template's body ("" = none), also sent as the body of the direct list query
	Filter   string `json:"filter,omitempty"`
	PageSize int    `json:"pageSize"`
	// Bad: malformed cursors (kind, text); kind "other-resource" is filled by the harness
	Bad []TplBad `json:"bad"`
}

type TplBad struct {
	Kind   string `json:"kind"`
	Cursor string `json:"cursor"`
}

type TplPage struct {
	Status int      `json:"status"`
	Keys   []string `json:"keys"`
	More   bool     `json:"more"`
	Err    string   `json:"err,omitempty"`
}

type TplBadOut struct {
	Kind      string `json:"kind"`
	// Keys: the items of the page, when the answer is a page
	Keys      []string `json:"keys"`
	Status    int    `json:"status"`
	ErrorCode string `json:"errorCode"`
	BodyHead  string `json:"bodyHead"`
	Panic     string `json:"panic,omitempty"`
}

type TplOut struct {
	Resource string      `json:"resource"` // the `resource` field of the template's answers
	Run      []TplPage   `json:"run"`
	List     []TplPage   `json:"list"`
	Bad      []TplBadOut `json:"bad"`
	// PlainFirst: first page of the UNFILTERED direct list query with the case's page size (what an offset
	// cursor without sort column and without filter describes: default column, default order, offset 0)
	PlainFirst TplPage  `json:"plainFirst"`
	Changed  []string    `json:"changed"`
	Events   []string    `json:"events"`
}

type tplTemplate struct {
	ID, Resource, Filter string
}

var tplTemplates = []tplTemplate{
	{"ACC_ALL", "accounts", ""},
	{"ACC_USERS", "accounts", `{"$match":{"address":"users:"}}`},
	{"TX_ALL", "transactions", ""},
	{"TX_BANK", "transactions", `{"$match":{"account":"bank"}}`},
	{"LOG_ALL", "logs", ""},
	{"VOL_ALL", "volumes", ""},
	{"VOL_USERS", "volumes", `{"$match":{"account":"users:"}}`},
}

type tplEnv struct {
	b      *Backend
	lis    *recListener
	router http.Handler
	n      int
}

var theTplEnv *tplEnv

func (e *tplEnv) call(method, target, body string) (status int, out []byte, panicked string) {
	panicked = gen.Guard(func() {
		var rd *bytes.Reader
		if body != "" {
			rd = bytes.NewReader([]byte(body))
		}
		var req *http.Request
		var err error
		if rd != nil {
			req, err = http.NewRequestWithContext(context.Background(), method, "http://ledger.test"+target, rd)
		} else {
			req, err = http.NewRequestWithContext(context.Background(), method, "http://ledger.test"+target, nil)
		}
		if err != nil {
			status = -1
			out = []byte(err.Error())
			return
		}
		if req.Body == nil {
			req.Body = http.NoBody
		}
		req.Header.Set("Content-Type", "application/json")
		rec := httptest.NewRecorder()
		e.router.ServeHTTP(rec, req)
		status, out = rec.Code, rec.Body.Bytes()
	})
	e.b.Quiesce()
	return
}

func newTplEnv() (*tplEnv, error) {
	b, err := Start()
	if err != nil {
		return nil, err
	}
	e := &tplEnv{b: b, lis: &recListener{}}
	parser := ledgercontroller.NewDefaultNumscriptParser()
	sys := systemcontroller.NewDefaultController(
		systemcontroller.NewControllerStorageDriverAdapter(b.Drv, b.Sys), e.lis, nil,
		systemcontroller.WithParser(parser, parser, ledgercontroller.NewInterpreterNumscriptParser(nil)),
		systemcontroller.WithEnableFeatures(true),
	)
	ctx := context.Background()
	// two ledgers in one bucket with overlapping accounts: the listings must stay scoped
	for _, name := range []string{"tpl", "tplother"} {
		if err := sys.CreateLedger(ctx, name, ledger.NewDefaultConfiguration()); err != nil {
			return nil, fmt.Errorf("CreateLedger %s: %w", name, err)
		}
		ctrl, err := sys.GetLedgerController(ctx, name)
		if err != nil {
			return nil, err
		}
		ps := []ledger.Posting{
			ledger.NewPosting("world", "bank", "USD/2", big.NewInt(1000)),
			ledger.NewPosting("bank", "users:001", "USD/2", big.NewInt(100)),
			ledger.NewPosting("bank", "users:002", "USD/2", big.NewInt(50)),
			ledger.NewPosting("world", "users:001", "EUR", big.NewInt(7)),
			ledger.NewPosting("users:001", "fees", "EUR", big.NewInt(1)),
			ledger.NewPosting("world", "orders:x:1", "COIN", big.NewInt(3)),
			ledger.NewPosting("bank", "users:003", "USD/2", big.NewInt(5)),
		}
		if name == "tplother" {
			ps = ps[:3]
		}
		for k, p := range ps {
			if _, _, _, err := ctrl.CreateTransaction(ctx, ledgercontroller.Parameters[ledgercontroller.CreateTransaction]{
				Input: ledgercontroller.CreateTransaction{RunScript: ledgercontroller.TxToScriptData(ledger.TransactionData{
					Postings: ledger.Postings{p}, Metadata: metadata.Metadata{"n": fmt.Sprint(k)}}, false)}}); err != nil {
				return nil, fmt.Errorf("seeding %s: %w", name, err)
			}
		}
		if _, _, err := ctrl.SaveAccountMetadata(ctx, ledgercontroller.Parameters[ledgercontroller.SaveAccountMetadata]{
			Input: ledgercontroller.SaveAccountMetadata{Address: "users:001", Metadata: metadata.Metadata{"role": "vip"}}}); err != nil {
			return nil, err
		}
	}
	e.router = api.NewRouter(sys, jwt.NewNoAuth(), nil, "verif", false)
	// the schema, through the API
	qs := map[string]any{}
	for _, t := range tplTemplates {
		q := map[string]any{"resource": t.Resource}
		if t.Filter != "" {
			q["body"] = json.RawMessage(t.Filter)
		}
		qs[t.ID] = q
	}
	body, _ := json.Marshal(map[string]any{"chart": map[string]any{}, "queries": qs})
	st, out, p := e.call("POST", "/v2/tpl/schemas/v1", string(body))
	if st != http.StatusNoContent || p != "" {
		return nil, fmt.Errorf("inserting the schema with the query templates: status %d %s %s", st, out, p)
	}
	e.lis.take()
	return e, nil
}

// keyOf: the identity of a listed item.
func keyOf(resource string, item map[string]any) string {
	switch resource {
	case "accounts":
		return fmt.Sprint(item["address"])
	case "volumes":
		return fmt.Sprintf("%v|%v|%v|%v", item["account"], item["asset"], item["input"], item["output"])
	default:
		return fmt.Sprint(item["id"])
	}
}

type cursorBody struct {
	Resource string `json:"resource"`
	Cursor   *struct {
		HasMore bool             `json:"hasMore"`
		Next    string           `json:"next"`
		Data    []map[string]any `json:"data"`
	} `json:"cursor"`
	ErrorCode string `json:"errorCode"`
}

func parsePage(resource string, status int, out []byte) (TplPage, string, string) {
	pg := TplPage{Status: status, Keys: []string{}}
	dec := json.NewDecoder(bytes.NewReader(out))
	dec.UseNumber()
	var cb cursorBody
	if err := dec.Decode(&cb); err != nil || cb.Cursor == nil {
		pg.Err = strings.ToValidUTF8(string(out), "?")
		if len(pg.Err) > 200 {
			pg.Err = pg.Err[:200]
		}
		return pg, "", ""
	}
	for _, it := range cb.Cursor.Data {
		pg.Keys = append(pg.Keys, keyOf(resource, it))
	}
	pg.More = cb.Cursor.HasMore
	return pg, cb.Cursor.Next, cb.Resource
}

func (e *tplEnv) runTemplate(in TplIn) ([]TplPage, string, string) {
	var pages []TplPage
	body := fmt.Sprintf(`{"params":{"pageSize":%d}}`, in.PageSize)
	resKind, firstNext := "", ""
	for i := 0; i < 30; i++ {
		st, out, p := e.call("POST", "/v2/tpl/queries/"+in.Template+"/run?schemaVersion=v1", body)
		pg, next, rk := parsePage(in.Resource, st, out)
		if p != "" {
			pg.Err = p
		}
		if i == 0 {
			resKind, firstNext = rk, next
		}
		pages = append(pages, pg)
		if st != 200 || next == "" || !pg.More {
			break
		}
		cb, _ := json.Marshal(map[string]string{"cursor": next})
		body = string(cb)
	}
	return pages, resKind, firstNext
}

func (e *tplEnv) runList(resource, filter string, pageSize int) ([]TplPage, string) {
	var pages []TplPage
	target := fmt.Sprintf("/v2/tpl/%s?pageSize=%d", resource, pageSize)
	firstNext := ""
	body := filter
	for i := 0; i < 30; i++ {
		st, out, p := e.call("GET", target, body)
		pg, next, _ := parsePage(resource, st, out)
		if p != "" {
			pg.Err = p
		}
		if i == 0 {
			firstNext = next
		}
		pages = append(pages, pg)
		if st != 200 || next == "" || !pg.More {
			break
		}
		target = fmt.Sprintf("/v2/tpl/%s?cursor=%s", resource, next)
		body = ""
	}
	return pages, firstNext
}

func RunTpl(in TplIn) (TplOut, error) {
	if theTplEnv == nil || theTplEnv.n >= 60 {
		if theTplEnv != nil {
			theTplEnv.b.Close()
		}
		var err error
		if theTplEnv, err = newTplEnv(); err != nil {
			return TplOut{}, err
		}
	}
	e := theTplEnv
	e.n++
	before, _, err := e.b.RawDump("tpl")
	if err != nil {
		return TplOut{}, err
	}
	e.lis.take()
	out := TplOut{Bad: []TplBadOut{}}
	var validNext string
	out.Run, out.Resource, validNext = e.runTemplate(in)
	out.List, _ = e.runList(in.Resource, in.Filter, in.PageSize)
	// a valid cursor of another resource's listing
	if plain, _ := e.runList(in.Resource, "", in.PageSize); len(plain) > 0 {
		out.PlainFirst = plain[0]
	}
	// (for volumes the foreign cursor is a transactions one: an accounts cursor names `address`, which the
	// volumes schema knows as a field — see kind "volumes-column-address")
	other := map[string]string{"accounts": "transactions", "transactions": "accounts", "logs": "volumes", "volumes": "transactions"}[in.Resource]
	_, otherNext := e.runList(other, "", 1)
	_, accountsNext := e.runList("accounts", "", 1)
	for _, bad := range in.Bad {
		cur := bad.Cursor
		switch bad.Kind {
		case "no-column":
			cur = b64(fmt.Sprintf(`{"pageSize":%d,"offset":0}`, in.PageSize))
		case "no-column-junk-options":
			cur = b64(fmt.Sprintf(`{"pageSize":%d,"offset":0,"options":{"qb":{"$nope":{"x":1}}},"zzz":[1,2]}`, in.PageSize))
		case "volumes-column-address":
			if in.Resource != "volumes" {
				continue
			}
		case "volumes-accounts-cursor":
			// a valid cursor of the ACCOUNTS listing (sort column `address`) sent to a volumes template
			if in.Resource != "volumes" || accountsNext == "" {
				continue
			}
			cur = accountsNext
		case "volumes-sort-address":
			// not a cursor: the plain listing GET /v2/{ledger}/volumes?sort=address:asc
			if in.Resource != "volumes" {
				continue
			}
			st, body, p := e.call("GET", "/v2/tpl/volumes?sort=address:asc&pageSize=2", "")
			bo := TplBadOut{Kind: bad.Kind, Status: st, Panic: p, Keys: []string{}}
			var parsed map[string]any
			if json.Unmarshal(body, &parsed) == nil {
				if s, ok := parsed["errorCode"].(string); ok {
					bo.ErrorCode = s
				}
			}
			out.Bad = append(out.Bad, bo)
			continue
		case "other-resource":
			cur = otherNext
		case "damaged", "truncated":
			// derived from this template's own valid continuation cursor (none when there is one page only)
			if validNext == "" {
				continue
			}
			if bad.Kind == "truncated" {
				cur = validNext[:len(validNext)/2]
			} else {
				raw, err := base64.RawURLEncoding.DecodeString(validNext)
				if err != nil {
					raw, _ = base64.StdEncoding.DecodeString(validNext)
				}
				cur = base64.RawURLEncoding.EncodeToString(bytes.Replace(raw, []byte(`"pageSize":`), []byte(`"pageSize":"x",`+"\x00"+`"p":`), 1))
			}
		}
		if bad.Kind == "other-resource" && cur == "" {
			continue
		}
		cb, _ := json.Marshal(map[string]string{"cursor": cur})
		st, body, p := e.call("POST", "/v2/tpl/queries/"+in.Template+"/run?schemaVersion=v1", string(cb))
		bo := TplBadOut{Kind: bad.Kind, Status: st, Panic: p, Keys: []string{}}
		if st == 200 {
			pg, _, _ := parsePage(in.Resource, st, body)
			bo.Keys = pg.Keys
		}
		var parsed map[string]any
		if json.Unmarshal(body, &parsed) == nil {
			if s, ok := parsed["errorCode"].(string); ok {
				bo.ErrorCode = s
			}
		}
		bo.BodyHead = strings.ToValidUTF8(string(body), "?")
		if len(bo.BodyHead) > 160 {
			bo.BodyHead = bo.BodyHead[:160]
		}
		out.Bad = append(out.Bad, bo)
	}
	after, _, err := e.b.RawDump("tpl")
	if err != nil {
		return out, err
	}
	out.Changed = changedTables(before, after)
	out.Events = e.lis.take()
	return out, nil
}

func b64(s string) string { return base64.RawURLEncoding.EncodeToString([]byte(s)) }

func badCursors(r *rand.Rand) []TplBad {
	fixed := []TplBad{
		{"not-base64", "%%%not base64%%%"},
		{"empty", ""},
		{"b64-text", b64("hello")},
		{"b64-null", b64("null")},
		{"b64-array", b64("[]")},
		{"b64-number", b64("42")},
		{"b64-string", b64(`"x"`)},
		{"b64-truncated-json", b64(`{"pageSize":1,"offset"`)},
		{"pageSize-string", b64(`{"pageSize":"x","offset":0}`)},
		{"offset-string", b64(`{"pageSize":1,"offset":"y"}`)},
		{"offset-negative", b64(`{"pageSize":1,"offset":-1}`)},
		{"order-bad", b64(`{"pageSize":1,"column":"id","order":"sideways","paginationID":1}`)},
		{"no-column", ""}, {"no-column-junk-options", ""},
		{"volumes-column-address", b64(`{"pageSize":1,"offset":0,"column":"address"}`)},
		{"volumes-accounts-cursor", ""}, {"volumes-sort-address", ""},
		{"std-b64-binary", base64.StdEncoding.EncodeToString([]byte{0xff, 0xfe, 0x00, 0x01})},
		{"damaged", ""}, {"truncated", ""}, {"other-resource", ""},
	}
	// a few random strings / random JSON behind base64
	alphabet := "abcXYZ019-_=+/{}[]\":, \\"
	for k := 0; k < 3; k++ {
		n := 1 + r.Intn(24)
		var sb strings.Builder
		for i := 0; i < n; i++ {
			sb.WriteByte(alphabet[r.Intn(len(alphabet))])
		}
		if r.Intn(2) == 0 {
			fixed = append(fixed, TplBad{"random-text", sb.String()})
		} else {
			fixed = append(fixed, TplBad{"random-b64", b64(sb.String())})
		}
	}
	return fixed
}

func init() {
	gen.Register("tplrun", func(c *gen.Ctx) error {
		defer func() {
			if theTplEnv != nil {
				theTplEnv.b.Close()
				theTplEnv = nil
			}
			RemovePrivateLpg()
		}()
		var ins []TplIn
		if c.Replay != "" {
			raws, err := c.ReplayInputs("tplrun")
			if err != nil {
				return err
			}
			for _, raw := range raws {
				var in TplIn
				if err := json.Unmarshal(raw, &in); err != nil {
					return err
				}
				ins = append(ins, in)
			}
		} else {
			for i := 0; i < c.N; i++ {
				t := tplTemplates[i%len(tplTemplates)]
				ins = append(ins, TplIn{Template: t.ID, Resource: t.Resource, Filter: t.Filter, PageSize: 1 + c.R.Intn(4), Bad: badCursors(c.R)})
			}
		}
		for _, in := range ins {
			in.Prop = Prop
			out, err := RunTpl(in)
			if err != nil {
				return err
			}
			if err := c.Emit("tplrun", in, out); err != nil {
				return err
			}
		}
		return nil
	})
}
