//go:build verif

package wle2e

import (
	"context"
	"crypto/sha256"
	"encoding/hex"
	"encoding/json"
	"fmt"
	"sort"
	"strings"

	"github.com/formancehq/go-libs/v5/pkg/types/metadata"

	ledger "github.com/formancehq/ledger/internal"
	ledgercontroller "github.com/formancehq/ledger/internal/controller/ledger"
	"github.com/formancehq/ledger/internal/verif/gen"
	"github.com/formancehq/ledger/internal/verif/memstore"
	"github.com/formancehq/ledger/internal/verif/minisql"
	"github.com/formancehq/ledger/internal/verif/pgfake"
	"github.com/formancehq/ledger/internal/verif/wlctrl"
)

// ---------------------------------------------------------------------------
// recording listener (events)
// ---------------------------------------------------------------------------

type recListener struct{ events []string }

func (r *recListener) CommittedTransactions(_ context.Context, l string, tx ledger.Transaction, _ ledger.AccountMetadata) {
	r.events = append(r.events, fmt.Sprintf("COMMITTED_TRANSACTIONS %s %d", l, *tx.ID))
}
func (r *recListener) SavedMetadata(_ context.Context, l string, targetType, id string, _ metadata.Metadata) {
	r.events = append(r.events, fmt.Sprintf("SAVED_METADATA %s %s %s", l, targetType, id))
}
func (r *recListener) RevertedTransaction(_ context.Context, l string, reverted, revert ledger.Transaction) {
	r.events = append(r.events, fmt.Sprintf("REVERTED_TRANSACTION %s %d %d", l, *reverted.ID, *revert.ID))
}
func (r *recListener) DeletedMetadata(_ context.Context, l string, targetType string, targetID any, key string) {
	r.events = append(r.events, fmt.Sprintf("DELETED_METADATA %s %s %v %s", l, targetType, targetID, key))
}
func (r *recListener) InsertedSchema(_ context.Context, l string, data ledger.Schema) {
	r.events = append(r.events, fmt.Sprintf("INSERTED_SCHEMA %s %s", l, data.Version))
}

var _ ledgercontroller.Listener = (*recListener)(nil)

func (r *recListener) take() []string {
	ev := r.events
	r.events = nil
	if ev == nil {
		ev = []string{}
	}
	return ev
}

// ---------------------------------------------------------------------------
// "sqlctrlfault" = builder-ctrl's "ctrlfault" over the SQL store: the fault of store call k
// is delivered by the SQL driver (the first statement the call issues fails with a generic
// error / deadlock, the context is cancelled before the call, the connection dies at COMMIT).
// ---------------------------------------------------------------------------

type sqlEnv struct {
	e   *wlctrl.Env
	b   *Backend
	lis *recListener
	// seq0: the sequences right after the prefix
	seq0 [2]uint64
}

func newSQLEnv(b *Backend, strict bool, events bool) *sqlEnv {
	se := &sqlEnv{b: b, e: wlctrl.NewEnv(b, freshName("f"), strict)}
	if events {
		se.lis = &recListener{}
		se.e.W = ledgercontroller.NewControllerWithEvents(*b.Ledgers[se.e.L.Name], se.e.Ctrl, se.lis)
	}
	return se
}

func (se *sqlEnv) replay(prefix []wlctrl.Op) []wlctrl.OpOut {
	outs := make([]wlctrl.OpOut, 0, len(prefix))
	for _, op := range prefix {
		outs = append(outs, se.e.Run(wlctrl.BaseCtx(), op))
		se.b.Quiesce()
	}
	tx, lg := se.b.Sequences(se.e.L.Name)
	se.seq0 = [2]uint64{tx, lg}
	if se.lis != nil {
		se.lis.take()
	}
	return outs
}

// restoreSequences puts the two sequences back to their values after the prefix (a failed
// write leaves gaps; the model of one run starts from the prefix state).
func (se *sqlEnv) restoreSequences() {
	l := se.b.Ledgers[se.e.L.Name]
	saved := se.b.now
	se.b.now = 0
	defer func() { se.b.now = saved }()
	for i, seq := range []string{"transaction_id", "log_id"} {
		full := fmt.Sprintf(`"%s"."%s_%d"`, l.Bucket, seq, l.ID)
		q := fmt.Sprintf(`select setval('%s', %d, true)`, full, se.seq0[i])
		if se.seq0[i] == 0 {
			q = fmt.Sprintf(`select setval('%s', 1, false)`, full)
		}
		if _, err := se.b.Srv.SQLDB().Exec(q); err != nil {
			panic(fmt.Errorf("wle2e: %s: %w", q, err))
		}
	}
}

// deadlockOnResourceRead: the plan's FIRST fault is a deadlock on a resource read of the fault-free trace.
func deadlockOnResourceRead(plan []memstore.Fault, baseTrace []string) bool {
	for _, f := range plan {
		if f.Kind != memstore.FaultDeadlock || f.At < 1 || f.At > len(baseTrace) {
			continue
		}
		w := strings.Fields(baseTrace[f.At-1])
		if len(w) >= 2 && (strings.HasPrefix(w[1], "Accounts.") || strings.HasPrefix(w[1], "Transactions.") || strings.HasPrefix(w[1], "Logs.")) {
			return true
		}
	}
	return false
}

func firedDeadlockOnResourceRead(trace []string) bool {
	for _, t := range trace {
		w := strings.Fields(t)
		if len(w) >= 3 && w[len(w)-1] == "!deadlock" &&
			(strings.HasPrefix(w[1], "Accounts.") || strings.HasPrefix(w[1], "Transactions.") || strings.HasPrefix(w[1], "Logs.")) {
			return true
		}
	}
	return false
}

func RunFaultsSQL(in wlctrl.FaultIn) (wlctrl.FaultOut, error) {
	b, err := backend(12)
	if err != nil {
		return wlctrl.FaultOut{}, err
	}
	base := newSQLEnv(b, in.Strict, false)
	out := wlctrl.FaultOut{Prefix: base.replay(in.Prefix)}
	out.Base = base.e.Run(wlctrl.BaseCtx(), in.Op)
	b.Quiesce()
	var cur *sqlEnv
	for _, plan := range in.Plans {
		if deadlockOnResourceRead(plan, out.Base.Trace) {
			// DEVIATION from the contract, recorded (harmless): the resource reads of the real store
			// (Accounts().GetOne — the machine's meta() lookup) return the driver error unresolved, so a
			// deadlock injected THERE is not postgres.ErrDeadlockDetected and is not retried; memstore
			// answers ErrDeadlockDetected. A plain SELECT takes no lock: Postgres cannot answer 40P01 to it.
			continue
		}
		if cur == nil {
			cur = newSQLEnv(b, in.Strict, false)
			cur.replay(in.Prefix)
		}
		ctx, cancel := context.WithCancel(wlctrl.BaseCtx())
		b.SetCancel(cancel)
		b.InjectFaults(plan)
		o := cur.e.Run(ctx, in.Op)
		fired := b.FaultFired()
		b.ClearFault()
		cancel()
		b.Quiesce()
		// same deviation for a LATER fault of a multi-fault plan: its position counts the calls of the
		// faulted run (after a retry), so it can only be recognised in that run's own trace
		if !firedDeadlockOnResourceRead(o.Trace) {
			out.Runs = append(out.Runs, wlctrl.FaultRun{Plan: plan, Fired: fired, Out: o})
		}
		if o.Delta.Empty() {
			cur.restoreSequences()
		} else {
			cur = nil
		}
	}
	return out, nil
}

// ---------------------------------------------------------------------------
// "sqlfault": C07 at SQL-STATEMENT granularity
// ---------------------------------------------------------------------------

// SFault: fail the At-th SQL statement (1-based) the operation issues.
type SFault struct {
	At   int    `json:"at"`
	Kind string `json:"kind"` // error | deadlock | serialization | cancel | conn
}

type SQLFaultIn struct {
	Prop   string      `json:"prop,omitempty"`
	Strict bool        `json:"strict"`
	Prefix []wlctrl.Op `json:"prefix"`
	Op     wlctrl.Op   `json:"op"`
	// Faults: nil = derive from the statements of the fault-free run (every position × kinds)
	Faults []SFault `json:"faults"`
}

// CStmt: one SQL statement as the driver saw it.
type CStmt struct {
	H    string `json:"h"`    // conn | tx | savepoint
	K    string `json:"k"`    // begin | commit | rollback | savepoint | release | rollback_to | select | insert | update | delete | other
	Mut  bool   `json:"mut"`  // the statement writes, locks rows, takes a lock or draws from a sequence
	Err  string `json:"err"`  // "" | SQLSTATE | fault:<kind>
	Call string `json:"call"` // store call it belongs to ("" = none)
	CI   int    `json:"ci"`   // 1-based position of that call in the trace (0 = none)
	S    int    `json:"s"`    // session
}

type SQLFaultRun struct {
	Fault SFault `json:"fault"`
	Fired bool   `json:"fired"`
	// Hit: kind and store call of the statement the fault hit
	HitK    string `json:"hitK"`
	HitCall string `json:"hitCall"`
	// HitCallIdx: 1-based position of that store call in the operation's call trace (0 = none)
	HitCallIdx int `json:"hitCallIdx"`
	// Out: everything builder-ctrl's workloads observe of one op (response, call trace, snapshot delta, sequences)
	Out wlctrl.OpOut `json:"out"`
	// DumpBefore / DumpAfter: SHA-256 of LeanPG's canonical dump of EVERY bucket table of the ledger
	DumpBefore string   `json:"dumpBefore"`
	DumpAfter  string   `json:"dumpAfter"`
	Changed    []string `json:"changed"` // tables whose dump differs
	Events     []string `json:"events"`
	Stmts      []CStmt  `json:"stmts"`
	// Vols: accounts_volumes after the run (for retried runs: must equal the fault-free run's)
	Vols []memstore.CVol `json:"vols"`
	// OpenTx: sessions with a BEGIN that was not followed by COMMIT / ROLLBACK
	OpenTx int `json:"openTx"`
}

type SQLFaultOut struct {
	Prefix     []wlctrl.OpOut  `json:"prefix"`
	Base       wlctrl.OpOut    `json:"base"`
	BaseStmts  []CStmt         `json:"baseStmts"`
	BaseEvents []string        `json:"baseEvents"`
	BaseVols   []memstore.CVol `json:"baseVols"`
	BaseOpenTx int             `json:"baseOpenTx"`
	Runs       []SQLFaultRun   `json:"runs"`
}

func stmtKind(q string) (kind string, mut bool) {
	t := strings.ToLower(strings.TrimSpace(q))
	st, err := minisql.Parse(q)
	if err == nil {
		if k := st.TxKind(); k != "" {
			return k, false
		}
	}
	first := t
	if i := strings.IndexAny(t, " \n\t("); i > 0 {
		first = t[:i]
	}
	mut = strings.Contains(t, "insert into") || strings.Contains(t, "update ") && strings.Contains(t, " set ") ||
		strings.Contains(t, "delete from") || strings.Contains(t, "for update") || strings.Contains(t, "nextval(") ||
		strings.Contains(t, "setval(") || strings.Contains(t, "pg_advisory")
	switch first {
	case "select", "insert", "update", "delete", "with", "call":
		return first, mut
	}
	return "other", mut
}

// opStmts: the statements of the last operation (between ResetTrace and the first snapshot).
func (b *Backend) opStmts() ([]CStmt, []pgfake.Stmt) {
	log := b.Srv.Log()
	lo, hi := b.opStart, b.opEnd
	if hi < 0 || hi > len(log) {
		hi = len(log)
	}
	if lo > hi {
		lo = hi
	}
	raw := log[lo:hi]
	trace := b.trace
	ret := make([]CStmt, 0, len(raw))
	for i, s := range raw {
		k, mut := stmtKind(s.SQL)
		c := CStmt{H: s.Handle, K: k, Mut: mut, Err: s.Err, S: s.Session}
		for j, r := range b.callRanges {
			if lo+i >= r[0] && lo+i < r[1] && j < len(trace) {
				c.Call, c.CI = trace[j].M, j+1
			}
		}
		ret = append(ret, c)
	}
	return ret, raw
}

func openTx(stmts []CStmt) int {
	open := map[int]bool{}
	for _, s := range stmts {
		switch s.K {
		case "begin":
			if s.Err == "" {
				open[s.S] = true
			}
		case "commit", "rollback":
			// a COMMIT / ROLLBACK that failed on the wire still ends the transaction for database/sql
			delete(open, s.S)
		}
	}
	return len(open)
}

func hashDump(raw json.RawMessage) string {
	h := sha256.Sum256(raw)
	return hex.EncodeToString(h[:8])
}

func changedTables(a, c RawDump) []string {
	ret := []string{}
	names := map[string]bool{}
	for k := range a {
		names[k] = true
	}
	for k := range c {
		names[k] = true
	}
	for k := range names {
		if len(a[k]) == 0 && len(c[k]) == 0 {
			continue // a table of a bucket instantiated meanwhile, without rows of this ledger
		}
		x, _ := json.Marshal(a[k])
		y, _ := json.Marshal(c[k])
		if string(x) != string(y) {
			ret = append(ret, k)
		}
	}
	sort.Strings(ret)
	return ret
}

func RunSQLFaults(in *SQLFaultIn) (SQLFaultOut, error) {
	b, err := backend(12)
	if err != nil {
		return SQLFaultOut{}, err
	}
	base := newSQLEnv(b, in.Strict, true)
	out := SQLFaultOut{Prefix: base.replay(in.Prefix)}
	out.Base = base.e.Run(wlctrl.BaseCtx(), in.Op)
	b.Quiesce()
	out.BaseStmts, _ = b.opStmts()
	out.BaseEvents = base.lis.take()
	out.BaseVols = b.Snapshot(base.e.L.Name).Vols
	out.BaseOpenTx = openTx(out.BaseStmts)
	if in.Faults == nil {
		in.Faults = []SFault{}
		for k := 1; k <= len(out.BaseStmts)+1; k++ {
			isCommit := k <= len(out.BaseStmts) && out.BaseStmts[k-1].K == "commit"
			for _, kind := range []string{"error", "deadlock", "serialization", "cancel"} {
				if isCommit && kind != "error" {
					continue
				}
				in.Faults = append(in.Faults, SFault{At: k, Kind: kind})
			}
			if isCommit {
				in.Faults = append(in.Faults, SFault{At: k, Kind: "conn"})
			}
		}
	}
	var cur *sqlEnv
	for _, f := range in.Faults {
		if cur == nil {
			cur = newSQLEnv(b, in.Strict, true)
			cur.replay(in.Prefix)
		}
		name := cur.e.L.Name
		before, rawBefore, err := b.RawDump(name)
		if err != nil {
			return out, err
		}
		b.Srv.InjectFault(f.At, f.Kind)
		o := cur.e.Run(wlctrl.BaseCtx(), in.Op)
		b.Srv.ClearFaults()
		b.Quiesce()
		stmts, raw := b.opStmts()
		run := SQLFaultRun{Fault: f, Out: o, Stmts: stmts, Events: cur.lis.take()}
		for i, s := range raw {
			if strings.HasPrefix(s.Err, "fault:") {
				run.Fired = true
				run.HitK, run.HitCall, run.HitCallIdx = stmts[i].K, stmts[i].Call, stmts[i].CI
				// the modelled session of a failed COMMIT / dropped connection is ended, as a server would do
				b.RollbackSession(s.Session)
			}
		}
		run.OpenTx = openTx(stmts)
		after, rawAfter, err := b.RawDump(name)
		if err != nil {
			return out, err
		}
		run.DumpBefore, run.DumpAfter = hashDump(rawBefore), hashDump(rawAfter)
		run.Changed = changedTables(before, after)
		run.Vols = []memstore.CVol{}
		if len(run.Changed) > 0 {
			run.Vols = SnapOfDump(after).Vols
			cur = nil
		} else {
			cur.restoreSequences()
		}
		out.Runs = append(out.Runs, run)
	}
	return out, nil
}

func init() {
	gen.Register("sqlctrlfault", func(c *gen.Ctx) error {
		defer closeBackend()
		ins, err := inputs(c, "ctrlfault", "ctrlfault", 16)
		if err != nil {
			return err
		}
		for _, raw := range ins {
			var in wlctrl.FaultIn
			if err := json.Unmarshal(raw, &in); err != nil {
				return err
			}
			in.Prop = Prop
			out, err := RunFaultsSQL(in)
			if err != nil {
				return err
			}
			if err := c.Emit("ctrlfault", in, out); err != nil {
				return err
			}
		}
		return nil
	})
	gen.Register("sqlfault", func(c *gen.Ctx) error {
		defer closeBackend()
		ins, err := inputs(c, "sqlfault", "ctrlfault", 16)
		if err != nil {
			return err
		}
		for _, raw := range ins {
			var in SQLFaultIn
			if c.Replay != "" {
				if err := json.Unmarshal(raw, &in); err != nil {
					return err
				}
			} else {
				var fin wlctrl.FaultIn
				if err := json.Unmarshal(raw, &fin); err != nil {
					return err
				}
				in = SQLFaultIn{Strict: fin.Strict, Prefix: fin.Prefix, Op: fin.Op}
			}
			in.Prop = Prop
			out, err := RunSQLFaults(&in)
			if err != nil {
				return err
			}
			if err := c.Emit("sqlfault", in, out); err != nil {
				return err
			}
		}
		return nil
	})
}
