//go:build verif

package wle2e

import (
	"encoding/json"
	"fmt"
	"sort"
	"strings"

	"github.com/formancehq/go-libs/v5/pkg/query"
	"github.com/formancehq/go-libs/v5/pkg/storage/bun/paginate"

	ledger "github.com/formancehq/ledger/internal"
	"github.com/formancehq/ledger/internal/storage/common"
	"github.com/formancehq/ledger/internal/verif/gen"
	"github.com/formancehq/ledger/internal/verif/memstore"
	"github.com/formancehq/ledger/internal/verif/wlctrl"
)

// Workload "multiledger" (C19): up to four ledgers — three sharing one bucket, one alone in a
// bucket of its own — whose histories (each drawn by builder-ctrl's ctrlhist generator from the
// SAME pools: overlapping account names, references, idempotency keys, transaction / log ids,
// schema versions) are interleaved. Ledgers are CREATED MID-HISTORY through the real storage
// driver (Driver.CreateLedger → system store row, bucket.AddLedger, CountLedgersInBucket →
// SetAloneInBucket), so the shared alone-in-bucket hint of the stores already serving requests
// must flip. After every write on ledger l: LeanPG's dump of every OTHER ledger must be unchanged;
// at checkpoints every read API of every ledger is called through the real controller; after
// every creation the hint of every store is read (zz_verif_export_e2e.go).

type MultiStep struct {
	// Create: index of the ledger to create (with Bucket), or -1
	Create int    `json:"create"`
	Bucket string `json:"bucket,omitempty"` // "shared" | "alone"
	Strict bool   `json:"strict,omitempty"`
	// Features of the ledger to create (complete set)
	Features map[string]string `json:"features,omitempty"`
	// L / Op: a write on ledger L
	L  int        `json:"l"`
	Op *wlctrl.Op `json:"op,omitempty"`
	// Reads: checkpoint — every read API on every ledger
	Reads bool `json:"reads,omitempty"`
}

type MultiIn struct {
	Prop  string      `json:"prop,omitempty"`
	Steps []MultiStep `json:"steps"`
}

// Flag: the alone-in-bucket hint of one store, with what it should say.
type Flag struct {
	L      int    `json:"l"`
	Bucket string `json:"bucket"`
	Alone  bool   `json:"alone"`
	// InBucket: ledgers in the bucket according to `_system.ledgers` (real system store)
	InBucket int `json:"inBucket"`
}

type OtherDump struct {
	L      int    `json:"l"`
	Before string `json:"before"`
	After  string `json:"after"`
	// Changed: tables of the other ledger whose rows differ
	Changed []string `json:"changed"`
}

type ReadTx struct {
	ID       uint64              `json:"id"`
	Found    bool                `json:"found"`
	Postings []memstore.CPosting `json:"postings"`
	Err      string              `json:"err,omitempty"`
}

type ReadAcc struct {
	Addr  string          `json:"addr"`
	Found bool            `json:"found"`
	Meta  [][2]string     `json:"meta"`
	Vols  []memstore.CVol `json:"vols"`
	// VolsRead: the volumes expansion was requested (it needs MOVES_HISTORY=ON)
	VolsRead bool   `json:"volsRead"`
	Err      string `json:"err,omitempty"`
}

// Reads: the canonical answers of the read APIs of one ledger.
type Reads struct {
	L        int             `json:"l"`
	Txs      []uint64        `json:"txs"` // ListTransactions, ascending ids
	NTx      int             `json:"nTx"` // CountTransactions
	Accounts []string        `json:"accounts"`
	NAcc     int             `json:"nAcc"`
	Logs     []uint64        `json:"logs"`
	Vols     []memstore.CVol `json:"vols"` // GetVolumesWithBalances
	Agg      [][2]string     `json:"agg"`  // GetAggregatedBalances: asset, balance
	Tx       []ReadTx        `json:"tx"`   // GetTransaction for ids 1..3
	Acc      []ReadAcc       `json:"acc"`  // GetAccount(expand volumes) for the universe
	Refs     []string        `json:"refs"` // references of the listed transactions
	Err      string          `json:"err,omitempty"`
}

type MultiStepOut struct {
	// write
	Out    *wlctrl.OpOut `json:"out,omitempty"`
	Others []OtherDump   `json:"others,omitempty"`
	// creation
	CreateErr string `json:"createErr,omitempty"`
	Flags     []Flag `json:"flags,omitempty"`
	// checkpoint
	Reads []Reads `json:"reads,omitempty"`
}

type MultiOut struct {
	Steps []MultiStepOut `json:"steps"`
}

type multiRun struct {
	b       *Backend
	envs    map[int]*wlctrl.Env
	names   map[int]string
	buckets map[int]string
	order   []int
	shared  string
}

func (m *multiRun) flags() []Flag {
	ret := []Flag{}
	for _, i := range m.order {
		name := m.names[i]
		l := m.b.Ledgers[name]
		saved := m.b.now
		m.b.now = 0
		n, err := m.b.Sys.CountLedgersInBucket(wlctrl.BaseCtx(), l.Bucket)
		m.b.now = saved
		if err != nil {
			n = -1
		}
		ret = append(ret, Flag{L: i, Bucket: m.buckets[i], Alone: m.b.Stores[name].VerifAloneInBucket(), InBucket: n})
	}
	return ret
}

func canonVolsByAccount(v ledger.VolumesByAssets, acc string) []memstore.CVol {
	ret := []memstore.CVol{}
	for asset, vol := range v {
		ret = append(ret, memstore.CVol{Account: acc, Asset: asset, In: vol.Input.String(), Out: vol.Output.String()})
	}
	sort.Slice(ret, func(i, j int) bool { return ret[i].Asset < ret[j].Asset })
	return ret
}

func (m *multiRun) reads(i int) Reads {
	e := m.envs[i]
	ctx := wlctrl.BaseCtx()
	r := Reads{L: i, Txs: []uint64{}, Accounts: []string{}, Logs: []uint64{}, Vols: []memstore.CVol{}, Agg: [][2]string{}, Tx: []ReadTx{}, Acc: []ReadAcc{}, Refs: []string{}}
	saved := m.b.now
	m.b.now = 0
	defer func() { m.b.now = saved }()
	if p := gen.Guard(func() {
		asc := paginate.Order(paginate.OrderAsc)
		txs, err := e.Ctrl.ListTransactions(ctx, common.InitialPaginatedQuery[any]{PageSize: 200, Order: &asc})
		if err != nil {
			r.Err += "ListTransactions: " + err.Error() + "; "
		} else {
			for _, t := range txs.Data {
				r.Txs = append(r.Txs, *t.ID)
				if t.Reference != "" {
					r.Refs = append(r.Refs, t.Reference)
				}
			}
		}
		if n, err := e.Ctrl.CountTransactions(ctx, common.ResourceQuery[any]{}); err != nil {
			r.Err += "CountTransactions: " + err.Error() + "; "
		} else {
			r.NTx = n
		}
		accs, err := e.Ctrl.ListAccounts(ctx, common.InitialPaginatedQuery[any]{PageSize: 200, Order: &asc})
		if err != nil {
			r.Err += "ListAccounts: " + err.Error() + "; "
		} else {
			for _, a := range accs.Data {
				r.Accounts = append(r.Accounts, a.Address)
			}
		}
		if n, err := e.Ctrl.CountAccounts(ctx, common.ResourceQuery[any]{}); err != nil {
			r.Err += "CountAccounts: " + err.Error() + "; "
		} else {
			r.NAcc = n
		}
		logs, err := e.Ctrl.ListLogs(ctx, common.InitialPaginatedQuery[any]{PageSize: 200, Order: &asc})
		if err != nil {
			r.Err += "ListLogs: " + err.Error() + "; "
		} else {
			for _, l := range logs.Data {
				r.Logs = append(r.Logs, *l.ID)
			}
		}
		vols, err := e.Ctrl.GetVolumesWithBalances(ctx, common.InitialPaginatedQuery[ledger.GetVolumesOptions]{PageSize: 200, Order: &asc})
		if err != nil {
			r.Err += "GetVolumesWithBalances: " + err.Error() + "; "
		} else {
			for _, v := range vols.Data {
				r.Vols = append(r.Vols, memstore.CVol{Account: v.Account, Asset: v.Asset, In: v.Input.String(), Out: v.Output.String()})
			}
			sort.SliceStable(r.Vols, func(a, c int) bool {
				if r.Vols[a].Account != r.Vols[c].Account {
					return r.Vols[a].Account < r.Vols[c].Account
				}
				return r.Vols[a].Asset < r.Vols[c].Asset
			})
		}
		agg, err := e.Ctrl.GetAggregatedBalances(ctx, common.ResourceQuery[ledger.GetAggregatedVolumesOptions]{})
		if err != nil {
			r.Err += "GetAggregatedBalances: " + err.Error() + "; "
		} else {
			for asset, bal := range agg {
				r.Agg = append(r.Agg, [2]string{asset, bal.String()})
			}
			sort.Slice(r.Agg, func(a, c int) bool { return r.Agg[a][0] < r.Agg[c][0] })
		}
		for id := uint64(1); id <= 3; id++ {
			rt := ReadTx{ID: id, Postings: []memstore.CPosting{}}
			tx, err := e.Ctrl.GetTransaction(ctx, common.ResourceQuery[any]{Builder: query.Match("id", id)})
			if err == nil && tx != nil {
				rt.Found = true
				rt.Postings = memstore.CanonPostings(tx.Postings)
			} else if err != nil && wlctrl.ClassifyErr(err) != "not-found" {
				rt.Err = err.Error()
			}
			r.Tx = append(r.Tx, rt)
		}
		for _, addr := range wlctrl.Accounts {
			ra := ReadAcc{Addr: addr, Meta: [][2]string{}, Vols: []memstore.CVol{}}
			q := common.ResourceQuery[any]{Builder: query.Match("address", addr)}
			if m.b.Ledgers[m.names[i]].Features["MOVES_HISTORY"] == "ON" {
				q.Expand, ra.VolsRead = []string{"volumes"}, true
			}
			acc, err := e.Ctrl.GetAccount(ctx, q)
			if err == nil && acc != nil {
				ra.Found = true
				ra.Meta = memstore.CanonMeta(acc.Metadata)
				ra.Vols = canonVolsByAccount(acc.Volumes, addr)
			} else if err != nil && wlctrl.ClassifyErr(err) != "not-found" {
				ra.Err = err.Error()
			}
			r.Acc = append(r.Acc, ra)
		}
	}); p != "" {
		r.Err += p
	}
	m.b.Quiesce()
	return r
}

func RunMulti(in MultiIn) (MultiOut, error) {
	b, err := backend(8)
	if err != nil {
		return MultiOut{}, err
	}
	m := &multiRun{b: b, envs: map[int]*wlctrl.Env{}, names: map[int]string{}, buckets: map[int]string{}, shared: freshName("bsh")}
	out := MultiOut{}
	for _, st := range in.Steps {
		so := MultiStepOut{}
		switch {
		case st.Create >= 0 && st.Op == nil && !st.Reads:
			name := freshName("m")
			bucket := m.shared
			if st.Bucket == "alone" {
				bucket = "bal" + name
			}
			b.BucketOf[name] = bucket
			if st.Features != nil {
				b.FeaturesOf[name] = st.Features
			}
			if p := gen.Guard(func() { m.envs[st.Create] = wlctrl.NewEnv(b, name, st.Strict) }); p != "" {
				so.CreateErr = p
			} else {
				m.names[st.Create], m.buckets[st.Create] = name, st.Bucket
				m.order = append(m.order, st.Create)
			}
			so.Flags = m.flags()
		case st.Op != nil:
			e := m.envs[st.L]
			if e == nil {
				return out, fmt.Errorf("multiledger: write on ledger %d before its creation", st.L)
			}
			type snap struct {
				d   RawDump
				raw json.RawMessage
			}
			before := map[int]snap{}
			for _, j := range m.order {
				if j != st.L {
					d, raw, err := b.RawDump(m.names[j])
					if err != nil {
						return out, err
					}
					before[j] = snap{d, raw}
				}
			}
			o := e.Run(wlctrl.BaseCtx(), *st.Op)
			b.Quiesce()
			so.Out = &o
			for _, j := range m.order {
				if j != st.L {
					d, raw, err := b.RawDump(m.names[j])
					if err != nil {
						return out, err
					}
					so.Others = append(so.Others, OtherDump{L: j, Before: hashDump(before[j].raw), After: hashDump(raw), Changed: changedTables(before[j].d, d)})
				}
			}
		case st.Reads:
			for _, j := range m.order {
				so.Reads = append(so.Reads, m.reads(j))
			}
			so.Flags = m.flags()
		}
		out.Steps = append(out.Steps, so)
	}
	return out, nil
}

// withBalanceProbes inserts, before every read checkpoint and for every ledger created so far, a
// DRY-RUN create whose postings draw on three bounded (non-world) balances at once — the
// GetBalances statement then carries several (account, asset) pairs, and its answer (sufficient
// funds or not) must be the one the ledger's OWN volumes give.
func withBalanceProbes(c *gen.Ctx, steps []MultiStep) []MultiStep {
	var ret []MultiStep
	created := []int{}
	clock := map[int]int64{}
	for _, st := range steps {
		if st.Reads {
			for _, l := range created {
				srcs := append([]string{}, wlctrl.Accounts[1:]...)
				c.R.Shuffle(len(srcs), func(a, d int) { srcs[a], srcs[d] = srcs[d], srcs[a] })
				ps := []memstore.CPosting{}
				for k := 0; k < 3; k++ {
					ps = append(ps, memstore.CPosting{S: srcs[k], D: "world", A: gen.Pick(c.R, wlctrl.Assets), N: []string{"1", "2", "5", "10"}[c.R.Intn(4)]})
				}
				clock[l] += 1000000
				op := wlctrl.Op{K: wlctrl.KCreateP, Now: clock[l], Dry: true, Postings: ps, Meta: [][2]string{}}
				ret = append(ret, MultiStep{Create: -1, L: l, Op: &op})
			}
		}
		if st.Create >= 0 && st.Op == nil && !st.Reads {
			created = append(created, st.Create)
		}
		if st.Op != nil && st.Op.Now > clock[st.L] {
			clock[st.L] = st.Op.Now
		}
		ret = append(ret, st)
	}
	return ret
}

func init() {
	gen.Register("multiledger", func(c *gen.Ctx) error {
		defer closeBackend()
		n := c.N
		var ins []json.RawMessage
		if c.Replay != "" {
			var err error
			if ins, err = c.ReplayInputs("multiledger"); err != nil {
				return err
			}
			n = len(ins)
		}
		for i := 0; i < n; i++ {
			var in MultiIn
			if c.Replay != "" {
				if err := json.Unmarshal(ins[i], &in); err != nil {
					return err
				}
			} else {
				// four histories from builder-ctrl's generator; ledgers 0,1,2 share a bucket, 3 is alone
				hists, err := drawBatch(c, "ctrlhist", 4)
				if err != nil {
					return err
				}
				var hs [4]wlctrl.HistIn
				for k := range hs {
					if err := json.Unmarshal(hists[k], &hs[k]); err != nil {
						return err
					}
					max := 9
					if c.Wide {
						max = 16
					}
					if len(hs[k].Ops) > max {
						hs[k].Ops = hs[k].Ops[:max]
					}
				}
				// features per ledger: 0 = everything on but no hashing, 1 and 3 = the defaults (hash chain
				// per ledger under the advisory lock keyed by the ledger id), 2 = the minimal set
				all := AllFeatureSets()
				feats := [4]map[string]string{
					{"MOVES_HISTORY": "ON", "MOVES_HISTORY_POST_COMMIT_EFFECTIVE_VOLUMES": "SYNC", "HASH_LOGS": "DISABLED", "ACCOUNT_METADATA_HISTORY": "SYNC", "TRANSACTION_METADATA_HISTORY": "SYNC"},
					all[0], all[len(all)-1], all[0]}
				for k := range hs {
					if feats[k]["HASH_LOGS"] != "SYNC" {
						continue
					}
					// (a backslash in an idempotency key is rejected under HASH_LOGS=SYNC — finding
					// C35:hash-sync-rejects-idempotency-key-with-backslash; kept out of this workload)
					for j := range hs[k].Ops {
						hs[k].Ops[j].IK = strings.ReplaceAll(hs[k].Ops[j].IK, "\\", "/")
					}
				}
				nLedgers := 3 + c.R.Intn(2) // 2–3 sharing + the alone one
				shared := []int{0, 1}
				if nLedgers == 4 {
					shared = []int{0, 1, 2}
				}
				// ledger 0 exists from the start; the others are created mid-history, after 1–4 writes each
				created := map[int]bool{0: true}
				in.Steps = append(in.Steps, MultiStep{Create: 0, Bucket: "shared", Strict: hs[0].Strict, Features: feats[0], L: -1})
				pending := append([]int{}, shared[1:]...)
				pending = append(pending, 3)
				c.R.Shuffle(len(pending), func(a, d int) { pending[a], pending[d] = pending[d], pending[a] })
				pos := map[int]int{}
				sinceCreate, sinceReads := 0, 0
				for {
					live := []int{}
					for k := range created {
						if pos[k] < len(hs[k].Ops) {
							live = append(live, k)
						}
					}
					sort.Ints(live)
					if len(pending) > 0 && (sinceCreate >= 1+c.R.Intn(4) || len(live) == 0) {
						k := pending[0]
						pending = pending[1:]
						bucket := "shared"
						if k == 3 {
							bucket = "alone"
						}
						in.Steps = append(in.Steps, MultiStep{Create: k, Bucket: bucket, Strict: hs[k].Strict, Features: feats[k], L: -1},
							MultiStep{Create: -1, L: -1, Reads: true})
						created[k] = true
						sinceCreate, sinceReads = 0, 0
						continue
					}
					if len(live) == 0 {
						break
					}
					k := live[c.R.Intn(len(live))]
					op := hs[k].Ops[pos[k]]
					pos[k]++
					in.Steps = append(in.Steps, MultiStep{Create: -1, L: k, Op: &op})
					sinceCreate++
					sinceReads++
					if sinceReads >= 6 {
						in.Steps = append(in.Steps, MultiStep{Create: -1, L: -1, Reads: true})
						sinceReads = 0
					}
				}
				in.Steps = append(in.Steps, MultiStep{Create: -1, L: -1, Reads: true})
				in.Steps = withBalanceProbes(c, in.Steps)
			}
			in.Prop = Prop
			out, err := RunMulti(in)
			if err != nil {
				return err
			}
			if err := c.Emit("multiledger", in, out); err != nil {
				return err
			}
		}
		return nil
	})
}
