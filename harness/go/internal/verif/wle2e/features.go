//go:build verif

package wle2e

import (
	"encoding/json"
	"fmt"
	"sort"

	"github.com/formancehq/ledger/internal/verif/gen"
	"github.com/formancehq/ledger/internal/verif/wlctrl"
)

// Workload "features" (C35 `features_preserve_core`): ONE history (drawn by builder-ctrl's
// ctrlhist generator) replayed on fresh ledgers created with different feature sets — all 48
// combinations of MOVES_HISTORY × MOVES_HISTORY_POST_COMMIT_EFFECTIVE_VOLUMES ×
// HASH_LOGS{SYNC,ASYNC,DISABLED} × ACCOUNT_METADATA_HISTORY × TRANSACTION_METADATA_HISTORY with
// -wide, a random dozen of them (always the all-on and the all-off set) otherwise — through the
// real DefaultController over the real SQL store on the modelled Postgres (LeanPG). Per set:
// what builder-ctrl's workloads observe after every op (response, call trace, sequences,
// snapshot delta of transactions / accounts / volumes / logs / schemas from LeanPG's dump), and
// the row counts of the DERIVED tables (moves, effective volumes, metadata histories, hashes).

var FeatureNames = []string{"MOVES_HISTORY", "MOVES_HISTORY_POST_COMMIT_EFFECTIVE_VOLUMES", "HASH_LOGS",
	"ACCOUNT_METADATA_HISTORY", "TRANSACTION_METADATA_HISTORY"}

func AllFeatureSets() []map[string]string {
	var ret []map[string]string
	for _, mh := range []string{"ON", "OFF"} {
		for _, pc := range []string{"SYNC", "DISABLED"} {
			for _, hl := range []string{"SYNC", "ASYNC", "DISABLED"} {
				for _, am := range []string{"SYNC", "DISABLED"} {
					for _, tm := range []string{"SYNC", "DISABLED"} {
						ret = append(ret, map[string]string{"MOVES_HISTORY": mh, "MOVES_HISTORY_POST_COMMIT_EFFECTIVE_VOLUMES": pc,
							"HASH_LOGS": hl, "ACCOUNT_METADATA_HISTORY": am, "TRANSACTION_METADATA_HISTORY": tm})
					}
				}
			}
		}
	}
	return ret
}

type FeatIn struct {
	Prop   string              `json:"prop,omitempty"`
	Strict bool                `json:"strict"`
	Ops    []wlctrl.Op         `json:"ops"`
	Sets   []map[string]string `json:"sets"`
}

// Derived: row counts of the tables a feature is documented to switch.
type Derived struct {
	Txs       int `json:"txs"`
	Postings  int `json:"postings"` // Σ postings over the transactions table
	Moves     int `json:"moves"`
	MovesPCEV int `json:"movesPcev"` // moves rows with post_commit_effective_volumes set
	Logs      int `json:"logs"`
	Hashes    int `json:"hashes"` // logs with a hash
	Accounts  int `json:"accounts"`
	AccHist   int `json:"accHist"` // accounts_metadata rows
	TxHist    int `json:"txHist"`  // transactions_metadata rows
	Blocks    int `json:"blocks"`
	// content digests of the derived tables (rows without their `ledger` column): a derived table
	// may depend on its own feature(s) only
	MovesDigest   string `json:"movesDigest"`
	HashesDigest  string `json:"hashesDigest"`
	AccHistDigest string `json:"accHistDigest"`
	TxHistDigest  string `json:"txHistDigest"`
}

func rowsDigest(rows []map[string]any, cols ...string) string {
	out := make([]map[string]any, 0, len(rows))
	for _, r := range rows {
		cp := map[string]any{}
		for k, v := range r {
			if k == "ledger" {
				continue
			}
			if len(cols) > 0 {
				keep := false
				for _, c := range cols {
					keep = keep || c == k
				}
				if !keep {
					continue
				}
			}
			cp[k] = v
		}
		out = append(out, cp)
	}
	b, _ := json.Marshal(out)
	return hashDump(b)
}

type FeatSetOut struct {
	Features map[string]string `json:"features"`
	Err      string            `json:"err,omitempty"` // ledger creation refused
	Ops      []wlctrl.OpOut    `json:"ops"`
	Derived  Derived           `json:"derived"`
}

type FeatOut struct {
	Sets []FeatSetOut `json:"sets"`
}

func rowsOf(d RawDump, suffix string) []map[string]any {
	for name, rows := range d {
		if len(name) > len(suffix) && name[len(name)-len(suffix)-1:] == "."+suffix && name[:8] != "_system." {
			if len(rows) > 0 {
				return rows
			}
		}
	}
	return nil
}

func derivedOf(d RawDump) Derived {
	var ret Derived
	txs := rowsOf(d, "transactions")
	ret.Txs = len(txs)
	for _, r := range txs {
		var ps []json.RawMessage
		_ = json.Unmarshal(dumpJSON(r["postings"]), &ps)
		ret.Postings += len(ps)
	}
	moves := rowsOf(d, "moves")
	ret.Moves = len(moves)
	for _, r := range moves {
		if r["post_commit_effective_volumes"] != nil {
			ret.MovesPCEV++
		}
	}
	logs := rowsOf(d, "logs")
	ret.Logs = len(logs)
	for _, r := range logs {
		if r["hash"] != nil {
			ret.Hashes++
		}
	}
	ret.Accounts = len(rowsOf(d, "accounts"))
	ret.AccHist = len(rowsOf(d, "accounts_metadata"))
	ret.TxHist = len(rowsOf(d, "transactions_metadata"))
	ret.Blocks = len(rowsOf(d, "logs_blocks"))
	ret.MovesDigest = rowsDigest(moves)
	ret.HashesDigest = rowsDigest(logs, "id", "hash")
	ret.AccHistDigest = rowsDigest(rowsOf(d, "accounts_metadata"))
	ret.TxHistDigest = rowsDigest(rowsOf(d, "transactions_metadata"))
	return ret
}

func RunFeatures(in FeatIn) (FeatOut, error) {
	b, err := backend(6)
	if err != nil {
		return FeatOut{}, err
	}
	var out FeatOut
	for _, set := range in.Sets {
		name := freshName("x")
		b.FeaturesOf[name] = set
		so := FeatSetOut{Features: set, Ops: []wlctrl.OpOut{}}
		var e *wlctrl.Env
		if p := gen.Guard(func() { e = wlctrl.NewEnv(b, name, in.Strict) }); p != "" {
			so.Err = p
			out.Sets = append(out.Sets, so)
			continue
		}
		for _, op := range in.Ops {
			so.Ops = append(so.Ops, e.Run(wlctrl.BaseCtx(), op))
			b.Quiesce()
		}
		d, _, err := b.RawDump(name)
		if err != nil {
			return out, err
		}
		so.Derived = derivedOf(d)
		out.Sets = append(out.Sets, so)
	}
	return out, nil
}

func setKey(m map[string]string) string {
	s := ""
	for _, k := range FeatureNames {
		s += m[k] + "/"
	}
	return s
}

func init() {
	gen.Register("features", func(c *gen.Ctx) error {
		defer closeBackend()
		ins, err := inputs(c, "features", "ctrlhist", 1)
		if err != nil {
			return err
		}
		all := AllFeatureSets()
		for _, raw := range ins {
			var in FeatIn
			if err := json.Unmarshal(raw, &in); err != nil {
				return err
			}
			if c.Replay == "" {
				if len(in.Ops) > 18 && !c.Wide {
					in.Ops = in.Ops[:18]
				}
				if c.Wide {
					in.Sets = all
				} else {
					// all-on, all-off, and ten more: every value of every feature appears in every case
					pick := map[string]map[string]string{}
					pick[setKey(all[0])] = all[0]
					pick[setKey(all[len(all)-1])] = all[len(all)-1]
					for len(pick) < 12 {
						s := all[c.R.Intn(len(all))]
						pick[setKey(s)] = s
					}
					keys := make([]string, 0, len(pick))
					for k := range pick {
						keys = append(keys, k)
					}
					sort.Strings(keys)
					in.Sets = nil
					for _, k := range keys {
						in.Sets = append(in.Sets, pick[k])
					}
				}
			}
			if len(in.Sets) == 0 {
				return fmt.Errorf("features: no feature set")
			}
			in.Prop = Prop
			out, err := RunFeatures(in)
			if err != nil {
				return err
			}
			if err := c.Emit("features", in, out); err != nil {
				return err
			}
		}
		return nil
	})
}
