//go:build verif

package wle2e

import (
	"bytes"
	"context"
	"encoding/base64"
	"encoding/json"
	"fmt"
	"io"
	"math/big"
	"net/http"
	"net/http/httptest"
	"os"
	"sort"
	"strings"
	"time"

	"github.com/formancehq/go-libs/v5/pkg/authn/jwt"
	"github.com/formancehq/go-libs/v5/pkg/types/metadata"

	ledger "github.com/formancehq/ledger/internal"
	"github.com/formancehq/ledger/internal/api"
	"github.com/formancehq/ledger/internal/api/bulking"
	ledgercontroller "github.com/formancehq/ledger/internal/controller/ledger"
	systemcontroller "github.com/formancehq/ledger/internal/controller/system"
	"github.com/formancehq/ledger/internal/storage/common"
	systemstore "github.com/formancehq/ledger/internal/storage/system"
	"github.com/formancehq/ledger/internal/verif/gen"
	_ "github.com/formancehq/ledger/internal/verif/wlapi" // builder-api's request generator (workload "http")
)

// Workload "httpe2e" (C38, no-effect leg): the REAL chi router (api.NewRouter, v1 + v2, every
// middleware) over the REAL system controller (state tracker, events wrapper with a recording
// listener, DefaultController, Numscript machine) over the real storage driver / SQL store on the
// MODELLED Postgres (LeanPG). The requests are builder-api's (its registered workload "http" is run
// into a buffer: every route once unmodified, then grammar-aware mutations); its scripted-controller
// fields (inject / missingLedger / outdated) have no meaning here and are ignored. For every request:
// LeanPG's dump of the three ledgers the generator names and the list of ledgers, before and after,
// and the events published.

type HTTPOut struct {
	Status    int    `json:"status"`
	ErrorCode string `json:"errorCode"`
	BodyHead  string `json:"bodyHead"`
	Panic     string `json:"panic,omitempty"`
	Timeout   bool   `json:"timeout,omitempty"`
	// Changed: "<ledger>:<table>" whose dump differs after the request; "_system:ledgers" when the ledger list does
	Changed []string `json:"changed"`
	Events  []string `json:"events"`
}

type httpEnv struct {
	b       *Backend
	sys     *systemcontroller.DefaultController
	lis     *recListener
	router  http.Handler
	ledgers []string
	n       int
}

var theHTTPEnv *httpEnv

func ledgerList(b *Backend) string {
	cur, err := b.Sys.Ledgers().Paginate(context.Background(), common.InitialPaginatedQuery[systemstore.ListLedgersQueryPayload]{PageSize: 200})
	if err != nil {
		return "error:" + err.Error()
	}
	rows := []string{}
	for _, l := range cur.Data {
		md, _ := json.Marshal(l.Metadata)
		rows = append(rows, fmt.Sprintf("%s|%s|%s|%s", l.Name, l.Bucket, l.State, md))
	}
	sort.Strings(rows)
	return strings.Join(rows, "\n")
}

func newHTTPEnv() (*httpEnv, error) {
	b, err := Start()
	if err != nil {
		return nil, err
	}
	e := &httpEnv{b: b, lis: &recListener{}, ledgers: []string{"l1", "default", "my-ledger_2"}}
	parser := ledgercontroller.NewDefaultNumscriptParser()
	e.sys = systemcontroller.NewDefaultController(
		systemcontroller.NewControllerStorageDriverAdapter(b.Drv, b.Sys), e.lis, nil,
		systemcontroller.WithParser(parser, parser, ledgercontroller.NewInterpreterNumscriptParser(nil)),
		systemcontroller.WithEnableFeatures(true),
	)
	ctx := context.Background()
	for i, name := range e.ledgers {
		cfg := ledger.NewDefaultConfiguration()
		if i == 2 {
			cfg.Bucket = "b2"
		}
		if err := e.sys.CreateLedger(ctx, name, cfg); err != nil {
			return nil, fmt.Errorf("CreateLedger %s: %w", name, err)
		}
		ctrl, err := e.sys.GetLedgerController(ctx, name)
		if err != nil {
			return nil, err
		}
		// a little history: transactions 1..3, account metadata, one revert
		for k, p := range []ledger.Posting{
			ledger.NewPosting("world", "bank", "USD/2", big.NewInt(1000)),
			ledger.NewPosting("bank", "users:001", "USD/2", big.NewInt(100)),
			ledger.NewPosting("world", "a:b:c", "EUR", big.NewInt(int64(7+i))),
		} {
			_, _, _, err := ctrl.CreateTransaction(ctx, ledgercontroller.Parameters[ledgercontroller.CreateTransaction]{
				Input: ledgercontroller.CreateTransaction{RunScript: ledgercontroller.TxToScriptData(ledger.TransactionData{
					Postings: ledger.Postings{p}, Metadata: metadata.Metadata{"k1": fmt.Sprint(k)}}, false)}})
			if err != nil {
				return nil, fmt.Errorf("seeding %s: %w", name, err)
			}
		}
		if _, _, err := ctrl.SaveAccountMetadata(ctx, ledgercontroller.Parameters[ledgercontroller.SaveAccountMetadata]{
			Input: ledgercontroller.SaveAccountMetadata{Address: "users:001", Metadata: metadata.Metadata{"role": "vip", "k1": "v"}}}); err != nil {
			return nil, err
		}
	}
	e.lis.take()
	e.router = api.NewRouter(e.sys, jwt.NewNoAuth(), nil, "verif", os.Getenv("VERIF_HTTP_DEBUG") != "",
		api.WithBulkerFactory(bulking.NewDefaultBulkerFactory(bulking.WithParallelism(1))))
	return e, nil
}

type httpReq struct {
	Method   string            `json:"method"`
	Path     string            `json:"path"`
	Query    string            `json:"query"`
	Headers  map[string]string `json:"headers,omitempty"`
	Body     string            `json:"body,omitempty"`
	BodyB64  string            `json:"bodyB64,omitempty"`
	NoLength bool              `json:"noLength,omitempty"`
}

func (e *httpEnv) snapshot() (map[string]RawDump, string, error) {
	ret := map[string]RawDump{}
	for _, l := range e.ledgers {
		d, _, err := e.b.RawDump(l)
		if err != nil {
			return nil, "", err
		}
		ret[l] = d
	}
	return ret, ledgerList(e.b), nil
}

func (e *httpEnv) run(raw json.RawMessage) (HTTPOut, error) {
	var in httpReq
	out := HTTPOut{Changed: []string{}, Events: []string{}}
	if err := json.Unmarshal(raw, &in); err != nil {
		return out, err
	}
	before, lbefore, err := e.snapshot()
	if err != nil {
		return out, err
	}
	e.lis.take()
	body := []byte(in.Body)
	if in.BodyB64 != "" {
		body, _ = base64.StdEncoding.DecodeString(in.BodyB64)
	}
	ctx, cancel := context.WithCancel(context.Background())
	done := make(chan struct{})
	var rec *httptest.ResponseRecorder
	go func() {
		defer close(done)
		out.Panic = gen.Guard(func() {
			target := in.Path
			if in.Query != "" {
				target += "?" + in.Query
			}
			var rd io.Reader
			if len(body) > 0 || in.NoLength {
				rd = bytes.NewReader(body)
			}
			req, err := http.NewRequestWithContext(ctx, in.Method, "http://ledger.test"+target, rd)
			if err != nil {
				out.Status = -1
				out.BodyHead = err.Error()
				return
			}
			req.RequestURI = target
			if req.Body == nil {
				req.Body = http.NoBody
			}
			for k, v := range in.Headers {
				req.Header.Set(k, v)
			}
			if in.NoLength {
				req.ContentLength = -1
			}
			rec = httptest.NewRecorder()
			e.router.ServeHTTP(rec, req)
		})
	}()
	select {
	case <-done:
	case <-time.After(20 * time.Second):
		out.Timeout = true
		cancel()
		select {
		case <-done:
		case <-time.After(3 * time.Second):
		}
	}
	cancel()
	e.b.Quiesce()
	if rec != nil && !out.Timeout {
		out.Status = rec.Code
		bts := rec.Body.Bytes()
		var parsed map[string]any
		if json.Unmarshal(bts, &parsed) == nil {
			if s, ok := parsed["errorCode"].(string); ok {
				out.ErrorCode = s
			}
		}
		head := string(bts)
		if len(head) > 200 {
			head = head[:200]
		}
		out.BodyHead = strings.ToValidUTF8(head, "?")
	}
	after, lafter, err := e.snapshot()
	if err != nil {
		return out, err
	}
	for _, l := range e.ledgers {
		for _, t := range changedTables(before[l], after[l]) {
			out.Changed = append(out.Changed, l+":"+t)
		}
	}
	if lbefore != lafter {
		out.Changed = append(out.Changed, "_system:ledgers")
	}
	out.Events = e.lis.take()
	return out, nil
}

// directedRequests: requests that make progress before they fail — a valid element / posting /
// statement first, then the invalid one — so that "no effect" is not vacuous: the work already
// done must be rolled back and its events dropped.
func directedRequests(round string) []json.RawMessage {
	mkx := func(name, route, method, path, query, body, expect string) json.RawMessage {
		b, _ := json.Marshal(map[string]any{"route": route, "method": method, "path": path, "query": query, "body": body,
			"headers": map[string]string{"Content-Type": "application/json"}, "mut": "directed:" + name, "expect": expect})
		return b
	}
	mk := func(name, route, method, path, query, body string) json.RawMessage {
		return mkx(name, route, method, path, query, body, "4xx")
	}
	okTx := `{"action":"CREATE_TRANSACTION","data":{"postings":[{"source":"world","destination":"bank","amount":5,"asset":"USD/2"}],"metadata":{"d":"1"}}}`
	okMeta := `{"action":"ADD_METADATA","data":{"targetType":"ACCOUNT","targetId":"users:001","metadata":{"directed":"x"}}}`
	poor := `{"action":"CREATE_TRANSACTION","data":{"postings":[{"source":"users:002","destination":"bank","amount":999999,"asset":"USD/2"}]}}`
	var ret []json.RawMessage
	for _, l := range []string{"l1", "my-ledger_2"} {
		bulk := "v2 POST /{ledger}/_bulk"
		ret = append(ret,
			mk("atomic-bulk:ok+insufficient-funds", bulk, "POST", "/v2/"+l+"/_bulk", "atomic=true", "["+okTx+","+okMeta+","+poor+"]"),
			mk("atomic-bulk:ok+unknown-action", bulk, "POST", "/v2/"+l+"/_bulk", "atomic=true", "["+okTx+`,{"action":"NOPE","data":{}}]`),
			mk("atomic-bulk:ok+bad-target", bulk, "POST", "/v2/"+l+"/_bulk", "atomic=1", "["+okMeta+`,{"action":"ADD_METADATA","data":{"targetType":"TRANSACTION","targetId":"abc","metadata":{}}}]`),
			mk("atomic-bulk:ok+missing-tx", bulk, "POST", "/v2/"+l+"/_bulk", "atomic=true", "["+okTx+`,{"action":"REVERT_TRANSACTION","data":{"id":99999}}]`),
			mk("script:send+insufficient", "v2 POST /{ledger}/transactions", "POST", "/v2/"+l+"/transactions", "",
				`{"script":{"plain":"send [USD/2 1] (\n source = @world\n destination = @bank\n)\nsend [USD/2 999999] (\n source = @users:002\n destination = @bank\n)"}}`),
			mk("postings:ok+overdraft", "v2 POST /{ledger}/transactions", "POST", "/v2/"+l+"/transactions", "",
				`{"postings":[{"source":"world","destination":"bank","amount":1,"asset":"EUR"},{"source":"users:002","destination":"bank","amount":999999,"asset":"EUR"}]}`),
			mk("v1-batch:ok+overdraft", "v1 POST /{ledger}/transactions/batch", "POST", "/"+l+"/transactions/batch", "",
				`{"transactions":[{"postings":[{"source":"world","destination":"bank","amount":1,"asset":"EUR"}]},{"postings":[{"source":"users:002","destination":"bank","amount":999999,"asset":"EUR"}]}]}`),
		)
		// C14 through the APIs: a reference used by a v1 postings-form create is refused (409 CONFLICT) to every
		// later create that reuses it — v1 postings form, v1 script form, v2, bulk element
		v1 := "v1 POST /{ledger}/transactions"
		for i, form := range []string{"v1p", "v1s", "v2", "bulk"} {
			ref := fmt.Sprintf("dir-%s-%s-%d", round, form, i)
			first := fmt.Sprintf(`{"postings":[{"source":"world","destination":"bank","amount":%d,"asset":"EUR"}],"reference":%q}`, 3+i, ref)
			ret = append(ret, mkx("v1-reference:first:"+form, v1, "POST", "/"+l+"/transactions", "", first, "2xx"))
			switch form {
			case "v1p":
				ret = append(ret, mkx("v1-reference:reuse:v1-postings", v1, "POST", "/"+l+"/transactions", "", first, "409"))
			case "v1s":
				ret = append(ret, mkx("v1-reference:reuse:v1-script", v1, "POST", "/"+l+"/transactions", "",
					fmt.Sprintf(`{"script":{"plain":"send [EUR 1] (\n source = @world\n destination = @bank\n)"},"reference":%q}`, ref), "409"))
			case "v2":
				ret = append(ret, mkx("v1-reference:reuse:v2", "v2 POST /{ledger}/transactions", "POST", "/v2/"+l+"/transactions", "", first, "409"))
			case "bulk":
				ret = append(ret, mkx("v1-reference:reuse:bulk", bulk, "POST", "/v2/"+l+"/_bulk", "atomic=true",
					fmt.Sprintf(`[{"action":"CREATE_TRANSACTION","data":%s}]`, first), "4xx"))
			}
		}
	}
	return ret
}

func init() {
	gen.Register("httpe2e", func(c *gen.Ctx) error {
		defer func() {
			if theHTTPEnv != nil {
				theHTTPEnv.b.Close()
				theHTTPEnv = nil
			}
			RemovePrivateLpg()
		}()
		ins, err := func() ([]json.RawMessage, error) {
			if c.Replay != "" {
				return c.ReplayInputs("httpe2e")
			}
			ins, err := drawBatch(c, "http", c.N)
			if err != nil {
				return nil, err
			}
			// the directed requests run twice: on the fresh ledgers and after the mutated traffic
			all := append(directedRequests("a"), ins...)
			return append(all, directedRequests("b")...), nil
		}()
		if err != nil {
			return err
		}
		for _, raw := range ins {
			// (a fresh LeanPG every 400 requests, never in the middle of the directed requests: some are pairs)
			if theHTTPEnv == nil || (theHTTPEnv.n >= 400 && !bytes.Contains(raw, []byte(`"mut":"directed:`))) {
				if theHTTPEnv != nil {
					theHTTPEnv.b.Close()
				}
				if theHTTPEnv, err = newHTTPEnv(); err != nil {
					return err
				}
			}
			theHTTPEnv.n++
			out, err := theHTTPEnv.run(raw)
			if err != nil {
				return err
			}
			if err := c.Emit("httpe2e", raw, out); err != nil {
				return err
			}
		}
		return nil
	})
}
