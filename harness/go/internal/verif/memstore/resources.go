//go:build verif

package memstore

import (
	"context"
	"errors"
	"fmt"
	"math/big"
	"sort"

	"github.com/formancehq/go-libs/v5/pkg/query"
	"github.com/formancehq/go-libs/v5/pkg/storage/bun/paginate"
	"github.com/formancehq/go-libs/v5/pkg/storage/postgres"

	ledger "github.com/formancehq/ledger/internal"
	"github.com/formancehq/ledger/internal/storage/common"
)

// The resource accessors the controller uses on the write / import / export
// paths: Accounts().GetOne (Numscript `meta()`), Logs().Paginate (Import's
// emptiness check, Export), Transactions().GetOne. Filters: `$match` on the
// primary key only. Everything else answers errUnsupported.

var errUnsupported = errors.New("memstore: unsupported query")

func matchValue(b query.Builder, key string) (any, bool, error) {
	if b == nil {
		return nil, false, nil
	}
	var (
		val   any
		found bool
	)
	err := b.Walk(func(operator, k string, value *any) error {
		if k != key || operator != "$match" || found {
			return fmt.Errorf("%w: %s %s", errUnsupported, operator, k)
		}
		found = true
		val = *value
		return nil
	})
	return val, found, err
}

// ---- accounts ------------------------------------------------------------------

type accountsRes struct{ s *Store }

func (s *Store) Accounts() common.PaginatedResource[ledger.Account, any] { return accountsRes{s} }

func (r accountsRes) sorted(t *tables) []ledger.Account {
	addrs := make([]string, 0, len(t.Accounts))
	for a := range t.Accounts {
		addrs = append(addrs, a)
	}
	sort.Strings(addrs)
	ret := make([]ledger.Account, 0, len(addrs))
	for _, a := range addrs {
		ret = append(ret, *copyAccount(t.Accounts[a]))
	}
	return ret
}

func (r accountsRes) GetOne(ctx context.Context, q common.ResourceQuery[any]) (ret *ledger.Account, err error) {
	v, found, werr := matchValue(q.Builder, "address")
	addr, _ := v.(string)
	err = r.s.stmt(ctx, "Accounts.GetOne", addr, func(t *tables) error {
		if werr != nil {
			return werr
		}
		if !found || q.UsePIT() || q.UseOOT() {
			return errUnsupported
		}
		a, ok := t.Accounts[addr]
		if !ok {
			return postgres.ErrNotFound
		}
		ret = copyAccount(a)
		return nil
	})
	return ret, err
}

func (r accountsRes) Count(ctx context.Context, q common.ResourceQuery[any]) (n int, err error) {
	err = r.s.stmt(ctx, "Accounts.Count", "", func(t *tables) error {
		if q.Builder != nil {
			return errUnsupported
		}
		n = len(t.Accounts)
		return nil
	})
	return n, err
}

func (r accountsRes) Paginate(ctx context.Context, _ common.PaginatedQuery[any]) (ret *paginate.Cursor[ledger.Account], err error) {
	err = r.s.stmt(ctx, "Accounts.Paginate", "", func(t *tables) error {
		data := r.sorted(t)
		ret = &paginate.Cursor[ledger.Account]{PageSize: len(data), Data: data}
		return nil
	})
	return ret, err
}

// ---- transactions ----------------------------------------------------------------

type transactionsRes struct{ s *Store }

func (s *Store) Transactions() common.PaginatedResource[ledger.Transaction, any] {
	return transactionsRes{s}
}

func toUint64(v any) (uint64, bool) {
	switch x := v.(type) {
	case uint64:
		return x, true
	case int:
		return uint64(x), x >= 0
	case int64:
		return uint64(x), x >= 0
	case float64:
		return uint64(x), x >= 0
	case *big.Int:
		return x.Uint64(), x.IsUint64()
	}
	return 0, false
}

func (r transactionsRes) GetOne(ctx context.Context, q common.ResourceQuery[any]) (ret *ledger.Transaction, err error) {
	v, found, werr := matchValue(q.Builder, "id")
	id, ok := toUint64(v)
	err = r.s.stmt(ctx, "Transactions.GetOne", fmt.Sprint(id), func(t *tables) error {
		if werr != nil {
			return werr
		}
		if !found || !ok || q.UsePIT() || q.UseOOT() {
			return errUnsupported
		}
		row, has := t.Txs[id]
		if !has {
			return postgres.ErrNotFound
		}
		ret = copyTx(row)
		return nil
	})
	return ret, err
}

func (r transactionsRes) Count(ctx context.Context, q common.ResourceQuery[any]) (n int, err error) {
	err = r.s.stmt(ctx, "Transactions.Count", "", func(t *tables) error {
		if q.Builder != nil {
			return errUnsupported
		}
		n = len(t.Txs)
		return nil
	})
	return n, err
}

func (r transactionsRes) Paginate(ctx context.Context, _ common.PaginatedQuery[any]) (ret *paginate.Cursor[ledger.Transaction], err error) {
	err = r.s.stmt(ctx, "Transactions.Paginate", "", func(t *tables) error {
		data := make([]ledger.Transaction, 0, len(t.TxOrder))
		for i := len(t.TxOrder) - 1; i >= 0; i-- {
			data = append(data, *copyTx(t.Txs[t.TxOrder[i]]))
		}
		ret = &paginate.Cursor[ledger.Transaction]{PageSize: len(data), Data: data}
		return nil
	})
	return ret, err
}

// ---- logs ------------------------------------------------------------------------

type logsRes struct{ s *Store }

func (s *Store) Logs() common.PaginatedResource[ledger.Log, any] { return logsRes{s} }

func (r logsRes) GetOne(ctx context.Context, q common.ResourceQuery[any]) (ret *ledger.Log, err error) {
	v, found, werr := matchValue(q.Builder, "id")
	id, ok := toUint64(v)
	err = r.s.stmt(ctx, "Logs.GetOne", fmt.Sprint(id), func(t *tables) error {
		if werr != nil {
			return werr
		}
		if !found || !ok {
			return errUnsupported
		}
		for _, l := range t.Logs {
			if l.ID == id {
				var e error
				ret, e = l.toCore()
				return e
			}
		}
		return postgres.ErrNotFound
	})
	return ret, err
}

func (r logsRes) Count(ctx context.Context, q common.ResourceQuery[any]) (n int, err error) {
	err = r.s.stmt(ctx, "Logs.Count", "", func(t *tables) error {
		if q.Builder != nil {
			return errUnsupported
		}
		n = len(t.Logs)
		return nil
	})
	return n, err
}

// Paginate: column pagination on `id` exactly like common.columnPaginator for
// the forward direction (the only one Import/Export use): pageSize+1 rows are
// fetched from PaginationID on, the extra row's id becomes the next cursor.
func (r logsRes) Paginate(ctx context.Context, pq common.PaginatedQuery[any]) (ret *paginate.Cursor[ledger.Log], err error) {
	var cq common.ColumnPaginatedQuery[any]
	switch v := any(pq).(type) {
	case common.InitialPaginatedQuery[any]:
		cq = common.ColumnPaginatedQuery[any]{InitialPaginatedQuery: v}
	case common.ColumnPaginatedQuery[any]:
		cq = v
	default:
		idx, e := r.s.enter(ctx, "Logs.Paginate", "")
		if e == nil {
			e = errUnsupported
		}
		return nil, r.s.fail(idx, e)
	}
	if cq.Column == "" {
		cq.Column = "id"
	}
	if cq.Order == nil {
		o := paginate.Order(paginate.OrderDesc)
		cq.Order = &o
	}
	if cq.PageSize == 0 {
		cq.PageSize = paginate.QueryDefaultPageSize
	}
	args := fmt.Sprintf("%s size=%d", cq.Order.String(), cq.PageSize)
	if cq.PaginationID != nil {
		args += " from=" + cq.PaginationID.String()
	}
	err = r.s.stmt(ctx, "Logs.Paginate", args, func(t *tables) error {
		if cq.Column != "id" || cq.Reverse || cq.Options.Builder != nil {
			return errUnsupported
		}
		asc := *cq.Order == paginate.OrderAsc
		rows := t.sortedLogs(asc)
		sel := make([]*logRow, 0)
		for _, l := range rows {
			if cq.PaginationID != nil {
				pid := cq.PaginationID.Uint64()
				if (asc && l.ID < pid) || (!asc && l.ID > pid) {
					continue
				}
			}
			sel = append(sel, l)
			if uint64(len(sel)) == cq.PageSize+1 {
				break
			}
		}
		cur := &paginate.Cursor[ledger.Log]{PageSize: int(cq.PageSize)}
		if uint64(len(sel)) > cq.PageSize {
			next := cq
			next.PaginationID = new(big.Int).SetUint64(sel[len(sel)-1].ID)
			if next.Bottom == nil {
				next.Bottom = new(big.Int).SetUint64(sel[0].ID)
			}
			cur.HasMore = true
			cur.Next = paginate.EncodeCursor(&next)
			sel = sel[:len(sel)-1]
		}
		for _, l := range sel {
			core, e := l.toCore()
			if e != nil {
				return e
			}
			cur.Data = append(cur.Data, *core)
		}
		ret = cur
		return nil
	})
	return ret, err
}

// ---- not needed by the write / import / export paths -------------------------------

type aggRes struct{ s *Store }

func (s *Store) AggregatedBalances() common.Resource[ledger.AggregatedVolumes, ledger.GetAggregatedVolumesOptions] {
	return aggRes{s}
}
func (r aggRes) GetOne(ctx context.Context, _ common.ResourceQuery[ledger.GetAggregatedVolumesOptions]) (*ledger.AggregatedVolumes, error) {
	return nil, errUnsupported
}
func (r aggRes) Count(ctx context.Context, _ common.ResourceQuery[ledger.GetAggregatedVolumesOptions]) (int, error) {
	return 0, errUnsupported
}

type volRes struct{ s *Store }

func (s *Store) Volumes() common.PaginatedResource[ledger.VolumesWithBalanceByAssetByAccount, ledger.GetVolumesOptions] {
	return volRes{s}
}
func (r volRes) GetOne(ctx context.Context, _ common.ResourceQuery[ledger.GetVolumesOptions]) (*ledger.VolumesWithBalanceByAssetByAccount, error) {
	return nil, errUnsupported
}
func (r volRes) Count(ctx context.Context, _ common.ResourceQuery[ledger.GetVolumesOptions]) (int, error) {
	return 0, errUnsupported
}
func (r volRes) Paginate(ctx context.Context, _ common.PaginatedQuery[ledger.GetVolumesOptions]) (*paginate.Cursor[ledger.VolumesWithBalanceByAssetByAccount], error) {
	return nil, errUnsupported
}
