//go:build verif

// Package memstore is an in-memory implementation of the controller's `Store`
// interface (internal/controller/ledger/store.go). It IS the store contract the
// controller layer is verified against: every method does, on plain Go maps,
// what the corresponding SQL statement of internal/storage/ledger does on the
// bucket tables (the SQL itself is out of scope of this layer and is tied to the
// same contract separately, over LeanPG).
//
// tables.go: the tables and the contract of each statement as a function on
// `*tables` (no transaction handling, no faults — see store.go).
package memstore

import (
	"encoding/json"
	"fmt"
	"math/big"
	"sort"
	"time"

	"github.com/jackc/pgx/v5/pgconn"

	"github.com/formancehq/go-libs/v5/pkg/storage/postgres"
	"github.com/formancehq/go-libs/v5/pkg/types/metadata"
	libtime "github.com/formancehq/go-libs/v5/pkg/types/time"

	ledger "github.com/formancehq/ledger/internal"
	ledgerstore "github.com/formancehq/ledger/internal/storage/ledger"
)

type volKey struct{ Account, Asset string }

type logRow struct {
	ID            uint64
	Type          ledger.LogType
	Data          []byte // jsonb `data` column: json.Marshal(log.Data)
	Date          libtime.Time
	IK            string
	IHash         string
	SchemaVersion string
}

type schemaRow struct {
	Version   string
	CreatedAt libtime.Time
	Data      []byte // json.Marshal(SchemaData) — chart/transactions/queries jsonb columns
}

// tables is the content of one ledger (the rows with `ledger = <name>`).
type tables struct {
	Txs      map[uint64]*ledger.Transaction
	TxOrder  []uint64 // insertion order
	Accounts map[string]*ledger.Account
	Volumes  map[volKey]ledger.Volumes
	Logs     []*logRow // insertion order
	Schemas  []*schemaRow
}

func newTables() *tables {
	return &tables{
		Txs:      map[uint64]*ledger.Transaction{},
		Accounts: map[string]*ledger.Account{},
		Volumes:  map[volKey]ledger.Volumes{},
	}
}

func copyMeta(m metadata.Metadata) metadata.Metadata {
	if m == nil {
		return nil
	}
	return m.Copy()
}

func copyBig(b *big.Int) *big.Int {
	if b == nil {
		return nil
	}
	return new(big.Int).Set(b)
}

func copyTx(t *ledger.Transaction) *ledger.Transaction {
	cp := *t
	cp.Postings = make(ledger.Postings, len(t.Postings))
	for i, p := range t.Postings {
		p.Amount = copyBig(p.Amount)
		cp.Postings[i] = p
	}
	cp.Metadata = copyMeta(t.Metadata)
	if t.ID != nil {
		id := *t.ID
		cp.ID = &id
	}
	if t.RevertedAt != nil {
		r := *t.RevertedAt
		cp.RevertedAt = &r
	}
	if t.PostCommitVolumes != nil {
		cp.PostCommitVolumes = t.PostCommitVolumes.Copy()
	}
	if t.PostCommitEffectiveVolumes != nil {
		cp.PostCommitEffectiveVolumes = t.PostCommitEffectiveVolumes.Copy()
	}
	return &cp
}

func copyAccount(a *ledger.Account) *ledger.Account {
	cp := *a
	cp.Metadata = copyMeta(a.Metadata)
	return &cp
}

func (t *tables) clone() *tables {
	c := newTables()
	for id, tx := range t.Txs {
		c.Txs[id] = copyTx(tx)
	}
	c.TxOrder = append([]uint64(nil), t.TxOrder...)
	for a, acc := range t.Accounts {
		c.Accounts[a] = copyAccount(acc)
	}
	for k, v := range t.Volumes {
		c.Volumes[k] = v.Copy()
	}
	for _, l := range t.Logs {
		cp := *l
		cp.Data = append([]byte(nil), l.Data...)
		c.Logs = append(c.Logs, &cp)
	}
	for _, s := range t.Schemas {
		cp := *s
		cp.Data = append([]byte(nil), s.Data...)
		c.Schemas = append(c.Schemas, &cp)
	}
	return c
}

// seqs are the per-ledger sequences `transaction_id_<id>` / `log_id_<id>`:
// non-transactional (a rolled-back nextval leaves a gap).
type seqs struct {
	Tx  uint64
	Log uint64
}

func uniqueViolation(constraint string) error {
	return postgres.ResolveError(&pgconn.PgError{
		Code: "23505", ConstraintName: constraint,
		Message: "duplicate key value violates unique constraint \"" + constraint + "\"",
	})
}

// metaContains: jsonb `a @> d` on flat string maps.
func metaContains(a, d metadata.Metadata) bool {
	for k, v := range d {
		if av, ok := a[k]; !ok || av != v {
			return false
		}
	}
	return true
}

// metaConcat: jsonb `a || d` (right side wins).
func metaConcat(a, d metadata.Metadata) metadata.Metadata {
	ret := metadata.Metadata{}
	for k, v := range a {
		ret[k] = v
	}
	for k, v := range d {
		ret[k] = v
	}
	return ret
}

// ---- accounts_volumes --------------------------------------------------------

// getBalances: `INSERT … (0,0) ON CONFLICT DO NOTHING` + `SELECT … FOR UPDATE`.
func (t *tables) getBalances(q ledgerstore.BalanceQuery) ledger.Balances {
	ret := ledger.Balances{}
	for account, assets := range q {
		if _, ok := ret[account]; !ok {
			ret[account] = map[string]*big.Int{}
		}
		for _, asset := range assets {
			k := volKey{account, asset}
			v, ok := t.Volumes[k]
			if !ok {
				v = ledger.NewEmptyVolumes()
				t.Volumes[k] = v
			}
			ret[account][asset] = new(big.Int).Sub(v.Input, v.Output)
		}
	}
	return ret
}

// updateVolumes: upsert adding input/output; returns the post-update totals of
// the touched rows.
func (t *tables) updateVolumes(ups []ledger.AccountsVolumes) ledger.PostCommitVolumes {
	ret := ledger.PostCommitVolumes{}
	for _, u := range ups {
		k := volKey{u.Account, u.Asset}
		v, ok := t.Volumes[k]
		if !ok {
			v = ledger.NewEmptyVolumes()
		} else {
			v = v.Copy()
		}
		v.Input.Add(v.Input, u.Input)
		v.Output.Add(v.Output, u.Output)
		t.Volumes[k] = v
		if _, ok := ret[u.Account]; !ok {
			ret[u.Account] = ledger.VolumesByAssets{}
		}
		ret[u.Account][u.Asset] = v.Copy()
	}
	return ret
}

// ---- transactions ------------------------------------------------------------

// insertTransaction: id from the sequence when nil; timestamp / inserted_at
// default to transaction_date(); updated_at defaults to inserted_at (trigger
// set_transaction_updated_at); partial unique index on reference; unique (ledger,id).
// RETURNING id, timestamp, inserted_at, updated_at is written back into tx.
func (t *tables) insertTransaction(sq *seqs, now libtime.Time, tx *ledger.Transaction) error {
	row := copyTx(tx)
	if row.ID == nil {
		sq.Tx++ // nextval is evaluated before any constraint is checked
		id := sq.Tx
		row.ID = &id
	}
	if row.Timestamp.IsZero() {
		row.Timestamp = now
	}
	if row.InsertedAt.IsZero() {
		row.InsertedAt = now
	}
	if row.UpdatedAt.IsZero() {
		row.UpdatedAt = row.InsertedAt
	}
	if row.Metadata == nil {
		row.Metadata = metadata.Metadata{}
	}
	if _, dup := t.Txs[*row.ID]; dup {
		return ledgerstore.NewErrConcurrentTransaction(*row.ID)
	}
	if row.Reference != "" {
		for _, other := range t.Txs {
			if other.Reference == row.Reference {
				return ledgerstore.NewErrTransactionReferenceConflict(row.Reference)
			}
		}
	}
	row.PostCommitEffectiveVolumes = nil // scan-only column
	t.Txs[*row.ID] = row
	t.TxOrder = append(t.TxOrder, *row.ID)
	id := *row.ID
	tx.ID = &id
	tx.Timestamp = row.Timestamp
	tx.InsertedAt = row.InsertedAt
	tx.UpdatedAt = row.UpdatedAt
	return nil
}

// revertTransaction: `UPDATE … SET reverted_at, updated_at WHERE id AND reverted_at IS NULL
// RETURNING *` unioned with the plain row.
func (t *tables) revertTransaction(now libtime.Time, id uint64, at libtime.Time) (*ledger.Transaction, bool, error) {
	row, ok := t.Txs[id]
	if !ok {
		return nil, false, postgres.ErrNotFound
	}
	if row.RevertedAt != nil {
		return copyTx(row), false, nil
	}
	d := at
	if d.IsZero() {
		d = now
	}
	row.RevertedAt = &d
	row.UpdatedAt = d
	return copyTx(row), true, nil
}

func (t *tables) updateTransactionMetadata(now libtime.Time, id uint64, m metadata.Metadata, at libtime.Time) (*ledger.Transaction, bool, error) {
	row, ok := t.Txs[id]
	if !ok {
		return nil, false, postgres.ErrNotFound
	}
	if metaContains(row.Metadata, m) {
		return copyTx(row), false, nil
	}
	row.Metadata = metaConcat(row.Metadata, m)
	if at.IsZero() {
		row.UpdatedAt = now
	} else {
		row.UpdatedAt = at
	}
	return copyTx(row), true, nil
}

func (t *tables) deleteTransactionMetadata(now libtime.Time, id uint64, key string, at libtime.Time) (*ledger.Transaction, bool, error) {
	row, ok := t.Txs[id]
	if !ok {
		return nil, false, postgres.ErrNotFound
	}
	if _, has := row.Metadata[key]; !has {
		return copyTx(row), false, nil
	}
	delete(row.Metadata, key)
	if at.IsZero() {
		row.UpdatedAt = now
	} else {
		row.UpdatedAt = at
	}
	return copyTx(row), true, nil
}

// ---- accounts ----------------------------------------------------------------

// upsertAccounts: the CTE of Store.UpsertAccounts. Zero times are SQL NULL
// (`nullzero`): LEAST ignores them, COALESCE replaces them by transaction_date().
// Existing row: updated only when first_usage is lowered or the explicit metadata
// is not contained; chart defaults are NOT applied. New row: default || explicit.
// Rows returned by the statement are written back into the arguments.
func (t *tables) upsertAccounts(now libtime.Time, accounts []ledger.AccountWithDefaultMetadata) {
	type change struct {
		idx int
		row *ledger.Account
	}
	var changes []change
	for i, from := range accounts {
		md := from.Metadata
		if md == nil {
			md = metadata.Metadata{}
		}
		def := from.DefaultMetadata
		if def == nil {
			def = metadata.Metadata{}
		}
		if a, ok := t.Accounts[from.Address]; ok {
			lower := !from.FirstUsage.IsZero() && from.FirstUsage.Before(a.FirstUsage)
			if lower || !metaContains(a.Metadata, md) {
				row := copyAccount(a)
				row.Metadata = metaConcat(a.Metadata, md)
				if lower {
					row.FirstUsage = from.FirstUsage
				}
				if from.UpdatedAt.IsZero() {
					row.UpdatedAt = now
				} else {
					row.UpdatedAt = from.UpdatedAt
				}
				changes = append(changes, change{i, row})
			}
			continue
		}
		row := &ledger.Account{Address: from.Address, Metadata: metaConcat(def, md)}
		row.FirstUsage, row.UpdatedAt, row.InsertionDate = from.FirstUsage, from.UpdatedAt, from.InsertionDate
		if row.FirstUsage.IsZero() {
			row.FirstUsage = now
		}
		if row.UpdatedAt.IsZero() {
			row.UpdatedAt = now
		}
		if row.InsertionDate.IsZero() {
			row.InsertionDate = now
		}
		changes = append(changes, change{i, row})
	}
	for _, c := range changes {
		t.Accounts[c.row.Address] = c.row
		accounts[c.idx].Metadata = copyMeta(c.row.Metadata)
		accounts[c.idx].FirstUsage = c.row.FirstUsage
		accounts[c.idx].InsertionDate = c.row.InsertionDate
		accounts[c.idx].UpdatedAt = c.row.UpdatedAt
	}
}

// updateAccountsMetadata: `INSERT … ON CONFLICT (ledger,address) DO UPDATE SET
// metadata = accounts.metadata || excluded.metadata, updated_at = excluded.updated_at,
// first_usage = least(...) WHERE NOT accounts.metadata @> excluded.metadata`.
func (t *tables) updateAccountsMetadata(now libtime.Time, m map[string]metadata.Metadata, at libtime.Time) {
	d := at
	if d.IsZero() {
		d = now
	}
	for address, md := range m {
		if md == nil {
			md = metadata.Metadata{}
		}
		if a, ok := t.Accounts[address]; ok {
			if metaContains(a.Metadata, md) {
				continue
			}
			a.Metadata = metaConcat(a.Metadata, md)
			a.UpdatedAt = d
			if d.Before(a.FirstUsage) {
				a.FirstUsage = d
			}
			continue
		}
		t.Accounts[address] = &ledger.Account{
			Address: address, Metadata: metaConcat(nil, md),
			FirstUsage: d, InsertionDate: d, UpdatedAt: d,
		}
	}
}

// deleteAccountMetadata: `UPDATE accounts SET metadata = metadata - key,
// updated_at = transaction_date() WHERE address` (no row, no error).
func (t *tables) deleteAccountMetadata(now libtime.Time, address, key string) {
	if a, ok := t.Accounts[address]; ok {
		delete(a.Metadata, key)
		a.UpdatedAt = now
	}
}

// ---- schemas -----------------------------------------------------------------

func (t *tables) insertSchema(now libtime.Time, s *ledger.Schema) error {
	for _, r := range t.Schemas {
		if r.Version == s.Version {
			return uniqueViolation("schemas_pkey")
		}
	}
	data, err := json.Marshal(s.SchemaData)
	if err != nil {
		return err
	}
	if s.CreatedAt.IsZero() {
		s.CreatedAt = now // default now(), RETURNING created_at
	}
	t.Schemas = append(t.Schemas, &schemaRow{Version: s.Version, CreatedAt: s.CreatedAt, Data: data})
	return nil
}

func (r *schemaRow) toCore() (*ledger.Schema, error) {
	ret := &ledger.Schema{Version: r.Version, CreatedAt: r.CreatedAt}
	if err := json.Unmarshal(r.Data, &ret.SchemaData); err != nil {
		return nil, err
	}
	return ret, nil
}

func (t *tables) findSchema(version string) (*ledger.Schema, error) {
	for _, r := range t.Schemas {
		if r.Version == version {
			return r.toCore()
		}
	}
	return nil, postgres.ErrNotFound
}

// findLatestSchemaVersion: ORDER BY created_at DESC LIMIT 1 (ties: the row
// inserted last; the workloads never create ties).
func (t *tables) findLatestSchemaVersion() *string {
	var best *schemaRow
	for _, r := range t.Schemas {
		if best == nil || !r.CreatedAt.Before(best.CreatedAt) {
			best = r
		}
	}
	if best == nil {
		return nil
	}
	v := best.Version
	return &v
}

// ---- logs ----------------------------------------------------------------------

// insertLog: id from the sequence when nil, date defaults to transaction_date(),
// unique (ledger, idempotency_key) → ErrIdempotencyKeyConflict; a duplicate
// (ledger, id) → "inserting log: <unique violation>" (since /repo 6422698; before
// that commit Store.InsertLog swallowed it — the second result is kept for that
// older behaviour and is always false now).
func (t *tables) insertLog(sq *seqs, now libtime.Time, log *ledger.Log) (err error, abortedSilently bool) {
	payload, err := json.Marshal(log.Data)
	if err != nil {
		return err, false
	}
	row := &logRow{Type: log.Type, Data: payload, Date: log.Date, IK: log.IdempotencyKey,
		IHash: log.IdempotencyHash, SchemaVersion: log.SchemaVersion}
	if log.ID == nil {
		sq.Log++
		row.ID = sq.Log
	} else {
		row.ID = *log.ID
	}
	if row.Date.IsZero() {
		row.Date = now
	}
	for _, other := range t.Logs {
		if other.ID == row.ID {
			return fmt.Errorf("inserting log: %w", uniqueViolation("logs_id")), false
		}
	}
	if row.IK != "" {
		for _, other := range t.Logs {
			if other.IK == row.IK {
				return ledgerstore.NewErrIdempotencyKeyConflict(row.IK), false
			}
		}
	}
	t.Logs = append(t.Logs, row)
	id := row.ID
	log.ID = &id
	log.Date = row.Date
	return nil, false
}

func (r *logRow) toCore() (*ledger.Log, error) {
	payload, err := ledger.HydrateLog(r.Type, r.Data)
	if err != nil {
		return nil, err
	}
	id := r.ID
	return &ledger.Log{Type: r.Type, Data: payload, Date: r.Date, IdempotencyKey: r.IK,
		IdempotencyHash: r.IHash, ID: &id, SchemaVersion: r.SchemaVersion}, nil
}

// readLogWithIK: `WHERE idempotency_key = ?` — an empty key is stored as NULL
// (nullzero) and NULL equals nothing, so "" finds no log.
func (t *tables) readLogWithIK(ik string) (*ledger.Log, error) {
	if ik == "" {
		return nil, postgres.ErrNotFound
	}
	for _, r := range t.Logs {
		if r.IK == ik {
			return r.toCore()
		}
	}
	return nil, postgres.ErrNotFound
}

func (t *tables) sortedLogs(asc bool) []*logRow {
	ret := append([]*logRow(nil), t.Logs...)
	sort.SliceStable(ret, func(i, j int) bool {
		if asc {
			return ret[i].ID < ret[j].ID
		}
		return ret[i].ID > ret[j].ID
	})
	return ret
}

func (t *tables) maxIDs() (tx, log uint64) {
	for id := range t.Txs {
		if id > tx {
			tx = id
		}
	}
	for _, l := range t.Logs {
		if l.ID > log {
			log = l.ID
		}
	}
	return
}

var _ = time.Second
