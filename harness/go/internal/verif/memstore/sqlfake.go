//go:build verif

package memstore

import (
	"context"
	"database/sql"
	"database/sql/driver"
	"encoding/json"
	"errors"
	"fmt"
	"io"
	"strings"

	"github.com/uptrace/bun"
	"github.com/uptrace/bun/dialect/pgdialect"

	ledger "github.com/formancehq/ledger/internal"
)

// The state tracker (internal/controller/system/state_tracker.go) talks raw SQL
// to the `_system.ledgers` row of its ledger and to the two id sequences, through
// the *bun.Tx / bun.IDB that BeginTX / LockLedger return. So that the REAL
// handleState / Import facade can run over memstore, EnableSQL gives those handles
// a tiny database/sql driver that understands exactly those statements:
//
//	UPDATE "_system"."ledgers" … SET state = 'in-use' WHERE (id = … and state = 'initializing')
//	select setval('"<bucket>"."transaction_id_<id>"', (select max(id) …)::bigint)
//	select setval('"<bucket>"."log_id_<id>"', (select max(id) …)::bigint)
//	SELECT … FROM "_system"."ledgers" … WHERE (id = …)
//	SAVEPOINT / RELEASE SAVEPOINT / ROLLBACK TO SAVEPOINT (accepted, no-op: the
//	  memstore handles do the work)
//
// The ledger row's `state` is transactional (the UPDATE runs in the outer
// transaction of handleState); `setval` is not (sequences never roll back).
// Anything else is an error. The SQL text itself is out of scope of this layer.

type sysRow struct {
	l       ledger.Ledger
	state   string
	pending *string // state written by the open SQL transaction, if any
}

// EnableSQL must be called before NewStore.
func (m *Mem) EnableSQL() {
	m.sys = map[string]*sysRow{}
	m.sqldb = sql.OpenDB(&fakeConnector{m: m})
	m.bun = bun.NewDB(m.sqldb, pgdialect.New(), bun.WithDiscardUnknownColumns())
}

// LedgerState: the committed `_system.ledgers.state` of a ledger ("" when SQL is off).
func (m *Mem) LedgerState(name string) string {
	if r, ok := m.sys[name]; ok {
		return r.state
	}
	return ""
}

func (m *Mem) registerLedger(l ledger.Ledger) {
	if m.sys == nil {
		return
	}
	if _, ok := m.sys[l.Name]; !ok {
		st := l.State
		if st == "" {
			st = ledger.StateInitializing
		}
		m.sys[l.Name] = &sysRow{l: l, state: st}
	}
}

func (m *Mem) sysByID(id int) *sysRow {
	for _, r := range m.sys {
		if r.l.ID == id {
			return r
		}
	}
	return nil
}

type fakeConnector struct{ m *Mem }

func (c *fakeConnector) Connect(context.Context) (driver.Conn, error) { return &fakeConn{m: c.m}, nil }
func (c *fakeConnector) Driver() driver.Driver                        { return fakeDriver{} }

type fakeDriver struct{}

func (fakeDriver) Open(string) (driver.Conn, error) {
	return nil, errors.New("memstore: use the connector")
}

type fakeConn struct {
	m    *Mem
	inTx bool
}

func (c *fakeConn) Prepare(string) (driver.Stmt, error) {
	return nil, errors.New("memstore: prepare unsupported")
}
func (c *fakeConn) Close() error { return nil }
func (c *fakeConn) Begin() (driver.Tx, error) {
	return c.BeginTx(context.Background(), driver.TxOptions{})
}
func (c *fakeConn) BeginTx(context.Context, driver.TxOptions) (driver.Tx, error) {
	c.inTx = true
	return &fakeTx{c: c}, nil
}

type fakeTx struct{ c *fakeConn }

func (t *fakeTx) Commit() error {
	for _, r := range t.c.m.sys {
		if r.pending != nil {
			r.state = *r.pending
			r.pending = nil
		}
	}
	t.c.inTx = false
	return nil
}

func (t *fakeTx) Rollback() error {
	for _, r := range t.c.m.sys {
		r.pending = nil
	}
	t.c.inTx = false
	return nil
}

type fakeResult struct{ rows int64 }

func (r fakeResult) LastInsertId() (int64, error) { return 0, nil }
func (r fakeResult) RowsAffected() (int64, error) { return r.rows, nil }

func idAfter(q, marker string) (int, bool) {
	i := strings.Index(q, marker)
	if i < 0 {
		return 0, false
	}
	var id int
	if _, err := fmt.Sscanf(q[i+len(marker):], "%d", &id); err != nil {
		return 0, false
	}
	return id, true
}

func (c *fakeConn) ExecContext(_ context.Context, q string, _ []driver.NamedValue) (driver.Result, error) {
	m := c.m
	lq := strings.ToLower(q)
	m.sqlLog = append(m.sqlLog, q)
	switch {
	case strings.HasPrefix(lq, "savepoint"), strings.HasPrefix(lq, "release savepoint"), strings.HasPrefix(lq, "rollback to savepoint"):
		return fakeResult{}, nil
	case strings.HasPrefix(lq, "update") && strings.Contains(lq, `"ledgers"`) && strings.Contains(lq, "state = 'in-use'"):
		id, ok := idAfter(lq, "(id = ")
		if !ok || !strings.Contains(lq, "state = 'initializing'") {
			return nil, fmt.Errorf("memstore: unexpected ledger update %q", q)
		}
		r := m.sysByID(id)
		if r == nil {
			return fakeResult{}, nil
		}
		cur := r.state
		if r.pending != nil {
			cur = *r.pending
		}
		if cur != ledger.StateInitializing {
			return fakeResult{}, nil
		}
		st := ledger.StateInUse
		if c.inTx {
			r.pending = &st
		} else {
			r.state = st
		}
		return fakeResult{rows: 1}, nil
	case strings.Contains(lq, "select setval(") && strings.Contains(lq, "transaction_id_"):
		id, ok := idAfter(lq, "transaction_id_")
		if r := m.sysByID(id); ok && r != nil {
			// setval(seq, NULL) — no rows — is a no-op (setval is STRICT)
			if v, has := m.maxOfSubquery(r.l.Name, lq); has {
				m.state(r.l.Name).sq.Tx = v
			}
			return fakeResult{}, nil
		}
		return nil, fmt.Errorf("memstore: unexpected setval %q", q)
	case strings.Contains(lq, "select setval(") && strings.Contains(lq, "log_id_"):
		id, ok := idAfter(lq, "log_id_")
		if r := m.sysByID(id); ok && r != nil {
			if v, has := m.maxOfSubquery(r.l.Name, lq); has {
				m.state(r.l.Name).sq.Log = v
			}
			return fakeResult{}, nil
		}
		return nil, fmt.Errorf("memstore: unexpected setval %q", q)
	}
	return nil, fmt.Errorf("memstore: unexpected statement %q", q)
}

// maxOfSubquery: the value of `(select max(id) from "<bucket>".<table> where ledger = …)`
// — the table is the one the statement names, whatever sequence it is assigned to.
func (m *Mem) maxOfSubquery(name, lq string) (uint64, bool) {
	tx, lg, hasTx, hasLog := m.visibleMaxIDs(name)
	i := strings.Index(lq, "select max(id) from")
	if i < 0 {
		return 0, false
	}
	rest := lq[i:]
	switch {
	case strings.Contains(rest, ".transactions"):
		return tx, hasTx
	case strings.Contains(rest, ".logs"):
		return lg, hasLog
	}
	return 0, false
}

// visibleMaxIDs: max ids as the statement sees them — the tables of the open
// transaction when there is one (handleState runs setval inside its transaction).
func (m *Mem) visibleMaxIDs(name string) (tx, log uint64, hasTx, hasLog bool) {
	t := m.state(name).data
	if m.openTx != nil && m.openTx.ls == m.state(name) && !m.openTx.done && !m.openTx.phys.dead {
		t = m.openTx.cur()
	}
	tx, log = t.maxIDs()
	return tx, log, len(t.Txs) > 0, len(t.Logs) > 0
}

type fakeRows struct {
	cols []string
	rows [][]driver.Value
	i    int
}

func (r *fakeRows) Columns() []string { return r.cols }
func (r *fakeRows) Close() error      { return nil }
func (r *fakeRows) Next(dest []driver.Value) error {
	if r.i >= len(r.rows) {
		return io.EOF
	}
	copy(dest, r.rows[r.i])
	r.i++
	return nil
}

func (c *fakeConn) QueryContext(_ context.Context, q string, _ []driver.NamedValue) (driver.Rows, error) {
	m := c.m
	lq := strings.ToLower(q)
	m.sqlLog = append(m.sqlLog, q)
	if strings.HasPrefix(lq, "select") && strings.Contains(lq, `"_system"."ledgers"`) || strings.Contains(lq, `from "_system".ledgers`) {
		id, ok := idAfter(lq, "(id = ")
		if !ok {
			return nil, fmt.Errorf("memstore: unexpected ledger query %q", q)
		}
		rows := &fakeRows{cols: []string{"bucket", "metadata", "features", "id", "name", "added_at", "state", "deleted_at"}}
		if r := m.sysByID(id); r != nil {
			st := r.state
			if c.inTx && r.pending != nil {
				st = *r.pending
			}
			feats, _ := json.Marshal(r.l.Features)
			rows.rows = append(rows.rows, []driver.Value{r.l.Bucket, nil, feats, int64(r.l.ID), r.l.Name, nil, st, nil})
		}
		return rows, nil
	}
	return nil, fmt.Errorf("memstore: unexpected query %q", q)
}

var _ driver.ExecerContext = (*fakeConn)(nil)
var _ driver.QueryerContext = (*fakeConn)(nil)
var _ driver.ConnBeginTx = (*fakeConn)(nil)

// SQLLog: the raw statements the fake driver received (rendered by bun).
func (m *Mem) SQLLog() []string { return append([]string(nil), m.sqlLog...) }
