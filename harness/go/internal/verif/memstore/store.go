//go:build verif

package memstore

import (
	"context"
	"database/sql"
	"errors"
	"fmt"
	"sort"
	"strings"

	"github.com/uptrace/bun"

	"github.com/formancehq/go-libs/v5/pkg/storage/bun/paginate"
	"github.com/formancehq/go-libs/v5/pkg/storage/migrations"
	"github.com/formancehq/go-libs/v5/pkg/storage/postgres"
	"github.com/formancehq/go-libs/v5/pkg/types/metadata"
	libtime "github.com/formancehq/go-libs/v5/pkg/types/time"

	ledger "github.com/formancehq/ledger/internal"
	ledgercontroller "github.com/formancehq/ledger/internal/controller/ledger"
	"github.com/formancehq/ledger/internal/storage/common"
	ledgerstore "github.com/formancehq/ledger/internal/storage/ledger"
)

// Backend is what a workload needs from a store implementation. memstore.Mem
// implements it; the SQL store over LeanPG will implement it later so that the
// same workloads run unchanged on it.
type Backend interface {
	// NewStore returns the root (non-transactional, autocommit) handle of a ledger.
	NewStore(l ledger.Ledger) ledgercontroller.Store
	// Snapshot is everything observable of a ledger, canonicalised.
	Snapshot(ledgerName string) Snap
	// InjectFault arms one fault; the call counter restarts at 0.
	InjectFault(f Fault)
	// InjectFaults arms a plan of one-shot faults (each at its own call number).
	InjectFaults(fs []Fault)
	ClearFault()
	// FaultFired reports whether the armed fault has been delivered.
	FaultFired() bool
	Trace() []Call
	ResetTrace()
	// SetNow sets the logical clock (what transaction_date()/now() return).
	SetNow(t libtime.Time)
	// SetCancel registers the cancel function of the context the next
	// operation runs under (used by the "cancel" fault kind).
	SetCancel(cancel func())
	// ResyncSequences does what handleState's two `select setval(…, max(id))` do.
	ResyncSequences(ledgerName string)
	// Sequences returns the current values (tx, log) of the ledger's sequences.
	Sequences(ledgerName string) (uint64, uint64)
}

// Fault kinds.
const (
	FaultError    = "error"    // the call fails with a generic error
	FaultDeadlock = "deadlock" // the call fails with postgres.ErrDeadlockDetected
	FaultCancel   = "cancel"   // the context is cancelled right before the call
	FaultCommit   = "commit"   // the next top-level Commit fails (and rolls back)
	// FaultIKConflict: the call fails with ErrIdempotencyKeyConflict although no log
	// carries the key (exercises the controller's retry branch for that error)
	FaultIKConflict = "ik-conflict"
)

// Fault: fail the At-th store call (1-based, counted over every method of the
// Store interface and of its resources, on any handle) after arming.
type Fault struct {
	At   int    `json:"at"`
	Kind string `json:"kind"`
	// AndCommit: additionally, the next top-level Commit fails (e.g. a deadlock
	// at call At, then a failing COMMIT of the retried attempt)
	AndCommit bool `json:"andCommit,omitempty"`
}

// ErrInjected is the generic injected error.
var ErrInjected = errors.New("memstore: injected fault")

// ErrCommitFailed is returned by a Commit hit by a fault.
var ErrCommitFailed = errors.New("memstore: injected commit failure")

var errAborted = errors.New("memstore: current transaction is aborted, commands ignored until end of transaction block")
var errCommitRollback = errors.New("memstore: commit unexpectedly resulted in rollback")

// Call is one entry of the trace: which method ran on which handle.
type Call struct {
	N int    `json:"n"`
	H string `json:"h"` // "root" | "tx<i>" | "tx<i>.<j>" (savepoint)
	M string `json:"m"`
	A string `json:"a,omitempty"`
	// Q: the (account, asset) pairs of a GetBalances query, sorted
	Q [][2]string `json:"q,omitempty"`
	E string      `json:"e,omitempty"` // "" ok | error class
}

type ledgerState struct {
	data *tables
	sq   seqs
}

// Mem is the in-memory backend.
type Mem struct {
	ledgers     map[string]*ledgerState
	now         libtime.Time
	faults      []Fault // the plan; faultsFired[i] marks delivered ones
	faultsFired []bool
	calls       int
	fired       bool
	// commit fault: armed / delivered
	commitArmed bool
	commitFired bool
	trace       []Call
	nTx         int
	cancel      func()
	// optional SQL side (see sqlfake.go)
	sys    map[string]*sysRow
	sqldb  *sql.DB
	bun    *bun.DB
	sqlLog []string
	openTx *Store // innermost open transaction handle
}

func New() *Mem {
	return &Mem{ledgers: map[string]*ledgerState{}}
}

var _ Backend = (*Mem)(nil)

func (m *Mem) state(name string) *ledgerState {
	ls, ok := m.ledgers[name]
	if !ok {
		ls = &ledgerState{data: newTables()}
		m.ledgers[name] = ls
	}
	return ls
}

func (m *Mem) NewStore(l ledger.Ledger) ledgercontroller.Store {
	m.registerLedger(l)
	return &Store{m: m, ls: m.state(l.Name), l: l, name: "root"}
}
func (m *Mem) InjectFault(f Fault) { m.InjectFaults([]Fault{f}) }

func (m *Mem) InjectFaults(fs []Fault) {
	m.calls, m.fired, m.commitFired = 0, false, false
	m.commitArmed = false
	m.faults = nil
	for _, f := range fs {
		if f.Kind == FaultCommit || f.AndCommit {
			m.commitArmed = true
		}
		if f.Kind != FaultCommit {
			m.faults = append(m.faults, f)
		}
	}
	m.faultsFired = make([]bool, len(m.faults))
}

// nextFault: the planned fault for the current call number, if any (one-shot).
func (m *Mem) nextFault() *Fault {
	for i := range m.faults {
		if !m.faultsFired[i] && m.faults[i].At == m.calls {
			m.faultsFired[i] = true
			m.fired = true
			return &m.faults[i]
		}
	}
	return nil
}

func faultErr(kind string) error {
	switch kind {
	case FaultDeadlock:
		return postgres.ErrDeadlockDetected
	case FaultCancel:
		return context.Canceled
	case FaultIKConflict:
		return ledgerstore.NewErrIdempotencyKeyConflict("injected")
	case FaultCommit:
		return ErrCommitFailed
	default:
		return ErrInjected
	}
}
func (m *Mem) ClearFault() {
	m.faults, m.faultsFired, m.calls, m.commitArmed = nil, nil, 0, false
}
func (m *Mem) FaultFired() bool        { return m.fired || m.commitFired }
func (m *Mem) Trace() []Call           { return append([]Call(nil), m.trace...) }
func (m *Mem) ResetTrace()             { m.trace = nil }
func (m *Mem) SetNow(t libtime.Time)   { m.now = t }
func (m *Mem) SetCancel(cancel func()) { m.cancel = cancel }
func (m *Mem) ResyncSequences(n string) {
	ls := m.state(n)
	tx, lg := ls.data.maxIDs()
	if len(ls.data.Txs) > 0 {
		ls.sq.Tx = tx
	}
	if len(ls.data.Logs) > 0 {
		ls.sq.Log = lg
	}
}
func (m *Mem) Sequences(n string) (uint64, uint64) {
	ls := m.state(n)
	return ls.sq.Tx, ls.sq.Log
}

// physTx is one SQL transaction (shared by the savepoint levels nested in it).
type physTx struct {
	aborted      bool
	abortedDepth int
	dead         bool // rolled back behind the handle's back (context cancelled)
}

// Store is one handle: the root handle (autocommit) or a transaction /
// savepoint handle returned by BeginTX.
type Store struct {
	m      *Mem
	ls     *ledgerState
	l      ledger.Ledger
	parent *Store
	name   string
	data   *tables // working copy (tx handles); nil on the root handle
	phys   *physTx
	depth  int
	done   bool
	nSave  int
	btx    *bun.Tx // the SQL transaction / savepoint behind this handle (EnableSQL only)
}

var _ ledgercontroller.Store = (*Store)(nil)

func (s *Store) isTx() bool { return s.parent != nil }

// cur is the table set statements of this handle read and write.
func (s *Store) cur() *tables {
	if s.isTx() {
		return s.data
	}
	return s.ls.data
}

func errClass(err error) string {
	switch {
	case err == nil:
		return ""
	case errors.Is(err, postgres.ErrNotFound):
		return "not-found"
	case errors.Is(err, postgres.ErrDeadlockDetected):
		return "deadlock"
	case errors.Is(err, context.Canceled):
		return "canceled"
	case errors.Is(err, ErrInjected):
		return "injected"
	case errors.Is(err, ErrCommitFailed):
		return "commit-failed"
	case errors.Is(err, ledgerstore.ErrIdempotencyKeyConflict{}):
		return "ik-conflict"
	case errors.Is(err, ledgerstore.ErrTransactionReferenceConflict{}):
		return "reference-conflict"
	case errors.Is(err, ledgerstore.ErrConcurrentTransaction{}):
		return "concurrent-transaction"
	case errors.Is(err, postgres.ErrConstraintsFailed{}):
		return "constraint"
	case errors.Is(err, errAborted):
		return "aborted"
	case errors.Is(err, sql.ErrTxDone):
		return "tx-done"
	default:
		return "error"
	}
}

// enter records the call, then decides whether it may run: cancelled context,
// finished handle, injected fault, aborted transaction. `control` marks
// BeginTX/Commit/Rollback, which handle faults themselves.
func (s *Store) enter(ctx context.Context, method, args string) (idx int, err error) {
	m := s.m
	m.trace = append(m.trace, Call{N: len(m.trace) + 1, H: s.name, M: method, A: args})
	idx = len(m.trace) - 1
	m.calls++
	if f := m.nextFault(); f != nil {
		if f.Kind == FaultCancel && m.cancel != nil {
			m.cancel()
		}
		err = faultErr(f.Kind)
	}
	if err == nil && ctx != nil && ctx.Err() != nil {
		err = ctx.Err()
	}
	if err != nil && errors.Is(err, context.Canceled) && s.phys != nil {
		// database/sql rolls the transaction back as soon as its context is done
		s.phys.dead = true
	}
	if err == nil && s.isTx() && (s.done || s.phys.dead) {
		err = sql.ErrTxDone
	}
	if err == nil && s.isTx() && s.phys.aborted {
		err = errAborted
	}
	return idx, err
}

// fail marks a statement failure: inside a transaction the transaction becomes
// aborted (every later statement fails until it is rolled back).
func (s *Store) fail(idx int, err error) error {
	s.m.trace[idx].E = errClass(err)
	if s.isTx() && err != nil && !errors.Is(err, sql.ErrTxDone) && !errors.Is(err, errAborted) {
		if !s.phys.aborted {
			s.phys.aborted = true
			s.phys.abortedDepth = s.depth
		}
	}
	return err
}

// notFound reports a "no rows" answer: not a statement failure.
func (s *Store) notFound(idx int, err error) error {
	s.m.trace[idx].E = errClass(err)
	return err
}

// stmt runs one statement atomically on the handle's tables.
func (s *Store) stmt(ctx context.Context, method, args string, fn func(t *tables) error) error {
	idx, err := s.enter(ctx, method, args)
	if err != nil {
		return s.fail(idx, err)
	}
	work := s.cur().clone()
	if err := fn(work); err != nil {
		if errors.Is(err, postgres.ErrNotFound) {
			return s.notFound(idx, err)
		}
		return s.fail(idx, err)
	}
	if s.isTx() {
		s.data = work
	} else {
		s.ls.data = work
	}
	return nil
}

// ---- transaction control -------------------------------------------------------

func (s *Store) BeginTX(ctx context.Context, _ *sql.TxOptions) (ledgercontroller.Store, *bun.Tx, error) {
	idx, err := s.enter(ctx, "BeginTX", "")
	if err != nil {
		return nil, nil, s.fail(idx, err)
	}
	child := &Store{m: s.m, ls: s.ls, l: s.l, parent: s, data: s.cur().clone()}
	if s.isTx() {
		s.nSave++
		child.name = fmt.Sprintf("%s.%d", s.name, s.nSave)
		child.phys = s.phys
		child.depth = s.depth + 1
	} else {
		s.m.nTx++
		child.name = fmt.Sprintf("tx%d", s.m.nTx)
		child.phys = &physTx{}
	}
	if s.m.bun != nil {
		var (
			btx bun.Tx
			err error
		)
		if s.isTx() && s.btx != nil {
			btx, err = s.btx.BeginTx(ctx, nil)
		} else {
			btx, err = s.m.bun.BeginTx(ctx, nil)
		}
		if err != nil {
			return nil, nil, s.fail(idx, err)
		}
		child.btx = &btx
	}
	s.m.openTx = child
	return child, child.btx, nil
}

// closeSQL ends the SQL transaction / savepoint behind a finished handle.
func (s *Store) closeSQL(commit bool) {
	if s.m.openTx == s {
		if s.parent != nil && s.parent.isTx() {
			s.m.openTx = s.parent
		} else {
			s.m.openTx = nil
		}
	}
	if s.btx == nil {
		return
	}
	if commit {
		_ = s.btx.Commit()
	} else {
		_ = s.btx.Rollback()
	}
}

func (s *Store) Commit(ctx context.Context) error {
	m := s.m
	m.trace = append(m.trace, Call{N: len(m.trace) + 1, H: s.name, M: "Commit"})
	idx := len(m.trace) - 1
	m.calls++
	set := func(err error) error { m.trace[idx].E = errClass(err); return err }
	if !s.isTx() {
		return set(errors.New("cannot commit transaction: not in a transaction"))
	}
	if s.done || s.phys.dead {
		s.closeSQL(false)
		return set(sql.ErrTxDone)
	}
	planned := m.nextFault()
	callFault := planned != nil
	commitFault := !callFault && m.commitArmed && !m.commitFired && s.depth == 0
	if callFault || commitFault {
		kind := FaultCommit
		if callFault {
			kind = planned.Kind
		} else {
			m.commitFired = true
		}
		s.done = true
		s.closeSQL(false)
		if s.depth == 0 {
			s.phys.dead = true
		} else {
			s.phys.aborted, s.phys.abortedDepth = true, s.depth-1
		}
		if kind == FaultCancel && m.cancel != nil {
			m.cancel()
		}
		return set(faultErr(kind))
	}
	s.done = true
	if s.phys.aborted {
		// COMMIT of an aborted transaction is a ROLLBACK
		if s.depth == 0 {
			s.phys.dead = true
		}
		s.closeSQL(false)
		return set(errCommitRollback)
	}
	if s.depth == 0 {
		s.ls.data = s.data
		s.phys.dead = true
	} else {
		s.parent.data = s.data // RELEASE SAVEPOINT
	}
	s.closeSQL(true)
	return nil
}

func (s *Store) Rollback(ctx context.Context) error {
	m := s.m
	m.trace = append(m.trace, Call{N: len(m.trace) + 1, H: s.name, M: "Rollback"})
	idx := len(m.trace) - 1
	m.calls++
	set := func(err error) error { m.trace[idx].E = errClass(err); return err }
	if !s.isTx() {
		return set(errors.New("cannot rollback transaction: not in a transaction"))
	}
	if s.done || s.phys.dead {
		s.closeSQL(false)
		return set(sql.ErrTxDone)
	}
	s.done = true
	if s.depth == 0 {
		s.phys.dead = true
	} else if s.phys.aborted && s.phys.abortedDepth >= s.depth {
		s.phys.aborted = false // ROLLBACK TO SAVEPOINT
	}
	s.closeSQL(false)
	if f := m.nextFault(); f != nil {
		// a failing ROLLBACK cannot make anything durable: the work is discarded anyway
		if f.Kind == FaultCancel && m.cancel != nil {
			m.cancel()
		}
		return set(faultErr(f.Kind))
	}
	return nil
}

func (s *Store) LockLedger(ctx context.Context) (ledgercontroller.Store, bun.IDB, func() error, error) {
	idx, err := s.enter(ctx, "LockLedger", "")
	if err != nil {
		return nil, nil, nil, s.fail(idx, err)
	}
	var idb bun.IDB
	if s.btx != nil {
		idb = *s.btx
	} else if s.m.bun != nil {
		idb = s.m.bun
	}
	return s, idb, func() error { return nil }, nil
}

// ---- statements ----------------------------------------------------------------

// balanceQueryPairs: the distinct (account, asset) pairs of a query, sorted.
func balanceQueryPairs(q ledgerstore.BalanceQuery) [][2]string {
	seen := map[[2]string]bool{}
	pairs := make([][2]string, 0)
	for account, assets := range q {
		for _, asset := range assets {
			k := [2]string{account, asset}
			if !seen[k] {
				seen[k] = true
				pairs = append(pairs, k)
			}
		}
	}
	sort.Slice(pairs, func(i, j int) bool {
		if pairs[i][0] != pairs[j][0] {
			return pairs[i][0] < pairs[j][0]
		}
		return pairs[i][1] < pairs[j][1]
	})
	return pairs
}

func (s *Store) GetBalances(ctx context.Context, q ledgerstore.BalanceQuery) (ledger.Balances, error) {
	var ret ledger.Balances
	pairs := balanceQueryPairs(q)
	parts := make([]string, 0, len(pairs))
	for _, p := range pairs {
		parts = append(parts, p[0]+"/"+p[1])
	}
	mark := len(s.m.trace)
	err := s.stmt(ctx, "GetBalances", strings.Join(parts, ","), func(t *tables) error {
		ret = t.getBalances(q)
		return nil
	})
	if mark < len(s.m.trace) {
		s.m.trace[mark].Q = pairs
	}
	return ret, err
}

// CommitTransaction = UpdateVolumes + InsertTransaction (two statements: on the
// root handle the first one stays when the second fails).
func (s *Store) CommitTransaction(ctx context.Context, tx *ledger.Transaction) error {
	idx, err := s.enter(ctx, "CommitTransaction", "")
	if err != nil {
		return s.fail(idx, fmt.Errorf("failed to update balances: %w", err))
	}
	work := s.cur().clone()
	pcv := work.updateVolumes(tx.VolumeUpdates())
	s.install(work)
	tx.PostCommitVolumes = pcv.Copy()
	work = s.cur().clone()
	if err := work.insertTransaction(&s.ls.sq, s.m.now, tx); err != nil {
		return s.fail(idx, fmt.Errorf("failed to insert transaction: %w", err))
	}
	s.install(work)
	return nil
}

func (s *Store) install(t *tables) {
	if s.isTx() {
		s.data = t
	} else {
		s.ls.data = t
	}
}

func (s *Store) RevertTransaction(ctx context.Context, id uint64, at libtime.Time) (tx *ledger.Transaction, modified bool, err error) {
	err = s.stmt(ctx, "RevertTransaction", fmt.Sprint(id), func(t *tables) error {
		var e error
		tx, modified, e = t.revertTransaction(s.m.now, id, at)
		return e
	})
	if err != nil {
		return &ledger.Transaction{}, false, err
	}
	return tx, modified, nil
}

func (s *Store) UpdateTransactionMetadata(ctx context.Context, id uint64, m metadata.Metadata, at libtime.Time) (tx *ledger.Transaction, modified bool, err error) {
	err = s.stmt(ctx, "UpdateTransactionMetadata", fmt.Sprint(id), func(t *tables) error {
		var e error
		tx, modified, e = t.updateTransactionMetadata(s.m.now, id, m, at)
		return e
	})
	if err != nil {
		return &ledger.Transaction{}, false, err
	}
	return tx, modified, nil
}

func (s *Store) DeleteTransactionMetadata(ctx context.Context, id uint64, key string, at libtime.Time) (tx *ledger.Transaction, modified bool, err error) {
	err = s.stmt(ctx, "DeleteTransactionMetadata", fmt.Sprint(id), func(t *tables) error {
		var e error
		tx, modified, e = t.deleteTransactionMetadata(s.m.now, id, key, at)
		return e
	})
	if err != nil {
		return &ledger.Transaction{}, false, err
	}
	return tx, modified, nil
}

func (s *Store) UpdateAccountsMetadata(ctx context.Context, m map[string]metadata.Metadata, at libtime.Time) error {
	keys := make([]string, 0, len(m))
	for k := range m {
		keys = append(keys, k)
	}
	sort.Strings(keys)
	return s.stmt(ctx, "UpdateAccountsMetadata", strings.Join(keys, ","), func(t *tables) error {
		t.updateAccountsMetadata(s.m.now, m, at)
		return nil
	})
}

func (s *Store) UpsertAccounts(ctx context.Context, accounts ...ledger.AccountWithDefaultMetadata) error {
	addrs := make([]string, 0, len(accounts))
	for _, a := range accounts {
		addrs = append(addrs, a.Address)
	}
	err := s.stmt(ctx, "UpsertAccounts", strings.Join(addrs, ","), func(t *tables) error {
		t.upsertAccounts(s.m.now, accounts)
		return nil
	})
	if err != nil {
		return fmt.Errorf("upserting accounts: %w", err)
	}
	return nil
}

func (s *Store) DeleteAccountMetadata(ctx context.Context, address, key string) error {
	return s.stmt(ctx, "DeleteAccountMetadata", address, func(t *tables) error {
		t.deleteAccountMetadata(s.m.now, address, key)
		return nil
	})
}

func (s *Store) InsertSchema(ctx context.Context, data *ledger.Schema) error {
	return s.stmt(ctx, "InsertSchema", data.Version, func(t *tables) error {
		return t.insertSchema(s.m.now, data)
	})
}

func (s *Store) FindSchema(ctx context.Context, version string) (ret *ledger.Schema, err error) {
	err = s.stmt(ctx, "FindSchema", version, func(t *tables) error {
		var e error
		ret, e = t.findSchema(version)
		return e
	})
	return ret, err
}

func (s *Store) FindSchemas(ctx context.Context, _ common.PaginatedQuery[any]) (*paginate.Cursor[ledger.Schema], error) {
	ret := &paginate.Cursor[ledger.Schema]{}
	err := s.stmt(ctx, "FindSchemas", "", func(t *tables) error {
		for i := len(t.Schemas) - 1; i >= 0; i-- {
			sc, err := t.Schemas[i].toCore()
			if err != nil {
				return err
			}
			ret.Data = append(ret.Data, *sc)
		}
		ret.PageSize = len(ret.Data)
		return nil
	})
	return ret, err
}

func (s *Store) FindLatestSchemaVersion(ctx context.Context) (ret *string, err error) {
	err = s.stmt(ctx, "FindLatestSchemaVersion", "", func(t *tables) error {
		ret = t.findLatestSchemaVersion()
		return nil
	})
	return ret, err
}

func (s *Store) InsertLog(ctx context.Context, log *ledger.Log) error {
	idx, err := s.enter(ctx, "InsertLog", log.Type.String())
	if err != nil {
		return s.fail(idx, fmt.Errorf("inserting log: %w", err))
	}
	work := s.cur().clone()
	err, silent := work.insertLog(&s.ls.sq, s.m.now, log)
	if err != nil {
		return s.fail(idx, err)
	}
	if silent {
		// see tables.insertLog: nil is returned, the transaction is aborted
		if s.isTx() && !s.phys.aborted {
			s.phys.aborted, s.phys.abortedDepth = true, s.depth
		}
		s.m.trace[idx].E = "constraint-swallowed"
		return nil
	}
	s.install(work)
	return nil
}

func (s *Store) ReadLogWithIdempotencyKey(ctx context.Context, ik string) (ret *ledger.Log, err error) {
	err = s.stmt(ctx, "ReadLogWithIdempotencyKey", ik, func(t *tables) error {
		var e error
		ret, e = t.readLogWithIK(ik)
		return e
	})
	return ret, err
}

func (s *Store) IsUpToDate(ctx context.Context) (bool, error) { return true, nil }
func (s *Store) GetMigrationsInfo(ctx context.Context) ([]migrations.Info, error) {
	return nil, nil
}
