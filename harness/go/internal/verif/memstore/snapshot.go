//go:build verif

package memstore

import (
	"encoding/json"
	"fmt"
	"sort"

	"github.com/formancehq/go-libs/v5/pkg/types/metadata"
	libtime "github.com/formancehq/go-libs/v5/pkg/types/time"

	ledger "github.com/formancehq/ledger/internal"
)

// Canonical (order-free, address-free) rendering of everything observable.
// Times are Unix microseconds (null = zero time / NULL); big integers are
// decimal strings; maps are key-sorted lists.

type CPosting struct {
	S string `json:"s"`
	D string `json:"d"`
	A string `json:"a"`
	N string `json:"n"`
}

type CVol struct {
	Account string `json:"acc"`
	Asset   string `json:"asset"`
	In      string `json:"in"`
	Out     string `json:"out"`
}

type CTx struct {
	ID       *uint64     `json:"id"`
	Postings []CPosting  `json:"postings"`
	Meta     [][2]string `json:"meta"`
	Ref      string      `json:"ref"`
	TS       *int64      `json:"ts"`
	Ins      *int64      `json:"ins"`
	Upd      *int64      `json:"upd"`
	Rev      *int64      `json:"rev"`
	PCV      []CVol      `json:"pcv"`
	Tpl      string      `json:"tpl"`
}

type CAccount struct {
	Addr string      `json:"addr"`
	Meta [][2]string `json:"meta"`
	FU   *int64      `json:"fu"`
	Ins  *int64      `json:"ins"`
	Upd  *int64      `json:"upd"`
}

type CAccMeta struct {
	Addr string      `json:"addr"`
	Meta [][2]string `json:"meta"`
}

type CSchema struct {
	V     string `json:"v"`
	At    *int64 `json:"at"`
	Chart string `json:"chart"` // json.Marshal of the chart (keys sorted by encoding/json)
	NTpl  int    `json:"ntpl"`  // number of transaction templates
}

// CPayload: the log payload by type.
type CPayload struct {
	// NEW_TRANSACTION: Tx + AM; REVERTED_TRANSACTION: Reverted (the original) + Tx (the revert)
	Tx       *CTx       `json:"tx,omitempty"`
	AM       []CAccMeta `json:"am,omitempty"`
	Reverted *CTx       `json:"reverted,omitempty"`
	// SET_METADATA / DELETE_METADATA
	TT     string      `json:"tt,omitempty"`
	Target string      `json:"target,omitempty"` // address or decimal transaction id
	Meta   [][2]string `json:"meta,omitempty"`
	Key    string      `json:"key,omitempty"`
	// INSERTED_SCHEMA
	Schema *CSchema `json:"schema,omitempty"`
}

type CLog struct {
	ID   *uint64  `json:"id"`
	Type string   `json:"type"`
	Date *int64   `json:"date"`
	IK   string   `json:"ik"`
	IH   string   `json:"ih"`
	SV   string   `json:"sv"`
	Data CPayload `json:"data"`
}

type Snap struct {
	Txs      []CTx      `json:"txs"`
	Accounts []CAccount `json:"accounts"`
	Vols     []CVol     `json:"vols"`
	Logs     []CLog     `json:"logs"`
	Schemas  []CSchema  `json:"schemas"`
}

func CanonTime(t libtime.Time) *int64 {
	if t.IsZero() {
		return nil
	}
	v := t.UnixMicro()
	return &v
}

func CanonMeta(m metadata.Metadata) [][2]string {
	ret := make([][2]string, 0, len(m))
	for k, v := range m {
		ret = append(ret, [2]string{k, v})
	}
	sort.Slice(ret, func(i, j int) bool { return ret[i][0] < ret[j][0] })
	return ret
}

func CanonPostings(ps ledger.Postings) []CPosting {
	ret := make([]CPosting, 0, len(ps))
	for _, p := range ps {
		n := "nil"
		if p.Amount != nil {
			n = p.Amount.String()
		}
		ret = append(ret, CPosting{S: p.Source, D: p.Destination, A: p.Asset, N: n})
	}
	return ret
}

func CanonPCV(v ledger.PostCommitVolumes) []CVol {
	ret := make([]CVol, 0)
	for acc, byAsset := range v {
		for asset, vol := range byAsset {
			in, out := "nil", "nil"
			if vol.Input != nil {
				in = vol.Input.String()
			}
			if vol.Output != nil {
				out = vol.Output.String()
			}
			ret = append(ret, CVol{Account: acc, Asset: asset, In: in, Out: out})
		}
	}
	sort.Slice(ret, func(i, j int) bool {
		if ret[i].Account != ret[j].Account {
			return ret[i].Account < ret[j].Account
		}
		return ret[i].Asset < ret[j].Asset
	})
	return ret
}

func CanonTx(t *ledger.Transaction) *CTx {
	if t == nil {
		return nil
	}
	ret := &CTx{Postings: CanonPostings(t.Postings), Meta: CanonMeta(t.Metadata), Ref: t.Reference,
		TS: CanonTime(t.Timestamp), Ins: CanonTime(t.InsertedAt), Upd: CanonTime(t.UpdatedAt),
		PCV: CanonPCV(t.PostCommitVolumes), Tpl: t.Template}
	if t.ID != nil {
		id := *t.ID
		ret.ID = &id
	}
	if t.RevertedAt != nil {
		ret.Rev = CanonTime(*t.RevertedAt)
	}
	return ret
}

func CanonAccMeta(am map[string]metadata.Metadata) []CAccMeta {
	ret := make([]CAccMeta, 0, len(am))
	for a, m := range am {
		ret = append(ret, CAccMeta{Addr: a, Meta: CanonMeta(m)})
	}
	sort.Slice(ret, func(i, j int) bool { return ret[i].Addr < ret[j].Addr })
	return ret
}

func CanonSchema(s *ledger.Schema) *CSchema {
	chart, err := json.Marshal(s.Chart)
	if err != nil {
		chart = []byte("error:" + err.Error())
	}
	return &CSchema{V: s.Version, At: CanonTime(s.CreatedAt), Chart: string(chart), NTpl: len(s.Transactions)}
}

func CanonPayload(p ledger.LogPayload) CPayload {
	switch v := p.(type) {
	case ledger.CreatedTransaction:
		return CPayload{Tx: CanonTx(&v.Transaction), AM: CanonAccMeta(v.AccountMetadata)}
	case ledger.RevertedTransaction:
		return CPayload{Tx: CanonTx(&v.RevertTransaction), Reverted: CanonTx(&v.RevertedTransaction)}
	case ledger.SavedMetadata:
		return CPayload{TT: v.TargetType, Target: fmt.Sprint(v.TargetID), Meta: CanonMeta(v.Metadata)}
	case ledger.DeletedMetadata:
		return CPayload{TT: v.TargetType, Target: fmt.Sprint(v.TargetID), Key: v.Key}
	case ledger.InsertedSchema:
		return CPayload{Schema: CanonSchema(&v.Schema)}
	}
	return CPayload{TT: fmt.Sprintf("unknown payload %T", p)}
}

func CanonLog(l *ledger.Log) *CLog {
	if l == nil {
		return nil
	}
	ret := &CLog{Type: l.Type.String(), Date: CanonTime(l.Date), IK: l.IdempotencyKey, IH: l.IdempotencyHash,
		SV: l.SchemaVersion, Data: CanonPayload(l.Data)}
	if l.ID != nil {
		id := *l.ID
		ret.ID = &id
	}
	return ret
}

// Snapshot renders the committed tables of a ledger.
func (m *Mem) Snapshot(ledgerName string) Snap {
	t := m.state(ledgerName).data
	s := Snap{Txs: []CTx{}, Accounts: []CAccount{}, Vols: []CVol{}, Logs: []CLog{}, Schemas: []CSchema{}}
	ids := make([]uint64, 0, len(t.Txs))
	for id := range t.Txs {
		ids = append(ids, id)
	}
	sort.Slice(ids, func(i, j int) bool { return ids[i] < ids[j] })
	for _, id := range ids {
		s.Txs = append(s.Txs, *CanonTx(t.Txs[id]))
	}
	addrs := make([]string, 0, len(t.Accounts))
	for a := range t.Accounts {
		addrs = append(addrs, a)
	}
	sort.Strings(addrs)
	for _, a := range addrs {
		acc := t.Accounts[a]
		s.Accounts = append(s.Accounts, CAccount{Addr: a, Meta: CanonMeta(acc.Metadata),
			FU: CanonTime(acc.FirstUsage), Ins: CanonTime(acc.InsertionDate), Upd: CanonTime(acc.UpdatedAt)})
	}
	for k, v := range t.Volumes {
		s.Vols = append(s.Vols, CVol{Account: k.Account, Asset: k.Asset, In: v.Input.String(), Out: v.Output.String()})
	}
	sort.Slice(s.Vols, func(i, j int) bool {
		if s.Vols[i].Account != s.Vols[j].Account {
			return s.Vols[i].Account < s.Vols[j].Account
		}
		return s.Vols[i].Asset < s.Vols[j].Asset
	})
	for _, l := range t.sortedLogs(true) {
		core, err := l.toCore()
		if err != nil {
			id := l.ID
			s.Logs = append(s.Logs, CLog{ID: &id, Type: "unhydratable:" + err.Error()})
			continue
		}
		s.Logs = append(s.Logs, *CanonLog(core))
	}
	rows := append([]*schemaRow(nil), t.Schemas...)
	sort.SliceStable(rows, func(i, j int) bool { return rows[i].Version < rows[j].Version })
	for _, r := range rows {
		sc, err := r.toCore()
		if err != nil {
			s.Schemas = append(s.Schemas, CSchema{V: r.Version, Chart: "error:" + err.Error()})
			continue
		}
		s.Schemas = append(s.Schemas, *CanonSchema(sc))
	}
	return s
}
