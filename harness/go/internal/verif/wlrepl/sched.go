//go:build verif

// Package wlrepl: workload "repl" (property C33). The REAL replication.Manager,
// PipelineHandler and DriverFacade run inside a testing/synctest bubble against
// in-memory fakes of replication.Storage / LogFetcher / drivers.Factory /
// drivers.Driver. Every call the handler goroutine (ListLogs), its export
// goroutine (Driver.Accept) and the state persister goroutine
// (StorePipelineState) make blocks at a *gate*; the scheduler (the bubble's main
// goroutine) releases exactly one gate, or starts one manager operation, or
// advances the virtual clock, then waits with synctest.Wait until every
// goroutine is durably blocked again. Interleavings are therefore deterministic
// and replayable at the granularity of storage / exporter calls, and timers
// (pull interval, push retry) fire only when the scheduler says so.
package wlrepl

import (
	"context"
	"fmt"
	"sync"
)

type gate struct {
	kind string   // "fetch" | "accept" | "persist"
	ids  []uint64 // accept: the batch handed to the exporter
	v    uint64   // persist: value of StorePipelineState
	rel  chan string
}

func (g *gate) String() string {
	switch g.kind {
	case "fetch":
		return "F"
	case "accept":
		if len(g.ids) == 0 {
			return "A:empty"
		}
		return fmt.Sprintf("A:%d-%d", g.ids[0], g.ids[len(g.ids)-1])
	default:
		return fmt.Sprintf("P:%d", g.v)
	}
}

type sched struct {
	mu      sync.Mutex
	waiting []*gate // arrival order
}

// arrive blocks the calling goroutine until the scheduler releases the gate
// (returns the scheduler's decision) or ctx is cancelled (returns ok=false).
func (s *sched) arrive(ctx context.Context, g *gate) (string, bool) {
	g.rel = make(chan string, 1)
	s.mu.Lock()
	s.waiting = append(s.waiting, g)
	s.mu.Unlock()
	select {
	case d := <-g.rel:
		return d, true
	case <-ctx.Done():
		s.mu.Lock()
		for i, w := range s.waiting {
			if w == g {
				s.waiting = append(s.waiting[:i:i], s.waiting[i+1:]...)
				break
			}
		}
		s.mu.Unlock()
		return "", false
	}
}

// find returns the i-th waiting gate of the given kind (arrival order).
func (s *sched) find(kind string, i int) *gate {
	s.mu.Lock()
	defer s.mu.Unlock()
	for _, w := range s.waiting {
		if w.kind == kind {
			if i == 0 {
				return w
			}
			i--
		}
	}
	return nil
}

func (s *sched) release(g *gate, decision string) {
	s.mu.Lock()
	for i, w := range s.waiting {
		if w == g {
			s.waiting = append(s.waiting[:i:i], s.waiting[i+1:]...)
			break
		}
	}
	s.mu.Unlock()
	g.rel <- decision
}

// snapshot lists the waiting gates canonically: fetch gates, accept gates, then
// persist gates in arrival order.
func (s *sched) snapshot() []string {
	s.mu.Lock()
	defer s.mu.Unlock()
	res := []string{}
	for _, k := range []string{"fetch", "accept", "persist"} {
		for _, w := range s.waiting {
			if w.kind == k {
				res = append(res, w.String())
			}
		}
	}
	return res
}

func (s *sched) count(kind string) int {
	s.mu.Lock()
	defer s.mu.Unlock()
	n := 0
	for _, w := range s.waiting {
		if w.kind == kind {
			n++
		}
	}
	return n
}
