//go:build verif

package wlrepl

import (
	"encoding/json"
	"fmt"
	"math/rand"
	"os"
	"runtime"
	"testing"
	"testing/synctest"
	"time"

	"github.com/formancehq/ledger/internal/verif/gen"
)

// ---- generator: seeded random walk over the enabled actions --------------------

type profile struct {
	name                                   string
	ops, reset, mgr, fail, persistW, fetch float64
}

var profiles = []profile{
	// everything on
	{name: "full", ops: 1, reset: 1.2, mgr: 0.6, fail: 1, persistW: 1.5, fetch: 8},
	// no reset (domain of the *_partial theorems)
	{name: "noreset", ops: 1, reset: 0, mgr: 0.8, fail: 1, persistW: 1.5, fetch: 8},
	// plain pipeline: failures but no operations after create
	{name: "calm", ops: 0, reset: 0, mgr: 0, fail: 1, persistW: 4, fetch: 8},
	// lazy persister, many resets and restarts: stale in-flight state writes
	{name: "lazy", ops: 1.5, reset: 2.5, mgr: 1.2, fail: 0.4, persistW: 0.4, fetch: 8},
}

type genChooser struct {
	r       *rand.Rand
	p       profile
	length  int
	maxLogs int
	step    int
	logs    int
	// drain phase
	synced     bool
	drainSteps int
	drainMax   int
	done       bool
}

type wa struct {
	a Action
	w float64
}

func (g *genChooser) random(r *runner) Action {
	var c []wa
	add := func(w float64, a Action) {
		if w > 0 && r.enabled(a) {
			c = append(c, wa{a, w})
		}
	}
	add(g.p.fetch, Action{A: "fetch", R: "ok"})
	add(g.p.fail, Action{A: "fetch", R: "err"})
	add(7, Action{A: "accept", R: "ok"})
	add(2*g.p.fail, Action{A: "accept", R: "fail"})
	add(g.p.fail, Action{A: "accept", R: "lost"})
	add(g.p.fail, Action{A: "accept", R: "rej", N: g.r.Intn(4)})
	for i := 0; i < r.s.count("persist"); i++ {
		add(g.p.persistW, Action{A: "persist", I: i, R: "ok"})
		add(0.15*g.p.fail, Action{A: "persist", I: i, R: "fail"})
	}
	add(3, Action{A: "tick"})
	if g.logs < g.maxLogs {
		add(2, Action{A: "append", N: 1 + g.r.Intn(3)})
	}
	add(6, Action{A: "mgrStart"})
	add(10, Action{A: "create"})
	if r.created {
		add(g.p.ops, Action{A: "start"})
		add(g.p.ops, Action{A: "stop"})
		add(g.p.reset, Action{A: "reset"})
		add(g.p.ops, Action{A: "sync"})
		add(g.p.mgr, Action{A: "mgrStop"})
	} else {
		// operations on a pipeline that does not exist (rare)
		add(0.1*g.p.ops, Action{A: "start"})
		add(0.1*g.p.ops, Action{A: "stop"})
		add(0.1*g.p.reset, Action{A: "reset"})
		add(0.2*g.p.ops, Action{A: "sync"})
	}
	total := 0.0
	for _, x := range c {
		total += x.w
	}
	t := g.r.Float64() * total
	for _, x := range c {
		if t < x.w {
			return x.a
		}
		t -= x.w
	}
	return c[len(c)-1].a
}

// drain: fair and failure-free. Let every waiting call through (oldest persist
// first), make sure manager and pipeline run, fire the timer when nothing waits;
// stop once a fetch came back empty with no state write pending.
func (g *genChooser) drain(r *runner) (Action, bool) {
	if g.done || g.drainSteps >= g.drainMax {
		return Action{}, false
	}
	g.drainSteps++
	if r.last != nil && g.synced && r.last.A == "fetch" && r.last.R == "ok" && !r.last.Skipped &&
		len(r.last.IDs) == 0 && r.s.count("persist") == 0 && r.opCh == nil {
		g.done = true
		return Action{}, false
	}
	switch {
	case r.s.count("persist") > 0:
		return Action{A: "persist", I: 0, R: "ok"}, true
	case r.s.count("accept") > 0:
		return Action{A: "accept", R: "ok"}, true
	case r.s.count("fetch") > 0:
		return Action{A: "fetch", R: "ok"}, true
	case r.opCh != nil:
		return Action{A: "tick"}, true
	case !r.mgrUp:
		return Action{A: "mgrStart"}, true
	case !r.created:
		if g.logs == 0 {
			g.logs += 2
			return Action{A: "append", N: 2}, true
		}
		return Action{A: "create"}, true
	case !g.synced:
		g.synced = true
		return Action{A: "sync"}, true
	default:
		return Action{A: "tick"}, true
	}
}

func (g *genChooser) next(r *runner) (Action, bool) {
	if g.step < g.length {
		g.step++
		a := g.random(r)
		if a.A == "append" {
			g.logs += a.N
		}
		return a, true
	}
	return g.drain(r)
}

func newGenChooser(c *gen.Ctx) (*genChooser, int, int) {
	r := c.R
	g := &genChooser{r: r}
	g.p = profiles[r.Intn(len(profiles))]
	g.length = 8 + r.Intn(50)
	g.maxLogs = 4 + r.Intn(9)
	if c.Wide && r.Intn(4) == 0 {
		g.length = 60 + r.Intn(140)
		g.maxLogs = 10 + r.Intn(30)
	}
	ps := gen.Pick(r, []int{1, 1, 2, 2, 3, 5, 100})
	mi := gen.Pick(r, []int{0, 0, 1, 2, 2, 3, 100})
	g.drainMax = 16*g.maxLogs + 80
	return g, ps, mi
}

// ---- running under testing/synctest ---------------------------------------------

// underSynctest runs body as the single test of an in-process `testing.Main`
// (testing/synctest needs a *testing.T). It never returns: testing.Main exits.
func underSynctest(body func(t *testing.T)) {
	os.Stdout = os.Stderr // keep the testing package's own output off the case stream
	os.Args = os.Args[:1]
	testing.Init()
	testing.Main(func(pat, str string) (bool, error) { return true, nil },
		[]testing.InternalTest{{Name: "repl", F: body}}, nil, nil)
}

// watchdog (real time, outside any bubble): a case that makes no progress for
// 30 s is a hang of the real code under the current schedule; report it loudly.
func watchdog() {
	last, since := progress.Load(), time.Now()
	for {
		time.Sleep(500 * time.Millisecond)
		if p := progress.Load(); p != last {
			last, since = p, time.Now()
			continue
		}
		if time.Since(since) > 30*time.Second {
			buf := make([]byte, 1<<20)
			n := runtime.Stack(buf, true)
			fmt.Fprintf(os.Stderr, "HANG: no scheduler progress for 30s (step %d)\n%s\n", last, buf[:n])
			os.Exit(4)
		}
	}
}

func init() {
	gen.Register("repl", func(c *gen.Ctx) error {
		go watchdog()
		fail := func(err error) {
			c.Out.Flush()
			fmt.Fprintf(os.Stderr, "workload repl failed: %v\n", err)
			os.Exit(3)
		}
		underSynctest(func(t *testing.T) {
			one := func(ps, mi int, ch chooser, drain bool) {
				var script []Action
				var out caseOut
				synctest.Test(t, func(t *testing.T) {
					script, out = runCase(ps, mi, ch)
				})
				if script == nil {
					script = []Action{}
				}
				if err := c.Emit("repl", caseIn{PS: ps, MI: mi, Script: script, Drain: drain}, out); err != nil {
					fail(err)
				}
				if out.Leak > 0 || len(out.Leftover) > 0 {
					fail(fmt.Errorf("goroutine leak after cleanup: leak=%d leftover=%v\n%s", out.Leak, out.Leftover, out.LeakStacks))
				}
			}
			if c.Replay != "" {
				ins, err := c.ReplayInputs("repl")
				if err != nil {
					fail(err)
				}
				for _, raw := range ins {
					var in caseIn
					if err := json.Unmarshal(raw, &in); err != nil {
						fail(err)
					}
					one(in.PS, in.MI, &replayChooser{script: in.Script}, in.Drain)
				}
				return
			}
			for i := 0; i < c.N; i++ {
				g, ps, mi := newGenChooser(c)
				one(ps, mi, g, true)
			}
		})
		return nil
	})
}
