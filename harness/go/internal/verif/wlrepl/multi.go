//go:build verif

package wlrepl

// Workload "replm" (C33, shared exporters): the REAL Manager runs SEVERAL
// pipelines — several ledgers × several exporters, exporters shared between
// ledgers as the common case — under the same synctest scheduler. The script
// mixes create/start/stop/reset/delete/sync/manager restart of single pipelines
// with new logs on all ledgers and bounded amounts of pipeline activity, and ends
// in quiescence. Observed: operation results, exporter driver lifecycle per
// exporter, the manager's running pipelines / registered drivers after every
// operation, every exporter call (exporter, ledger, ids), every state write.

import (
	"context"
	"encoding/json"
	"errors"
	"fmt"
	"os"
	"sort"
	"sync"
	"testing"
	"testing/synctest"
	"time"

	logging "github.com/formancehq/go-libs/v5/pkg/observe/log"
	"github.com/formancehq/go-libs/v5/pkg/storage/bun/paginate"
	"github.com/formancehq/go-libs/v5/pkg/storage/postgres"

	ledger "github.com/formancehq/ledger/internal"
	"github.com/formancehq/ledger/internal/replication"
	"github.com/formancehq/ledger/internal/replication/drivers"
	"github.com/formancehq/ledger/internal/storage/common"
	"github.com/formancehq/ledger/internal/verif/gen"
)

type mAction struct {
	A string `json:"a"`           // append|create|start|stop|reset|delete|sync|mgrStop|mgrStart|run|settle
	L int    `json:"l,omitempty"` // ledger index
	E int    `json:"e,omitempty"` // exporter index
	N int    `json:"n,omitempty"` // append: logs; run: gate releases
}

type mCall struct {
	E   string   `json:"e"` // exporter
	L   string   `json:"l"` // ledger
	IDs []uint64 `json:"ids"`
}

type mPage struct {
	K   string   `json:"k"`
	E   string   `json:"e"`
	L   string   `json:"l"`
	IDs []uint64 `json:"ids,omitempty"`
	OK  bool     `json:"ok,omitempty"`
}

type mWrite struct {
	P string `json:"p"` // pipeline "ledger/exporter"
	V uint64 `json:"v"`
}

type mEvent struct {
	mAction
	Res     string   `json:"res,omitempty"`
	Drivers []string `json:"drivers,omitempty"` // "new:e0" "start:e0" "stop:e0"
	Writes  []string `json:"writes,omitempty"`  // "create:l0/e0" "reset:l0/e0" "delete:l0/e0"
	Calls   []mCall  `json:"calls,omitempty"`   // exporter calls let through in this step, in order
	Stores  []mWrite `json:"stores,omitempty"`  // StorePipelineState executed in this step
	Loads   []mWrite `json:"loads,omitempty"`   // rows (pipeline, last_log_id) read by the manager
	// Pages: every Batcher.Accept of the step, in order: k="send" (the page entered the
	// shared batcher) / "ret" (Accept returned; ok=false: abandoned, context cancelled)
	Pages []mPage `json:"pages,omitempty"`
	Running []string `json:"running"`           // m.pipelines after the step ("ledger/exporter")
	Live    []string `json:"live"`              // m.drivers after the step
	Waiting int      `json:"waiting"`           // calls blocked at a gate after the step
	Quiet   bool     `json:"quiet,omitempty"`   // settle: quiescence was reached
}

type mWorld struct {
	s  *sched
	mu sync.Mutex

	rows  map[string]*ledger.Pipeline // by id
	logs  map[string]uint64           // by ledger
	ev    *mEvent
	empty map[string]bool // ledger → its last fetch came back empty
}

func pkey(p *ledger.Pipeline) string { return p.Ledger + "/" + p.ExporterID }

func (w *mWorld) OpenLedger(ctx context.Context, name string) (replication.LogFetcher, *ledger.Ledger, error) {
	return &mFetcher{w: w, ledger: name}, &ledger.Ledger{Name: name}, nil
}

func (w *mWorld) StorePipelineState(ctx context.Context, id string, lastLogID uint64) error {
	if _, ok := w.s.arrive(ctx, &gate{kind: "persist", v: lastLogID}); !ok {
		return ctx.Err()
	}
	w.mu.Lock()
	defer w.mu.Unlock()
	p, found := w.rows[id]
	if !found {
		return postgres.ErrNotFound
	}
	v := lastLogID
	p.LastLogID = &v
	w.ev.Stores = append(w.ev.Stores, mWrite{P: pkey(p), V: v})
	return nil
}

func (w *mWorld) ListExporters(ctx context.Context) (*paginate.Cursor[ledger.Exporter], error) {
	return &paginate.Cursor[ledger.Exporter]{}, nil
}
func (w *mWorld) CreateExporter(ctx context.Context, exporter ledger.Exporter) error { return nil }
func (w *mWorld) DeleteExporter(ctx context.Context, id string) error                { return nil }
func (w *mWorld) GetExporter(ctx context.Context, id string) (*ledger.Exporter, error) {
	return nil, postgres.ErrNotFound
}
func (w *mWorld) UpdateExporter(ctx context.Context, exporter ledger.Exporter) error { return nil }

func (w *mWorld) CreatePipeline(ctx context.Context, pipeline ledger.Pipeline) error {
	w.mu.Lock()
	defer w.mu.Unlock()
	for _, p := range w.rows {
		// unique index on (ledger, exporter_id)
		if p.PipelineConfiguration == pipeline.PipelineConfiguration {
			return ledger.NewErrPipelineAlreadyExists(pipeline.PipelineConfiguration)
		}
	}
	cp := pipeline
	w.rows[pipeline.ID] = &cp
	w.ev.Writes = append(w.ev.Writes, "create:"+pkey(&cp))
	return nil
}

func (w *mWorld) DeletePipeline(ctx context.Context, id string) error {
	w.mu.Lock()
	defer w.mu.Unlock()
	p, ok := w.rows[id]
	if !ok {
		return postgres.ErrNotFound
	}
	w.ev.Writes = append(w.ev.Writes, "delete:"+pkey(p))
	delete(w.rows, id)
	return nil
}

func (w *mWorld) UpdatePipeline(ctx context.Context, id string, o map[string]any) (*ledger.Pipeline, error) {
	w.mu.Lock()
	defer w.mu.Unlock()
	p, ok := w.rows[id]
	if !ok {
		return nil, postgres.ErrNotFound
	}
	if v, ok := o["enabled"].(bool); ok {
		p.Enabled = v
	}
	if v, has := o["last_log_id"]; has {
		if n, ok := u64(v); ok {
			p.LastLogID = &n
		} else {
			p.LastLogID = nil
			w.ev.Writes = append(w.ev.Writes, "reset:"+pkey(p))
		}
	}
	return w.copyOut(p, false), nil
}

func (w *mWorld) ListPipelines(ctx context.Context) (*paginate.Cursor[ledger.Pipeline], error) {
	return &paginate.Cursor[ledger.Pipeline]{}, nil
}

func (w *mWorld) copyOut(p *ledger.Pipeline, load bool) *ledger.Pipeline {
	cp := *p
	if p.LastLogID != nil {
		n := *p.LastLogID
		cp.LastLogID = &n
	}
	if load {
		w.ev.Loads = append(w.ev.Loads, mWrite{P: pkey(p), V: lastOf(p)})
	}
	return &cp
}

func (w *mWorld) ListEnabledPipelines(ctx context.Context) ([]ledger.Pipeline, error) {
	w.mu.Lock()
	defer w.mu.Unlock()
	keys := make([]string, 0)
	byKey := map[string]*ledger.Pipeline{}
	for _, p := range w.rows {
		if p.Enabled {
			keys = append(keys, pkey(p))
			byKey[pkey(p)] = p
		}
	}
	sort.Strings(keys)
	res := make([]ledger.Pipeline, 0, len(keys))
	for _, k := range keys {
		res = append(res, *w.copyOut(byKey[k], true))
	}
	return res, nil
}

func (w *mWorld) GetPipeline(ctx context.Context, id string) (*ledger.Pipeline, error) {
	w.mu.Lock()
	defer w.mu.Unlock()
	p, ok := w.rows[id]
	if !ok {
		return nil, postgres.ErrNotFound
	}
	return w.copyOut(p, true), nil
}

var _ replication.Storage = (*mWorld)(nil)

type mFetcher struct {
	w      *mWorld
	ledger string
}

func (f *mFetcher) ListLogs(ctx context.Context, q common.PaginatedQuery[any]) (*paginate.Cursor[ledger.Log], error) {
	if _, ok := f.w.s.arrive(ctx, &gate{kind: "fetch"}); !ok {
		return nil, ctx.Err()
	}
	iq, ok := q.(common.InitialPaginatedQuery[any])
	if !ok {
		return nil, fmt.Errorf("unsupported query type %T", q)
	}
	after := uint64(0)
	if iq.Options.Builder != nil {
		err := iq.Options.Builder.Walk(func(operator, key string, value *any) error {
			n, ok := u64(*value)
			if operator != "$gt" || key != "id" || !ok {
				return fmt.Errorf("unsupported filter %s %s", operator, key)
			}
			after = n
			return nil
		})
		if err != nil {
			return nil, err
		}
	}
	f.w.mu.Lock()
	defer f.w.mu.Unlock()
	res := &paginate.Cursor[ledger.Log]{PageSize: int(iq.PageSize)}
	for id := after + 1; id <= f.w.logs[f.ledger]; id++ {
		if uint64(len(res.Data)) == iq.PageSize {
			res.HasMore = true
			break
		}
		n := id
		res.Data = append(res.Data, ledger.Log{ID: &n})
	}
	f.w.empty[f.ledger] = len(res.Data) == 0
	return res, nil
}

type mFactory struct {
	w        *mWorld
	maxItems int
}

func (f *mFactory) Create(ctx context.Context, id string) (drivers.Driver, json.RawMessage, error) {
	f.w.mu.Lock()
	f.w.ev.Drivers = append(f.w.ev.Drivers, "new:"+id)
	f.w.mu.Unlock()
	cfg := fmt.Sprintf(`{"batching":{"maxItems":%d,"flushInterval":"2ns"}}`, f.maxItems)
	return &mExporter{w: f.w, id: id}, json.RawMessage(cfg), nil
}

// mPageFactory wraps the real Batcher (as handed out by NewWithBatchingDriverFactory)
// only to OBSERVE the pages the handlers pass to Batcher.Accept and how it returns.
type mPageFactory struct {
	w     *mWorld
	inner drivers.Factory
}

func (f *mPageFactory) Create(ctx context.Context, id string) (drivers.Driver, json.RawMessage, error) {
	d, raw, err := f.inner.Create(ctx, id)
	if err != nil {
		return nil, nil, err
	}
	return &mPageDriver{Driver: d, w: f.w, id: id}, raw, nil
}

type mPageDriver struct {
	drivers.Driver
	w  *mWorld
	id string
}

func (d *mPageDriver) Accept(ctx context.Context, logs ...drivers.LogWithLedger) ([]error, error) {
	l := ""
	ids := make([]uint64, 0, len(logs))
	for _, x := range logs {
		l = x.Ledger
		ids = append(ids, *x.ID)
	}
	d.w.mu.Lock()
	d.w.ev.Pages = append(d.w.ev.Pages, mPage{K: "send", E: d.id, L: l, IDs: ids})
	d.w.mu.Unlock()
	errs, err := d.Driver.Accept(ctx, logs...)
	d.w.mu.Lock()
	d.w.ev.Pages = append(d.w.ev.Pages, mPage{K: "ret", E: d.id, L: l, OK: err == nil})
	d.w.mu.Unlock()
	return errs, err
}

type mExporter struct {
	w  *mWorld
	id string
}

func (e *mExporter) note(what string) {
	e.w.mu.Lock()
	e.w.ev.Drivers = append(e.w.ev.Drivers, what+":"+e.id)
	e.w.mu.Unlock()
}
func (e *mExporter) Start(ctx context.Context) error { e.note("start"); return nil }
func (e *mExporter) Stop(ctx context.Context) error  { e.note("stop"); return nil }

// Accept: one call of the exporter (one chunk of the shared Batcher; it may mix
// logs of several ledgers). Always succeeds once let through; a call whose
// context was cancelled (batcher stopped) receives nothing.
func (e *mExporter) Accept(ctx context.Context, logs ...drivers.LogWithLedger) ([]error, error) {
	if _, ok := e.w.s.arrive(ctx, &gate{kind: "accept"}); !ok {
		return nil, ctx.Err()
	}
	e.w.mu.Lock()
	defer e.w.mu.Unlock()
	var cur *mCall
	for _, l := range logs {
		// one entry per run of consecutive ids of one ledger: a chunk of the shared batcher
		// can hold several pages (other ledgers, or an abandoned page of the same ledger)
		if cur == nil || cur.L != l.Ledger || cur.IDs[len(cur.IDs)-1]+1 != *l.ID {
			e.w.ev.Calls = append(e.w.ev.Calls, mCall{E: e.id, L: l.Ledger})
			cur = &e.w.ev.Calls[len(e.w.ev.Calls)-1]
		}
		cur.IDs = append(cur.IDs, *l.ID)
	}
	return make([]error, len(logs)), nil
}

// ---- runner ---------------------------------------------------------------------

type mRunner struct {
	ps, mi int
	s      *sched
	w      *mWorld
	ctx    context.Context
	mgr    *replication.Manager
	mgrUp  bool
	ids    map[string]string // "ledger/exporter" → pipeline id
	keys   map[string]string // id → key
}

func (r *mRunner) newManager() {
	f := &mPageFactory{w: r.w, inner: drivers.NewWithBatchingDriverFactory(&mFactory{w: r.w, maxItems: r.mi}, logging.NopZap())}
	r.mgr = replication.NewManager(r.w, f, logging.NopZap(), nopValidator{},
		replication.WithSyncPeriod(100000*time.Hour),
		replication.WithPipelineOptions(
			replication.WithPullPeriod(2),
			replication.WithPushRetryPeriod(2),
			replication.WithLogsPageSize(uint64(r.ps)),
		),
	)
	go r.mgr.Run(r.ctx)
}

func lname(i int) string { return fmt.Sprintf("l%d", i) }
func ename(i int) string { return fmt.Sprintf("e%d", i) }

// releaseOne lets the oldest waiting call through (state writes first, then
// exporter calls, then fetches); false when nothing waits.
func (r *mRunner) releaseOne() bool {
	for _, k := range []string{"persist", "accept", "fetch"} {
		if g := r.s.find(k, 0); g != nil {
			r.s.release(g, "ok")
			synctest.Wait()
			return true
		}
	}
	return false
}

func (r *mRunner) tick() {
	time.Sleep(3 * time.Nanosecond)
	synctest.Wait()
}

func (r *mRunner) waiting() int {
	return r.s.count("persist") + r.s.count("accept") + r.s.count("fetch")
}

// op runs a manager operation to completion; while it waits for a handler that
// sits in a gated call, calls are let through oldest first.
func (r *mRunner) op(f func() error) string {
	ch := make(chan error, 1)
	go func() { ch <- f() }()
	synctest.Wait()
	for i := 0; i < 10000; i++ {
		select {
		case err := <-ch:
			return errKind(err)
		default:
		}
		progress.Add(1)
		if !r.releaseOne() {
			r.tick()
		}
	}
	return "stuck"
}

// settle: fair, failure-free activity until every running pipeline is idle: no
// state write or exporter call waits and every ledger's last fetch was empty.
func (r *mRunner) settle(max int) bool {
	for i := 0; i < max; i++ {
		progress.Add(1)
		for r.s.count("persist")+r.s.count("accept") > 0 {
			r.releaseOne()
		}
		// one full round of fetches
		r.w.mu.Lock()
		for k := range r.w.empty {
			delete(r.w.empty, k)
		}
		r.w.mu.Unlock()
		r.tick()
		n := r.s.count("fetch")
		for j := 0; j < n; j++ {
			if g := r.s.find("fetch", 0); g != nil {
				r.s.release(g, "ok")
				synctest.Wait()
			}
		}
		r.tick() // batcher flush
		if r.s.count("persist")+r.s.count("accept") == 0 {
			r.w.mu.Lock()
			all := true
			for _, e := range r.w.empty {
				all = all && e
			}
			r.w.mu.Unlock()
			if all && n > 0 || n == 0 && i > 2 {
				return all
			}
		}
	}
	return false
}

// park lets every waiting call through WITHOUT advancing the clock until nothing
// waits: every handler then sits in a `select` (timer or export result) and
// notices a stop signal on its own. Needed before Manager.Stop with several
// pipelines: it stops them one after the other while holding the manager mutex,
// and the exit path of an already stopped handler blocks on that mutex, which
// synctest does not count as durably blocked.
func (r *mRunner) park() {
	for i := 0; i < 5000 && r.waiting() > 0; i++ {
		progress.Add(1)
		r.releaseOne()
	}
}

// drainStores lets every waiting StorePipelineState through: a state write in flight
// across a reset is the reset race, which the `repl` workload covers.
func (r *mRunner) drainStores() {
	for i := 0; i < 1000; i++ {
		g := r.s.find("persist", 0)
		if g == nil {
			return
		}
		r.s.release(g, "ok")
		synctest.Wait()
	}
}

func (r *mRunner) exec(a mAction) mEvent {
	progress.Add(1)
	ev := mEvent{mAction: a}
	r.w.mu.Lock()
	r.w.ev = &ev
	r.w.mu.Unlock()
	key := lname(a.L) + "/" + ename(a.E)
	id, known := r.ids[key]
	if !known {
		id = "missing"
	}
	mgr, ctx := r.mgr, r.ctx
	needUp := func(f func() error) {
		if !r.mgrUp {
			ev.Res = "down"
			return
		}
		ev.Res = r.op(f)
	}
	switch a.A {
	case "append":
		r.w.mu.Lock()
		r.w.logs[lname(a.L)] += uint64(a.N)
		r.w.mu.Unlock()
	case "create":
		needUp(func() error {
			p, err := mgr.CreatePipeline(ctx, ledger.NewPipelineConfiguration(lname(a.L), ename(a.E)))
			if err == nil {
				r.w.mu.Lock()
				r.ids[key], r.keys[p.ID] = p.ID, key
				r.w.mu.Unlock()
			}
			return err
		})
	case "start":
		needUp(func() error { return mgr.StartPipeline(ctx, id) })
	case "stop":
		r.drainStores()
		needUp(func() error { return mgr.StopPipeline(ctx, id) })
	case "reset":
		r.drainStores()
		needUp(func() error { return mgr.ResetPipeline(ctx, id) })
	case "delete":
		r.drainStores()
		needUp(func() error {
			err := mgr.DeletePipeline(ctx, id)
			if err == nil {
				r.w.mu.Lock()
				delete(r.ids, key)
				r.w.mu.Unlock()
			}
			return err
		})
	case "sync":
		needUp(func() error { return mgr.VerifSync(ctx) })
	case "mgrStop":
		r.park()
		needUp(func() error { return mgr.Stop(ctx) })
		if ev.Res == "ok" {
			r.mgrUp = false
		}
	case "mgrStart":
		if r.mgrUp {
			ev.Res = "up"
		} else {
			r.newManager()
			m2 := r.mgr
			ev.Res = r.op(func() error { <-m2.Started(); return nil })
			r.mgrUp = true
		}
	case "run":
		for i := 0; i < a.N; i++ {
			if !r.releaseOne() {
				r.tick()
			}
		}
	case "settle":
		ev.Quiet = r.settle(40 + 4*a.N)
	}
	synctest.Wait()
	if r.mgrUp {
		ps, ds := r.mgr.VerifState()
		r.w.mu.Lock()
		for _, p := range ps {
			ev.Running = append(ev.Running, r.keys[p])
		}
		r.w.mu.Unlock()
		ev.Live = ds
	}
	sort.Strings(ev.Running)
	sort.Strings(ev.Live)
	if ev.Running == nil {
		ev.Running = []string{}
	}
	if ev.Live == nil {
		ev.Live = []string{}
	}
	ev.Waiting = r.waiting()
	r.w.mu.Lock()
	r.w.ev = &mEvent{}
	r.w.mu.Unlock()
	return ev
}

func (r *mRunner) cleanup() {
	r.w.mu.Lock()
	r.w.ev = &mEvent{}
	r.w.mu.Unlock()
	r.park()
	if r.mgrUp {
		mgr, ctx := r.mgr, r.ctx
		r.op(func() error { return mgr.Stop(ctx) })
	}
	for i := 0; i < 2000 && r.waiting() > 0; i++ {
		r.releaseOne()
	}
	synctest.Wait()
}

type mCaseIn struct {
	PS     int       `json:"ps"`
	MI     int       `json:"mi"`
	Script []mAction `json:"script"`
}

type mCaseOut struct {
	Trace []mEvent `json:"trace"`
	Leak  int      `json:"leak,omitempty"`
}

func runMulti(in mCaseIn) (out mCaseOut, stacks string) {
	s := &sched{}
	r := &mRunner{ps: in.PS, mi: in.MI, s: s,
		w:   &mWorld{s: s, rows: map[string]*ledger.Pipeline{}, logs: map[string]uint64{}, ev: &mEvent{}, empty: map[string]bool{}},
		ctx: logging.ContextWithLogger(context.Background(), logging.NopZap()),
		ids: map[string]string{}, keys: map[string]string{}}
	r.newManager()
	synctest.Wait()
	r.mgrUp = true
	for _, a := range in.Script {
		out.Trace = append(out.Trace, r.exec(a))
	}
	r.cleanup()
	out.Leak, stacks = bubbleLeaks()
	return out, stacks
}

// genMulti: 2–3 ledgers, 1–2 exporters, most pipelines on exporter 0 (shared).
func genMulti(c *gen.Ctx) mCaseIn {
	r := c.R
	in := mCaseIn{PS: gen.Pick(r, []int{1, 2, 3, 100}), MI: gen.Pick(r, []int{0, 0, 2, 100})}
	nl, ne := 2+r.Intn(2), 1+r.Intn(2)
	add := func(a mAction) { in.Script = append(in.Script, a) }
	pickE := func() int {
		if ne > 1 && r.Intn(4) == 0 {
			return 1
		}
		return 0
	}
	// set-up: logs everywhere, one pipeline per ledger (mostly the shared exporter)
	for l := 0; l < nl; l++ {
		add(mAction{A: "append", L: l, N: 1 + r.Intn(4)})
		add(mAction{A: "create", L: l, E: pickE()})
		if r.Intn(3) == 0 {
			add(mAction{A: "run", N: r.Intn(6)})
		}
	}
	// before an operation on one pipeline: mostly bring everything to rest; sometimes leave
	// the pipeline busy (new logs, a few calls let through): its page may then sit in the
	// SHARED batcher when the pipeline is stopped
	quiesce := func(l int) {
		add(mAction{A: "settle", N: 10})
		if r.Intn(3) == 0 {
			add(mAction{A: "append", L: l, N: 1 + r.Intn(3)})
			add(mAction{A: "run", N: 1 + r.Intn(4)})
		}
	}
	steps := 6 + r.Intn(14)
	if c.Wide && r.Intn(3) == 0 {
		steps += r.Intn(40)
	}
	for i := 0; i < steps; i++ {
		l, e := r.Intn(nl), pickE()
		switch k := r.Intn(20); {
		case k < 5:
			add(mAction{A: "append", L: l, N: 1 + r.Intn(3)})
		case k < 8:
			add(mAction{A: "run", N: 1 + r.Intn(8)})
		case k < 10:
			quiesce(l)
			add(mAction{A: "stop", L: l, E: e})
		case k < 12:
			add(mAction{A: "start", L: l, E: e})
		case k < 15:
			quiesce(l)
			add(mAction{A: "reset", L: l, E: e})
		case k < 16:
			quiesce(l)
			add(mAction{A: "delete", L: l, E: e})
		case k < 17:
			add(mAction{A: "create", L: l, E: e})
		case k < 18:
			add(mAction{A: "sync"})
		case k < 19:
			add(mAction{A: "settle", N: 10})
			add(mAction{A: "mgrStop"})
			add(mAction{A: "mgrStart"})
		default:
			add(mAction{A: "settle", N: 10})
		}
		if r.Intn(3) == 0 {
			add(mAction{A: "append", L: r.Intn(nl), N: 1 + r.Intn(2)})
		}
	}
	add(mAction{A: "mgrStart"})
	for l := 0; l < nl; l++ {
		add(mAction{A: "append", L: l, N: 1})
	}
	add(mAction{A: "settle", N: 60})
	return in
}

func init() {
	gen.Register("replm", func(c *gen.Ctx) error {
		go watchdog()
		fail := func(err error) {
			c.Out.Flush()
			fmt.Fprintf(os.Stderr, "workload replm failed: %v\n", err)
			os.Exit(3)
		}
		underSynctest(func(t *testing.T) {
			one := func(in mCaseIn) {
				var out mCaseOut
				var stacks string
				synctest.Test(t, func(t *testing.T) { out, stacks = runMulti(in) })
				if err := c.Emit("replm", in, out); err != nil {
					fail(err)
				}
				if out.Leak > 0 {
					fail(fmt.Errorf("goroutine leak after cleanup: %d\n%s", out.Leak, stacks))
				}
			}
			if c.Replay != "" {
				ins, err := c.ReplayInputs("replm")
				if err != nil {
					fail(err)
				}
				for _, raw := range ins {
					var in mCaseIn
					if err := json.Unmarshal(raw, &in); err != nil {
						fail(err)
					}
					one(in)
				}
				return
			}
			for i := 0; i < c.N; i++ {
				one(genMulti(c))
			}
		})
		return nil
	})
}

var _ = errors.New
