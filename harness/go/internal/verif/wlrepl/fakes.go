//go:build verif

package wlrepl

import (
	"context"
	"encoding/json"
	"errors"
	"fmt"
	"reflect"
	"sort"
	"strconv"
	"strings"
	"sync"

	logging "github.com/formancehq/go-libs/v5/pkg/observe/log"

	"github.com/formancehq/go-libs/v5/pkg/storage/bun/paginate"
	"github.com/formancehq/go-libs/v5/pkg/storage/postgres"

	ledger "github.com/formancehq/ledger/internal"
	"github.com/formancehq/ledger/internal/replication"
	"github.com/formancehq/ledger/internal/replication/drivers"
	"github.com/formancehq/ledger/internal/storage/common"
)

// ---- storage -----------------------------------------------------------------

// world is the in-memory stand-in for Postgres: the `_system.pipelines` rows and
// the log table of the one ledger. Reads and writes happen at the moment the
// scheduler lets the call through (for gated calls) or immediately (calls the
// manager makes while holding its own lock: they cannot interleave with each
// other and a gate there would only deadlock on the manager mutex).
type world struct {
	s  *sched
	mu sync.Mutex // never held while blocking

	pipelines map[string]*ledger.Pipeline
	nLogs     uint64

	// observations of the step in progress (reset by the runner)
	obs *stepObs
}

type stepObs struct {
	Q       string   // fetch: the query's filter as seen by the store
	IDs     []uint64 // fetch: rows returned / accept: batch received
	More    bool
	V       uint64
	Found   bool
	Loads   []uint64 // last_log_id of every pipeline row handed to the manager by a read
	Writes  []string // non-gated writes: "create", "update:<canonical map>", "delete"
	Drivers []string // driver lifecycle: "new", "start", "stop"
	Panics  []string // panics of the real Batcher.Accept (recovered by the harness)
}

func u64(v any) (uint64, bool) {
	rv := reflect.ValueOf(v)
	switch rv.Kind() {
	case reflect.Uint, reflect.Uint8, reflect.Uint16, reflect.Uint32, reflect.Uint64:
		return rv.Uint(), true
	case reflect.Int, reflect.Int8, reflect.Int16, reflect.Int32, reflect.Int64:
		if rv.Int() < 0 {
			return 0, false
		}
		return uint64(rv.Int()), true
	case reflect.Pointer:
		if rv.IsNil() {
			return 0, false
		}
		return u64(rv.Elem().Interface())
	}
	return 0, false
}

func lastOf(p *ledger.Pipeline) uint64 {
	if p.LastLogID == nil {
		return 0
	}
	return *p.LastLogID
}

func (w *world) OpenLedger(ctx context.Context, name string) (replication.LogFetcher, *ledger.Ledger, error) {
	return &fetcher{w: w}, &ledger.Ledger{Name: name}, nil
}

func (w *world) StorePipelineState(ctx context.Context, id string, lastLogID uint64) error {
	d, ok := w.s.arrive(ctx, &gate{kind: "persist", v: lastLogID})
	if !ok {
		return ctx.Err()
	}
	w.mu.Lock()
	defer w.mu.Unlock()
	w.obs.V = lastLogID
	if d == "fail" {
		return errors.New("scripted StorePipelineState failure")
	}
	p, found := w.pipelines[id]
	w.obs.Found = found
	if !found {
		return postgres.ErrNotFound
	}
	v := lastLogID
	p.LastLogID = &v
	return nil
}

func (w *world) ListExporters(ctx context.Context) (*paginate.Cursor[ledger.Exporter], error) {
	return &paginate.Cursor[ledger.Exporter]{}, nil
}
func (w *world) CreateExporter(ctx context.Context, exporter ledger.Exporter) error { return nil }
func (w *world) DeleteExporter(ctx context.Context, id string) error                { return nil }
func (w *world) GetExporter(ctx context.Context, id string) (*ledger.Exporter, error) {
	return nil, postgres.ErrNotFound
}
func (w *world) UpdateExporter(ctx context.Context, exporter ledger.Exporter) error { return nil }

func (w *world) CreatePipeline(ctx context.Context, pipeline ledger.Pipeline) error {
	w.mu.Lock()
	defer w.mu.Unlock()
	cp := pipeline
	w.pipelines[pipeline.ID] = &cp
	w.obs.Writes = append(w.obs.Writes, "create")
	return nil
}

func (w *world) DeletePipeline(ctx context.Context, id string) error {
	w.mu.Lock()
	defer w.mu.Unlock()
	if _, ok := w.pipelines[id]; !ok {
		return postgres.ErrNotFound
	}
	delete(w.pipelines, id)
	w.obs.Writes = append(w.obs.Writes, "delete")
	return nil
}

func (w *world) UpdatePipeline(ctx context.Context, id string, o map[string]any) (*ledger.Pipeline, error) {
	w.mu.Lock()
	defer w.mu.Unlock()
	keys := make([]string, 0, len(o))
	for k := range o {
		keys = append(keys, k)
	}
	sort.Strings(keys)
	canon := "update:"
	for _, k := range keys {
		canon += fmt.Sprintf("%s=%v;", k, o[k])
	}
	w.obs.Writes = append(w.obs.Writes, canon)
	p, ok := w.pipelines[id]
	if !ok {
		return nil, postgres.ErrNotFound
	}
	for _, k := range keys {
		v := o[k]
		switch k {
		case "enabled":
			if b, ok := v.(bool); ok {
				p.Enabled = b
			}
		case "last_log_id":
			if n, ok := u64(v); ok {
				p.LastLogID = &n
			} else {
				p.LastLogID = nil
			}
		}
	}
	cp := *p
	if p.LastLogID != nil {
		n := *p.LastLogID
		cp.LastLogID = &n
	}
	return &cp, nil
}

func (w *world) ListPipelines(ctx context.Context) (*paginate.Cursor[ledger.Pipeline], error) {
	return &paginate.Cursor[ledger.Pipeline]{}, nil
}

func (w *world) copyOut(p *ledger.Pipeline) ledger.Pipeline {
	cp := *p
	if p.LastLogID != nil {
		n := *p.LastLogID
		cp.LastLogID = &n
	}
	w.obs.Loads = append(w.obs.Loads, lastOf(p))
	return cp
}

func (w *world) ListEnabledPipelines(ctx context.Context) ([]ledger.Pipeline, error) {
	w.mu.Lock()
	defer w.mu.Unlock()
	ids := make([]string, 0)
	for id, p := range w.pipelines {
		if p.Enabled {
			ids = append(ids, id)
		}
	}
	sort.Strings(ids)
	res := make([]ledger.Pipeline, 0, len(ids))
	for _, id := range ids {
		res = append(res, w.copyOut(w.pipelines[id]))
	}
	return res, nil
}

func (w *world) GetPipeline(ctx context.Context, id string) (*ledger.Pipeline, error) {
	w.mu.Lock()
	defer w.mu.Unlock()
	p, ok := w.pipelines[id]
	if !ok {
		return nil, postgres.ErrNotFound
	}
	cp := w.copyOut(p)
	return &cp, nil
}

var _ replication.Storage = (*world)(nil)

// ---- log fetcher ---------------------------------------------------------------

type fetcher struct{ w *world }

// ListLogs interprets the paginated query the way the ledger store does for the
// log table: filter on `id` by the builder's comparison operators, order by id,
// return at most PageSize rows and HasMore when further rows match.
func (f *fetcher) ListLogs(ctx context.Context, q common.PaginatedQuery[any]) (*paginate.Cursor[ledger.Log], error) {
	d, ok := f.w.s.arrive(ctx, &gate{kind: "fetch"})
	if !ok {
		return nil, ctx.Err()
	}
	var iq common.InitialPaginatedQuery[any]
	switch v := q.(type) {
	case common.InitialPaginatedQuery[any]:
		iq = v
	case *common.InitialPaginatedQuery[any]:
		iq = *v
	default:
		return nil, fmt.Errorf("unsupported query type %T", q)
	}
	type cons struct {
		op string
		v  uint64
	}
	var cs []cons
	desc := "none"
	if iq.Options.Builder != nil {
		desc = ""
		err := iq.Options.Builder.Walk(func(operator, key string, value *any) error {
			n, ok := u64(*value)
			if key != "id" || !ok {
				return fmt.Errorf("unsupported filter %s %s %v", operator, key, *value)
			}
			cs = append(cs, cons{operator, n})
			if desc != "" {
				desc += ","
			}
			desc += fmt.Sprintf("%s:%d", operator, n)
			return nil
		})
		if err != nil {
			return nil, err
		}
	}
	if iq.Column != "id" {
		desc += ";column=" + iq.Column
	}
	asc := iq.Order == nil || *iq.Order == paginate.Order(paginate.OrderAsc)
	if !asc {
		desc += ";desc"
	}
	f.w.mu.Lock()
	defer f.w.mu.Unlock()
	f.w.obs.Q = desc
	if d == "err" {
		return nil, errors.New("scripted ListLogs failure")
	}
	match := make([]uint64, 0)
	for id := uint64(1); id <= f.w.nLogs; id++ {
		keep := true
		for _, c := range cs {
			switch c.op {
			case "$gt":
				keep = keep && id > c.v
			case "$gte":
				keep = keep && id >= c.v
			case "$lt":
				keep = keep && id < c.v
			case "$lte":
				keep = keep && id <= c.v
			case "$match":
				keep = keep && id == c.v
			default:
				return nil, fmt.Errorf("unsupported operator %s", c.op)
			}
		}
		if keep {
			match = append(match, id)
		}
	}
	if !asc {
		for i, j := 0, len(match)-1; i < j; i, j = i+1, j-1 {
			match[i], match[j] = match[j], match[i]
		}
	}
	ps := iq.PageSize
	if ps == 0 {
		ps = 15 // bunpaginate default page size
	}
	more := uint64(len(match)) > ps
	if more {
		match = match[:ps]
	}
	res := &paginate.Cursor[ledger.Log]{PageSize: int(ps), HasMore: more, Data: make([]ledger.Log, 0, len(match))}
	for _, id := range match {
		n := id
		res.Data = append(res.Data, ledger.Log{ID: &n})
	}
	f.w.obs.IDs = match
	f.w.obs.More = more
	return res, nil
}

// ---- exporter --------------------------------------------------------------------

// factory is the innermost drivers.Factory: it creates the scripted exporter and
// hands out the batching configuration, exactly where the production registry
// hands out the stored exporter configuration.
type factory struct {
	w        *world
	maxItems int
}

func (f *factory) Create(ctx context.Context, id string) (drivers.Driver, json.RawMessage, error) {
	f.w.mu.Lock()
	f.w.obs.Drivers = append(f.w.obs.Drivers, "new")
	f.w.mu.Unlock()
	cfg := fmt.Sprintf(`{"batching":{"maxItems":%d,"flushInterval":"2ns"}}`, f.maxItems)
	return &exporter{w: f.w}, json.RawMessage(cfg), nil
}

// newFactory = production wiring (module.go): the registry factory decorated by
// drivers.NewWithBatchingDriverFactory, so the REAL drivers.Batcher sits between
// the pipeline (DriverFacade) and the scripted exporter. The outermost layer only
// turns a panic of Batcher.Accept into an observation (it would kill the process).
func newFactory(w *world, maxItems int) drivers.Factory {
	return &guardFactory{w: w, inner: drivers.NewWithBatchingDriverFactory(&factory{w: w, maxItems: maxItems}, logging.NopZap())}
}

type guardFactory struct {
	w     *world
	inner drivers.Factory
}

func (g *guardFactory) Create(ctx context.Context, id string) (drivers.Driver, json.RawMessage, error) {
	d, raw, err := g.inner.Create(ctx, id)
	if err != nil {
		return nil, nil, err
	}
	return &guardDriver{Driver: d, w: g.w}, raw, nil
}

type guardDriver struct {
	drivers.Driver
	w *world
}

func (g *guardDriver) Accept(ctx context.Context, logs ...drivers.LogWithLedger) (errs []error, err error) {
	defer func() {
		if p := recover(); p != nil {
			msg := fmt.Sprint(p)
			if strings.Contains(msg, "nil pointer dereference") {
				msg = "nil-pointer"
			}
			g.w.mu.Lock()
			g.w.obs.Panics = append(g.w.obs.Panics, msg)
			g.w.mu.Unlock()
			errs, err = nil, fmt.Errorf("panic in Accept: %s", msg)
		}
	}()
	return g.Driver.Accept(ctx, logs...)
}

// exporter is the scripted drivers.Driver behind the real Batcher. Accept waits at
// its gate; the scheduler's decision is "ok" (batch received, every item
// acknowledged), "fail" (nothing received, whole-call error), "lost" (batch
// received but the acknowledgement is lost: whole-call error) or "rej:<k>" (the
// call succeeds but item k is refused with an item-level error, as the
// Elasticsearch driver does for a rejected document; the other items are
// acknowledged). A call whose context was cancelled (the batcher was stopped)
// receives nothing.
type exporter struct{ w *world }

func (e *exporter) Start(ctx context.Context) error {
	e.w.mu.Lock()
	e.w.obs.Drivers = append(e.w.obs.Drivers, "start")
	e.w.mu.Unlock()
	return nil
}

func (e *exporter) Stop(ctx context.Context) error {
	e.w.mu.Lock()
	e.w.obs.Drivers = append(e.w.obs.Drivers, "stop")
	e.w.mu.Unlock()
	return nil
}

func (e *exporter) Accept(ctx context.Context, logs ...drivers.LogWithLedger) ([]error, error) {
	ids := make([]uint64, 0, len(logs))
	for _, l := range logs {
		if l.ID == nil {
			ids = append(ids, 0)
		} else {
			ids = append(ids, *l.ID)
		}
	}
	d, ok := e.w.s.arrive(ctx, &gate{kind: "accept", ids: ids})
	if !ok {
		return nil, ctx.Err()
	}
	e.w.mu.Lock()
	defer e.w.mu.Unlock()
	e.w.obs.IDs = ids
	switch {
	case d == "ok":
		return make([]error, len(logs)), nil
	case d == "lost":
		return nil, errors.New("scripted: acknowledgement lost")
	case strings.HasPrefix(d, "rej:"):
		k, _ := strconv.Atoi(d[4:])
		res := make([]error, len(logs))
		if len(logs) > 0 {
			res[k%len(logs)] = errors.New("scripted: item rejected")
		}
		return res, nil
	default:
		return nil, errors.New("scripted Accept failure")
	}
}

type nopValidator struct{}

func (nopValidator) ValidateConfig(string, json.RawMessage) error { return nil }
