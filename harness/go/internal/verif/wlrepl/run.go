//go:build verif

package wlrepl

import (
	"context"
	"errors"
	"fmt"
	"runtime"
	"strings"
	"sync/atomic"
	"testing/synctest"
	"time"

	logging "github.com/formancehq/go-libs/v5/pkg/observe/log"
	"github.com/formancehq/go-libs/v5/pkg/storage/postgres"

	ledger "github.com/formancehq/ledger/internal"
	"github.com/formancehq/ledger/internal/replication"
)

// Action is one scheduling choice of the script.
//
//	append n            n new logs are committed in the ledger
//	create|start|stop|reset|sync|mgrStop|mgrStart
//	                    a manager operation is started (it completes in the same
//	                    step unless it has to wait for the handler to notice)
//	fetch r=ok|err      the handler's pending ListLogs is let through
//	accept r=ok|fail|lost|rej (n = index of the refused item)
//	                    the pending exporter call (one chunk of the real Batcher) is let through
//	persist i r=ok|fail the i-th (arrival order) pending StorePipelineState
//	tick                the virtual clock advances past the pending handler timer
type Action struct {
	A string `json:"a"`
	N int    `json:"n,omitempty"`
	I int    `json:"i,omitempty"`
	R string `json:"r,omitempty"`
}

// Event = the action as executed + everything observable about the step.
type Event struct {
	Action
	Skipped bool     `json:"skipped,omitempty"` // the action was not enabled
	Q       string   `json:"q,omitempty"`       // fetch: filter seen by the store
	IDs     []uint64 `json:"ids,omitempty"`     // fetch: ids returned; accept: ids received
	More    bool     `json:"more,omitempty"`
	V       uint64   `json:"v,omitempty"`     // persist: value written
	Found   bool     `json:"found,omitempty"` // persist: the pipeline row existed
	Res     string   `json:"res,omitempty"`   // op: ok|notFound|alreadyStarted|other:…|pending
	OpDone  string   `json:"opDone,omitempty"`
	Loads   []uint64 `json:"loads,omitempty"`   // last_log_id of rows read by the manager
	Writes  []string `json:"writes,omitempty"`  // ungated writes of the manager
	Drivers []string `json:"drivers,omitempty"` // exporter driver lifecycle
	Panics  []string `json:"panics,omitempty"`  // recovered panics of the real Batcher.Accept
	W       []string `json:"w"`                 // gates waiting after the step settled
}

type opResult struct {
	err error
	pid string
}

type runner struct {
	ps      int
	mi      int
	s       *sched
	w       *world
	ctx     context.Context
	mgr     *replication.Manager
	mgrUp   bool
	pid     string
	created bool
	opCh    chan opResult
	opName  string
	events  []Event
	last    *Event
}

var progress atomic.Int64

func errKind(err error) string {
	switch {
	case err == nil:
		return "ok"
	case errors.Is(err, ledger.ErrAlreadyStarted("")):
		return "alreadyStarted"
	case errors.Is(err, ledger.ErrPipelineNotFound("")), errors.Is(err, postgres.ErrNotFound):
		return "notFound"
	default:
		return "other:" + err.Error()
	}
}

func (r *runner) newManager() {
	r.mgr = replication.NewManager(r.w, newFactory(r.w, r.mi), logging.NopZap(), nopValidator{},
		replication.WithSyncPeriod(100000*time.Hour),
		replication.WithPipelineOptions(
			replication.WithPullPeriod(2),
			replication.WithPushRetryPeriod(2),
			replication.WithLogsPageSize(uint64(r.ps)),
		),
	)
	go r.mgr.Run(r.ctx)
}

func newRunner(ps, mi int) *runner {
	s := &sched{}
	r := &runner{
		ps:  ps,
		mi:  mi,
		s:   s,
		w:   &world{s: s, pipelines: map[string]*ledger.Pipeline{}, obs: &stepObs{}},
		ctx: logging.ContextWithLogger(context.Background(), logging.NopZap()),
	}
	r.newManager()
	synctest.Wait()
	r.mgrUp = true
	return r
}

func (r *runner) startOp(name string, f func() opResult) {
	r.opName = name
	ch := make(chan opResult, 1)
	r.opCh = ch
	go func() { ch <- f() }()
}

// pollOp: has the running operation completed?
func (r *runner) pollOp() (string, bool) {
	if r.opCh == nil {
		return "", false
	}
	select {
	case res := <-r.opCh:
		r.opCh = nil
		switch r.opName {
		case "create":
			if res.err == nil {
				r.pid, r.created = res.pid, true
			}
		case "mgrStop":
			if res.err == nil {
				r.mgrUp = false
			}
		case "mgrStart":
			r.mgrUp = true
		}
		return errKind(res.err), true
	default:
		return "", false
	}
}

func isOp(a string) bool {
	switch a {
	case "create", "start", "stop", "reset", "sync", "mgrStop", "mgrStart":
		return true
	}
	return false
}

// enabled: can the action be executed now?
func (r *runner) enabled(a Action) bool {
	switch a.A {
	case "append", "tick":
		return true
	case "fetch":
		return r.s.count("fetch") > 0
	case "accept":
		return r.s.count("accept") > 0
	case "persist":
		return a.I >= 0 && a.I < r.s.count("persist")
	case "mgrStart":
		return r.opCh == nil && !r.mgrUp
	case "create":
		return r.opCh == nil && r.mgrUp && !r.created
	case "start", "stop", "reset", "sync", "mgrStop":
		return r.opCh == nil && r.mgrUp
	}
	return false
}

func (r *runner) exec(a Action) Event {
	progress.Add(1)
	ev := Event{Action: a}
	r.w.mu.Lock()
	obs := &stepObs{}
	r.w.obs = obs
	r.w.mu.Unlock()
	if !r.enabled(a) {
		ev.Skipped = true
		ev.W = r.s.snapshot()
		return ev
	}
	pid := r.pid
	if !r.created {
		pid = "missing"
	}
	mgr, ctx := r.mgr, r.ctx
	switch a.A {
	case "append":
		r.w.mu.Lock()
		r.w.nLogs += uint64(a.N)
		r.w.mu.Unlock()
	case "tick":
		time.Sleep(3 * time.Nanosecond)
	case "fetch":
		r.s.release(r.s.find("fetch", 0), a.R)
	case "accept":
		d := a.R
		if d == "rej" {
			d = fmt.Sprintf("rej:%d", a.N)
		}
		r.s.release(r.s.find("accept", 0), d)
	case "persist":
		r.s.release(r.s.find("persist", a.I), a.R)
	case "create":
		r.startOp(a.A, func() opResult {
			p, err := mgr.CreatePipeline(ctx, ledger.NewPipelineConfiguration("ledger0", "exporter0"))
			if err != nil {
				return opResult{err: err}
			}
			return opResult{pid: p.ID}
		})
	case "start":
		r.startOp(a.A, func() opResult { return opResult{err: mgr.StartPipeline(ctx, pid)} })
	case "stop":
		r.startOp(a.A, func() opResult { return opResult{err: mgr.StopPipeline(ctx, pid)} })
	case "reset":
		r.startOp(a.A, func() opResult { return opResult{err: mgr.ResetPipeline(ctx, pid)} })
	case "sync":
		r.startOp(a.A, func() opResult { return opResult{err: mgr.VerifSync(ctx)} })
	case "mgrStop":
		r.startOp(a.A, func() opResult { return opResult{err: mgr.Stop(ctx)} })
	case "mgrStart":
		r.newManager()
		mgr = r.mgr
		r.startOp(a.A, func() opResult { <-mgr.Started(); return opResult{} })
	}
	synctest.Wait()
	if isOp(a.A) {
		if k, done := r.pollOp(); done {
			ev.Res = k
		} else {
			ev.Res = "pending"
		}
	} else if k, done := r.pollOp(); done {
		ev.OpDone = k
	}
	r.w.mu.Lock()
	ev.Q, ev.IDs, ev.More, ev.V, ev.Found = obs.Q, obs.IDs, obs.More, obs.V, obs.Found
	ev.Loads, ev.Writes, ev.Drivers, ev.Panics = obs.Loads, obs.Writes, obs.Drivers, obs.Panics
	r.w.mu.Unlock()
	ev.W = r.s.snapshot()
	return ev
}

// cleanup brings the system to rest (manager stopped, every gate released) so
// that no goroutine outlives the bubble. Not part of the compared trace.
func (r *runner) cleanup() (leftover []string) {
	for i := 0; i < 400; i++ {
		progress.Add(1)
		r.w.mu.Lock()
		r.w.obs = &stepObs{}
		r.w.mu.Unlock()
		r.pollOp()
		if r.opCh == nil && r.mgrUp {
			mgr, ctx := r.mgr, r.ctx
			r.startOp("mgrStop", func() opResult { return opResult{err: mgr.Stop(ctx)} })
			synctest.Wait()
			continue
		}
		if g := r.s.find("fetch", 0); g != nil {
			r.s.release(g, "err")
		} else if g := r.s.find("accept", 0); g != nil {
			r.s.release(g, "fail")
		} else if g := r.s.find("persist", 0); g != nil {
			r.s.release(g, "ok")
		} else if r.opCh == nil {
			break
		} else {
			time.Sleep(3 * time.Nanosecond)
		}
		synctest.Wait()
	}
	synctest.Wait()
	return r.s.snapshot()
}

type caseIn struct {
	PS int `json:"ps"`
	// MI: `maxItems` of the exporter's batching configuration (0 = unlimited,
	// flush on the interval only)
	MI     int      `json:"mi"`
	Script []Action `json:"script"`
	// Drain: the script ends with the fair, failure-free drain phase; the C33
	// liveness predicate (everything delivered since the last reset) applies.
	Drain bool `json:"drain"`
}

type caseOut struct {
	Trace    []Event  `json:"trace"`
	Leftover []string `json:"leftover,omitempty"` // gates still waiting after cleanup
	Leak     int      `json:"leak,omitempty"`     // goroutines that outlived the case
	// LeakStacks is printed on stderr only (addresses are not canonical).
	LeakStacks string `json:"-"`
	Panic    string   `json:"panic,omitempty"`
}

type chooser interface {
	next(r *runner) (Action, bool)
}

type replayChooser struct {
	script []Action
	pos    int
}

func (c *replayChooser) next(r *runner) (Action, bool) {
	if c.pos >= len(c.script) {
		return Action{}, false
	}
	c.pos++
	return c.script[c.pos-1], true
}

// runCase must be called inside a synctest bubble.
func runCase(ps, mi int, ch chooser) (script []Action, out caseOut) {
	r := newRunner(ps, mi)
	for {
		a, ok := ch.next(r)
		if !ok {
			break
		}
		ev := r.exec(a)
		r.events = append(r.events, ev)
		r.last = &r.events[len(r.events)-1]
		script = append(script, a)
	}
	out.Trace = r.events
	out.Leftover = r.cleanup()
	if len(out.Leftover) == 0 {
		out.Leftover = nil
	}
	out.Leak, out.LeakStacks = bubbleLeaks()
	return script, out
}

// bubbleLeaks counts the goroutines of the current synctest bubble other than
// the scheduler itself and the synctest plumbing: after cleanup there must be none.
func bubbleLeaks() (int, string) {
	buf := make([]byte, 1<<20)
	buf = buf[:runtime.Stack(buf, true)]
	n, txt := 0, ""
	for _, g := range strings.Split(string(buf), "\n\n") {
		head, _, _ := strings.Cut(g, "\n")
		if !strings.Contains(head, "synctest bubble") {
			continue
		}
		if strings.Contains(g, "wlrepl.runCase") || strings.Contains(g, "synctest.testingSynctestTest") ||
			strings.Contains(g, "internal/synctest.Run") {
			continue
		}
		n++
		txt += g + "\n\n"
	}
	return n, txt
}
