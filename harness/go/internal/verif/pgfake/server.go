//go:build verif

package pgfake

import (
	"bufio"
	"context"
	"database/sql"
	"database/sql/driver"
	"encoding/hex"
	"encoding/json"
	"errors"
	"fmt"
	"io"
	"os"
	"os/exec"
	"strings"
	"sync"
	"time"

	"github.com/jackc/pgx/v5/pgconn"
	"github.com/uptrace/bun"
	"github.com/uptrace/bun/dialect/pgdialect"

	ledger "github.com/formancehq/ledger/internal"
	"github.com/formancehq/ledger/internal/storage/bucket"
	systemstore "github.com/formancehq/ledger/internal/storage/system"
	"github.com/formancehq/ledger/internal/verif/minisql"
)

// Server is one modelled PostgreSQL instance (one lpg process), or a pure
// recorder when started with StartRecording.
type Server struct {
	mu          sync.Mutex
	lpg         *lpgProc
	lenient     bool
	log         []Stmt
	nextSession int
	faults      map[int]string // absolute statement index -> kind
	issued      int
	sqldb       *sql.DB
	bundb       *bun.DB
	buckets     map[string]bool
	nextLedger  int
	// RealTime makes every statement carry the wall clock as `now` (the model's
	// clock is logical otherwise: +1 ms per statement).
	RealTime bool
	// WaitWhenBlocked makes a statement that LeanPG answers `blocked` wait (in real
	// time) until another session ends a transaction, then retry; after
	// BlockedTimeout it fails with 40P01 (deadlock detected). Used when real tests
	// run goroutines against LeanPG without the deterministic scheduler.
	WaitWhenBlocked bool
	BlockedTimeout  time.Duration
	wake            chan struct{}
	sched           *Scheduler
	// Hook, when set, is called before a statement is sent to lpg and may block
	// (deterministic scheduler). It receives the session id and the SQL.
	Hook func(session int, sql string)
	// OnBlocked, when set, is called when lpg answers `blocked`; it must return
	// when the statement should be retried (or a non-nil error to give up).
	OnBlocked func(session int, on string) error
}

// Start launches lpg and returns a server whose DB() speaks to it.
func Start(lpgPath string) (*Server, error) {
	p, err := startLpg(lpgPath)
	if err != nil {
		return nil, err
	}
	s := &Server{lpg: p}
	s.init()
	return s, nil
}

// StartRecording returns a server without lpg: every statement is parsed (a
// statement minisql cannot parse is an error unless lenient), logged, and
// answered with an empty result.
func StartRecording(lenient bool) *Server {
	s := &Server{lenient: lenient}
	s.init()
	return s
}

func (s *Server) init() {
	s.faults = map[int]string{}
	s.buckets = map[string]bool{}
	s.wake = make(chan struct{})
	s.BlockedTimeout = 20 * time.Second
	s.sqldb = sql.OpenDB(&connector{srv: s})
	s.sqldb.SetMaxIdleConns(64)
	s.bundb = bun.NewDB(s.sqldb, pgdialect.New(), bun.WithDiscardUnknownColumns())
}

// DefaultLpgPath is where `lake build lpg` leaves the executable.
func DefaultLpgPath() string {
	if p := os.Getenv("VERIF_LPG"); p != "" {
		return p
	}
	return "/verif/lean/.lake/build/bin/ldriver_sql"
}

func (s *Server) DB() *bun.DB    { return s.bundb }
func (s *Server) SQLDB() *sql.DB { return s.sqldb }

// Recording reports whether the server has no lpg behind it.
func (s *Server) Recording() bool { return s.lpg == nil }

// Log returns a copy of every statement seen so far.
func (s *Server) Log() []Stmt {
	s.mu.Lock()
	defer s.mu.Unlock()
	out := make([]Stmt, len(s.log))
	copy(out, s.log)
	return out
}

// ResetLog forgets the recorded statements (not the database state).
func (s *Server) ResetLog() {
	s.mu.Lock()
	defer s.mu.Unlock()
	s.log = nil
}

// InjectFault makes the nth statement from now (1 = the next one) fail.
// kind: "error" (XX000, aborts the transaction), "deadlock" (40P01),
// "serialization" (40001), "conn" (connection lost; session rolled back),
// "cancel" (context.Canceled; the statement is not executed, 57014 semantics:
// the transaction is aborted).
func (s *Server) InjectFault(nth int, kind string) {
	s.mu.Lock()
	defer s.mu.Unlock()
	s.faults[s.issued+nth-1] = kind
}

func (s *Server) markTie(idx int) {
	s.mu.Lock()
	defer s.mu.Unlock()
	for i := len(s.log) - 1; i >= 0; i-- {
		if s.log[i].Seq == idx {
			s.log[i].TieSensitive = true
			return
		}
	}
}

// ClearFaults forgets faults that were injected but not reached.
func (s *Server) ClearFaults() {
	s.mu.Lock()
	defer s.mu.Unlock()
	s.faults = map[int]string{}
}

func (s *Server) takeFault() string {
	s.mu.Lock()
	defer s.mu.Unlock()
	k, ok := s.faults[s.issued]
	if ok {
		delete(s.faults, s.issued)
	}
	return k
}

func (s *Server) record(c *conn, q string, code string) int {
	s.mu.Lock()
	defer s.mu.Unlock()
	h, d := c.handle()
	s.log = append(s.log, Stmt{Seq: s.issued, Session: c.id, Handle: h, Depth: d, SQL: normaliseSavepoints(q), Err: code})
	s.issued++
	return s.issued - 1
}

func (s *Server) faultError(c *conn, kind, txKind string) error {
	if s.lpg != nil {
		k := "abort"
		if kind == "conn" {
			k = "drop"
		}
		_, _ = s.lpg.call(map[string]any{"k": k, "s": c.id})
	}
	switch kind {
	case "deadlock":
		return &pgconn.PgError{Severity: "ERROR", Code: "40P01", Message: "deadlock detected (injected)"}
	case "serialization":
		return &pgconn.PgError{Severity: "ERROR", Code: "40001", Message: "could not serialize access (injected)"}
	case "conn":
		c.closed = true
		c.inTx, c.depth = false, 0
		return errors.New("pgfake: connection lost (injected)")
	case "cancel":
		return context.Canceled
	default:
		return &pgconn.PgError{Severity: "ERROR", Code: "XX000", Message: "injected fault"}
	}
}

// Close stops lpg.
func (s *Server) Close() {
	if s.sqldb != nil {
		_ = s.sqldb.Close()
	}
	if s.lpg != nil {
		s.lpg.close()
	}
}

// ---------------------------------------------------------------------------
// statement execution
// ---------------------------------------------------------------------------

func errCode(err error) string {
	var pge *pgconn.PgError
	if errors.As(err, &pge) {
		return pge.Code
	}
	return "error"
}

func (s *Server) exec(ctx context.Context, c *conn, st *minisql.Stmt, q string) (res *Result, err error) {
	s.mu.Lock()
	sch := s.sched
	s.mu.Unlock()
	var task *schedTask
	if sch != nil {
		if task = sch.taskOf(ctx, c); task != nil {
			sch.yield(task, c.id, q)
			defer func() {
				r := "ok"
				if err != nil {
					r = "error:" + errCode(err)
				}
				sch.stmtDone(task, r)
			}()
		}
	}
	if s.Hook != nil {
		s.Hook(c.id, q)
	}
	req := map[string]any{"k": "sql", "s": c.id, "ast": st.JSON()}
	deadline := time.Now().Add(s.BlockedTimeout)
	for {
		if s.RealTime {
			req["now"] = time.Now().UnixMicro()
		}
		s.mu.Lock()
		wake := s.wake
		s.mu.Unlock()
		resp, err := s.lpg.call(req)
		if err != nil {
			return nil, fmt.Errorf("pgfake: lpg: %w\n--- statement ---\n%s", err, q)
		}
		if _, blocked := resp["blocked"]; !blocked {
			// any finished statement may have released something another session waits for
			s.mu.Lock()
			close(s.wake)
			s.wake = make(chan struct{})
			s.mu.Unlock()
		}
		if b, ok := resp["blocked"]; ok {
			on := fmt.Sprint(b)
			if task != nil {
				if !sch.blocked(task, on) {
					_, _ = s.lpg.call(map[string]any{"k": "abort", "s": c.id})
					return nil, errStuck(on)
				}
				req["retry"] = true
				continue
			}
			if s.OnBlocked == nil && s.WaitWhenBlocked {
				select {
				case <-wake:
				case <-time.After(50 * time.Millisecond):
				case <-ctx.Done():
					_, _ = s.lpg.call(map[string]any{"k": "abort", "s": c.id})
					return nil, ctx.Err()
				}
				if time.Now().After(deadline) {
					_, _ = s.lpg.call(map[string]any{"k": "abort", "s": c.id})
					return nil, &pgconn.PgError{Severity: "ERROR", Code: "40P01", Message: "deadlock detected (LeanPG: still blocked on " + on + " after " + s.BlockedTimeout.String() + ")"}
				}
				req["retry"] = true
				continue
			}
			if s.OnBlocked == nil {
				return nil, &pgconn.PgError{Severity: "ERROR", Code: "55P03", Message: "statement would block on " + on + " and no scheduler is installed"}
			}
			if err := s.OnBlocked(c.id, on); err != nil {
				_, _ = s.lpg.call(map[string]any{"k": "abort", "s": c.id})
				return nil, err
			}
			req["retry"] = true
			continue
		}
		if e, ok := resp["err"]; ok {
			m, _ := e.(map[string]any)
			pe := &pgconn.PgError{Severity: "ERROR"}
			pe.Code, _ = m["code"].(string)
			pe.Message, _ = m["msg"].(string)
			pe.ConstraintName, _ = m["constraint"].(string)
			pe.TableName, _ = m["table"].(string)
			if pe.Code == "0A000" || pe.Code == "XX000" {
				return nil, fmt.Errorf("pgfake: LeanPG cannot evaluate this statement: %s (%s)\n--- statement ---\n%s", pe.Message, pe.Code, q)
			}
			return nil, pe
		}
		return decodeResult(resp)
	}
}

func decodeResult(resp map[string]any) (*Result, error) {
	r := &Result{}
	if n, ok := resp["n"].(json.Number); ok {
		r.Affected, _ = n.Int64()
	}
	if t, ok := resp["tie"].(bool); ok {
		r.Tie = t
	}
	if t, ok := resp["rb"].(bool); ok {
		r.RolledBack = t
	}
	if cols, ok := resp["cols"].([]any); ok {
		for _, c := range cols {
			r.Cols = append(r.Cols, fmt.Sprint(c))
		}
	}
	if rws, ok := resp["rows"].([]any); ok {
		for _, rw := range rws {
			vals, _ := rw.([]any)
			out := make([]driver.Value, len(vals))
			for i, v := range vals {
				dv, err := decodeValue(v)
				if err != nil {
					return nil, err
				}
				out[i] = dv
			}
			r.Rows = append(r.Rows, out)
		}
	}
	return r, nil
}

// decodeValue maps a LeanPG value to what a PostgreSQL driver would hand to
// database/sql: decimal strings for integers, string for text, time.Time (UTC) for timestamps, []byte for json/bytea, and
// PostgreSQL's text form for composites and arrays.
func decodeValue(v any) (driver.Value, error) {
	switch x := v.(type) {
	case nil:
		return nil, nil
	case bool:
		return x, nil
	case string:
		return x, nil
	case json.Number:
		// every integer travels as its decimal text: `numeric` columns arrive that way
		// from a PostgreSQL driver too, and bun / database/sql parse text for the
		// integer kinds (int8 would come as int64 from pgx; nothing in the ledger
		// depends on that)
		return x.String(), nil
	case map[string]any:
		if ts, ok := x["ts"]; ok {
			n, _ := ts.(json.Number)
			us, err := n.Int64()
			if err != nil {
				return nil, fmt.Errorf("pgfake: bad timestamp %v", ts)
			}
			return time.UnixMicro(us).UTC(), nil
		}
		if j, ok := x["j"]; ok {
			return []byte(fmt.Sprint(j)), nil
		}
		if b, ok := x["b"]; ok {
			raw, err := hex.DecodeString(fmt.Sprint(b))
			if err != nil {
				return nil, err
			}
			return raw, nil
		}
		if t, ok := x["x"]; ok { // pre-rendered PostgreSQL text form (row / array)
			return fmt.Sprint(t), nil
		}
	}
	return nil, fmt.Errorf("pgfake: cannot decode value %v", v)
}

// ---------------------------------------------------------------------------
// lpg process
// ---------------------------------------------------------------------------

type lpgProc struct {
	mu   sync.Mutex
	cmd  *exec.Cmd
	in   *bufio.Writer
	inC  io.Closer
	out  *bufio.Reader
	dead error
}

func startLpg(path string) (*lpgProc, error) {
	cmd := exec.Command(path)
	cmd.Stderr = os.Stderr
	in, err := cmd.StdinPipe()
	if err != nil {
		return nil, err
	}
	out, err := cmd.StdoutPipe()
	if err != nil {
		return nil, err
	}
	if err := cmd.Start(); err != nil {
		return nil, fmt.Errorf("pgfake: cannot start lpg at %s: %w", path, err)
	}
	return &lpgProc{cmd: cmd, in: bufio.NewWriterSize(in, 1<<16), inC: in, out: bufio.NewReaderSize(out, 1<<16)}, nil
}

func (p *lpgProc) call(req map[string]any) (map[string]any, error) {
	b, err := json.Marshal(req)
	if err != nil {
		return nil, err
	}
	raw, err := p.callRaw(b)
	if err != nil {
		return nil, err
	}
	dec := json.NewDecoder(strings.NewReader(string(raw)))
	dec.UseNumber()
	var resp map[string]any
	if err := dec.Decode(&resp); err != nil {
		return nil, fmt.Errorf("unparsable answer %q: %w", truncate(string(raw), 300), err)
	}
	if e, ok := resp["fatal"]; ok {
		return nil, fmt.Errorf("protocol error: %v", e)
	}
	return resp, nil
}

func (p *lpgProc) callRaw(line []byte) ([]byte, error) {
	p.mu.Lock()
	defer p.mu.Unlock()
	if p.dead != nil {
		return nil, p.dead
	}
	if _, err := p.in.Write(line); err != nil {
		p.dead = err
		return nil, err
	}
	if err := p.in.WriteByte('\n'); err != nil {
		p.dead = err
		return nil, err
	}
	if err := p.in.Flush(); err != nil {
		p.dead = err
		return nil, err
	}
	resp, err := p.out.ReadBytes('\n')
	if err != nil {
		p.dead = fmt.Errorf("lpg died: %w", err)
		return nil, p.dead
	}
	return resp, nil
}

func (p *lpgProc) close() {
	p.mu.Lock()
	defer p.mu.Unlock()
	_ = p.inC.Close()
	done := make(chan struct{})
	go func() { _ = p.cmd.Wait(); close(done) }()
	select {
	case <-done:
	case <-time.After(2 * time.Second):
		_ = p.cmd.Process.Kill()
	}
	if p.dead == nil {
		p.dead = errors.New("lpg closed")
	}
}

func truncate(s string, n int) string {
	if len(s) <= n {
		return s
	}
	return s[:n] + "…"
}

// ---------------------------------------------------------------------------
// ledgers, dumps
// ---------------------------------------------------------------------------

// EnsureBucket instantiates the bucket schema (the folded migrations of
// Generated.Schema) under the given name, once.
func (s *Server) EnsureBucket(name string) error {
	s.mu.Lock()
	done := s.buckets[name]
	s.buckets[name] = true
	s.mu.Unlock()
	if done || s.lpg == nil {
		return nil
	}
	_, err := s.lpg.call(map[string]any{"k": "bucket", "name": name})
	return err
}

// CreateLedger installs what the bucket migrations and bucket.ledgerSetups
// install for this ledger: the bucket's tables/functions (once per bucket, from
// Generated.Schema) and then the per-ledger sequences and triggers, by running
// the REAL bucket.AddLedger (the rendered DDL is executed by LeanPG). A zero
// l.ID is an error: ids are allotted by the caller (the system store does it in
// the real service; see AllocLedgerID for tests).
func (s *Server) CreateLedger(l ledger.Ledger) error {
	if l.ID == 0 {
		return errors.New("pgfake: CreateLedger needs a ledger id (use AllocLedgerID)")
	}
	if l.Bucket == "" {
		return errors.New("pgfake: ledger without bucket")
	}
	if err := s.EnsureBucket(l.Bucket); err != nil {
		return err
	}
	return bucket.NewDefault(noopTracer(), l.Bucket).AddLedger(context.Background(), s.bundb, l)
}

// AllocLedgerID hands out ledger ids the way the _system.ledgers sequence would.
func (s *Server) AllocLedgerID() int {
	s.mu.Lock()
	defer s.mu.Unlock()
	s.nextLedger++
	return s.nextLedger
}

// Dump returns the canonical snapshot of every bucket table restricted to the
// ledger: {"table":[{col:val,…},…],…}, rows sorted by primary key, columns
// sorted, numbers as decimal strings, timestamps RFC3339 with microseconds.
// Only committed data plus nothing else is shown (dump runs on its own session).
func (s *Server) Dump(ledgerName string) (json.RawMessage, error) {
	if s.lpg == nil {
		return json.RawMessage(`{}`), nil
	}
	b, _ := json.Marshal(map[string]any{"k": "dump", "ledger": ledgerName})
	raw, err := s.lpg.callRaw(b)
	if err != nil {
		return nil, err
	}
	var probe struct {
		Fatal any             `json:"fatal"`
		Dump  json.RawMessage `json:"dump"`
	}
	if err := json.Unmarshal(raw, &probe); err != nil {
		return nil, err
	}
	if probe.Fatal != nil {
		return nil, fmt.Errorf("pgfake: dump: %v", probe.Fatal)
	}
	return probe.Dump, nil
}

// Raw sends one protocol line to lpg (for the Lean-side handlers of other
// workloads: spec comparison, invariants).
func (s *Server) Raw(req map[string]any) (map[string]any, error) {
	if s.lpg == nil {
		return nil, errors.New("pgfake: recording mode")
	}
	return s.lpg.call(req)
}

// WriteLog writes the statement log as JSON lines.
func (s *Server) WriteLog(path string) error {
	f, err := os.Create(path)
	if err != nil {
		return err
	}
	defer f.Close()
	enc := json.NewEncoder(f)
	enc.SetEscapeHTML(false)
	for _, st := range s.Log() {
		if err := enc.Encode(st); err != nil {
			return err
		}
	}
	return nil
}

// CreateLedgerInSystem does what the storage driver's CreateLedger does minus the
// migrator: insert the `_system.ledgers` row through the REAL system store (which
// allots l.ID from `_system.ledger_sequence` and sets l.AddedAt), then install
// the bucket schema (once) and run the real bucket.AddLedger.
func (s *Server) CreateLedgerInSystem(ctx context.Context, l *ledger.Ledger) error {
	if l.Bucket == "" {
		return errors.New("pgfake: ledger without bucket")
	}
	if err := s.EnsureBucket(l.Bucket); err != nil {
		return err
	}
	return s.bundb.RunInTx(ctx, nil, func(ctx context.Context, tx bun.Tx) error {
		if err := systemstore.New(tx).CreateLedger(ctx, l); err != nil {
			return err
		}
		return bucket.NewDefault(noopTracer(), l.Bucket).AddLedger(ctx, tx, *l)
	})
}
