//go:build verif

package pgfake

import (
	"go.opentelemetry.io/otel/trace"
	"go.opentelemetry.io/otel/trace/noop"
)

func noopTracer() trace.Tracer { return noop.NewTracerProvider().Tracer("pgfake") }
