//go:build verif

// Package pgfake is a database/sql driver that stands in for PostgreSQL.
//
// bun renders every statement client-side (arguments inlined), so the driver
// receives complete SQL text. Each driver connection is one LeanPG session.
// Every statement is parsed by minisql and forwarded as a JSON AST to the
// long-running `lpg` process (the Lean model of PostgreSQL); the answer is
// rows / affected count / a *pgconn.PgError. In recording mode there is no lpg:
// statements are only logged and answered with empty results.
package pgfake

import (
	"context"
	"database/sql"
	"database/sql/driver"
	"errors"
	"fmt"
	"io"
	"strings"
	"sync"

	"github.com/jackc/pgx/v5"

	"github.com/formancehq/ledger/internal/verif/minisql"
)

// Stmt is one statement as seen by the driver.
type Stmt struct {
	// Seq is the global issue order (0-based).
	Seq int `json:"seq"`
	// Session is the LeanPG session id (= driver connection).
	Session int `json:"session"`
	// Handle is "conn" (autocommit), "tx" or "savepoint".
	Handle string `json:"handle"`
	// Depth is the savepoint nesting depth (0 outside savepoints).
	Depth int `json:"depth"`
	// SQL is the statement text exactly as rendered.
	SQL string `json:"sql"`
	// Err is the SQLSTATE returned ("" = success, "parse" = minisql rejected it).
	Err string `json:"err,omitempty"`
	// TieSensitive: an ORDER BY of the statement met rows with equal sort keys
	// but different contents (SQL leaves their relative order unspecified; LeanPG
	// keeps the input order).
	TieSensitive bool `json:"tieSensitive,omitempty"`
}

type connector struct{ srv *Server }

func (c *connector) Connect(ctx context.Context) (driver.Conn, error) {
	c.srv.mu.Lock()
	c.srv.nextSession++
	id := c.srv.nextSession
	c.srv.mu.Unlock()
	cn := &conn{srv: c.srv, id: id}
	if c.srv.lpg != nil {
		if _, err := c.srv.lpg.call(map[string]any{"k": "open", "s": id}); err != nil {
			return nil, err
		}
	}
	return cn, nil
}

func (c *connector) Driver() driver.Driver { return drv{} }

type drv struct{}

func (drv) Open(string) (driver.Conn, error) { return nil, errors.New("pgfake: use the connector") }

type conn struct {
	srv    *Server
	id     int
	inTx   bool
	depth  int
	closed bool
	mu     sync.Mutex
}

var (
	_ driver.Conn               = (*conn)(nil)
	_ driver.ConnBeginTx        = (*conn)(nil)
	_ driver.ExecerContext      = (*conn)(nil)
	_ driver.QueryerContext     = (*conn)(nil)
	_ driver.Pinger             = (*conn)(nil)
	_ driver.SessionResetter    = (*conn)(nil)
	_ driver.Validator          = (*conn)(nil)
	_ driver.NamedValueChecker  = (*conn)(nil)
	_ driver.ConnPrepareContext = (*conn)(nil)
)

func (c *conn) Prepare(q string) (driver.Stmt, error) { return &stmt{c: c, q: q}, nil }
func (c *conn) PrepareContext(_ context.Context, q string) (driver.Stmt, error) {
	return &stmt{c: c, q: q}, nil
}
func (c *conn) Begin() (driver.Tx, error) { return c.BeginTx(context.Background(), driver.TxOptions{}) }
func (c *conn) Ping(context.Context) error { return nil }
func (c *conn) ResetSession(context.Context) error {
	if c.closed {
		return driver.ErrBadConn
	}
	return nil
}
func (c *conn) IsValid() bool                         { return !c.closed }
func (c *conn) CheckNamedValue(*driver.NamedValue) error { return nil }

func (c *conn) Close() error {
	if c.closed {
		return nil
	}
	c.closed = true
	if c.srv.lpg != nil {
		_, err := c.srv.lpg.call(map[string]any{"k": "close", "s": c.id})
		return err
	}
	return nil
}

func (c *conn) handle() (string, int) {
	switch {
	case c.depth > 0:
		return "savepoint", c.depth
	case c.inTx:
		return "tx", 0
	default:
		return "conn", 0
	}
}

func (c *conn) BeginTx(ctx context.Context, opts driver.TxOptions) (driver.Tx, error) {
	// LeanPG models READ COMMITTED only (DESIGN §9.4): a transaction asking for another isolation
	// level is outside the model, and every theorem about schedules assumes it is never asked for
	// (the unchanged code never does). Refuse it loudly instead of silently running it as READ COMMITTED.
	if lvl := sql.IsolationLevel(opts.Isolation); lvl != sql.LevelDefault && lvl != sql.LevelReadCommitted {
		return nil, fmt.Errorf("pgfake: isolation level %s requested; the modelled Postgres implements READ COMMITTED only", lvl)
	}
	if _, err := c.run(ctx, "BEGIN"); err != nil {
		return nil, err
	}
	return &tx{c: c}, nil
}

type tx struct{ c *conn }

func (t *tx) Commit() error {
	r, err := t.c.run(context.Background(), "COMMIT")
	if err == nil && r != nil && r.RolledBack {
		// what pgx reports when COMMIT of a failed transaction answers ROLLBACK
		return pgx.ErrTxCommitRollback
	}
	return err
}
func (t *tx) Rollback() error {
	_, err := t.c.run(context.Background(), "ROLLBACK")
	return err
}

func (c *conn) ExecContext(ctx context.Context, q string, args []driver.NamedValue) (driver.Result, error) {
	if len(args) != 0 {
		return nil, fmt.Errorf("pgfake: statement with %d bind arguments (bun is expected to inline them): %s", len(args), q)
	}
	r, err := c.run(ctx, q)
	if err != nil {
		return nil, err
	}
	return result{n: r.Affected}, nil
}

func (c *conn) QueryContext(ctx context.Context, q string, args []driver.NamedValue) (driver.Rows, error) {
	if len(args) != 0 {
		return nil, fmt.Errorf("pgfake: statement with %d bind arguments (bun is expected to inline them): %s", len(args), q)
	}
	r, err := c.run(ctx, q)
	if err != nil {
		return nil, err
	}
	return &rows{cols: r.Cols, data: r.Rows}, nil
}

// Result of one statement.
type Result struct {
	Cols     []string
	Rows     [][]driver.Value
	Affected int64
	Tie      bool
	// RolledBack: COMMIT answered with the command tag ROLLBACK
	RolledBack bool
}

// trackTxState follows BEGIN/COMMIT/ROLLBACK/SAVEPOINT text so that the log can
// tell on which kind of handle each statement ran.
func (c *conn) trackTxState(kind string, ok bool) {
	switch kind {
	case "begin":
		if ok {
			c.inTx, c.depth = true, 0
		}
	case "commit", "rollback":
		c.inTx, c.depth = false, 0
	case "savepoint":
		if ok {
			c.depth++
		}
	case "release", "rollback_to":
		if ok && c.depth > 0 {
			c.depth--
		}
	}
}

// run executes one SQL string (possibly several `;`-separated statements; the
// result of the last one is returned, as the simple-query protocol does).
func (c *conn) run(ctx context.Context, q string) (*Result, error) {
	c.mu.Lock()
	defer c.mu.Unlock()
	if c.closed {
		return nil, driver.ErrBadConn
	}
	parts, err := minisql.SplitStatements(q)
	if err != nil {
		c.srv.record(c, q, "parse")
		return nil, fmt.Errorf("pgfake: %w", err)
	}
	var last *Result
	for _, p := range parts {
		r, err := c.runOne(ctx, p)
		if err != nil {
			return nil, err
		}
		last = r
	}
	if last == nil {
		last = &Result{}
	}
	return last, nil
}

func (c *conn) runOne(ctx context.Context, q string) (*Result, error) {
	if err := ctx.Err(); err != nil {
		return nil, err
	}
	srv := c.srv
	st, perr := minisql.Parse(q)
	kind := ""
	if perr == nil {
		kind = st.TxKind()
	}
	if fault := srv.takeFault(); fault != "" {
		idx := srv.record(c, q, "fault:"+fault)
		_ = idx
		return nil, srv.faultError(c, fault, kind)
	}
	if perr != nil {
		srv.record(c, q, "parse")
		if srv.lpg == nil && srv.lenient {
			return &Result{}, nil
		}
		return nil, fmt.Errorf("pgfake: cannot parse statement: %w\n--- statement ---\n%s", perr, q)
	}
	if srv.lpg == nil {
		srv.record(c, q, "")
		c.trackTxState(kind, true)
		return &Result{}, nil
	}
	res, err := srv.exec(ctx, c, st, q)
	code := ""
	if err != nil {
		code = errCode(err)
	}
	idx := srv.record(c, q, code)
	if res != nil && res.Tie {
		srv.markTie(idx)
	}
	c.trackTxState(kind, err == nil)
	return res, err
}

type stmt struct {
	c *conn
	q string
}

func (s *stmt) Close() error  { return nil }
func (s *stmt) NumInput() int { return -1 }
func (s *stmt) Exec(args []driver.Value) (driver.Result, error) {
	if len(args) != 0 {
		return nil, errors.New("pgfake: bind arguments are not supported")
	}
	return s.c.ExecContext(context.Background(), s.q, nil)
}
func (s *stmt) Query(args []driver.Value) (driver.Rows, error) {
	if len(args) != 0 {
		return nil, errors.New("pgfake: bind arguments are not supported")
	}
	return s.c.QueryContext(context.Background(), s.q, nil)
}

type result struct{ n int64 }

func (r result) LastInsertId() (int64, error) { return 0, errors.New("pgfake: no LastInsertId") }
func (r result) RowsAffected() (int64, error) { return r.n, nil }

type rows struct {
	cols []string
	data [][]driver.Value
	i    int
}

func (r *rows) Columns() []string { return r.cols }
func (r *rows) Close() error      { return nil }
func (r *rows) Next(dest []driver.Value) error {
	if r.i >= len(r.data) {
		return io.EOF
	}
	copy(dest, r.data[r.i])
	r.i++
	return nil
}

func normaliseSavepoints(q string) string {
	// bun names savepoints SP_<28 hex chars> from crypto/rand; keep logs stable.
	i := strings.Index(q, "SP_")
	if i < 0 || len(q) < i+31 {
		return q
	}
	return q[:i] + "SP_x" + q[i+31:]
}
