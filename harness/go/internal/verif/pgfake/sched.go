//go:build verif

package pgfake

import (
	"context"
	"fmt"
	"math/rand"
	"sort"
	"strings"
	"sync"
	"time"

	"github.com/jackc/pgx/v5/pgconn"
)

// Scheduler runs several goroutines of REAL code against one LeanPG server and
// decides, statement by statement, whose next SQL statement is released. All
// database traffic passes through pgfake, so this gives replayable
// interleavings at the granularity at which PostgreSQL sessions interact.
//
//	sch := pgfake.NewScheduler(srv, pgfake.SchedOptions{Seed: 7})
//	sch.Go("a", func(ctx context.Context) { … store calls with ctx … })
//	sch.Go("b", func(ctx context.Context) { … })
//	res := sch.Run()          // res.Events, res.Choices (replay with SchedOptions.Choices)
//
// A task is attributed to a statement through the context it passes down
// (Commit/Rollback, which database/sql issues without a context, are attributed
// to the task that last used the connection). A statement LeanPG answers
// `blocked` parks its task until another task made progress; LeanPG's wait-for
// graph turns genuine deadlocks into 40P01 for the statement closing the cycle.
// A task that stops issuing statements without finishing (it waits for another
// goroutine, sleeps, …) is considered externally blocked after
// SchedOptions.Quiescence and scheduling goes on without it.
type Scheduler struct {
	srv  *Server
	opts SchedOptions
	rng  *rand.Rand

	mu      sync.Mutex
	cond    *sync.Cond
	tasks   []*schedTask
	byConn  map[int]*schedTask
	events  []SchedEvent
	choices []int
	step    int
	running bool
}

type SchedOptions struct {
	// Seed of the random policy (ignored for the steps covered by Choices).
	Seed int64
	// Choices replays a schedule: at step i the Choices[i]-th ready task (tasks
	// ordered by name) is released.
	Choices []int
	// Quiescence: how long to wait for running tasks to reach their next statement.
	Quiescence time.Duration
	// MaxSteps bounds the run (0 = 100000).
	MaxSteps int
}

type SchedEvent struct {
	Step    int    `json:"step"`
	Task    string `json:"task"`
	Session int    `json:"session"`
	SQL     string `json:"sql"`
	// Result: "ok", "blocked:<on>", "error:<sqlstate>"
	Result string `json:"result"`
}

type SchedResult struct {
	Events  []SchedEvent `json:"events"`
	Choices []int        `json:"choices"`
	// Stuck lists tasks that never finished (all remaining tasks were blocked).
	Stuck []string `json:"stuck,omitempty"`
}

type taskState int

const (
	tsRunning  taskState = iota // executing Go code
	tsWaiting                   // at a statement boundary, waiting for its turn
	tsBlocked                   // its statement answered `blocked`; waits to retry
	tsExternal                  // running but not reaching a statement (waits for something else)
	tsDone
)

type schedTask struct {
	name    string
	fn      func(ctx context.Context)
	state   taskState
	grant   chan struct{}
	session int
	sql     string
	// progressAt is the global progress counter when the task was last blocked
	progressAt int
	since      time.Time
	panicVal   any
	giveUp     bool
}

type schedKey struct{}

// NewScheduler attaches a scheduler to the server (one at a time).
func NewScheduler(srv *Server, opts SchedOptions) *Scheduler {
	if opts.Quiescence == 0 {
		opts.Quiescence = 200 * time.Millisecond
	}
	if opts.MaxSteps == 0 {
		opts.MaxSteps = 100000
	}
	s := &Scheduler{srv: srv, opts: opts, rng: rand.New(rand.NewSource(opts.Seed)), byConn: map[int]*schedTask{}}
	s.cond = sync.NewCond(&s.mu)
	srv.mu.Lock()
	srv.sched = s
	srv.mu.Unlock()
	return s
}

// Go registers a task; it starts when Run is called.
func (s *Scheduler) Go(name string, fn func(ctx context.Context)) {
	s.mu.Lock()
	defer s.mu.Unlock()
	s.tasks = append(s.tasks, &schedTask{name: name, fn: fn, grant: make(chan struct{}, 1)})
	sort.Slice(s.tasks, func(i, j int) bool { return s.tasks[i].name < s.tasks[j].name })
}

func (s *Scheduler) taskOf(ctx context.Context, c *conn) *schedTask {
	if t, ok := ctx.Value(schedKey{}).(*schedTask); ok {
		s.mu.Lock()
		s.byConn[c.id] = t
		s.mu.Unlock()
		return t
	}
	s.mu.Lock()
	defer s.mu.Unlock()
	return s.byConn[c.id]
}

// yield is called by a task's goroutine before a statement is sent: wait for the turn.
func (s *Scheduler) yield(t *schedTask, session int, sql string) {
	s.mu.Lock()
	t.state = tsWaiting
	t.session = session
	t.sql = sql
	s.cond.Broadcast()
	s.mu.Unlock()
	<-t.grant
}

// blocked is called when the task's statement answered `blocked`: wait until the
// scheduler lets it retry. It returns false when the scheduler gave up (every
// remaining task is blocked): the statement then fails.
func (s *Scheduler) blocked(t *schedTask, on string) bool {
	s.mu.Lock()
	t.state = tsBlocked
	t.progressAt = s.step
	s.record(t, "blocked:"+on)
	s.cond.Broadcast()
	s.mu.Unlock()
	<-t.grant
	s.mu.Lock()
	defer s.mu.Unlock()
	return !t.giveUp
}

// done is called when the statement finished (ok or error): the task runs Go code again.
func (s *Scheduler) stmtDone(t *schedTask, result string) {
	s.mu.Lock()
	s.record(t, result)
	t.state = tsRunning
	t.since = time.Now()
	s.mu.Unlock()
}

func (s *Scheduler) record(t *schedTask, result string) {
	sql := strings.Join(strings.Fields(t.sql), " ")
	if len(sql) > 200 {
		sql = sql[:200] + "…"
	}
	s.events = append(s.events, SchedEvent{Step: s.step, Task: t.name, Session: t.session, SQL: normaliseSavepoints(sql), Result: result})
}

// Run starts every task and schedules until all are done (or stuck).
func (s *Scheduler) Run() SchedResult {
	s.mu.Lock()
	s.running = true
	for _, t := range s.tasks {
		t := t
		t.state = tsRunning
		t.since = time.Now()
		go func() {
			defer func() {
				if r := recover(); r != nil {
					t.panicVal = r
				}
				s.mu.Lock()
				t.state = tsDone
				s.cond.Broadcast()
				s.mu.Unlock()
			}()
			t.fn(context.WithValue(context.Background(), schedKey{}, t))
		}()
	}
	// wake the condition variable periodically so that quiescence timeouts are noticed
	stop := make(chan struct{})
	go func() {
		tk := time.NewTicker(20 * time.Millisecond)
		defer tk.Stop()
		for {
			select {
			case <-stop:
				return
			case <-tk.C:
				s.mu.Lock()
				s.cond.Broadcast()
				s.mu.Unlock()
			}
		}
	}()
	var res SchedResult
	graceStart := time.Time{}
	for {
		// 1. wait until no task is running Go code (or it has been doing so for too long)
		for {
			busy := false
			now := time.Now()
			for _, t := range s.tasks {
				if t.state == tsRunning {
					if now.Sub(t.since) > s.opts.Quiescence {
						t.state = tsExternal
					} else {
						busy = true
					}
				}
			}
			if !busy {
				break
			}
			s.cond.Wait()
		}
		// 2. who can take a step?
		var ready []*schedTask
		allDone, external, blockedAny := true, false, false
		for _, t := range s.tasks {
			switch t.state {
			case tsWaiting:
				ready = append(ready, t)
			case tsBlocked:
				blockedAny = true
				// may retry once somebody else made progress since it blocked
				if s.step > t.progressAt {
					ready = append(ready, t)
				}
			case tsExternal:
				external = true
			}
			if t.state != tsDone {
				allDone = false
			}
		}
		if allDone {
			break
		}
		if len(ready) == 0 {
			if external {
				// a task is busy outside the database (sleep, channel, …): wait for it a while
				if graceStart.IsZero() {
					graceStart = time.Now()
				}
				if time.Since(graceStart) < 50*s.opts.Quiescence {
					s.cond.Wait()
					continue
				}
				for _, t := range s.tasks {
					if t.state == tsExternal {
						res.Stuck = append(res.Stuck, t.name+" (not reaching a statement)")
					}
				}
			}
			// nobody can make progress: fail the blocked statements
			if blockedAny {
				for _, t := range s.tasks {
					if t.state == tsBlocked {
						res.Stuck = append(res.Stuck, t.name+" (blocked forever)")
						t.giveUp = true
						t.state = tsRunning
						t.since = time.Now()
						t.grant <- struct{}{}
					}
				}
				graceStart = time.Time{}
				continue
			}
			break
		}
		graceStart = time.Time{}
		if s.step >= s.opts.MaxSteps {
			for _, t := range s.tasks {
				if t.state != tsDone {
					res.Stuck = append(res.Stuck, t.name+" (step limit)")
				}
			}
			break
		}
		// 3. choose
		idx := 0
		if len(s.choices) < len(s.opts.Choices) {
			idx = s.opts.Choices[len(s.choices)] % len(ready)
		} else {
			idx = s.rng.Intn(len(ready))
		}
		s.choices = append(s.choices, idx)
		t := ready[idx]
		s.step++
		t.state = tsRunning
		t.since = time.Now()
		t.grant <- struct{}{}
	}
	close(stop)
	s.running = false
	res.Events = append([]SchedEvent{}, s.events...)
	res.Choices = append([]int{}, s.choices...)
	s.mu.Unlock()
	s.srv.mu.Lock()
	s.srv.sched = nil
	s.srv.mu.Unlock()
	for _, t := range s.tasks {
		if t.panicVal != nil {
			res.Stuck = append(res.Stuck, fmt.Sprintf("%s panicked: %v", t.name, t.panicVal))
		}
	}
	return res
}

// errStuck is returned to a statement whose task can never be unblocked.
func errStuck(on string) error {
	return &pgconn.PgError{Severity: "ERROR", Code: "55P03", Message: "LeanPG scheduler: every remaining task is blocked; giving up on " + on}
}
