import Ledger.Driver.Core
import Ledger.Driver.Interp

/-! `ldriver_interp`: correspondence driver for the interpreter-model layer of C26 (core-only). -/
def main : IO Unit := Ledger.Driver.runDriver [
  ("interpmodel", Ledger.Driver.InterpH.handleInterp true),
  ("interpedge", Ledger.Driver.InterpH.handleInterp true),
  ("interpfuzz", Ledger.Driver.InterpH.handleInterp false)
]
