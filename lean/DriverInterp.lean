import Ledger.Driver.Core

/-! `ldriver_interp`: correspondence driver for the interpreter area (core-only). -/
def main : IO Unit := Ledger.Driver.runDriver []
