import Ledger.Driver.Core

/-! `ldriver_misc`: correspondence driver for the Misc area (core-only). -/
def main : IO Unit := Ledger.Driver.runDriver []
