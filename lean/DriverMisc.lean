import Ledger.Driver.Query

/-! `ldriver_misc`: correspondence driver for the query area (core-only). -/
def main : IO Unit := Ledger.Driver.runDriver Ledger.Driver.Q.queryHandlers
