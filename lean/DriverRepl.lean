import Ledger.Driver.Core

/-! `ldriver_repl`: correspondence driver for the Repl area (core-only). -/
def main : IO Unit := Ledger.Driver.runDriver []
