import Ledger.Driver.Core
import Ledger.Driver.Repl
import Ledger.Driver.ReplM

/-! `ldriver_repl`: correspondence driver for the Repl area (core-only). -/
def main : IO Unit := Ledger.Driver.runDriver (Ledger.Driver.Repl.handlers ++ Ledger.Driver.ReplM.handlers)
