import Ledger.Driver.Hash

/-! `ldriver_hash`: correspondence driver for the Hash area (core-only). -/
def main : IO Unit := Ledger.Driver.runDriver Ledger.Driver.hashHandlers
