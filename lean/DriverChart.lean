import Ledger.Driver.Chart

/-! `ldriver_chart`: correspondence driver for the chart / schema area (core-only). -/
def main : IO Unit := Ledger.Driver.runDriver Ledger.Driver.chartHandlers
