import Ledger.Driver.Core

/-! `ldriver_sql`: correspondence driver for the Sql area (core-only). -/
def main : IO Unit := Ledger.Driver.runDriver []
