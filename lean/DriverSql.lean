import Ledger.Sql.Session
import Ledger.Sql.Decode
import Ledger.Generated.Schema
import Ledger.Driver.Core
import Ledger.Driver.HistH
import Ledger.Sql.StoreOpsH

/-!
`ldriver_sql` (= `lpg`): LeanPG, the modelled PostgreSQL, as a JSON line server
(one request per stdin line, one answer per stdout line). Core-only.

A line with a field `"k"` is a LeanPG request (below). A line with a field `"f"`
is a correspondence case `{"f":handler,"in":…,"out":…}` of the shared driver
protocol (`Ledger/Driver/Core.lean`) and is answered with a verdict by the
handlers registered in `sqlHandlers`.

Requests:
* `{"k":"open","s":N}` / `{"k":"close","s":N}` / `{"k":"drop","s":N}` / `{"k":"abort","s":N}`
* `{"k":"bucket","name":B}` — instantiate `Generated.Schema.bucket` under B
* `{"k":"sql","s":N,"ast":[…],"retry":bool?,"now":µs?}` →
  `{"cols":[…],"rows":[[…]],"n":affected}` | `{"blocked":"…"}` |
  `{"err":{"code":SQLSTATE,"msg":…,"constraint":…}}`
* `{"k":"dump","ledger":L}` → `{"dump":{table:[row…]}}`
* `{"k":"clock","us":N}`, `{"k":"ping"}`
-/
open Lean Ledger.Sql

def errJson (e : Err) : Json :=
  match e with
  | .pg code msg k => Json.mkObj [("err", Json.mkObj [("code", code), ("msg", msg), ("constraint", k)])]
  | .blocked on _ _ => Json.mkObj [("blocked", on)]
  | .unsupported msg => Json.mkObj [("err", Json.mkObj [("code", "0A000"), ("msg", "LeanPG: unsupported: " ++ msg), ("constraint", "")])]
  | .fuel => Json.mkObj [("err", Json.mkObj [("code", "XX000"), ("msg", "LeanPG: evaluation fuel exhausted"), ("constraint", "")])]

def resultJson (r : StmtResult) : Json :=
  Json.mkObj [
    ("cols", Json.arr (r.cols.map Json.str).toArray),
    ("rows", Json.arr (r.rows.map (fun row => Json.arr (row.map valueToWire).toArray)).toArray),
    ("n", Json.num ⟨r.affected, 0⟩)] |>.mergeObj (if r.tieSensitive then Json.mkObj [("tie", true)] else Json.mkObj [])
    |>.mergeObj (if r.rolledBack then Json.mkObj [("rb", true)] else Json.mkObj [])

def natField (j : Json) (k : String) : Except String Nat :=
  match j.getObjVal? k with
  | .ok (.num n) => pure n.mantissa.toNat
  | _ => throw s!"missing numeric field {k}"

def handle (w : World) (j : Json) : World × Json :=
  let fatal (m : String) : World × Json := (w, Json.mkObj [("fatal", m)])
  match j.getObjValAs? String "k" with
  | .error _ => fatal "request without k"
  | .ok k =>
    match k with
    | "ping" => (w, Json.mkObj [("ok", true)])
    | "open" =>
      match natField j "s" with
      | .ok s => (w.setSession { id := s }, Json.mkObj [("ok", true)])
      | .error e => fatal e
    | "close" | "drop" =>
      match natField j "s" with
      | .ok s =>
        let w := closeSession w s
        -- a dropped connection can be reused by number: keep it registered
        let w := if k == "drop" then w.setSession { id := s } else w
        (w, Json.mkObj [("ok", true)])
      | .error e => fatal e
    | "abort" =>
      match natField j "s" with
      | .ok s => (abortSession w s, Json.mkObj [("ok", true)])
      | .error e => fatal e
    | "bucket" =>
      match j.getObjValAs? String "name" with
      | .ok b =>
        (instantiateBucket w (Ledger.Generated.Schema.bucket.toRef Ledger.Generated.Schema.bucketMigrations) b,
         Json.mkObj [("ok", true)])
      | .error e => fatal e
    | "clock" =>
      match j.getObjVal? "us" with
      | .ok (.num n) => ({ w with clock := n.mantissa }, Json.mkObj [("ok", true)])
      | _ => fatal "clock without us"
    | "dump" =>
      match j.getObjValAs? String "ledger" with
      | .ok l => (w, Json.mkObj [("dump", dumpLedger w l)])
      | .error e => fatal e
    | "sql" =>
      match natField j "s", j.getObjVal? "ast" with
      | .ok s, .ok ast =>
        match Decode.stmt ast with
        | .error e => fatal s!"cannot decode statement: {e}"
        | .ok stmt =>
          let retry := match j.getObjVal? "retry" with | .ok (.bool b) => b | _ => false
          let now := match j.getObjVal? "now" with | .ok (.num n) => some n.mantissa | _ => none
          let (w', res) := execTop w s stmt retry now
          match res with
          | .ok r => (w', resultJson r)
          | .error e => (w', errJson e)
      | _, _ => fatal "sql request needs s and ast"
    | other => fatal s!"unknown request kind {other}"

/-- correspondence handlers of the Sql area (added by the property builders) -/
def sqlHandlers : List (String × Ledger.Driver.Handler) :=
  -- `hist` / `histself`: history + ledger snapshot vs. the Spec (Ledger/Spec/README.md); used by the
  -- `sqlhist` workload, whose snapshots come from the real store running on this very LeanPG
  Ledger.Driver.histHandlers ++
  -- `storeops`: every step's table dump of the `storeops` workload against the Spec (through `hist`)
  Ledger.Sql.StoreOps.handlers

def verdictLine (j : Json) (i : Nat) : Json :=
  let res : Except String Ledger.Driver.Verdict := do
    let f ← Ledger.Driver.strField j "f"
    let inp ← Ledger.Driver.field j "in"
    let o ← Ledger.Driver.field j "out"
    match sqlHandlers.lookup f with
    | some hd => hd inp o
    | none => throw s!"no handler for {f}"
  match res with
  | .ok v => v.toJson i
  | .error e => Json.mkObj [("i", i), ("error", e)]

partial def loop (stdin stdout : IO.FS.Stream) (w : World) (i : Nat := 0) : IO Unit := do
  let line ← stdin.getLine
  if line.isEmpty then return ()
  let t := line.trimAscii.toString
  if t.isEmpty then loop stdin stdout w i else
  match Json.parse t with
  | .error e =>
    stdout.putStrLn (Json.mkObj [("fatal", s!"bad JSON: {e}")]).compress
    stdout.flush
    loop stdin stdout w i
  | .ok j =>
    match j.getObjVal? "f" with
    | .ok _ =>
      stdout.putStrLn (verdictLine j i).compress
      stdout.flush
      loop stdin stdout w (i + 1)
    | .error _ =>
      let (w', resp) := handle w j
      stdout.putStrLn resp.compress
      stdout.flush
      loop stdin stdout w' i

def main : IO Unit := do
  let stdin ← IO.getStdin
  let stdout ← IO.getStdout
  -- the `_system` schema exists from the start (the service migrates it at boot)
  let w0 : World := { bucketTemplate := some (Ledger.Generated.Schema.bucket.toRef Ledger.Generated.Schema.bucketMigrations) }
  loop stdin stdout (instantiateBucket w0 (Ledger.Generated.Schema.system.toRef Ledger.Generated.Schema.systemMigrations) "_system")
