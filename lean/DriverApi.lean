import Ledger.Driver.Api

/-! `ldriver_api`: correspondence driver for the Api area (core-only). -/
def main : IO Unit := Ledger.Driver.runDriver Ledger.Driver.Api.handlers
