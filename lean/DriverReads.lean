import Ledger.Driver.Reads

/-! `ldriver_reads`: correspondence driver for the Reads area (core-only). -/
def main : IO Unit := Ledger.Driver.runDriver Ledger.Driver.Reads.readsHandlers
