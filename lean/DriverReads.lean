import Ledger.Driver.Core

/-! `ldriver_reads`: correspondence driver for the Reads area (core-only). -/
def main : IO Unit := Ledger.Driver.runDriver []
