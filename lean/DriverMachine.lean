import Ledger.Driver.Core
import Ledger.Driver.Machine

/-! `ldriver_machine`: correspondence driver for the Machine area (core-only). -/
def main : IO Unit := Ledger.Driver.runDriver [
  ("prog", Ledger.Driver.handleProg ""),
  ("prog-C22", Ledger.Driver.handleProg "C22"),
  ("prog-C23", Ledger.Driver.handleProg "C23"),
  ("prog-C27", Ledger.Driver.handleProg "C27"),
  ("postings", Ledger.Driver.handlePostings),
  ("malformed", Ledger.Driver.handleMalformed)
]
