import Ledger.Driver.Core

/-! `ldriver_machine`: correspondence driver for the Machine area (core-only). -/
def main : IO Unit := Ledger.Driver.runDriver []
