import Ledger.Driver.Ctrl

/-! `ldriver_ctrl`: correspondence driver for the controller area (core-only). -/
def main : IO Unit := Ledger.Driver.runDriver Ledger.Driver.Ctrl.handlers
