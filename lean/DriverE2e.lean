import Ledger.Driver.Core

/-! `ldriver_e2e`: correspondence driver for the E2e area (core-only). -/
def main : IO Unit := Ledger.Driver.runDriver []
