import Ledger.Driver.E2eMulti

/-! `ldriver_e2e`: correspondence driver of the end-to-end leg (real SQL store over the MODELLED
    Postgres, LeanPG). Core-only. builder-ctrl's handlers are reused unchanged for the case shapes
    that are its own (`ctrlhist`, `ctrlfault`, `ctrlimport`). -/
def main : IO Unit := Ledger.Driver.runDriver
  (Ledger.Driver.Ctrl.handlers ++ Ledger.Driver.E2e.handlers)
