import Ledger.Driver.Registry

/-! `ldriver`: correspondence driver (core-only, native executable). -/
def main : IO Unit := Ledger.Driver.runDriver Ledger.Driver.handlers
