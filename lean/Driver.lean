import Ledger.Driver.Registry

/-!
`ldriver`: reads cases (JSON lines) on stdin, prints one verdict per line.
Core-only (no Mathlib) so it links as a native executable.
-/
open Lean Ledger.Driver

partial def loop (h : IO.FS.Stream) (out : IO.FS.Stream) (i : Nat) : IO Unit := do
  let line ← h.getLine
  if line.isEmpty then return ()
  let t := line.trimAscii.toString
  if t.isEmpty then loop h out i else
  let res : Except String Verdict := do
    let j ← Json.parse t
    let f ← strField j "f"
    let inp ← field j "in"
    let o ← field j "out"
    match handlers.lookup f with
    | some hd => hd inp o
    | none => throw s!"no handler for {f}"
  match res with
  | .ok v => out.putStrLn (v.toJson i).compress
  | .error e => out.putStrLn (Json.mkObj [("i", i), ("error", e)]).compress
  loop h out (i + 1)

def main : IO Unit := do
  let stdin ← IO.getStdin
  let stdout ← IO.getStdout
  loop stdin stdout 0
  stdout.flush
