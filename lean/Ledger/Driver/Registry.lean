import Ledger.Driver.Core
import Ledger.Driver.Allot
import Ledger.Driver.Shape

/-! Handler table of the correspondence driver: "f" → handler. -/
namespace Ledger.Driver

def handlers : List (String × Handler) := [
  ("allot", handleAllot),
  ("shape", handleShape)
]

end Ledger.Driver
