import Ledger.Driver.Core
import Ledger.Driver.Allot

/-! Handler table of the correspondence driver: "f" → handler. -/
namespace Ledger.Driver

def handlers : List (String × Handler) := [
  ("allot", handleAllot)
]

end Ledger.Driver
