import Ledger.Driver.Core
import Ledger.Ctrl.Controller

/-!
Controller driver, part 1: JSON ⇄ model.  Parsing of the harness's ops /
observations, and rendering of model rows in the canonical shape of
memstore's `Snap` (so that snapshots and responses compare as JSON values).
-/
namespace Ledger.Driver.Ctrl
open Lean Ledger.Base Ledger.Core Ledger.Ctrl Ledger.Driver

/-! ### parsing -/

def optField (j : Json) (k : String) : Option Json :=
  match j.getObjVal? k with
  | .ok .null => none
  | .ok v => some v
  | .error _ => none

def intOf (j : Json) : Except String Int :=
  match j with
  | .num n => if n.exponent = 0 then pure n.mantissa else throw s!"not an integer: {j.compress}"
  | _ => throw s!"not a number: {j.compress}"

def natOf (j : Json) : Except String Nat := do
  let i ← intOf j
  if i < 0 then throw "negative" else pure i.toNat

def intField (j : Json) (k : String) : Except String Int := do intOf (← field j k)
def natField (j : Json) (k : String) : Except String Nat := do natOf (← field j k)

def optIntField (j : Json) (k : String) : Except String (Option Int) :=
  match optField j k with
  | none => pure none
  | some v => do pure (some (← intOf v))

def boolFieldD (j : Json) (k : String) : Bool :=
  match j.getObjVal? k with
  | .ok (.bool b) => b
  | _ => false

def pairOf (j : Json) : Except String (String × String) :=
  match j with
  | .arr #[.str a, .str b] => pure (a, b)
  | _ => throw s!"not a pair: {j.compress}"

/-- `[[k,v],…]` → sorted map (later entries win, like a Go map literal loop). -/
def metaOfJson (j : Json) : Except String Meta :=
  match j with
  | .null => pure []
  | .arr a => do
    let ps ← a.toList.mapM pairOf
    pure (ps.foldl (fun m e => m.insert e.1 e.2) [])
  | _ => throw "metadata: not an array"

def metaField (j : Json) (k : String) : Except String Meta :=
  match optField j k with
  | none => pure []
  | some v => metaOfJson v

def accMetaOfJson (j : Json) : Except String (Map String Meta) :=
  match j with
  | .arr a => a.toList.foldlM (fun m e => do
      let addr ← strField e "addr"
      let md ← metaField e "meta"
      pure (m.insert addr md)) []
  | _ => throw "account metadata: not an array"

def postingOfJson (j : Json) : Except String Posting := do
  pure { source := ← strField j "s", destination := ← strField j "d", asset := ← strField j "a",
         amount := ← parseInt (← strField j "n") }

def postingsField (j : Json) (k : String) : Except String (List Posting) := do
  (← arrField j k).mapM postingOfJson

def keysOfJson (j : Json) : Except String (List Key) :=
  match j with
  | .arr a => a.toList.mapM pairOf
  | .null => pure []
  | _ => throw "pairs: not an array"

def mcallOfJson (j : Json) : Except String MCall := do
  let m ← strField j "m"
  if m = "GetBalances" then
    pure (.balances (← keysOfJson ((optField j "q").getD (.arr #[]))))
  else if m = "Accounts.GetOne" then pure (.account (optStrField j "a"))
  else throw s!"unexpected store call of the runtime: {m}"

def obsOfJson (j : Json) : Except String MachineObs := do
  pure { err := optStrField j "err", postings := ← postingsField j "postings",
         txMeta := ← metaField j "meta",
         accountMeta := ← (match optField j "am" with | some v => accMetaOfJson v | none => pure []),
         calls := ← (← arrField j "calls").mapM mcallOfJson,
         attempt := (match optField j "attempt" with
                     | some v => (match natOf v with | .ok n => n | .error _ => 1)
                     | none => 1) }

def chartTableOf (j : Json) : Except String (List (String × Meta)) := do
  let rows ← arrField j "chartTable"
  let rs ← rows.mapM fun r => do
    let found := boolFieldD r "found"
    pure (found, (← strField r "addr"), (← metaField r "defaults"))
  pure (rs.filterMap fun (f, a, d) => if f then some (a, d) else none)

/-- One op: `inp` is the request, `out` what the real code produced (the parts of
    it that are oracles for the model: idempotency hash, runtime observations,
    chart table). -/
def opOfJson (inp out : Json) : Except String Op := do
  let k ← strField inp "k"
  let create : Except String CreateIn := do
    pure { timestamp := ← optIntField inp "ts", reference := optStrField inp "ref",
           metadata := ← metaField inp "meta",
           accountMeta := ← (match optField inp "am" with
                             | some v => do pure (some (← accMetaOfJson v))
                             | none => pure none),
           template := optStrField inp "template" }
  let kind : OpKind ←
    if k = "createP" then
      pure (.createP (← create) (← postingsField inp "postings") (boolFieldD inp "force"))
    else if k = "createS" then
      pure (.createS (← create) (← (← arrField out "machine").mapM obsOfJson))
    else if k = "revert" then
      pure (.revert (← natField inp "id") (boolFieldD inp "force") (boolFieldD inp "aed") (← metaField inp "meta"))
    else if k = "saveTxMeta" then pure (.saveTxMeta (← natField inp "id") (← metaField inp "meta"))
    else if k = "saveAccMeta" then pure (.saveAccMeta (optStrField inp "addr") (← metaField inp "meta"))
    else if k = "delTxMeta" then pure (.delTxMeta (← natField inp "id") (optStrField inp "key"))
    else if k = "delAccMeta" then pure (.delAccMeta (optStrField inp "addr") (optStrField inp "key"))
    else if k = "insertSchema" then
      let tpls ← strArrField out "templates"
      let bad := boolFieldD out "tplBad"
      match optField inp "chart" with
      | none => pure (.insertSchema (optStrField inp "version") none tpls bad)
      | some _ => pure (.insertSchema (optStrField inp "version")
                         (some (optStrField out "chartCanon", ← chartTableOf out)) tpls bad)
    else throw s!"unknown op kind {k}"
  pure { kind := kind, now := ← intField inp "now", dry := boolFieldD inp "dry", ik := optStrField inp "ik",
         ihash := optStrField out "ih", sv := optStrField inp "sv" }

/-! ### rendering (memstore.Snap shapes) -/

def jInt (i : Int) : Json := Json.num (JsonNumber.fromInt i)
def jNat (n : Nat) : Json := jInt n
def jOptInt : Option Int → Json
  | some i => jInt i
  | none => Json.null

def jMeta (m : Meta) : Json := Json.arr (m.map fun e => Json.arr #[Json.str e.1, Json.str e.2]).toArray

def jPosting (p : Posting) : Json :=
  Json.mkObj [("s", p.source), ("d", p.destination), ("a", p.asset), ("n", toString p.amount)]

def jVol (k : Key) (v : Volumes) : Json :=
  Json.mkObj [("acc", k.1), ("asset", k.2), ("in", toString v.input), ("out", toString v.output)]

def jTx (t : Ledger.Ctrl.Tx) : Json :=
  Json.mkObj [("id", jNat t.id), ("postings", Json.arr (t.postings.map jPosting).toArray),
    ("meta", jMeta t.metadata), ("ref", t.reference), ("ts", jInt t.timestamp), ("ins", jInt t.insertedAt),
    ("upd", jInt t.updatedAt), ("rev", jOptInt t.revertedAt),
    ("pcv", Json.arr (t.pcv.map fun e => jVol e.1 e.2).toArray), ("tpl", t.template)]

def jAccount (a : String) (r : Account) : Json :=
  Json.mkObj [("addr", a), ("meta", jMeta r.metadata), ("fu", jInt r.firstUsage), ("ins", jInt r.insertionDate),
    ("upd", jInt r.updatedAt)]

def jSchema (s : Schema) : Json :=
  Json.mkObj [("v", s.version), ("at", jInt s.createdAt), ("chart", s.chartRaw), ("ntpl", jNat s.templates.length)]

def jTarget : Target → List (String × Json)
  | .account a => [("tt", "ACCOUNT"), ("target", a)]
  | .transaction id => [("tt", "TRANSACTION"), ("target", toString id)]

/-- `memstore.CPayload` (fields with `omitempty` are left out when empty). -/
def jPayload : Payload → Json
  | .created tx am =>
    Json.mkObj ([("tx", jTx tx)] ++
      (if am.isEmpty then [] else
        [("am", Json.arr (am.map fun e => Json.mkObj [("addr", e.1), ("meta", jMeta e.2)]).toArray)]))
  | .reverted orig rev => Json.mkObj [("tx", jTx rev), ("reverted", jTx orig)]
  | .savedMeta t m => Json.mkObj (jTarget t ++ (if m.isEmpty then [] else [("meta", jMeta m)]))
  | .deletedMeta t key => Json.mkObj (jTarget t ++ (if key = "" then [] else [("key", Json.str key)]))
  | .insertedSchema s => Json.mkObj [("schema", jSchema s)]

def Payload.typeName : Payload → String
  | .created .. => "NEW_TRANSACTION"
  | .reverted .. => "REVERTED_TRANSACTION"
  | .savedMeta .. => "SET_METADATA"
  | .deletedMeta .. => "DELETE_METADATA"
  | .insertedSchema .. => "INSERTED_SCHEMA"

def jLog (l : Log) : Json :=
  Json.mkObj [("id", jNat l.id), ("type", Payload.typeName l.payload), ("date", jInt l.date), ("ik", l.ik),
    ("ih", l.ihash), ("sv", l.schemaVersion), ("data", jPayload l.payload)]

/-! ### snapshots as keyed tables -/

/-- The five tables, each as `key ↦ canonical row`; keys are chosen so that the
    list order is the order of `memstore.Snapshot`. -/
structure Tables where
  txs : List (Nat × Json) := []
  accounts : List (String × Json) := []
  vols : List (Key × Json) := []
  logs : List (Nat × Json) := []
  schemas : List (String × Json) := []

def upsertBy {κ : Type} [DecidableEq κ] (lt : κ → κ → Bool) (k : κ) (v : Json) : List (κ × Json) → List (κ × Json)
  | [] => [(k, v)]
  | (k', v') :: r =>
    if k' = k then (k, v) :: r
    else if lt k k' then (k, v) :: (k', v') :: r
    else (k', v') :: upsertBy lt k v r

def keyLt (a b : Key) : Bool := KeyOrd.lt a b

def tablesOfDb (d : Db) : Tables :=
  { txs := d.txs.foldl (fun m t => upsertBy (· < ·) t.id (jTx t) m) [],
    accounts := d.accounts.foldl (fun m e => upsertBy (· < ·) e.1 (jAccount e.1 e.2) m) [],
    vols := d.volumes.foldl (fun m e => upsertBy keyLt e.1 (jVol e.1 e.2) m) [],
    logs := d.logs.foldl (fun m l => upsertBy (· < ·) l.id (jLog l) m) [],
    schemas := d.schemas.foldl (fun m s => upsertBy (· < ·) s.version (jSchema s) m) [] }

/-- Apply the harness's delta (changed / new rows) to the accumulated real snapshot. -/
def applyDelta (t : Tables) (delta : Json) : Except String Tables := do
  if boolFieldD delta "shrunk" then throw "real snapshot lost a row" else
  let txs ← (← arrField delta "txs").foldlM (fun m r => do
    pure (upsertBy (· < ·) (← natField r "id") r m)) t.txs
  let accounts ← (← arrField delta "accounts").foldlM (fun m r => do
    pure (upsertBy (· < ·) (← strField r "addr") r m)) t.accounts
  let vols ← (← arrField delta "vols").foldlM (fun m r => do
    pure (upsertBy keyLt ((← strField r "acc"), (← strField r "asset")) r m)) t.vols
  let logs ← (← arrField delta "logs").foldlM (fun m r => do
    pure (upsertBy (· < ·) (← natField r "id") r m)) t.logs
  let schemas ← (← arrField delta "schemas").foldlM (fun m r => do
    pure (upsertBy (· < ·) (← strField r "v") r m)) t.schemas
  pure { txs, accounts, vols, logs, schemas }

def deltaEmpty (delta : Json) : Bool :=
  ["txs", "accounts", "vols", "logs", "schemas"].all (fun k =>
    match delta.getObjVal? k with
    | .ok (.arr a) => a.isEmpty
    | _ => true) && !boolFieldD delta "shrunk"

def rowsEq {κ : Type} [BEq κ] (a b : List (κ × Json)) : Bool :=
  a.length == b.length && (a.zip b).all (fun (x, y) => x.1 == y.1 && x.2 == y.2)

/-- First table on which two snapshots differ ("" = equal). -/
def Tables.diff (a b : Tables) : String :=
  if !rowsEq a.txs b.txs then "txs"
  else if !rowsEq a.accounts b.accounts then "accounts"
  else if !rowsEq a.vols b.vols then "vols"
  else if !rowsEq a.logs b.logs then "logs"
  else if !rowsEq a.schemas b.schemas then "schemas"
  else ""

/-- `accounts_volumes` as values: `(0,0)` rows dropped (a zero row equals the empty fold). -/
def Tables.normVols (t : Tables) : Tables :=
  { t with vols := t.vols.filter fun e =>
      !((optStrField e.2 "in") == "0" && (optStrField e.2 "out") == "0") }

def Tables.toJson (t : Tables) : Json :=
  Json.mkObj [("txs", Json.arr (t.txs.map (·.2)).toArray), ("accounts", Json.arr (t.accounts.map (·.2)).toArray),
    ("vols", Json.arr (t.vols.map (·.2)).toArray), ("logs", Json.arr (t.logs.map (·.2)).toArray),
    ("schemas", Json.arr (t.schemas.map (·.2)).toArray)]

/-- The model's response in the shape of the harness's `Resp` (compared fields only). -/
def jResp (r : Resp) : Json :=
  Json.mkObj [("err", match r.err with | some e => e.toString | none => ""), ("hit", r.hit),
    ("log", match r.log with | some l => (if r.err.isSome then Json.null else jLog l) | none => Json.null)]

/-- The real response reduced to the compared fields (a panic is the error class "panic"). -/
def realResp (resp : Json) : Json :=
  let panic := optStrField resp "panic"
  Json.mkObj [("err", if panic ≠ "" then "panic" else optStrField resp "err"), ("hit", boolFieldD resp "hit"),
    ("log", match optField resp "log" with | some l => l | none => Json.null)]

end Ledger.Driver.Ctrl

namespace Ledger.Driver.Ctrl
open Lean Ledger.Base Ledger.Core Ledger.Ctrl Ledger.Driver

/-! ### parsing canonical rows back (real snapshots → model values, for the
    property predicates evaluated on the REAL outputs) -/

def volsOfJson (j : Json) : Except String PCV := do
  match j with
  | .arr a => a.toList.foldlM (fun (m : PCV) r => do
      let v : Volumes := ⟨← parseInt (← strField r "in"), ← parseInt (← strField r "out")⟩
      pure (m.insert ((← strField r "acc"), (← strField r "asset")) v)) []
  | .null => pure []
  | _ => throw "volumes: not an array"

def txOfJson (j : Json) : Except String Ledger.Ctrl.Tx := do
  pure { id := ← natField j "id", postings := ← postingsField j "postings", metadata := ← metaField j "meta",
         reference := optStrField j "ref", timestamp := ← intField j "ts", insertedAt := ← intField j "ins",
         updatedAt := ← intField j "upd", revertedAt := ← optIntField j "rev",
         pcv := ← volsOfJson ((optField j "pcv").getD (.arr #[])), template := optStrField j "tpl" }

def targetOfJson (j : Json) : Except String Target := do
  let tt ← strField j "tt"
  let t := optStrField j "target"
  if tt = "ACCOUNT" then pure (.account t)
  else match t.toNat? with
    | some n => pure (.transaction n)
    | none => throw s!"bad transaction target {t}"

/-- `chartOf v`: the chart table of schema version `v` (known from the insert-schema ops). -/
def payloadOfJson (chartOf : String → List (String × Meta)) (ty : String) (j : Json) : Except String Payload := do
  if ty = "NEW_TRANSACTION" then
    pure (.created (← txOfJson (← field j "tx"))
      (← (match optField j "am" with | some v => accMetaOfJson v | none => pure [])))
  else if ty = "REVERTED_TRANSACTION" then
    pure (.reverted (← txOfJson (← field j "reverted")) (← txOfJson (← field j "tx")))
  else if ty = "SET_METADATA" then pure (.savedMeta (← targetOfJson j) (← metaField j "meta"))
  else if ty = "DELETE_METADATA" then pure (.deletedMeta (← targetOfJson j) (optStrField j "key"))
  else if ty = "INSERTED_SCHEMA" then
    let s ← field j "schema"
    let v ← strField s "v"
    pure (.insertedSchema { version := v, createdAt := ← intField s "at", chartRaw := optStrField s "chart",
                            chart := chartOf v, templates := [] })
  else throw s!"unknown log type {ty}"

def logOfJson (chartOf : String → List (String × Meta)) (j : Json) : Except String Log := do
  let ty ← strField j "type"
  pure { id := ← natField j "id", payload := ← payloadOfJson chartOf ty (← field j "data"),
         date := ← intField j "date", ik := optStrField j "ik", ihash := optStrField j "ih",
         schemaVersion := optStrField j "sv" }

def accountOfJson (j : Json) : Except String (String × Account) := do
  pure (← strField j "addr", { metadata := ← metaField j "meta", firstUsage := ← intField j "fu",
                               insertionDate := ← intField j "ins", updatedAt := ← intField j "upd" })

end Ledger.Driver.Ctrl
