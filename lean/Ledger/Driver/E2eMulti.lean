import Ledger.Driver.E2e
import Ledger.E2e.Features

/-!
Handlers `features` (C35) and `multiledger` (C19) of the end-to-end leg: the real
controller stack over the real SQL store on the MODELLED Postgres (LeanPG).

Both reuse builder-ctrl's per-op fold (`Ledger.Driver.Ctrl.stepHist`): every op of
every ledger / feature set is compared with `Ledger.Ctrl.forgeLog` (response,
store-call trace, sequences, snapshot) and its C07 / C08 / C13 / C14 / C16 / C17 / C18
predicates are evaluated on the real outputs; on top of that come the predicates of
this layer: cross-feature equality of the core tables and the derived-table rules
(C35), other-ledger invariance, read scoping and the alone-in-bucket hint (C19).
-/
namespace Ledger.Driver.E2e
open Lean Ledger.Base Ledger.Core Ledger.Ctrl Ledger.Driver Ledger.Driver.Ctrl

/-! ### features -/

def featureSetOfJson (f : Json) : Ledger.E2e.FeatureSet :=
  { movesHistory := optStrField f "MOVES_HISTORY" = "ON",
    pcev := optStrField f "MOVES_HISTORY_POST_COMMIT_EFFECTIVE_VOLUMES" = "SYNC",
    hashLogs := if optStrField f "HASH_LOGS" = "SYNC" then .sync else if optStrField f "HASH_LOGS" = "ASYNC" then .async else .disabled,
    accMetaHist := optStrField f "ACCOUNT_METADATA_HISTORY" = "SYNC",
    txMetaHist := optStrField f "TRANSACTION_METADATA_HISTORY" = "SYNC" }

def strContains (s sub : String) : Bool := (s.splitOn sub).length > 1

/-- The known consequence of C10's root cause at the level of C35: under HASH_LOGS=SYNC the
    trigger `set_log_hash` casts the hand-built JSON text to `bytea`; an idempotency key with a
    backslash that does not start `\\` or `\ooo` makes that cast fail (22P02), so the write is
    rejected — under any other value of HASH_LOGS the same write succeeds. -/
def isBackslashKeyRejection (feats opIn opOut : Json) : Bool :=
  let resp := (opOut.getObjVal? "resp").toOption.getD Json.null
  optStrField feats "HASH_LOGS" = "SYNC" && optStrField resp "err" = "other" &&
  strContains (optStrField resp "msg") "22P02" && strContains (optStrField opIn "ik") "\\"

structure SetRun where
  feats : Json
  fs : FoldSt := {}
  /-- op index at which the set left the common history (known finding), if any -/
  tainted : Option Nat := none
  resps : List Json := []
  derived : Json := Json.null
  /-- the derived tables of `Ledger.E2e.derive`, folded over the model's successive core states -/
  mDerived : Ledger.E2e.Derived := {}
  err : String := ""

def runSet (strict : Bool) (ops : List Json) (s : Json) : Except String SetRun := do
  let feats ← field s "features"
  let outs ← arrField s "ops"
  let err := optStrField s "err"
  if err ≠ "" then return { feats := feats, err := err }
  if outs.length ≠ ops.length then throw "ops / outputs length mismatch"
  let mut r : SetRun := { feats := feats, derived := (s.getObjVal? "derived").toOption.getD Json.null }
  for (i, o) in ops.zip outs do
    if r.tainted.isSome then break
    if isBackslashKeyRejection feats i o then
      r := { r with tainted := some r.fs.i }
    else
      let fs ← stepHist strict r.fs i o
      r := { r with fs := fs, resps := r.resps ++ [realResp (← field o "resp")],
                    mDerived := Ledger.E2e.derive (featureSetOfJson feats) r.fs.state.db fs.state.db r.mDerived }
  return r

def natD (j : Json) (k : String) : Nat := (natField j k).toOption.getD 0

/-- The documented effect of each feature on the derived tables (row counts of LeanPG's dump). -/
def derivedRules (feats d : Json) : List String :=
  let mh := optStrField feats "MOVES_HISTORY" = "ON"
  let pc := optStrField feats "MOVES_HISTORY_POST_COMMIT_EFFECTIVE_VOLUMES" = "SYNC"
  let hs := optStrField feats "HASH_LOGS" = "SYNC"
  let am := optStrField feats "ACCOUNT_METADATA_HISTORY" = "SYNC"
  let tm := optStrField feats "TRANSACTION_METADATA_HISTORY" = "SYNC"
  let moves := natD d "moves"
  (if moves ≠ (if mh then 2 * natD d "postings" else 0) then
    [s!"moves rows {moves} with MOVES_HISTORY={optStrField feats "MOVES_HISTORY"} and {natD d "postings"} committed postings"] else []) ++
  (if natD d "movesPcev" ≠ (if pc then moves else 0) then
    [s!"{natD d "movesPcev"} of {moves} moves carry effective volumes with PCEV={optStrField feats "MOVES_HISTORY_POST_COMMIT_EFFECTIVE_VOLUMES"}"] else []) ++
  (if natD d "hashes" ≠ (if hs then natD d "logs" else 0) then
    [s!"{natD d "hashes"} of {natD d "logs"} logs carry a hash with HASH_LOGS={optStrField feats "HASH_LOGS"}"] else []) ++
  (if (if am then natD d "accHist" < natD d "accounts" else natD d "accHist" ≠ 0) then
    [s!"{natD d "accHist"} account metadata revisions for {natD d "accounts"} accounts with ACCOUNT_METADATA_HISTORY={optStrField feats "ACCOUNT_METADATA_HISTORY"}"] else []) ++
  (if (if tm then natD d "txHist" < natD d "txs" else natD d "txHist" ≠ 0) then
    [s!"{natD d "txHist"} transaction metadata revisions for {natD d "txs"} transactions with TRANSACTION_METADATA_HISTORY={optStrField feats "TRANSACTION_METADATA_HISTORY"}"] else []) ++
  (if natD d "blocks" ≠ 0 then ["log blocks exist although no block was requested"] else [])

def featTag (f : Json) : String :=
  s!"MH:{optStrField f "MOVES_HISTORY"},PCEV:{optStrField f "MOVES_HISTORY_POST_COMMIT_EFFECTIVE_VOLUMES"},HASH:{optStrField f "HASH_LOGS"},AMH:{optStrField f "ACCOUNT_METADATA_HISTORY"},TMH:{optStrField f "TRANSACTION_METADATA_HISTORY"}"

def handleFeatures : Handler := fun inp out => do
  let strict := boolFieldD inp "strict"
  let want := optStrField inp "prop"
  let ops ← arrField inp "ops"
  let sets ← arrField out "sets"
  if sets.isEmpty then throw "no feature set"
  let runs ← sets.mapM (runSet strict ops)
  let mut fails : List (String × String) := []
  let mut sigs : List String := []
  let mut mismatch : Option Mismatch := none
  let mut tags : List String := [s!"sets:{runs.length}"]
  -- reference: the first set that ran the whole history
  let ref? := runs.find? (fun r => r.tainted.isNone && r.err = "")
  for r in runs do
    let label := featTag r.feats
    for v in ["MOVES_HISTORY", "MOVES_HISTORY_POST_COMMIT_EFFECTIVE_VOLUMES", "HASH_LOGS", "ACCOUNT_METADATA_HISTORY", "TRANSACTION_METADATA_HISTORY"] do
      tags := tags ++ [s!"{v}={optStrField r.feats v}"]
    if r.err ≠ "" then
      fails := fails ++ [("C35", s!"[{label}] ledger creation refused: {r.err}")]
    else
      if mismatch.isNone then
        mismatch := r.fs.mismatch.map (fun m => { m with field := s!"[{label}] " ++ m.field })
      for (p, i, w) in r.fs.propFail do fails := fails ++ [(p, s!"[{label}] op {i}: {w}")]
      for (p, s) in r.fs.sigs do if want = "" || p = want then sigs := sigs ++ [s]
      if r.tainted.isSome then
        if want = "" || want = "C35" then sigs := sigs ++ ["C35:hash-sync-rejects-idempotency-key-with-backslash"]
        tags := tags ++ ["left-common-history:backslash-key-under-HASH_LOGS=SYNC"]
      else
        for w in derivedRules r.feats r.derived do fails := fails ++ [("C35", s!"[{label}] {w}")]
        -- the model of the derived tables (Ledger.E2e.derive) against the row counts of LeanPG's dump
        if r.fs.mismatch.isNone && mismatch.isNone then
          let md := r.mDerived
          let mCounts := Json.mkObj [("moves", jNat md.moves.length), ("movesPcev", jNat (md.moves.filter (·.hasPcev)).length),
            ("hashes", jNat md.hashed.length), ("accHist", jNat md.accHist.length), ("txHist", jNat md.txHist.length)]
          let rCounts := Json.mkObj [("moves", jNat (natD r.derived "moves")), ("movesPcev", jNat (natD r.derived "movesPcev")),
            ("hashes", jNat (natD r.derived "hashes")), ("accHist", jNat (natD r.derived "accHist")), ("txHist", jNat (natD r.derived "txHist"))]
          if mCounts != rCounts then
            mismatch := some { op := ops.length, field := s!"[{label}] derived-tables", model := mCounts, real := rCounts }
      match ref? with
      | none => pure ()
      | some ref =>
        -- same answers, op by op (up to the point where a tainted set left the history)
        let n := r.resps.length
        if r.resps != ref.resps.take n then
          let idx := ((r.resps.zip ref.resps).findIdx? (fun (a, b) => a != b)).getD n
          fails := fails ++ [("C35", s!"[{label}] op {idx}: answer differs from the answer under [{featTag ref.feats}]")]
        if r.tainted.isNone then
          let d := r.fs.real.diff ref.fs.real
          if d ≠ "" then
            fails := fails ++ [("C35", s!"[{label}] core table `{d}` differs from the one under [{featTag ref.feats}]")]
          if r.fs.state.seq != ref.fs.state.seq && r.fs.mismatch.isNone && ref.fs.mismatch.isNone then
            fails := fails ++ [("C35", s!"[{label}] sequences differ from those under [{featTag ref.feats}]")]
  -- a derived table depends on its own feature(s) only: same content under every set that agrees on them
  let okRuns := runs.filter (fun r => r.tainted.isNone && r.err = "")
  let groupCheck (what digest : String) (key : Json → String) (on : Json → Bool) : List (String × String) :=
    let rs := okRuns.filter (fun r => on r.feats)
    match rs with
    | [] => []
    | r0 :: rest =>
      rest.filterMap fun r =>
        let sameKey := key r.feats = key r0.feats
        if sameKey && optStrField r.derived digest ≠ optStrField r0.derived digest then
          some ("C35", s!"[{featTag r.feats}] content of `{what}` differs from its content under [{featTag r0.feats}] although both sets agree on the feature(s) that govern it")
        else none
  -- moves (and their effective volumes): governed by MOVES_HISTORY + PCEV; compared within each PCEV value
  for pc in ["SYNC", "DISABLED"] do
    fails := fails ++ groupCheck "moves" "movesDigest" (fun _ => "") (fun f => optStrField f "MOVES_HISTORY" = "ON" && optStrField f "MOVES_HISTORY_POST_COMMIT_EFFECTIVE_VOLUMES" = pc)
  fails := fails ++ groupCheck "logs.hash" "hashesDigest" (fun _ => "") (fun f => optStrField f "HASH_LOGS" = "SYNC")
  fails := fails ++ groupCheck "accounts_metadata" "accHistDigest" (fun _ => "") (fun f => optStrField f "ACCOUNT_METADATA_HISTORY" = "SYNC")
  fails := fails ++ groupCheck "transactions_metadata" "txHistDigest" (fun _ => "") (fun f => optStrField f "TRANSACTION_METADATA_HISTORY" = "SYNC")
  let sel (p : String) : Bool := want = "" || p = want
  let selFails := (fails.filter (sel ·.1)).map (fun (p, w) => s!"{p}: {w}")
  let sigs' := dedup sigs
  let committed := match ref? with | some r => r.fs.committedTx | none => 0
  pure { model := match mismatch with | some m => m.toJson | none => Json.null,
         agree := mismatch.isNone, prop := selFails.isEmpty && sigs'.isEmpty, propModel := true,
         nontrivial := committed ≥ 2 && runs.length ≥ 2,
         tags := dedup tags,
         note := if !selFails.isEmpty then "; ".intercalate (selFails.take 5)
                 else if !sigs'.isEmpty then "known defect reproduced: " ++ ", ".intercalate sigs' else "",
         sig := if selFails.isEmpty then sigs'.headD "" else "" }

/-! ### multiledger -/

structure LedgerRun where
  idx : Nat
  strict : Bool
  bucket : String
  fs : FoldSt := {}

def natsOf (j : Json) (k : String) : List Nat :=
  match arrField j k with
  | .ok a => a.filterMap (fun x => (natOf x).toOption)
  | .error _ => []

def strsOf (j : Json) (k : String) : List String := (strArrField j k).toOption.getD []

/-- Σ (input − output) per asset over a volumes table, as `[[asset, balance]]` sorted by asset. -/
def aggOf (vols : List (Key × Json)) : Except String Json := do
  let m ← vols.foldlM (fun (m : Map String Int) (k, r) => do
    let i ← parseInt (← strField r "in")
    let o ← parseInt (← strField r "out")
    pure (m.insert k.2 ((m.get? k.2).getD 0 + i - o))) []
  pure (Json.arr (m.map fun e => Json.arr #[Json.str e.1, Json.str (toString e.2)]).toArray)

/-- Every read API of ledger `l` against the ledger's own tables (`real`, accumulated from
    LeanPG's dump restricted to `ledger = l`). -/
def checkReads (real : Tables) (r : Json) : Except String (List String) := do
  let mut fails : List String := []
  let e := optStrField r "err"
  if e ≠ "" then fails := fails ++ [s!"a read failed: {e.take 200}"]
  let txIds := real.txs.map (·.1)
  if natsOf r "txs" != txIds then fails := fails ++ [s!"ListTransactions returned ids {natsOf r "txs"}, the ledger has {txIds}"]
  if natD r "nTx" ≠ txIds.length then fails := fails ++ [s!"CountTransactions = {natD r "nTx"}, the ledger has {txIds.length}"]
  let addrs := real.accounts.map (·.1)
  if strsOf r "accounts" != addrs then fails := fails ++ [s!"ListAccounts returned {strsOf r "accounts"}, the ledger has {addrs}"]
  if natD r "nAcc" ≠ addrs.length then fails := fails ++ [s!"CountAccounts = {natD r "nAcc"}, the ledger has {addrs.length}"]
  let logIds := real.logs.map (·.1)
  if natsOf r "logs" != logIds then fails := fails ++ [s!"ListLogs returned ids {natsOf r "logs"}, the ledger has {logIds}"]
  let vols ← arrField r "vols"
  if Json.arr vols.toArray != Json.arr (real.vols.map (·.2)).toArray then
    fails := fails ++ ["GetVolumesWithBalances differs from the ledger's accounts_volumes"]
  let agg := (r.getObjVal? "agg").toOption.getD (Json.arr #[])
  let wantAgg ← aggOf real.vols
  if agg != wantAgg then fails := fails ++ [s!"GetAggregatedBalances {agg.compress} ≠ {wantAgg.compress}"]
  let refs := strsOf r "refs"
  let wantRefs := (real.txs.map (fun e => optStrField e.2 "ref")).filter (· ≠ "")
  if refs != wantRefs then fails := fails ++ [s!"ListTransactions returned references {refs}, the ledger has {wantRefs}"]
  for t in (← arrField r "tx") do
    let id ← natField t "id"
    let found := boolFieldD t "found"
    if optStrField t "err" ≠ "" then fails := fails ++ [s!"GetTransaction({id}) failed: {(optStrField t "err").take 120}"]
    match real.txs.lookup id with
    | some row =>
      if !found then fails := fails ++ [s!"GetTransaction({id}): not found although the ledger has it"]
      else if (t.getObjVal? "postings").toOption != (row.getObjVal? "postings").toOption then
        fails := fails ++ [s!"GetTransaction({id}) returned another ledger's postings"]
    | none => if found then fails := fails ++ [s!"GetTransaction({id}) found a transaction the ledger does not have"]
  for a in (← arrField r "acc") do
    let addr ← strField a "addr"
    if optStrField a "err" ≠ "" then fails := fails ++ [s!"GetAccount({addr}) failed: {(optStrField a "err").take 120}"]
    let myVols := Json.arr ((real.vols.filter (fun e => e.1.1 == addr)).map (·.2)).toArray
    match real.accounts.lookup addr with
    | some row =>
      if !boolFieldD a "found" then fails := fails ++ [s!"GetAccount({addr}): not found although the ledger has it"]
      else
        if (a.getObjVal? "meta").toOption != (row.getObjVal? "meta").toOption then
          fails := fails ++ [s!"GetAccount({addr}): metadata is not this ledger's"]
        if boolFieldD a "volsRead" && (a.getObjVal? "vols").toOption.getD (Json.arr #[]) != myVols then
          fails := fails ++ [s!"GetAccount({addr}): volumes are not this ledger's"]
    | none =>
      -- an account that does not exist reads as an empty account, or as not found
      if boolFieldD a "found" then
        if (a.getObjVal? "meta").toOption.getD (Json.arr #[]) != Json.arr #[] then
          fails := fails ++ [s!"GetAccount({addr}): metadata of an account this ledger does not have"]
        if boolFieldD a "volsRead" && (a.getObjVal? "vols").toOption.getD (Json.arr #[]) != myVols then
          fails := fails ++ [s!"GetAccount({addr}): volumes are not this ledger's"]
  pure fails

def handleMulti : Handler := fun inp out => do
  let want := optStrField inp "prop"
  let steps ← arrField inp "steps"
  let outs ← arrField out "steps"
  if steps.length ≠ outs.length then throw "steps / outputs length mismatch"
  let mut ledgers : List LedgerRun := []
  let mut fails : List (String × String) := []
  let mut tags : List String := []
  let mut nOther := 0
  let mut nFlip := 0
  let mut stepNo := 0
  for (st, so) in steps.zip outs do
    let create := match st.getObjVal? "create" with | .ok (.num n) => n.mantissa | _ => -1
    let isWrite := (optField st "op").isSome
    if create ≥ 0 && !isWrite then
      -- creation through the real storage driver
      let bucket := optStrField st "bucket"
      if optStrField so "createErr" ≠ "" then
        fails := fails ++ [("C19", s!"step {stepNo}: ledger creation failed: {(optStrField so "createErr").take 200}")]
      else
        ledgers := ledgers ++ [{ idx := create.toNat, strict := boolFieldD st "strict", bucket := bucket }]
      tags := tags ++ [s!"create:{bucket}:{(ledgers.filter (·.bucket == bucket)).length}"]
    else if isWrite then
      let l ← natField st "l"
      let op ← field st "op"
      let o ← field so "out"
      match ledgers.find? (·.idx == l) with
      | none => throw s!"write on unknown ledger {l}"
      | some lr =>
        let fs ← stepHist lr.strict lr.fs op o
        ledgers := ledgers.map (fun x => if x.idx == l then { x with fs := fs } else x)
      for od in (← arrField so "others") do
        nOther := nOther + 1
        let changed ← arrField od "changed"
        if optStrField od "before" ≠ optStrField od "after" || !changed.isEmpty then
          fails := fails ++ [("C19", s!"step {stepNo}: a {opTag op} on ledger {l} changed tables {Json.arr changed.toArray |>.compress} of ledger {natD od "l"}")]
    -- the alone-in-bucket hint of every store
    for f in (← arrField so "flags") do
      let l := natD f "l"
      let alone := boolFieldD f "alone"
      let inBucket := natD f "inBucket"
      let expected := match ledgers.find? (·.idx == l) with
        | some lr => if lr.bucket = "alone" then 1 else (ledgers.filter (·.bucket == lr.bucket)).length
        | none => 0
      if inBucket ≠ expected then
        fails := fails ++ [("C19", s!"step {stepNo}: the system store counts {inBucket} ledgers in the bucket of ledger {l}, {expected} were created")]
      if alone ≠ (expected == 1) then
        fails := fails ++ [("C19", s!"step {stepNo}: alone-in-bucket hint of ledger {l} is {alone} with {expected} ledger(s) in its bucket")]
      if !alone then nFlip := nFlip + 1
    -- reads
    for r in (← arrField so "reads") do
      let l := natD r "l"
      match ledgers.find? (·.idx == l) with
      | none => fails := fails ++ [("C19", s!"step {stepNo}: reads of an unknown ledger {l}")]
      | some lr =>
        for w in (← checkReads lr.fs.real r) do
          fails := fails ++ [("C19", s!"step {stepNo}: ledger {l}: {w}")]
    stepNo := stepNo + 1
  let mut mismatch : Option Mismatch := none
  let mut committed := 0
  for lr in ledgers do
    if mismatch.isNone then mismatch := lr.fs.mismatch.map (fun m => { m with field := s!"ledger {lr.idx}: " ++ m.field })
    for (p, i, w) in lr.fs.propFail do fails := fails ++ [(p, s!"ledger {lr.idx} op {i}: {w}")]
    committed := committed + lr.fs.committedTx
    tags := tags ++ lr.fs.tags
  let sel (p : String) : Bool := want = "" || p = want
  let selFails := (fails.filter (sel ·.1)).map (fun (p, w) => s!"{p}: {w}")
  tags := tags ++ [s!"ledgers:{ledgers.length}"]
  pure { model := match mismatch with | some m => m.toJson | none => Json.null,
         agree := mismatch.isNone, prop := selFails.isEmpty, propModel := true,
         nontrivial := ledgers.length ≥ 3 && committed ≥ 3 && nOther ≥ 5 && nFlip ≥ 1,
         tags := dedup tags,
         note := "; ".intercalate (selFails.take 5) }

/-! ### httpe2e (C38, no-effect leg on the real stack) -/

def routeFamily (route : String) : String :=
  match route.splitOn " " with
  | api :: method :: _ => api ++ " " ++ method
  | _ => route

def handleHttpE2e : Handler := fun inp out => do
  let status : Int := match out.getObjVal? "status" with | .ok (.num n) => n.mantissa | _ => 0
  let panic := optStrField out "panic"
  let changed ← arrField out "changed"
  let events ← arrField out "events"
  let mut fails : List String := []
  -- a non-atomic bulk answers 400 with one result per element when some element failed: the elements that
  -- succeeded are committed writes of their own (C32), not an effect of a refused request
  let q := (optStrField inp "query").toLower
  let atomic := strContains q "atomic=1" || strContains q "atomic=true"
  let bulkPartial := strContains (optStrField inp "route") "/_bulk" && optStrField out "errorCode" = "" && !atomic &&
    (optStrField out "bodyHead").startsWith "{\"data\":["
  let refused := (status ≥ 400 && !bulkPartial) || panic ≠ "" || boolFieldD out "timeout"
  if refused && !changed.isEmpty then
    fails := fails ++ [s!"request answered {status} but changed {Json.arr changed.toArray |>.compress}"]
  if refused && !events.isEmpty then
    fails := fails ++ [s!"request answered {status} but published {events.length} event(s)"]
  if panic ≠ "" then fails := fails ++ [s!"panic escaped the router: {panic.take 200}"]
  let cls := if panic ≠ "" then "panic" else if boolFieldD out "timeout" then "timeout"
    else if status < 0 then "unsendable" else s!"{status / 100}xx"
  let mut_ := optStrField inp "mut"
  let injected := mut_.startsWith "inject" || boolFieldD inp "missingLedger" || boolFieldD inp "outdated"
  let expect := if injected then "" else optStrField inp "expect"
  -- the directed requests state the answer they must get
  if mut_.startsWith "directed:" then
    let okExpect := if expect = "2xx" then status ≥ 200 && status < 300
      else if expect = "4xx" then status ≥ 400 && status < 500
      else if expect = "409" then status = 409
      else true
    if !okExpect then
      fails := fails ++ [s!"{mut_}: answered {status} {optStrField out "errorCode"}, expected {expect}"]
  let tags := [s!"status:{cls}", s!"{routeFamily (optStrField inp "route")}:{cls}"] ++
    (if expect = "4xx" then [s!"client-invalid:{cls}"] else []) ++
    (if status ≥ 500 then [s!"5xx:{optStrField inp "route"}"] else []) ++
    (if !changed.isEmpty then ["effect:" ++ cls] else []) ++ (if bulkPartial && status ≥ 400 then ["bulk-partial-results"] else [])
  pure { model := Json.null, agree := true, prop := fails.isEmpty, propModel := true,
         nontrivial := status ≥ 400 && status < 500,
         tags := tags, note := "; ".intercalate fails,
         sig := if fails.isEmpty then "" else
           (if mut_.startsWith "directed:" then s!"C38:{mut_}" else s!"C38:effect-on-refused-request:{optStrField inp "route"}") }

/-! ### tplrun (C37 end to end; C38 on the template-run route) -/

/-- cursor texts that `UnmarshalCursor` cannot decode: the answer must be a client error -/
def undecodableKind (k : String) : Bool :=
  ["not-base64", "empty", "b64-text", "b64-null", "b64-array", "b64-number", "b64-string", "b64-truncated-json",
   "pageSize-string", "offset-string", "offset-negative", "order-bad", "std-b64-binary", "damaged", "truncated",
   "random-text", "random-b64"].contains k

def pageKeys (pages : List Json) : Json := Json.arr (pages.map fun p => (p.getObjVal? "keys").toOption.getD Json.null).toArray

def handleTplRun : Handler := fun inp out => do
  let want := optStrField inp "prop"
  let run ← arrField out "run"
  let list ← arrField out "list"
  let bad ← arrField out "bad"
  let changed ← arrField out "changed"
  let events ← arrField out "events"
  let mut fails : List (String × String) := []
  let mut tags : List String := [s!"template:{optStrField inp "template"}", s!"pages:{if run.length ≥ 3 then "3+" else toString run.length}"]
  -- C37: the template run, page after page, is the direct list query it describes
  for p in run ++ list do
    if natD p "status" ≠ 200 then
      fails := fails ++ [("C37", s!"a page answered {natD p "status"}: {(optStrField p "err").take 160}")]
  if optStrField out "resource" ≠ optStrField inp "resource" then
    fails := fails ++ [("C37", s!"the run answers resource `{optStrField out "resource"}`, the template says `{optStrField inp "resource"}`")]
  if pageKeys run != pageKeys list then
    fails := fails ++ [("C37", s!"pages of the template run {(pageKeys run).compress} differ from the pages of the direct list query {(pageKeys list).compress}")]
  -- C38: malformed cursors
  let mut sig := ""
  let mut knownOnly := 0
  for b in bad do
    let kind := optStrField b "kind"
    let status := natD b "status"
    let cls := if optStrField b "panic" ≠ "" then "panic" else s!"{status / 100}xx"
    if optStrField b "panic" ≠ "" then
      fails := fails ++ [("C38", s!"cursor `{kind}`: panic escaped the router: {(optStrField b "panic").take 160}")]
    if undecodableKind kind then
      tags := tags ++ [s!"undecodable-cursor:{cls}"]
      if !(status ≥ 400 && status < 500) then
        fails := fails ++ [("C38", s!"undecodable cursor `{kind}` on a {optStrField inp "resource"} template answered {status} {optStrField b "errorCode"}")]
        if sig = "" then sig := s!"C38:template-run-undecodable-cursor-{status}:{optStrField inp "resource"}"
    else
      -- decodable cursors: never 5xx
      tags := tags ++ [s!"decodable-cursor:{kind}:{cls}"]
      if kind = "volumes-column-address" || kind = "volumes-accounts-cursor" || kind = "volumes-sort-address" then
        -- KNOWN FINDING (recorded, not repaired): on volumes the sort column `address` — the field key of
        -- queries.VolumeSchema (alias `account`), not a column of the volumes dataset — is rendered verbatim into
        -- ORDER BY: SQLSTATE 42703 → HTTP 500. One sig for the three routes; any other 5xx is a violation.
        if status = 500 then
          fails := fails ++ [("C38", s!"volumes sorted by `address` ({kind}) answered 500")]
          knownOnly := knownOnly + 1
        else if status ≥ 500 || status = 0 then
          fails := fails ++ [("C38", s!"volumes sorted by `address` ({kind}) answered {status}")]
      else
        if status ≥ 500 || status = 0 then
          fails := fails ++ [("C38", s!"cursor `{kind}` on a {optStrField inp "resource"} template answered {status} {optStrField b "errorCode"}")]
          if sig = "" then sig := s!"C38:template-run-cursor-{kind}-{status}:{optStrField inp "resource"}"
        if kind = "other-resource" && !(status ≥ 400 && status < 500) then
          -- a cursor of another resource's listing names a sort column this resource does not have: client error
          fails := fails ++ [("C38", s!"a cursor of another resource on a {optStrField inp "resource"} template answered {status}")]
          if sig = "" then sig := s!"C38:template-run-cursor-other-resource-{status}:{optStrField inp "resource"}"
        if kind = "no-column" || kind = "no-column-junk-options" then
          -- an offset cursor without sort column (and without filter) = the first page of the plain listing in
          -- the default order, exactly what the direct list query answers (C37: a cursor IS the query)
          let plain := (out.getObjVal? "plainFirst").toOption.getD Json.null
          if status ≠ 200 then
            fails := fails ++ [("C38", s!"offset cursor without sort column answered {status} (the default column applies)")]
          else if (b.getObjVal? "keys").toOption != (plain.getObjVal? "keys").toOption then
            fails := fails ++ [("C37", s!"offset cursor without sort column: page {((b.getObjVal? "keys").toOption.getD Json.null).compress} ≠ first page of the plain list {((plain.getObjVal? "keys").toOption.getD Json.null).compress}")]
  if !changed.isEmpty || !events.isEmpty then
    fails := fails ++ [("C38", s!"read-only requests changed {Json.arr changed.toArray |>.compress} / published {events.length} event(s)")]
  let sel (p : String) : Bool := want = "" || p = want
  let selFails := (fails.filter (sel ·.1)).map (fun (p, w) => s!"{p}: {w}")
  pure { model := Json.null, agree := true, prop := selFails.isEmpty, propModel := true,
         nontrivial := run.length ≥ 2 && bad.length ≥ 10,
         tags := dedup tags, note := "; ".intercalate (selFails.take 4),
         -- the known finding's signature only when it is the ONLY thing that failed in this case
         sig := if selFails.isEmpty || !(sel "C38") then ""
                else if knownOnly > 0 && selFails.length = knownOnly then "C38:volumes-sort-column-address-500"
                else sig }

def handlers : List (String × Handler) := [
  ("httpe2e", handleHttpE2e),
  ("tplrun", handleTplRun),
  ("sqlfault", handleSqlFault),
  ("features", handleFeatures),
  ("multiledger", handleMulti)
]

end Ledger.Driver.E2e
