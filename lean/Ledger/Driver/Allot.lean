import Ledger.Driver.Core
import Ledger.Machine.Allotment
import Ledger.Machine.Validate

/-! Handler "allot": `ParsePortionSpecific` + `NewAllotment` + `Allocate`. -/
namespace Ledger.Driver
open Lean Ledger.Machine

def ratStr (r : Rat) : String := s!"{r.num}/{r.den}"

def portionStr : Portion → String
  | .remaining => "remaining"
  | .specific r => ratStr r

/-- C24's decidable predicate on an (allotment, amount, parts) triple: when the
    portions sum to one, the parts have the right length, sum to the amount, each
    is its floor or floor+1, and the +1s form a prefix. -/
def allocOk (a : List Rat) (amt : Int) (parts : List Int) : Bool :=
  if a.sum ≠ 1 then true else
  let floors := a.map (floorPart amt)
  let extra := List.zipWith (· - ·) parts floors
  parts.length = a.length && parts.sum = amt &&
  extra.all (fun e => e = 0 || e = 1) &&
  -- prefix shape: no 0 followed by 1
  (List.zip extra extra.tail).all (fun (x, y) => !(x = 0 && y = 1))

def handleAllot : Handler := fun inp out => do
  let portions ← strArrField inp "portions"
  let amt ← parseInt (← strField inp "amount")
  -- model
  let parsed := portions.map fun s =>
    if s = "remaining" then Except.ok Portion.remaining else parsePortionGo s
  let parseErr := parsed.map fun | .ok _ => false | .error _ => true
  let parsedStr := parsed.map fun | .ok p => portionStr p | .error _ => ""
  let allOk := parseErr.all (!·)
  let (err, allot, parts) :=
    if !allOk then ("parse", ([] : List Rat), ([] : List Int)) else
    let ps := parsed.filterMap fun | .ok p => some p | .error _ => none
    match newAllotment ps with
    | .error e =>
      (if e = "two uses of `remaining` in the same allotment" then "two-remaining"
       else if e = "sum of portions exceeded 100%" then "exceeded" else "other:" ++ e, [], [])
    | .ok a => ("", a, allocate a amt)
  let model := Json.mkObj [
    ("parseErr", jBools parseErr), ("parsed", jStrs parsedStr), ("err", err),
    ("allot", jStrs (allot.map ratStr)), ("parts", jStrs (parts.map toString))]
  -- implementation
  let gParseErr ← (← arrField out "parseErr").mapM (·.getBool?)
  let gParsed ← strArrField out "parsed"
  let gErr := optStrField out "err"
  let gAllot ← strArrField out "allot"
  let gParts ← strArrField out "parts"
  let gPanic := optStrField out "panic"
  let agree := gPanic = "" && gParseErr = parseErr && gParsed = parsedStr && gErr = err &&
    gAllot = allot.map ratStr && gParts = parts.map toString
  -- property on the implementation's own output (its allotment, its parts)
  let gPartsI ← gParts.mapM parseInt
  let gAllotR : List Rat ← gAllot.mapM fun s => do
    match s.splitOn "/" with
    | [n, d] => pure (((← parseInt n) : Rat) / ((← parseInt d) : Rat))
    | _ => throw s!"bad rational {s}"
  let prop := gPanic = "" && (gErr ≠ "" || allocOk gAllotR amt gPartsI)
  let sumOne := err = "" && allot.sum = 1
  let tag := if err ≠ "" then "err:" ++ err else if sumOne then "sum-one" else "sum-under-one"
  let tag2 := if portions.contains "remaining" then "with-remaining" else "explicit"
  pure { model, agree, prop, propModel := err ≠ "" || allocOk allot amt parts,
         nontrivial := sumOne && allot.length ≥ 2 && amt > 0, tags := [tag, tag2],
         note := if prop then "" else "C24 predicate fails on implementation output" }

end Ledger.Driver
