import Ledger.Driver.ApiCommon
import Ledger.Driver.ApiHttp
import Ledger.Api.Cursor

/-! Handler "cursor": `storagecommon.UnmarshalCursor` on arbitrary cursors. -/
namespace Ledger.Driver.Api
open Lean Ledger.Api Ledger.Driver

def optIntJson : Option Int → Json
  | none => Json.null
  | some i => Json.num (Lean.JsonNumber.fromInt i)

def handleCursor : Handler := fun inp out => do
  let tree ← optJvalField inp "tree"
  let filtersOk := (inp.getObjVal? "filtersOK").toOption.bind (·.getBool?.toOption) |>.getD false
  let m := decodeCursor filtersOk tree
  let gErr ← boolField out "err"
  let gPanic := optStrField out "panic"
  let bigS (o : Option Int) : String := match o with | some i => showIntS i | none => ""
  let modelJson : Json := match m with
    | .ok q => Json.mkObj [("err", false), ("kind", if q.isOffset then "offset" else "column"), ("column", q.column),
        ("order", optIntJson q.order), ("pageSize", q.pageSize), ("offset", q.offset), ("bottom", bigS q.bottom),
        ("paginationID", bigS q.paginationID), ("reverse", q.reverse)]
    | .clientError _ => Json.mkObj [("err", true)]
    | .fault _ => Json.mkObj [("panic", true)]
  let agree : Bool := match m with
    | .fault _ => gPanic ≠ ""
    | .clientError _ => gErr && gPanic = ""
    | .ok q =>
      !gErr && gPanic = "" &&
      optStrField out "kind" = (if q.isOffset then "offset" else "column") &&
      optStrField out "column" = q.column &&
      (out.getObjVal? "order").toOption.getD Json.null == optIntJson q.order &&
      (out.getObjVal? "pageSize").toOption.getD Json.null == Json.num (Lean.JsonNumber.fromNat q.pageSize) &&
      (out.getObjVal? "offset").toOption.getD Json.null == Json.num (Lean.JsonNumber.fromNat q.offset) &&
      optStrField out "bottom" = bigS q.bottom && optStrField out "paginationID" = bigS q.paginationID &&
      (out.getObjVal? "reverse").toOption.getD Json.null == Json.bool q.reverse
  let prop := gPanic = ""
  pure { model := modelJson, agree, prop, propModel := !m.isFault,
         nontrivial := gErr || gPanic ≠ "",
         tags := [if gPanic ≠ "" then "panic" else if gErr then "error" else "ok:" ++ optStrField out "kind",
                  if tree.isNone then "not-json" else "json"],
         note := if prop then "" else "UnmarshalCursor panicked: " ++ gPanic,
         sig := if prop then "" else "C38:cursor:panic" }

end Ledger.Driver.Api
