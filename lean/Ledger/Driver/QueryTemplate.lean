import Ledger.Driver.QueryCommon
import Ledger.Query.RunQuery

/-! Handler "template": real `ResolveFilterTemplate` and `RunQuery` (over a recording
    store) vs. `Ledger/Query/Template.lean` and `RunQuery.lean`. -/
namespace Ledger.Driver.Q
open Lean Ledger.Query Ledger.Driver

def ftypeOfString : String → Option FType
  | "string" => some .string | "int" => some .numeric | "date" => some .date
  | "boolean" => some .boolean | _ => none

def parseTV (j : Json) : Except String VarVal := do
  match optStrField j "k" with
  | "str" => pure (.str (optStrField j "s"))
  | "num" => pure (.num (optStrField j "s"))
  | "float" =>
    let m ← parseInt (optStrField j "m")
    let e := ((optField j "e").bind jsonInt?).getD 0
    pure (.float m e)
  | "bool" => pure (.bool ((optField j "b") == some (Json.bool true)))
  | "null" => pure .null
  | _ => pure .other

def objPairsT (j : Json) : List (String × Json) :=
  match j with
  | .obj kvs => kvs.toList
  | _ => []

/-- Decode a `params` raw message into `ParamsJson` (what Go's `encoding/json`
    does before our model of `UnmarshalJSON` takes over): `none` = skipped (empty /
    null), `error` = a decoding error. -/
def parseParams (volumes : Bool) (text : String) : Except String (Option ParamsJson) :=
  let t := text.trimAscii.toString
  if text.isEmpty || t == "null" then .ok none else
  match Json.parse text with
  | .error _ => .error "syntax"
  | .ok j =>
    match j with
    | .obj _ => do
      let strOpt (k : String) : Except String (Option String) :=
        match optField j k with
        | none | some .null => pure none
        | some (.str s) => pure (some s)
        | _ => throw "type"
      let endTime ← strOpt "endTime"
      let startTime ← strOpt "startTime"
      let sort ← strOpt "sort"
      let expand ← (match optField j "expand" with
        | none | some .null => pure none
        | some (.arr a) => do
          let l ← a.toList.mapM fun e => match e with | .str s => pure s | _ => throw "type"
          pure (some l)
        | _ => throw "type")
      let pageSize ← (match optField j "pageSize" with
        | none | some .null => pure none
        | some v => match jsonInt? v with
          | some n => if n < 0 || n > (maxUint64 : Int) then throw "range" else pure (some n.toNat)
          | none => throw "type")
      let groupBy ← (if !volumes then pure none else match optField j "groupBy" with
        | none | some .null => pure none
        | some v => match jsonInt? v with
          | some n => pure (some n)
          | none => throw "type")
      let insertionDate ← (if !volumes then pure none else match optField j "insertionDate" with
        | none | some .null => pure none
        | some (.bool b) => pure (some b)
        | _ => throw "type")
      pure (some { endTime, startTime, expand, sort, pageSize, groupBy, insertionDate })
    | _ => .error "type"

def capturedJson (typ : String) (column : String) (order : Option Order) (pageSize : Nat)
    (pit oot : Option Int) (expand : List String) (opts : VolOpts) (volumes : Bool) (qb : Json) : Json :=
  Json.mkObj [("type", typ), ("column", column),
    ("order", match order with | some .asc => (0 : Json) | some .desc => (1 : Json) | none => Json.null),
    ("pageSize", pageSize),
    ("pit", match pit with | some t => Json.num ⟨t, 0⟩ | none => Json.null),
    ("oot", match oot with | some t => Json.num ⟨t, 0⟩ | none => Json.null),
    ("expand", jStrs expand),
    ("groupBy", if volumes then Json.num ⟨opts.groupLvl, 0⟩ else (0 : Json)),
    ("insertionDate", if volumes then Json.bool opts.useInsertionDate else Json.bool false),
    ("qb", qb)]

def initialJson (q : InitialQuery ResourceQuery) (volumes : Bool) : Json :=
  capturedJson "initial" q.column q.order q.pageSize q.options.pit q.options.oot q.options.expand
    q.options.opts volumes (match q.options.builder with | some f => filterToJson f | none => Json.null)

def isAscii (s : String) : Bool := s.toList.all fun c => c.toNat < 128

mutual
partial def filterStrings : Filter → List String
  | .and fs | .or fs => (fs.map filterStrings).flatten
  | .not f => filterStrings f
  | .leaf _ _ v =>
    match v with
    | .sc (.str s) => [s]
    | .arr l => l.filterMap fun | .str s => some s | _ => none
    | _ => []
end


def handleTemplate : Handler := fun inp out => do
  let resource ← strField inp "resource"
  let bodyText ← strField inp "body"
  let volumes := resource == "volumes"
  let decls ← (objPairsT (← field inp "vars")).mapM fun (k, d) => do
    let t ← match ftypeOfString (optStrField d "type") with
      | some t => pure t
      | none => throw "decl type"
    let dflt ← match optField d "default" with
      | some j => parseTV j
      | none => pure VarVal.null
    pure (k, ({ type := t, default := dflt } : VarDecl))
  let call ← (objPairsT (← field inp "call")).mapM fun (k, v) => do pure (k, ← parseTV v)
  let tparamsText ← strField inp "tparams"
  let qparamsText ← strField inp "qparams"
  let cursorText ← strField inp "cursor"
  let dps ← natField inp "defaultPageSize"
  let mps ← natField inp "maxPageSize"
  let gPanic := optStrField out "panic"
  let gResolveErr := optStrField out "resolveErr"
  let gResolved := (optField out "resolved").getD .null
  let gRunErr := optStrField out "runErr"
  let gCaptured := (optField out "captured").getD .null
  let gCursorSame := optField out "cursorSame" == some (Json.bool true)
  -- ---- model: ResolveFilterTemplate ------------------------------------------
  let body : Except String (Option Filter) :=
    if bodyText.isEmpty then .ok none else
    match Json.parse bodyText with
    | .error _ => .error "body-json"
    | .ok j => (parseBuilder j).mapError fun _ => "body-json"
  let resolved : Except String (Option Filter) :=
    match body with
    | .ok b =>
      (resolveTemplate parseRFC3339 { resource, body := b, vars := decls } call).mapError TErr.toString
    | .error e =>
      match buildVars parseRFC3339 decls call with
      | .error e' => .error e'.toString
      | .ok _ => if (templateSchema resource).isNone then .error TErr.unknownResource.toString else .error e
  if cursorText.isEmpty then
    -- ---- no cursor: resolve + overwrite + templateParamsToQuery ---------------
    let resolveAgree := match resolved with
      | .error e => gResolveErr == e
      | .ok none => gResolveErr == "" && gResolved.isNull
      | .ok (some f) => gResolveErr == "" && gResolved == filterToJson f
    let tp := parseParams volumes tparamsText
    let qp := parseParams volumes qparamsText
    let target : Except String (InitialQuery ResourceQuery) :=
      match resolved with
      | .error _ => .error "validation:resolve"
      | .ok b =>
        match defaultParams resource dps with
        | none => .error "invalid-resource"
        | some d =>
          match tp, qp with
          | .ok t, .ok q =>
            (match overwrite parseRFC3339 d [t, q] with
              | .error _ => .error "validation:params"
              | .ok p => .ok (templateParamsToQuery p b mps))
          | .ok t, .error _ =>
            -- the template's params are applied first; an error there wins
            (match overwrite parseRFC3339 d [t] with
              | .error _ => .error "validation:params"
              | .ok _ => .error "validation:params")
          | .error _, _ => .error "validation:params"
    let runAgree := match target with
      | .error e => gRunErr == e
      | .ok q => gRunErr == "" && gCaptured == initialJson q volumes
    let agree := gPanic == "" && resolveAgree && runAgree
    -- ---- property on the implementation's outputs -----------------------------
    -- (1) substitution: the real resolved filter is the template tree with each
    --     string leaf substituted code point by code point
    let specResolved : Except String (Option Filter) :=
      match body with
      | .ok b =>
        (resolveTemplateWith codePoints parseRFC3339 { resource, body := b, vars := decls } call).mapError
          TErr.toString
      | .error e => .error e
    let strs := match body with | .ok (some f) => filterStrings f | _ => []
    let nonAsciiLiteral := strs.any fun s => !isAscii s
    let substOk : Bool :=
      match specResolved with
      | .ok (some f) => gResolveErr == "" && gResolved == filterToJson f
      | .ok none => gResolveErr == "" && gResolved.isNull
      | .error _ => gResolveErr != ""
    -- (2) parameters: a later object overrides exactly the keys it gives
    let specTarget : Except String (InitialQuery ResourceQuery) :=
      match resolved, defaultParams resource dps, tp, qp with
      | .ok b, some d, .ok t, .ok q =>
        (match overwrite parseRFC3339 d [t, q] with
          | .error _ => .error "validation:params"
          | .ok p => .ok (templateParamsToQuery p b mps))
      | _, _, _, _ => .error "n/a"
    -- `PaginatedResourceRepository.Paginate` turns a page size of 0 into 15: compare the
    -- effective page sizes
    let normPS (j : Json) : Json :=
      if optField j "pageSize" == some (0 : Json) then j.setObjVal! "pageSize" (defaultPageSize : Json) else j
    let paramsOk : Bool :=
      match specTarget with
      | .ok q => gRunErr == "" && normPS gCaptured == normPS (initialJson q volumes)
      | .error _ => true
    let prop := gPanic == "" && substOk && paramsOk
    let sig := ""
    let rtag := match resolved with | .ok _ => "resolved" | .error e => "resolve-err:" ++ e
    let ptag := match target with
      | .ok _ => "ran" | .error e => "run-err:" ++ e
    let present := fun (t : Except String (Option ParamsJson)) =>
      match t with | .ok (some _) => true | _ => false
    pure { model := Json.mkObj [("resolved", match resolved with
              | .ok (some f) => filterToJson f | .ok none => Json.null | .error e => Json.str e),
              ("captured", match target with | .ok q => initialJson q volumes | .error e => Json.str e)],
           agree, prop, propModel := true,
           nontrivial := (match target with | .ok _ => true | .error _ => false) &&
             (match body with | .ok (some f) => !f.leaves.isEmpty | _ => false),
           tags := [resource, rtag, ptag,
                    if present tp && present qp then "params:both" else if present tp then "params:template"
                    else if present qp then "params:request" else "params:none",
                    if nonAsciiLiteral then "non-ascii-literal" else "ascii"],
           note := if prop then "" else s!"substOk={substOk} paramsOk={paramsOk}", sig }
  else
    -- ---- cursor path ------------------------------------------------------------
    let cj := Json.parse cursorText
    let decoded : Except String DecodedCursor :=
      match cj with
      | .error _ => .error "syntax"
      | .ok j => if hasNonInteger j then .error "type" else decodeCursor (toJ j)
    let expectErr : Option String :=
      if (templateSchema resource).isNone then some "invalid-resource" else
      match decoded with
      | .error _ => some "validation:cursor"
      | .ok _ => none
    match expectErr, decoded with
    | some e, _ =>
      pure { model := Json.mkObj [("runErr", e)], agree := gPanic == "" && gRunErr == e,
             nontrivial := false, tags := [resource, "cursor", "run-err:" ++ e] }
    | none, .error _ => throw "unreachable"
    | none, .ok d =>
      let (typ, column, order, pageSize, filters) := match d with
        | .column q => ("column", q.rest.column, q.order, q.pageSize, q.rest.filters)
        | .offset q => ("offset", q.rest.column, q.order, q.pageSize, q.rest.filters)
      let fj := ofJ filters
      let dateOf (k : String) : Option Int :=
        match optField fj k with | some (.str s) => parseRFC3339 s | _ => none
      let expand := match optField fj "expand" with
        | some (.arr a) => a.toList.filterMap fun e => match e with | .str s => some s | _ => none
        | _ => []
      let optsJ := (optField fj "opts").getD .null
      let opts : VolOpts := {
        useInsertionDate := optField optsJ "insertionDate" == some (Json.bool true),
        groupLvl := ((optField optsJ "groupBy").bind jsonInt?).getD 0 }
      let qb := match (optField fj "qb").getD .null with
        | .null => Json.null
        | j => match parseBuilder j with | .ok (some f) => filterToJson f | _ => Json.null
      let want := capturedJson typ column order pageSize (dateOf "pit") (dateOf "oot") expand opts volumes qb
      -- model round trip: re-encoding the decoded cursor gives the cursor back
      let reenc := match d with | .column q => ofJ (encodeCol q) | .offset q => ofJ (encodeOff q)
      let rtModel := match cj with | .ok j => reenc == j | .error _ => false
      let agree := gPanic == "" && gRunErr == "" && gCaptured == want && gCursorSame == rtModel
      pure { model := Json.mkObj [("captured", want), ("cursorSame", rtModel)], agree,
             prop := gPanic == "" && gCursorSame, propModel := rtModel,
             nontrivial := true, tags := [resource, "cursor", typ ++ "-cursor"],
             note := if gCursorSame then "" else "the query handed to Paginate is not the cursor's query" }

end Ledger.Driver.Q
