import Ledger.Driver.Core
import Ledger.Repl.Model

/-!
Handler "repl" (property C33). Input: the script the harness executed against the
real `replication.Manager` (scheduling choices at the gates of `ListLogs`,
`Driver.Accept`, `StorePipelineState`, manager operations, clock ticks). Output
of the real code: one event per action with everything observable (query seen by
the store, batches handed to the exporter, values written to `last_log_id`, rows
read by the manager, operation results, and the set of calls waiting after the
step). The handler replays the same labels on `Ledger.Repl.step`, compares every
observation, and evaluates the C33 predicates on the REAL observations alone.
-/
namespace Ledger.Driver.Repl
open Lean Ledger.Driver Ledger.Repl

structure Obs where
  skipped : Bool := false
  q : String := ""
  ids : List Nat := []
  more : Bool := false
  v : Nat := 0
  found : Bool := false
  res : String := ""
  opDone : String := ""
  loads : List Nat := []
  writes : List String := []
  drivers : List String := []
  panics : List String := []
  w : List String := []
  deriving BEq, Repr

def natField (j : Json) (k : String) : Nat :=
  match j.getObjVal? k with
  | .ok v => match v.getNat? with | .ok n => n | .error _ => 0
  | .error _ => 0

def boolFieldD (j : Json) (k : String) : Bool :=
  match j.getObjVal? k with
  | .ok (.bool b) => b
  | _ => false

def natArr (j : Json) (k : String) : Except String (List Nat) := do
  (← arrField j k).mapM (·.getNat?)

def parseObs (ev : Json) : Except String Obs := do
  pure { skipped := boolFieldD ev "skipped", q := optStrField ev "q", ids := ← natArr ev "ids",
         more := boolFieldD ev "more", v := natField ev "v", found := boolFieldD ev "found",
         res := optStrField ev "res", opDone := optStrField ev "opDone", loads := ← natArr ev "loads",
         writes := ← strArrField ev "writes", drivers := ← strArrField ev "drivers",
         panics := ← strArrField ev "panics", w := ← strArrField ev "w" }

def isOpName (a : String) : Bool :=
  a ∈ ["create", "start", "stop", "reset", "sync", "mgrStop", "mgrStart"]

/-- The label of an action / event. For `persist`, `coin` is read off the real
    outcome (Go's `select` between a ready stop signal and a zero timer is random):
    the waiting operation completed in this very step. -/
def labelOf (ev : Json) (coin : Bool) : Except String Label := do
  let a ← strField ev "a"
  let r := optStrField ev "r"
  match a with
  | "append" => pure (.append (natField ev "n"))
  | "create" => pure .create
  | "start" => pure .start
  | "stop" => pure .stop
  | "reset" => pure .reset
  | "sync" => pure .sync
  | "mgrStop" => pure .mgrStop
  | "mgrStart" => pure .mgrStart
  | "tick" => pure .tick
  | "fetch" =>
    if r = "ok" then pure (.fetch true) else if r = "err" then pure (.fetch false)
    else throw s!"fetch: bad r {r}"
  | "accept" =>
    if r = "ok" then pure (.accept .ok) else if r = "fail" then pure (.accept .fail)
    else if r = "lost" then pure (.accept .lost)
    else if r = "rej" then pure (.accept (.reject (natField ev "n"))) else throw s!"accept: bad r {r}"
  | "persist" =>
    if r = "ok" then pure (.persist (natField ev "i") true coin)
    else if r = "fail" then pure (.persist (natField ev "i") false coin)
    else throw s!"persist: bad r {r}"
  | _ => throw s!"unknown action {a}"

/-- Calls blocked at a gate in state `s`, in the harness' canonical order. -/
def waiting (c : Cfg) (s : State) : List String :=
  (match s.handler with
   | some h =>
     match h.pc with
     | .atFetch => ["F"]
     | .exporting _ hi _ pos _ true => [s!"A:{pos + 1}-{chunkEnd c pos hi}"]
     | _ => []
   | none => []) ++ (s.orphans ++ s.cur.toList).map fun v => s!"P:{v}"

def resetWrite : String := "update:enabled=true;last_log_id=<nil>;"

/-- What the model says the harness observes for label `l` (action name `a`) taken in `s`. -/
def modelObs (c : Cfg) (s : State) (a : String) (l : Label) : Option State → Obs
  | none => { skipped := true, w := waiting c s }
  | some s' =>
    let started := s'.gen > s.gen
    let exited := s.handler.isSome && (s'.handler.isNone || started)
    -- `Batcher.Accept` skips the operations whose `Send` was cancelled (fixed in /repo: it
    -- used to call `Wait` on a nil operation → nil dereference in the export goroutine when
    -- the handler abandoned a multi-chunk export). The model predicts no panic, ever; the
    -- harness reports a recovered panic of the real `Batcher.Accept` as an observation.
    let base : Obs :=
      { w := waiting c s',
        panics := [],
        opDone := if !isOpName a && s.pending.isSome && s'.pending.isNone then "ok" else "",
        drivers := (if exited then ["stop"] else []) ++ (if started then ["new", "start"] else []),
        writes := (if a = "create" then ["create"] else []) ++
          (if s'.resets > s.resets || (a = "reset" && !s.created) then [resetWrite] else []) }
    let pend := s'.pending.isSome
    match l with
    | .create => { base with res := "ok" }
    | .start =>
      { base with
        res := if !s.created then "notFound" else if s.handler.isSome then "alreadyStarted" else "ok",
        loads := if s.created then [s.persisted] else [] }
    | .stop => { base with res := if pend then "pending" else if s.handler.isNone then "notFound" else "ok" }
    | .reset => { base with res := if pend then "pending" else if !s.created then "notFound" else "ok" }
    | .sync => { base with res := "ok", loads := if s.created then [s.persisted] else [] }
    | .mgrStop => { base with res := if pend then "pending" else "ok" }
    | .mgrStart => { base with res := "ok", loads := if s.created then [s.persisted] else [] }
    | .fetch ok =>
      match s.handler with
      | some h =>
        { base with q := if h.last = 0 then "none" else s!"$gt:{h.last}",
                    ids := if ok then idsOf h.last (min (h.last + c.ps) s.nLogs) else [],
                    more := ok && decide (h.last + c.ps < s.nLogs) }
      | none => base
    | .accept _ =>
      match s.handler with
      | some h =>
        match h.pc with
        | .exporting _ hi _ pos _ _ => { base with ids := idsOf pos (chunkEnd c pos hi) }
        | _ => base
      | none => base
    | .persist i ok _ =>
      { base with v := (s.orphans ++ s.cur.toList).getD i 0, found := ok && s.created }
    | _ => base

/-! ### C33 predicates on the real observations -/

structure RealSt where
  nLogs : Nat := 0
  persisted : Nat := 0
  ackHW : Nat := 0
  delivHW : Nat := 0
  /-- pending `StorePipelineState` calls (oldest first) issued before the latest reset -/
  stale : Nat := 0
  /-- one of them executed after that reset -/
  staleLanded : Bool := false
  /-- a `ResetPipeline` call is waiting for the handler -/
  pendingReset : Bool := false
  /-- ids the exporter acknowledged item by item since the last reset -/
  acked : List Nat := []
  /-- first failing predicate and its cause ("stale": a stale state write had landed
      since the last reset; "chunk": a later chunk of a page whose earlier chunk
      failed; "panic"; "": none of these) -/
  fails : List (String × String) := []
  deliveries : Nat := 0
  disturbances : Nat := 0
  tags : List String := []

def RealSt.tag (r : RealSt) (t : String) : RealSt :=
  if r.tags.contains t then r else { r with tags := t :: r.tags }

def RealSt.violate (r : RealSt) (name : String) (cause : String := "") : RealSt :=
  let f := (name, if cause ≠ "" then cause else if r.staleLanded then "stale" else "")
  if r.fails.contains f then r else { r with fails := r.fails ++ [f] }

/-- The failure reported for the case: a failure without a recognised cause wins
    (known findings must not mask anything else), otherwise the first one. -/
def RealSt.fail (r : RealSt) : Option (String × String) :=
  match r.fails.find? (fun f => f.2 = "") with
  | some f => some f
  | none => r.fails.head?

/-- largest `p` such that every id `1..p` was acknowledged -/
def RealSt.ackPrefix (r : RealSt) : Nat := Id.run do
  let mut p := 0
  for _ in [0:r.nLogs] do
    if r.acked.contains (p + 1) then p := p + 1
  return p

def cursorOf (q : String) : Option Nat :=
  if q = "none" then some 0
  else if q.startsWith "$gt:" then (q.drop 4).toNat?
  else none

def countP (w : List String) : Nat := (w.filter (·.startsWith "P:")).length

def realStep (r : RealSt) (a rr : String) (i n : Nat) (o : Obs) (afterFailedChunk : Bool) : RealSt := Id.run do
  if o.skipped then return r.tag "skipped"
  let mut r := r
  if a = "append" then r := { r with nLogs := r.nLogs + n }
  if o.writes.contains "create" then r := { r with persisted := 0 }
  if o.res = "pending" then r := r.tag "op-waits-for-handler"
  if a = "stop" && (o.res = "ok" || o.res = "pending") then
    r := { (r.tag "stop") with disturbances := r.disturbances + 1 }
  if a = "mgrStop" then r := { (r.tag "manager-restart") with disturbances := r.disturbances + 1 }
  if o.res = "alreadyStarted" || o.res = "notFound" then r := r.tag ("op-" ++ o.res)
  if a = "persist" then
    let isStale := decide (i < r.stale)
    if isStale then r := { r with stale := r.stale - 1 }
    if rr ≠ "ok" then r := { (r.tag "persist-fail") with disturbances := r.disturbances + 1 }
    if o.found then
      r := { r with persisted := o.v }
      if isStale then r := { (r.tag "stale-write-landed") with staleLanded := true }
      if o.opDone ≠ "" then r := r.tag "stop-vs-timer0-race"
  if a = "accept" then
    if rr = "ok" || rr = "lost" || rr = "rej" then
      match o.ids with
      | [] => r := r.violate "in_order_no_gaps"
      | first :: _ =>
        let last := first + o.ids.length - 1
        if o.ids ≠ List.range' first o.ids.length || first = 0 || last > r.nLogs then
          r := r.violate "in_order_no_gaps"
        if first > r.delivHW + 1 then
          r := r.violate "in_order_no_gaps" (if afterFailedChunk then "chunk" else "")
          if afterFailedChunk then r := r.tag "later-chunk-after-failed-chunk"
        if first ≤ r.delivHW then r := r.tag "redelivery"
        r := { r with delivHW := max r.delivHW last, deliveries := r.deliveries + 1 }
        if rr = "ok" then r := { r with acked := o.ids ++ r.acked }
        if rr = "rej" then r := { r with acked := o.ids.eraseIdx (n % o.ids.length) ++ r.acked }
    if rr = "fail" then r := { (r.tag "export-fail") with disturbances := r.disturbances + 1 }
    if rr = "lost" then r := { (r.tag "ack-lost") with disturbances := r.disturbances + 1 }
    if rr = "rej" then r := { (r.tag "item-rejected") with disturbances := r.disturbances + 1 }
    r := { r with ackHW := r.ackPrefix }
  if a = "fetch" then
    if rr ≠ "ok" then r := { (r.tag "fetch-err") with disturbances := r.disturbances + 1 }
    if o.more then r := r.tag "has-more"
    match cursorOf o.q with
    | none => r := r.violate "query_shape"
    | some cur => if cur > r.ackHW then r := r.violate "cursor_le_acked"
  if !o.panics.isEmpty then
    r := (r.violate "no_panic" "panic").tag "batcher-panic"
  if r.persisted > r.ackHW then r := r.violate "persisted_le_acked"
  -- a reset that completes in this step does so after the gated call of the step (the
  -- handler notices the stop only when that call returned). The reset is recognised by the
  -- OPERATION completing; whether it cleared `last_log_id` is read off the write it issued.
  let resetDone := (a = "reset" && o.res = "ok") || (r.pendingReset && o.opDone ≠ "")
  if a = "reset" && o.res = "pending" then r := { r with pendingReset := true }
  if o.opDone ≠ "" then r := { r with pendingReset := false }
  if o.res ≠ "notFound" then
    for wr in o.writes do
      if wr.startsWith "update:" then
        if (wr.splitOn "last_log_id=<nil>;").length > 1 then r := { r with persisted := 0 }
        else match (wr.splitOn "last_log_id=") with
          | [_, rest] => match (rest.takeWhile Char.isDigit).toNat? with
            | some n => r := { r with persisted := n }
            | none => pure ()
          | _ => pure ()
  if resetDone then
    r := { r with ackHW := 0, delivHW := 0, acked := [], staleLanded := false, stale := countP o.w }
    r := (r.tag "reset").tag (if countP o.w > 0 then "reset-with-write-in-flight" else "reset-quiet")
    r := { r with disturbances := r.disturbances + 1 }
  if r.persisted > r.ackHW then r := r.violate "persisted_le_acked"
  return r

def raceSig : String := "C33:reset-race:stale-StorePipelineState-after-ResetPipeline"
def chunkSig : String := "C33:batcher-continues-after-failed-chunk"


def actionKey (j : Json) : String :=
  s!"{optStrField j "a"}/{natField j "n"}/{natField j "i"}/{optStrField j "r"}"

def handleRepl : Handler := fun inp out => do
  let ps := natField inp "ps"
  let drain := boolFieldD inp "drain"
  let script ← arrField inp "script"
  let trace ← arrField out "trace"
  let c := Cfg.real ps (natField inp "mi")
  let mut s := State.init
  let mut r : RealSt := {}
  let mut agree := script.map actionKey == trace.map actionKey
  let mut note := if agree then "" else "executed actions differ from the script"
  let mut propModel := true
  let mut modelTrace : Array Json := #[]
  let mut lastDone := false
  let mut k := 0
  for ev in trace do
    let o ← parseObs ev
    let a ← strField ev "a"
    let l ← labelOf ev (o.opDone ≠ "")
    let res := step c s l
    let m := modelObs c s a l res
    if !(m == o) then
      if agree then note := s!"event {k} ({a}): model {repr m} real {repr o}"
      agree := false
    modelTrace := modelTrace.push (Json.mkObj [("a", a), ("w", jStrs m.w), ("res", m.res),
      ("ids", Json.arr (m.ids.map (fun (x : Nat) => (x : Json))).toArray), ("v", m.v), ("q", m.q)])
    let afterFailed := match s.handler with
      | some h => (match h.pc with | .exporting _ _ _ _ bad _ => bad | _ => false)
      | none => false
    r := realStep r a (optStrField ev "r") (natField ev "i") (natField ev "n") o afterFailed
    match res with
    | some s' => s := s'
    | none => pure ()
    if s.persisted > s.ackHW then propModel := false
    match s.handler with
    | some h => if h.last > s.ackHW then propModel := false
    | none => pure ()
    lastDone := a = "fetch" && optStrField ev "r" = "ok" && !o.skipped && o.ids.isEmpty && countP o.w = 0
    k := k + 1
  -- the exporter-side truth (item-level acknowledgements) must coincide too
  if agree && !(List.range (r.nLogs + 2)).all (fun k => s.acked.contains k == r.acked.contains k) then
    agree := false
    note := s!"acknowledged ids differ: model {s.acked} real {r.acked}"
  if drain then
    if !(lastDone && r.ackPrefix = r.nLogs) then r := r.violate "at_least_once"
    if s.ackHW ≠ s.nLogs then propModel := false
    r := r.tag "drained"
  if optStrField out "panic" ≠ "" || natField out "leak" ≠ 0 then
    agree := false
    note := "panic or goroutine leak in the real code"
  let prop := r.fail.isNone
  let sig :=
    match r.fail with
    | none => ""
    | some (name, cause) =>
      if !agree then s!"C33:{name}"
      else if cause = "stale" then raceSig
      else if cause = "chunk" && name = "in_order_no_gaps" then chunkSig
      else s!"C33:{name}"
  r := match r.fail with
    | some (name, "stale") => r.tag ("race:" ++ name)
    | _ => r
  r := r.tag s!"ps={ps}"
  r := r.tag s!"maxItems={natField inp "mi"}"
  let failNote := match r.fail with
    | some (name, cause) => s!"C33 predicate {name} fails on the real trace (cause: {cause})"
    | none => ""
  pure { model := Json.arr modelTrace, agree, prop, propModel,
         nontrivial := r.deliveries ≥ 2 && r.disturbances ≥ 1,
         tags := r.tags.reverse, note := if note ≠ "" then note else failNote, sig }

def handlers : List (String × Handler) := [("repl", handleRepl)]

end Ledger.Driver.Repl
