import Ledger.Driver.QueryCommon
import Ledger.Query.Paginate
import Ledger.Query.Cursor

/-! Handlers "cursor" / "cursor1": real `Paginate` + `BuildCursor` + cursor codec vs.
    `Ledger/Query/Paginate.lean` and `Cursor.lean`. -/
namespace Ledger.Driver.Q
open Lean Ledger.Query Ledger.Driver

/-- A cursor as the model sees it. -/
inductive AQ
  | col (q : ColQuery CursorRest)
  | off (q : OffQuery CursorRest)

def AQ.toJson : AQ → Json
  | .col q => ofJ (encodeCol q)
  | .off q => ofJ (encodeOff q)

structure MPage where
  data : List Nat := []
  pageSize : Nat := 0
  hasMore : Bool := false
  next : Option AQ := none
  prev : Option AQ := none
  err : String := ""

def canonErr (e : String) : String :=
  if e.startsWith "panic: nil" then "panic: nil" else e

/-- The default order of the harness' repository. -/
def pgDefaultOrder : Order := .desc

def stepAQ (table : List Row) : AQ → MPage
  | .col q =>
    match paginateCol (q.withOrder pgDefaultOrder) table with
    | .error e => { err := canonErr e }
    | .ok p => { data := p.data.map (·.tag), pageSize := p.pageSize, hasMore := p.hasMore,
                 next := p.next.map AQ.col, prev := p.previous.map AQ.col }
  | .off q =>
    match paginateOff (q.withOrder pgDefaultOrder) table with
    | .error e => { err := canonErr e }
    | .ok p => { data := p.data.map (·.tag), pageSize := p.pageSize, hasMore := p.hasMore,
                 next := p.next.map AQ.off, prev := p.previous.map AQ.off }

def MPage.toJson (p : MPage) : Json :=
  if p.err ≠ "" then Json.mkObj [("err", p.err)] else
  Json.mkObj [("data", Json.arr (p.data.map fun (n : Nat) => (n : Json)).toArray),
    ("pageSize", p.pageSize), ("hasMore", p.hasMore),
    ("next", match p.next with | some q => q.toJson | none => Json.null),
    ("prev", match p.prev with | some q => q.toJson | none => Json.null)]

/-- The schema of the harness' `pgHandler`. -/
def pgFieldKind : String → Option (Option PaginatorKind)
  | "id" => some (some .column)
  | "ts" => some (some .column)
  | "name" | "label" => some (some .offset)
  | "kind" => some none
  | _ => none

def parseRows (j : Json) : Except String (List (Row × String)) := do
  (← arrField j "rows").mapM fun r => do
    let key ← parseInt (← strField r "key")
    let tag ← natField r "tag"
    let kind ← strField r "kind"
    pure ({ key, tag }, kind)

def parseOrder (s : String) : Option Order :=
  if s == "asc" then some .asc else if s == "desc" then some .desc else none

/-- Real page (JSON) equals model page. -/
def pageAgrees (real : Json) (m : MPage) : Bool :=
  let rerr := optStrField real "err"
  if m.err ≠ "" then rerr == m.err else
  rerr == "" &&
  (optField real "data" |>.map (· == Json.arr (m.data.map fun (n : Nat) => (n : Json)).toArray)) == some true &&
  (optField real "pageSize" == some (m.pageSize : Json)) &&
  (optField real "hasMore" == some (Json.bool m.hasMore)) &&
  ((optField real "next").getD .null == (match m.next with | some q => q.toJson | none => .null)) &&
  ((optField real "prev").getD .null == (match m.prev with | some q => q.toJson | none => .null))

def walkNext (table : List Row) : Nat → AQ → List (MPage)
  | 0, _ => []
  | fuel + 1, q =>
    let p := stepAQ table q
    p :: (if p.err ≠ "" then [] else match p.next with
      | some q' => walkNext table fuel q'
      | none => [])

def walkBack (table : List Row) : Nat → Option AQ → List MPage
  | 0, _ => []
  | _, none => []
  | fuel + 1, some q =>
    let p := stepAQ table q
    p :: (if p.err ≠ "" then [] else walkBack table fuel p.prev)

def realData (p : Json) : List Nat :=
  match optField p "data" with
  | some (.arr a) => a.toList.filterMap fun j => (jsonInt? j).map Int.toNat
  | _ => []

/-- `filters` / `column` / `order` / `pageSize` of a real cursor object equal the given ones. -/
def sameQuery (c : Json) (column : String) (order : Nat) (pageSize : Nat) (filters : Json) : Bool :=
  c.isNull ||
  (optField c "column" == some (Json.str column) && optField c "order" == some (order : Json) &&
   optField c "pageSize" == some (pageSize : Json) && optField c "filters" == some filters)

def handleCursor : Handler := fun inp out => do
  let rows ← parseRows inp
  let column ← strField inp "column"
  let order := parseOrder (← strField inp "order")
  let pageSize ← natField inp "pageSize"
  let kind ← strField inp "kind"
  let filters ← field inp "filters"
  let table := (rows.filter fun (_, k) => kind == "" || k == kind).map (·.1)
  let limit := rows.length + 4
  let q0 : InitialQuery J := { column, order, pageSize, options := toJ filters }
  -- model
  let (pages, prevOf, back) : List MPage × List (Option MPage) × List MPage :=
    match normalizeInitial "id" .desc pgFieldKind q0 with
    | .error e => ([{ err := e }], [none], [])
    | .ok aq =>
      let start : AQ := match aq with
        | .column q => .col { q with rest := { column := q.rest.1, filters := q.rest.2 } }
        | .offset q => .off { q with rest := { column := q.rest.1, filters := q.rest.2 } }
        | .initial _ => .off (OffQuery.initial 0 .asc { column := "", filters := .null })
      let pages := walkNext table limit start
      let prevOf := pages.map fun p => if p.err ≠ "" then none else p.prev.map (stepAQ table)
      let back := match pages.getLast? with
        | some l => if l.err ≠ "" then [] else walkBack table limit l.prev
        | none => []
      (pages, prevOf, back)
  let model := Json.mkObj [("pages", Json.arr (pages.map MPage.toJson).toArray),
    ("prevOf", Json.arr (prevOf.map fun | some p => p.toJson | none => Json.null).toArray),
    ("back", Json.arr (back.map MPage.toJson).toArray), ("count", table.length)]
  -- implementation
  let gPages ← arrField out "pages"
  let gPrevOf ← arrField out "prevOf"
  let gBack ← arrField out "back"
  let gCount ← natField out "count"
  let gPanic := optStrField out "panic"
  let gEmu := optStrField out "emuErr"
  let gCountSame := (optField out "countSame") == some (Json.bool true)
  let agreeList (rs : List Json) (ms : List MPage) : Bool :=
    rs.length == ms.length && (rs.zip ms).all fun (r, m) => pageAgrees r m
  let agreePrev := gPrevOf.length == prevOf.length && (gPrevOf.zip prevOf).all fun (r, m) =>
    match m with
    | none => r.isNull
    | some m => pageAgrees r m
  let firstErr := (pages.head?.map (·.err)).getD ""
  let okStart := firstErr == ""
  let agree := gPanic == "" && gEmu == "" && agreeList gPages pages && agreePrev &&
    agreeList gBack back && (!okStart || (gCount == table.length && gCountSame))
  -- property, on the implementation's own pages
  let keys := table.map (·.key)
  let unique := keys.eraseDups.length == keys.length
  let effOrder : Order := order.getD .desc
  let expected := (orderBy effOrder table).map (·.tag)
  let ps := if pageSize == 0 then defaultPageSize else pageSize
  let effColumn := if column == "" then "id" else column
  let gData := gPages.map realData
  let complete := gData.flatten == expected
  let sizes := (gData.dropLast.all fun d => d.length == ps) &&
    (gData.getLast?.map fun d => d.length ≤ ps && (d.length > 0 || gData.length == 1)) == some true
  let lastDone := (gPages.getLast?.map fun p => (optField p "next").getD .null == Json.null &&
    optField p "hasMore" == some (Json.bool false)) == some true
  let prevOk := (gPrevOf.zipIdx).all fun (p, i) =>
    if i == 0 then p.isNull else !p.isNull && some (realData p) == gData[i - 1]?
  let backOk := (gBack.map realData).reverse == gData.dropLast
  let ordN := match effOrder with | .asc => 0 | .desc => 1
  let sameQ := (gPages ++ gPrevOf.filter (!·.isNull) ++ gBack).all fun p =>
    sameQuery ((optField p "next").getD .null) effColumn ordN ps filters &&
    sameQuery ((optField p "prev").getD .null) effColumn ordN ps filters &&
    optField p "rt" == some (Json.bool true)
  let countOk := gCount == expected.length && gCountSame
  let prop := gPanic == "" && (!okStart || !unique ||
    (complete && sizes && lastDone && prevOk && backOk && sameQ && countOk))
  let kindTag := match pgFieldKind effColumn with
    | some (some .column) => "column-paginator"
    | some (some .offset) => "offset-paginator"
    | some none => "err:not-paginated"
    | none => "err:invalid-property"
  let note :=
    if prop then "" else
    s!"complete={complete} sizes={sizes} lastDone={lastDone} prevOk={prevOk} backOk={backOk} sameQ={sameQ} countOk={countOk}"
  pure { model, agree, prop, propModel := true,
         nontrivial := okStart && unique && pages.length ≥ 2,
         tags := [kindTag, if unique then "unique-keys" else "dup-keys",
                  match order with | some .asc => "asc" | some .desc => "desc" | none => "order-default",
                  if pages.length ≥ 3 then "pages≥3" else if pages.length == 2 then "pages=2" else "pages=1",
                  if kind == "" then "no-filter" else "filtered"],
         note }

/-- One step from a hand-made cursor. -/
def handleCursor1 : Handler := fun inp out => do
  let rows ← parseRows inp
  let table := rows.map (·.1)
  let decoded : Except String DecodedCursor :=
    match Json.parse (← strField inp "cursor") with
    | .error _ => .error "syntax"
    | .ok cj => if hasNonInteger cj then .error "type" else decodeCursor (toJ cj)
  let gDecodeErr := optStrField out "decodeErr"
  let gPanic := optStrField out "panic"
  match decoded with
  | .error e =>
    -- `bad-order` decodes fine in Go (any int) and panics later in `Order.String`
    if e == "bad-order" then
      pure { model := Json.mkObj [("err", "bad-order")], agree := gDecodeErr == "", tags := ["bad-order"], nontrivial := false }
    else
      pure { model := Json.mkObj [("decodeErr", "decode")], agree := gDecodeErr == "decode" && gPanic == "",
             tags := ["decode-error"], nontrivial := false }
  | .ok d =>
    let aq : AQ := match d with | .column q => .col q | .offset q => .off q
    -- `Paginate` looks the column up in the schema for column cursors only
    let pre : Option String := match d with
      | .column q => (match pgFieldKind q.rest.column with
          | none => some "invalid-property"
          | some _ => none)
      | .offset _ => none
    -- the offset paginator orders by the raw column name: unknown columns are the
    -- database's business (the emulation refuses them)
    let m : MPage := match pre with
      | some e => { err := e }
      | none => stepAQ table aq
    let gPage := (optField out "page").getD .null
    let offUnknownCol := match d with
      | .offset q => !(["id", "ts", "name", "label"].contains q.rest.column)
      | .column _ => false
    let colString := match d with
      | .column q => q.rest.column == "name" || q.rest.column == "label" || q.rest.column == "kind"
      | .offset _ => false
    let skip := offUnknownCol || colString
    let agree := gDecodeErr == "" && gPanic == "" && (skip || pageAgrees gPage m)
    pure { model := m.toJson, agree, prop := true,
           nontrivial := m.err == "" && !skip,
           tags := [match d with | .column _ => "column-cursor" | .offset _ => "offset-cursor",
                    if skip then "skipped:column-type" else if m.err == "" then "page" else "err:" ++ m.err] }

end Ledger.Driver.Q
