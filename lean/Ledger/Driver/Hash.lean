import Ledger.Driver.Core
import Ledger.Base.Sha256
import Ledger.Log.Safe
import Ledger.Log.SqlHash
import Ledger.Log.Chain
import Ledger.Log.PayloadCanon

/-!
Handlers of `ldriver_hash` (core-only):

* `sha`    — Lean SHA-256 vs `crypto/sha256` on random byte strings;
* `gohash` — a generated `Log` (+ previous hash): the model's `goPreimage`, hashed
  with the Lean SHA-256, must equal the hash the REAL `Log.ComputeHash` produced and
  the model's memento bytes must equal the real `json.Marshal(GetMemento())`
  (`agree`); the C10 predicate (`prop`) is evaluated against the real hash:
  SHA-256 of the `sqlPreimage` computed from the GENERATED `set_log_hash` body must
  equal the real Go hash.  A failing predicate carries a stable `sig` naming the
  part of `SafeChars` that the input violates.

Byte strings travel as lower-case hex.
-/
namespace Ledger.Driver
open Lean Ledger.Log Ledger.Base

def hexVal (c : Char) : Except String UInt8 :=
  if '0' ≤ c && c ≤ '9' then pure (c.toNat - 48).toUInt8
  else if 'a' ≤ c && c ≤ 'f' then pure (c.toNat - 87).toUInt8
  else if 'A' ≤ c && c ≤ 'F' then pure (c.toNat - 55).toUInt8
  else throw s!"bad hex digit {c}"

partial def unhexAux : List Char → List UInt8 → Except String (List UInt8)
  | [], acc => pure acc.reverse
  | [_], _ => throw "odd hex length"
  | a :: b :: r, acc => do
    let x ← hexVal a
    let y ← hexVal b
    unhexAux r ((x <<< 4 ||| y) :: acc)

def unhex (s : String) : Except String Bytes := unhexAux s.toList []

def hexField (j : Json) (k : String) : Except String Bytes := do unhex (← strField j k)

/-- hex field that may be absent (Go `omitempty` on an empty string) -/
def hexFieldD (j : Json) (k : String) : Except String Bytes :=
  match j.getObjVal? k with
  | .ok (.str s) => unhex s
  | .ok .null => pure []
  | .error _ => pure []
  | .ok _ => throw s!"field {k}: not a hex string"

def optHexField (j : Json) (k : String) : Except String (Option Bytes) :=
  match j.getObjVal? k with
  | .ok (.str s) => do pure (some (← unhex s))
  | .ok .null => pure none
  | .error _ => pure none
  | .ok _ => throw s!"field {k}: not a hex string or null"

def natOfJson (j : Json) : Except String Nat :=
  match j with
  | .num n => if n.exponent = 0 && n.mantissa ≥ 0 then pure n.mantissa.toNat else throw "not a natural number"
  | .str s => match s.toNat? with
    | some n => pure n
    | none => throw s!"not a natural number: {s}"
  | _ => throw "not a natural number"

def intOfJson (j : Json) : Except String Int :=
  match j with
  | .num n => if n.exponent = 0 then pure n.mantissa else throw "not an integer"
  | .str s => parseInt s
  | _ => throw "not an integer"

/-- `[Y, M, D, h, m, s, ns, zoneMinutes]` -/
def dateOfJson (j : Json) : Except String Date :=
  match j with
  | .arr #[y, mo, d, h, mi, s, ns, z] => do
    pure { year := ← natOfJson y, month := ← natOfJson mo, day := ← natOfJson d, hour := ← natOfJson h,
           minute := ← natOfJson mi, second := ← natOfJson s, nano := ← natOfJson ns, zone := ← intOfJson z }
  | _ => throw "date: expected 8 numbers"

def dateField (j : Json) (k : String) : Except String Date := do dateOfJson (← field j k)

def optField (j : Json) (k : String) : Option Json :=
  match j.getObjVal? k with
  | .ok .null => none
  | .ok v => some v
  | .error _ => none

/-- `[[hexKey, hexValue], …]` or null -/
def metadataOfJson (j : Option Json) : Except String Metadata :=
  match j with
  | none => pure none
  | some (.arr kvs) => do
    let l ← kvs.toList.mapM fun kv => match kv with
      | .arr #[.str k, .str v] => do pure ((← unhex k), (← unhex v))
      | _ => throw "metadata entry: expected [key, value]"
    pure (some l)
  | some _ => throw "metadata: expected an array or null"

def accountMetadataOfJson (j : Option Json) : Except String AccountMetadata :=
  match j with
  | none => pure none
  | some (.arr kvs) => do
    let l ← kvs.toList.mapM fun kv => do
      pure ((← hexField kv "k"), (← metadataOfJson (optField kv "v")))
    pure (some l)
  | some _ => throw "accountMetadata: expected an array or null"

def postingOfJson (j : Json) : Except String Posting := do
  let amount ← match optField j "amount" with
    | none => pure none
    | some a => do pure (some (← intOfJson a))
  pure { source := ← hexField j "source", destination := ← hexField j "destination",
         amount := amount, asset := ← hexField j "asset" }

def volumesOfJson (j : Option Json) : Except String PostCommitVolumes :=
  match j with
  | none => pure none
  | some (.arr accts) => do
    let l ← accts.toList.mapM fun a => do
      let vs ← (← arrField a "assets").mapM fun v => do
        pure ((← hexField v "asset"),
              ({ input := ← intOfJson (← field v "input"), output := ← intOfJson (← field v "output") } : Volumes))
      pure ((← hexField a "account"), vs)
    pure (some l)
  | some _ => throw "volumes: expected an array or null"

def transactionOfJson (j : Json) : Except String Transaction := do
  let postings ← match optField j "postings" with
    | none => pure none
    | some (.arr ps) => do pure (some (← ps.toList.mapM postingOfJson))
    | some _ => throw "postings: expected an array or null"
  let id ← match optField j "id" with
    | none => pure none
    | some v => do pure (some (← natOfJson v))
  let revertedAt ← match optField j "revertedAt" with
    | none => pure none
    | some v => do pure (some (← dateOfJson v))
  pure { postings := postings, metadata := ← metadataOfJson (optField j "metadata"),
         timestamp := ← dateField j "timestamp", reference := ← hexField j "reference", id := id,
         insertedAt := ← dateField j "insertedAt", updatedAt := ← dateField j "updatedAt",
         revertedAt := revertedAt,
         postCommitVolumes := ← volumesOfJson (optField j "postCommitVolumes"),
         postCommitEffectiveVolumes := ← volumesOfJson (optField j "postCommitEffectiveVolumes"),
         template := ← hexField j "template" }

def targetIdOfJson (j : Json) : Except String TargetId := do
  match optField j "targetAccount" with
  | some (.str s) => pure (.account (← unhex s))
  | _ => match optField j "targetTx" with
    | some v => pure (.transaction (← natOfJson v))
    | none => throw "target id missing"

def payloadOfJson (j : Json) : Except String Payload := do
  let kind ← strField j "kind"
  if kind = "created" then
    pure (.createdTransaction (← transactionOfJson (← field j "tx")) (← accountMetadataOfJson (optField j "accountMetadata")))
  else if kind = "reverted" then
    pure (.revertedTransaction (← transactionOfJson (← field j "reverted")) (← transactionOfJson (← field j "revert")))
  else if kind = "savedMetadata" then
    pure (.savedMetadata (← hexFieldD j "targetType") (← targetIdOfJson j) (← metadataOfJson (optField j "metadata")))
  else if kind = "deletedMetadata" then
    pure (.deletedMetadata (← hexFieldD j "targetType") (← targetIdOfJson j) (← hexFieldD j "key"))
  else if kind = "insertedSchema" then
    pure (.insertedSchema (← hexFieldD j "schema"))
  else throw s!"unknown payload kind {kind}"

def logOfJson (j : Json) : Except String Log := do
  pure { payload := ← payloadOfJson (← field j "payload"), date := ← dateField j "date",
         idempotencyKey := ← hexField j "ik", hash := ← optHexField j "hash",
         schemaVersion := ← hexField j "sv" }

def payloadKind : Payload → String
  | .createdTransaction .. => "created"
  | .revertedTransaction .. => "reverted"
  | .savedMetadata .. => "savedMetadata"
  | .deletedMetadata .. => "deletedMetadata"
  | .insertedSchema .. => "insertedSchema"

def errStr : HashErr → String
  | .goNilDeref => "go-nil-deref"
  | .invalidByteaInput => "pg:invalid input syntax for type bytea"
  | .invalidText c => "pg:invalid text in " ++ c
  | .unsupported w => "unsupported:" ++ w

def handleSha : Handler := fun inp out => do
  let data ← hexField inp "data"
  let sum := Sha256.hex (Sha256.sha256 data)
  let got := optStrField out "sum"
  pure { model := Json.mkObj [("sum", sum)], agree := got = sum, nontrivial := data.length > 0,
         tags := [if data.length < 56 then "one-block" else if data.length < 120 then "two-blocks" else "many-blocks",
                  if data.length % 64 = 55 || data.length % 64 = 56 || data.length % 64 = 63 || data.length % 64 = 0 then "pad-boundary" else "pad-plain"],
         sig := if got = sum then "" else "sha256-model-mismatch" }

def handleGoHash : Handler := fun inp out => do
  let log ← logOfJson inp
  let prev ← optHexField inp "prev"
  let gotHash := optStrField out "hash"
  let gotMemento := optStrField out "memento"
  let gotPanic := optStrField out "panic"
  let nz := bunTags.dateNullZero
  let kind := payloadKind log.payload
  let cls := unsafeClass nz log prev
  let safe := SafeChars nz log prev
  let clsTag := match cls with | some c => "unsafe:" ++ c | none => "safe"
  let baseTags := ["payload:" ++ kind, clsTag, if prev.isSome then "prev" else "first"]
  match goPreimage log prev with
  | .error e =>
    -- the model says Go panics (nil reverted id); the SQL side must stop at the same place
    let agree := gotPanic ≠ "" && e = .goNilDeref
    let sqlSame := sqlPreimage log prev = .error e
    pure { model := Json.mkObj [("panic", errStr e)], agree, prop := sqlSame, propModel := sqlSame,
           nontrivial := false, tags := baseTags ++ ["go-panic"],
           note := "model: GetMemento panics", sig := if agree && sqlSame then "" else "C10:go-panic-mismatch" }
  | .ok gp =>
    let memento := match mementoBytes log.payload with | .ok m => m | .error _ => []
    let modelHash := Sha256.hex (Sha256.sha256 gp)
    let modelMemento := Sha256.hex memento
    let agree := gotPanic = "" && gotHash = modelHash && gotMemento = modelMemento
    let sp := sqlPreimage log prev
    -- an `unsupported` on a SafeChars input means the evaluator does not cover the generated body
    match sp, safe with
    | .error (.unsupported w), true => throw s!"evaluator does not support the generated set_log_hash on a SafeChars input: {w}"
    | _, _ =>
    let sqlHash := match sp with | .ok b => Sha256.hex (Sha256.sha256 b) | .error e => errStr e
    let prop := gotPanic = "" && (match sp with | .ok _ => sqlHash = gotHash | .error _ => false)
    let propModel := sp = .ok gp
    let sig :=
      if !agree then "C10:go-model-mismatch"
      else if prop then ""
      else match cls with
        | some c => "C10:" ++ c
        | none => "C10:safe-input-mismatch"
    let special := memento.any fun c => c = 0x5c || 0x80 ≤ c
    pure { model := Json.mkObj [("hash", modelHash), ("memento", modelMemento), ("sqlHash", sqlHash)],
           agree, prop, propModel, nontrivial := safe,
           tags := baseTags ++ [if special then "memento-escaped-or-nonascii" else "memento-plain"] ++
             (match sp with | .error e => ["sql-error:" ++ errStr e] | .ok _ => []),
           note := if prop then "" else s!"SQL preimage hash {sqlHash} ≠ ComputeHash {gotHash}",
           sig }

/-- stored hash bytes of a row -/
def rowHashHex (r : Row) : String :=
  match r.hash with
  | .bytea h => Sha256.hex h
  | _ => "<no hash>"

/-- executable form of `Chained` (property C09) over the model table -/
def chainedOk (H : Bytes → Bytes) : Nat → PrevHash → List Log → List Row → Bool
  | _, _, [], [] => true
  | n, p, log :: logs, row :: rows =>
    (match sqlPreimage log p with
     | .ok pre => row.id == .num (n + 1) && row.hash == .bytea (H pre) && chainedOk H (n + 1) (some (H pre)) logs rows
     | .error _ => false)
  | _, _, _, _ => false

/-- the reference chain: `ChainLog` = `ComputeHash(previous)` with the previous log's hash -/
def goChain (H : Bytes → Bytes) : PrevHash → List Log → Except HashErr (List Bytes)
  | _, [] => .ok []
  | p, l :: ls => match goPreimage l p with
    | .error e => .error e
    | .ok pre => match goChain H (some (H pre)) ls with
      | .error e => .error e
      | .ok hs => .ok (H pre :: hs)

def handleChain : Handler := fun inp out => do
  let logs ← (← arrField inp "logs").mapM logOfJson
  let gotHashes ← strArrField out "hashes"
  let gotIds ← (← arrField out "ids").mapM natOfJson
  let gotPanic := optStrField out "panic"
  let hasSv := logs.any fun l => l.schemaVersion ≠ []
  let tags := [if logs.length ≤ 1 then "len:1" else if logs.length ≤ 4 then "len:2-4" else "len:5+",
               if hasSv then "with-schema-version" else "no-schema-version"]
  match goChain Sha256.sha256 none logs with
  | .error e => throw s!"reference chain: {errStr e}"
  | .ok ghs =>
    let modelGo := ghs.map Sha256.hex
    let agree := gotPanic = "" && gotHashes = modelGo && gotIds = (List.range logs.length).map (· + 1)
    match insertAll Sha256.sha256 b!"l" logs [] with
    | .error e => throw s!"model insert failed on a SafeChars chain: {errStr e}"
    | .ok tbl =>
      let stored := tbl.map rowHashHex
      let prop := gotPanic = "" && stored = gotHashes
      let propModel := chainedOk Sha256.sha256 0 none logs tbl
      let sig := if !agree then "C09:go-model-mismatch"
                 else if !propModel then "C09:model-chain-not-linear"
                 else if prop then ""
                 else if hasSv then "C09:schema-version-not-hashed" else "C09:chain-mismatch"
      pure { model := Json.mkObj [("go", jStrs modelGo), ("stored", jStrs stored)], agree,
             prop := prop && propModel, propModel, nontrivial := logs.length ≥ 2, tags,
             note := if prop then "" else "stored chain (SQL model) differs from the reference chain (ChainLog)", sig }

/-! ### payload (C08, payload part) -/

def bytesToString (b : Bytes) : String :=
  match String.fromUTF8? (ByteArray.mk b.toArray) with
  | some s => s
  | none => "<invalid utf-8>"

partial def jvalToJson : JVal → Except String Json
  | .null => pure Json.null
  | .bool b => pure (Json.bool b)
  | .num i => pure (Json.num (JsonNumber.fromInt i))
  | .str s => pure (Json.str (bytesToString s))
  | .time d => pure (Json.str (bytesToString (goTime d)))
  | .raw b => Json.parse (bytesToString b)
  | .arr xs => do pure (Json.arr (← xs.mapM jvalToJson).toArray)
  | .obj kvs => do
    let fs ← kvs.mapM fun (k, v) => do pure (bytesToString k, ← jvalToJson v)
    pure (Json.mkObj fs)

def objFields (j : Json) : Option (List (String × Json)) :=
  match j with
  | .obj m => some m.toList
  | _ => none

def eraseKeys (j : Json) (ks : List String) : Json :=
  match objFields j with
  | some fs => Json.mkObj (fs.filter fun (k, _) => !ks.contains k)
  | none => j

def mapObjValues (j : Json) (f : Json → Json) : Json :=
  match objFields j with
  | some fs => Json.mkObj (fs.map fun (k, v) => (k, f v))
  | none => j

def mapKeys (j : Json) (ks : List String) (f : Json → Json) : Json :=
  match objFields j with
  | some fs => Json.mkObj (fs.map fun (k, v) => (k, if ks.contains k then f v else v))
  | none => j

/-- drop the derived members of a real transaction JSON (ignored by the decoder) -/
def cleanTx (j : Json) : Json :=
  let j := eraseKeys j ["reverted", "preCommitVolumes", "preCommitEffectiveVolumes"]
  let cleanPcv (v : Json) : Json := mapObjValues v fun byAsset => mapObjValues byAsset fun vol => eraseKeys vol ["balance"]
  mapKeys j ["postCommitVolumes", "postCommitEffectiveVolumes"] cleanPcv

def cleanPayloadJson (j : Json) : Json := mapKeys j ["transaction", "revertedTransaction"] cleanTx

def decodeErrStr : DecodeErr → String
  | .shape w => "shape:" ++ w
  | .range => "range"
  | .unknownTargetType => "unknown-target-type"
  | .floatTarget => "float-target"

def handlePayload : Handler := fun inp out => do
  let p ← payloadOfJson inp
  let canon := canonicalPayload p
  let kind := payloadKind p
  let gotPanic := optStrField out "panic"
  let gotErr := optStrField out "err"
  let gotJsonHex := optStrField out "json"
  let tree := encodePayload p
  let modelJson ← jvalToJson tree
  let modelDec := decodePayload p.type tree
  let tags := ["payload:" ++ kind, if canon then "canonical" else "non-canonical"]
  if gotJsonHex = "" then
    -- the real json.Marshal panicked (nil reverted id is not involved here; nothing to compare)
    pure { model := Json.mkObj [("note", "real marshal panicked")], agree := !canon, prop := !canon,
           nontrivial := false, tags := tags ++ ["marshal-panic"], sig := if canon then "C08:payload-marshal-panic" else "" }
  else
  let realJson ← Json.parse (bytesToString (← unhex gotJsonHex))
  let treeAgree := cleanPayloadJson realJson == modelJson
  -- decode outcome
  let realOutcome : String :=
    if gotErr ≠ "" then "error"
    else if gotPanic ≠ "" && (out.getObjVal? "decoded").toOption.all (·.isNull) then "error"
    else "ok"
  let (decAgree, decNote, decodedEqOrig) ← match modelDec with
    | .error e => pure (realOutcome = "error" || (e = .floatTarget && optStrField ((out.getObjValD "decoded")) "targetOther" = "float64"),
                        "model decode error " ++ decodeErrStr e, false)
    | .ok mp =>
      if realOutcome ≠ "ok" then pure (false, "model decodes, real fails: " ++ gotErr ++ gotPanic, false) else
      let dj ← field out "decoded"
      if optStrField dj "targetOther" ≠ "" then pure (false, "real target id of type " ++ optStrField dj "targetOther", false) else
      let rp ← payloadOfJson dj
      pure (decide (rp = mp), if rp = mp then "" else "decoded payload differs from the model's", decide (rp = p))
  let stable := (out.getObjValD "stableJson").getBool?.toOption.getD false
  let sameMemento := (out.getObjValD "sameMemento").getBool?.toOption.getD false
  -- C08 payload predicate on the REAL outputs: canonical ⇒ decodes to the original, same memento, stable JSON
  let mementoOk := sameMemento || (mementoBytes p).toBool = false
  let prop := !canon || (realOutcome = "ok" && decodedEqOrig && mementoOk && (stable || kind = "insertedSchema"))
  let propModel := !canon || modelDec = .ok p
  let agree := treeAgree && decAgree
  pure { model := Json.mkObj [("tree", modelJson), ("decode", match modelDec with | .ok _ => "ok" | .error e => decodeErrStr e)],
         agree, prop, propModel, nontrivial := canon,
         tags := tags ++ [match modelDec with | .ok _ => "decode:ok" | .error e => "decode:" ++ decodeErrStr e],
         note := (if treeAgree then "" else "JSON tree differs; ") ++ decNote,
         sig := if !agree then "C08:payload-model-mismatch" else if !prop then "C08:payload-roundtrip" else "" }

/-! ### end-to-end: the real Store.InsertLog over LeanPG -/

/-- `insertlog`: for every log of the sequence —
    * `agree`: the memento bytes the REAL `Store.InsertLog` put in the INSERT = the model's
      memento (= the bytes `ComputeHash` hashes as `data`, tied by `gohash`), the real
      `ComputeHash` = SHA-256 of the model's `goPreimage`, and the hash LeanPG's trigger
      stored = SHA-256 of this file's `sqlPreimage` over the bytes actually sent (the two
      PostgreSQL models agree);
    * `prop` (C10 end to end, under the modelled PostgreSQL): stored hash = real `ComputeHash`. -/
def handleInsertLog : Handler := fun inp out => do
  let logs ← (← arrField inp "logs").mapM logOfJson
  let steps ← arrField out "steps"
  let gotPanic := optStrField out "panic"
  if gotPanic ≠ "" then
    pure { model := Json.null, agree := false, prop := false, nontrivial := false, tags := ["panic"],
           note := "real code panicked: " ++ gotPanic, sig := "C10:insertlog-panic" }
  else
  let mut prev : PrevHash := none
  let mut agree := true
  let mut prop := true
  let mut notes : List String := []
  let mut sig := ""
  let mut tags : List String := []
  let mut inserted : Nat := 0
  for (log, st) in logs.zip steps do
    let err := optStrField st "err"
    if err ≠ "" then
      tags := ("insert-error:" ++ (err.take 40).toString) :: tags
      if (err.splitOn "idempotency").length > 1 then continue
      agree := false; notes := ("insert failed: " ++ err) :: notes; sig := "C10:insertlog-error"
      break
    let sent ← unhex (optStrField st "sentMemento")
    let stored := optStrField st "storedHash"
    let goHash := optStrField st "goHash"
    let modelMemento := match mementoBytes log.payload with | .ok m => m | .error _ => []
    let modelGo := match goPreimage log prev with | .ok b => Sha256.hex (Sha256.sha256 b) | .error e => errStr e
    if sent ≠ modelMemento then
      prop := false; notes := "memento sent by InsertLog ≠ json.Marshal(GetMemento()) (the bytes ComputeHash hashes)" :: notes
      if sig = "" then sig := "C10:insertlog-memento"
    if goHash ≠ modelGo then
      agree := false; notes := "ComputeHash ≠ model goPreimage" :: notes
      if sig = "" then sig := "C10:go-model-mismatch"
    if stored ≠ goHash then
      prop := false; notes := s!"stored hash {stored} ≠ ComputeHash {goHash}" :: notes
      if sig = "" then sig := "C10:stored-hash-mismatch"
    -- cross-check of the two PostgreSQL models on the bytes actually sent
    let row : Except HashErr Row := rowOfLog bunTags b!"l" 2 log
    let sqlHash := match row with
      | .ok r => (match triggerPreimage (prevTable b!"l" 1 prev) { r with memento := .bytea sent } with
        | .ok b => Sha256.hex (Sha256.sha256 b)
        | .error e => errStr e)
      | .error e => errStr e
    if sqlHash ≠ stored then
      agree := false; notes := s!"LeanPG stored {stored}, PgEval model gives {sqlHash}" :: notes
      if sig = "" then sig := "C10:pg-models-disagree"
    inserted := inserted + 1
    prev := some (← unhex stored)
  pure { model := Json.mkObj [("inserted", inserted)], agree, prop, propModel := prop,
         nontrivial := inserted ≥ 1,
         tags := tags ++ [if logs.length ≤ 1 then "len:1" else "len:2-3"] ++ (logs.map fun l => "payload:" ++ payloadKind l.payload).eraseDups,
         note := "; ".intercalate notes.reverse, sig }

/-- `importhash`: real controller writes → real Export → real Import into a fresh ledger.
    `prop`: the import (which compares the hash computed by the target's trigger with the
    exported one) accepts every log and both chains are identical. -/
def handleImportHash : Handler := fun inp out => do
  let ops ← arrField inp "ops"
  let gotPanic := optStrField out "panic"
  let importErr := optStrField out "importErr"
  let src ← strArrField out "srcHashes"
  let dst ← strArrField out "dstHashes"
  let rec ← (← arrField out "goRecompute").mapM (·.getBool?)
  let opErrs ← strArrField out "opErrs"
  let okOps := (opErrs.filter (· = "")).length
  let prop := gotPanic = "" && importErr = "" && src = dst && src.length = okOps
  let goOk := rec.all id
  pure { model := Json.mkObj [("logs", okOps)], agree := true, prop := prop && goOk, propModel := true,
         nontrivial := okOps ≥ 2,
         tags := [s!"ops:{ops.length}", if okOps = ops.length then "all-ops-ok" else "some-op-rejected"],
         note := if !prop then "import rejected or chains differ: " ++ importErr ++ gotPanic
                 else if !goOk then "ComputeHash over the exported logs does not reproduce an exported hash" else "",
         sig := if !prop then "C10:import-rejects-exported-logs" else if !goOk then "C10:export-not-recomputable" else "" }

def hashHandlers : List (String × Handler) := [
  ("sha", handleSha),
  ("gohash", handleGoHash),
  ("chain", handleChain),
  ("payload", handlePayload),
  ("insertlog", handleInsertLog),
  ("importhash", handleImportHash)
]

end Ledger.Driver
