import Ledger.Driver.Core
import Ledger.Machine.Ast

/-! JSON → Numscript AST (the shape emitted by harness/go/internal/verif/wlmachine/ast.go)
    and AST → source text (compared with the text the real compiler received). -/
namespace Ledger.Driver
open Lean Ledger.Machine

def natOfStr (s : String) : Except String Nat :=
  match s.toNat? with
  | some n => pure n
  | none => throw s!"not a natural number: {s}"

mutual
/-- The right operand of `+`/`-` must be atomic (the grammar has no parentheses; a
    compound right operand would not be the parse of the rendered text). -/
partial def decAtom (j : Json) : Except String Expr := do
  let k ← strField j "k"
  if k = "add" || k = "sub" then throw "harness bug: compound right operand" else decExpr j
partial def decExpr (j : Json) : Except String Expr := do
  let k ← strField j "k"
  match k with
  | "acct" => pure (.acct (optStrField j "s"))
  | "asset" => pure (.asset (optStrField j "s"))
  | "num" => pure (.num (← natOfStr (optStrField j "s")))
  | "str" => pure (.str (optStrField j "s"))
  | "portion" => pure (.portion (optStrField j "s"))
  | "var" => pure (.var (optStrField j "s"))
  | "mon" => pure (.mon (← decExpr (← field j "a")) (← natOfStr (optStrField j "n")))
  | "add" => pure (.add (← decExpr (← field j "l")) (← decAtom (← field j "r")))
  | "sub" => pure (.sub (← decExpr (← field j "l")) (← decAtom (← field j "r")))
  | _ => throw s!"bad expr kind {k}"
end

def decPortion (j : Json) : Except String PortionE := do
  match ← strField j "k" with
  | "lit" => pure (.lit (optStrField j "s"))
  | "var" => pure (.var (optStrField j "s"))
  | "remaining" => pure .remaining
  | k => throw s!"bad portion kind {k}"

def hasField (j : Json) (k : String) : Bool :=
  match j.getObjVal? k with
  | .ok .null => false
  | .ok _ => true
  | .error _ => false

partial def decSource (j : Json) : Except String Source := do
  match ← strField j "k" with
  | "acct" =>
    let e ← decExpr (← field j "e")
    if hasField j "od" then
      let od ← field j "od"
      match ← strField od "k" with
      | "unbounded" => pure (.account e .unbounded)
      | "upto" => pure (.account e (.upTo (← decExpr (← field od "e"))))
      | k => throw s!"bad overdraft kind {k}"
    else pure (.account e .none)
  | "max" => pure (.maxed (← decExpr (← field j "e")) (← decSource (← field j "s")))
  | "inorder" =>
    let ss ← (← arrField j "ss").mapM decSource
    pure (.inorder (SourceList.ofList ss))
  | k => throw s!"bad source kind {k}"

def decVSource (j : Json) : Except String VSource := do
  match ← strField j "k" with
  | "src" => pure (.src (← decSource (← field j "s")))
  | "allot" =>
    let items ← (← arrField j "items").mapM fun it => do
      pure ((← decPortion (← field it "p")), (← decSource (← field it "s")))
    pure (.allot (AllotSrcList.ofList items))
  | k => throw s!"bad vsource kind {k}"

mutual
  partial def decDest (j : Json) : Except String Dest := do
    match ← strField j "k" with
    | "acct" => pure (.account (← decExpr (← field j "e")))
    | "inorder" =>
      let items ← (← arrField j "items").mapM fun it => do
        pure ((← decExpr (← field it "e")), (← decKD (← field it "d")))
      pure (.inorder (InOrderDstList.ofList items) (← decKD (← field j "rem")))
    | "allot" =>
      let items ← (← arrField j "allot").mapM fun it => do
        pure ((← decPortion (← field it "p")), (← decKD (← field it "d")))
      pure (.allot (AllotDstList.ofList items))
    | k => throw s!"bad dest kind {k}"
  partial def decKD (j : Json) : Except String KeptOrDest := do
    match ← strField j "k" with
    | "kept" => pure .kept
    | "to" => pure (.to (← decDest (← field j "d")))
    | k => throw s!"bad kd kind {k}"
end

/-- Statement + the text-only `dstFirst` flag. -/
def decStmt (j : Json) : Except String (Stmt × Bool) := do
  let k ← strField j "k"
  let dstFirst := match j.getObjVal? "dstFirst" with | .ok (.bool b) => b | _ => false
  let st ← match k with
    | "print" => pure (Stmt.print (← decExpr (← field j "e")))
    | "save" => pure (.save (← decExpr (← field j "e")) (← decExpr (← field j "acc")))
    | "saveall" => pure (.saveAll (← decExpr (← field j "e")) (← decExpr (← field j "acc")))
    | "txmeta" => pure (.setTxMeta (optStrField j "key") (← decExpr (← field j "e")))
    | "accmeta" => pure (.setAccountMeta (← decExpr (← field j "acc")) (optStrField j "key") (← decExpr (← field j "e")))
    | "fail" => pure .fail
    | "send" => pure (.send (← decExpr (← field j "e")) (← decVSource (← field j "src")) (← decDest (← field j "dst")))
    | "sendall" => pure (.sendAll (← decExpr (← field j "e")) (← decVSource (← field j "src")) (← decDest (← field j "dst")))
    | _ => throw s!"bad stmt kind {k}"
  pure (st, dstFirst)

def decTy (s : String) : Except String Ty :=
  match s with
  | "account" => pure .account
  | "asset" => pure .asset
  | "number" => pure .number
  | "string" => pure .string
  | "monetary" => pure .monetary
  | "portion" => pure .portion
  | _ => throw s!"bad type {s}"

def decVarDecl (j : Json) : Except String VarDecl := do
  let ty ← decTy (← strField j "ty")
  let name ← strField j "name"
  if hasField j "orig" then
    let o ← field j "orig"
    match ← strField o "k" with
    | "meta" => pure ⟨ty, name, .accountMeta (← decExpr (← field o "acc")) (optStrField o "key")⟩
    | "balance" => pure ⟨ty, name, .balance (← decExpr (← field o "acc")) (← decExpr (← field o "asset"))⟩
    | k => throw s!"bad origin kind {k}"
  else pure ⟨ty, name, .none⟩

def decScript (j : Json) : Except String (Script × List Bool) := do
  let vars ← (← arrField j "vars").mapM decVarDecl
  let stmts ← (← arrField j "stmts").mapM decStmt
  pure (⟨vars, stmts.map (·.1)⟩, stmts.map (·.2))

/-! ## Rendering (independent of the Go printer; compared with it on every case) -/

def rExpr : Expr → String
  | .acct s => "@" ++ s
  | .asset s => s
  | .num n => toString n
  | .str s => "\"" ++ s ++ "\""
  | .portion t => t
  | .mon a n => "[" ++ rExpr a ++ " " ++ toString n ++ "]"
  | .var x => "$" ++ x
  | .add l r => rExpr l ++ " + " ++ rExpr r
  | .sub l r => rExpr l ++ " - " ++ rExpr r

def rPortion : PortionE → String
  | .lit t => t
  | .var x => "$" ++ x
  | .remaining => "remaining"

def indent (n : Nat) : String := String.ofList (List.replicate (2 * n) ' ')

mutual
  def rSource (d : Nat) : Source → String
    | .account e od =>
      rExpr e ++ (match od with
        | .none => ""
        | .unbounded => " allowing unbounded overdraft"
        | .upTo x => " allowing overdraft up to " ++ rExpr x)
    | .maxed m s => "max " ++ rExpr m ++ " from " ++ rSource d s
    | .inorder ss => "{\n" ++ rSources (d + 1) ss ++ indent d ++ "}"
  def rSources (d : Nat) : SourceList → String
    | .nil => ""
    | .cons s ss => indent d ++ rSource d s ++ "\n" ++ rSources d ss
end

def rAllotSrc (d : Nat) : AllotSrcList → String
  | .nil => ""
  | .cons p s r => indent d ++ rPortion p ++ " from " ++ rSource d s ++ "\n" ++ rAllotSrc d r

def rVSource (d : Nat) : VSource → String
  | .src s => rSource d s
  | .allot items => "{\n" ++ rAllotSrc (d + 1) items ++ indent d ++ "}"

mutual
  def rDest (d : Nat) : Dest → String
    | .account e => rExpr e
    | .inorder items rem =>
      "{\n" ++ rInOrder (d + 1) items ++ indent (d + 1) ++ "remaining " ++ rKD (d + 1) rem ++ "\n" ++ indent d ++ "}"
    | .allot items => "{\n" ++ rAllotDst (d + 1) items ++ indent d ++ "}"
  def rKD (d : Nat) : KeptOrDest → String
    | .kept => "kept"
    | .to x => "to " ++ rDest d x
  def rInOrder (d : Nat) : InOrderDstList → String
    | .nil => ""
    | .cons m k r => indent d ++ "max " ++ rExpr m ++ " " ++ rKD d k ++ "\n" ++ rInOrder d r
  def rAllotDst (d : Nat) : AllotDstList → String
    | .nil => ""
    | .cons p k r => indent d ++ rPortion p ++ " " ++ rKD d k ++ "\n" ++ rAllotDst d r
end

def rSendBody (dstFirst : Bool) (src : VSource) (dst : Dest) : String :=
  if dstFirst then
    " (\n  destination = " ++ rDest 1 dst ++ "\n  source = " ++ rVSource 1 src ++ "\n)"
  else
    " (\n  source = " ++ rVSource 1 src ++ "\n  destination = " ++ rDest 1 dst ++ "\n)"

def rStmt (dstFirst : Bool) : Stmt → String
  | .print e => "print " ++ rExpr e
  | .save m a => "save " ++ rExpr m ++ " from " ++ rExpr a
  | .saveAll m a => "save [" ++ rExpr m ++ " *] from " ++ rExpr a
  | .setTxMeta k e => "set_tx_meta(\"" ++ k ++ "\", " ++ rExpr e ++ ")"
  | .setAccountMeta a k e => "set_account_meta(" ++ rExpr a ++ ", \"" ++ k ++ "\", " ++ rExpr e ++ ")"
  | .fail => "fail"
  | .send m src dst => "send " ++ rExpr m ++ rSendBody dstFirst src dst
  | .sendAll a src dst => "send [" ++ rExpr a ++ " *]" ++ rSendBody dstFirst src dst

def rVarDecl (v : VarDecl) : String :=
  "  " ++ v.ty.name ++ " $" ++ v.name ++
    (match v.orig with
     | .none => ""
     | .accountMeta a k => " = meta(" ++ rExpr a ++ ", \"" ++ k ++ "\")"
     | .balance a c => " = balance(" ++ rExpr a ++ ", " ++ rExpr c ++ ")") ++ "\n"

def rScript (s : Script) (flags : List Bool) : String :=
  let vars := if s.vars.isEmpty then "" else "vars {\n" ++ String.join (s.vars.map rVarDecl) ++ "}\n"
  let stmts := List.zipWith (fun st f => rStmt f st) s.stmts (flags ++ List.replicate s.stmts.length false)
  vars ++ "\n".intercalate stmts ++ "\n"

end Ledger.Driver
