import Ledger.Driver.QueryCursor
import Ledger.Driver.QueryPushdown
import Ledger.Driver.QueryAddr
import Ledger.Driver.QueryTemplate

/-! Handler table of `ldriver_misc` (query area: C20, C21, C37). -/
namespace Ledger.Driver.Q
open Ledger.Driver

def queryHandlers : List (String × Handler) := [
  ("cursor", handleCursor),
  ("cursor1", handleCursor1),
  ("pushdown", handlePushdown),
  ("addrmatch", handleAddrMatch),
  ("template", handleTemplate)
]

end Ledger.Driver.Q
