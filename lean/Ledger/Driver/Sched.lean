import Ledger.Driver.Core
import Ledger.Sched.Writers

/-!
Handlers `sched.<workload>` (properties C06, C09, C12–C16, C34; W-sched).

Input of a case: ledgers, a sequential setup, 2–4 concurrent requests, the
schedule prefix. Output of the REAL code (real system + ledger controllers,
real Numscript machine, real SQL store, over pgfake/LeanPG under the
deterministic scheduler): one event per scheduling step (task, statement kind,
ok / blocked / error), the responses, the commit order, and the final committed
state of every ledger.

The handler (1) builds the abstract programs of `Ledger.Sched.Writers` for the
requests, runs the setup in the abstract model, then replays the real schedule
(the tasks of the events whose statement kind the model tracks) with
`Ledger.Sched.stepR`, comparing statement kind and answer at every step, then the
responses, the commit order and the final state; (2) evaluates the property's
decidable predicate on the REAL responses / commit order / final state alone.
-/
namespace Ledger.Driver.Sched
open Lean Ledger.Driver Ledger.Sched

/-! ## decoding -/

def natFieldD (j : Json) (k : String) : Nat :=
  match j.getObjVal? k with
  | .ok v => match v.getNat? with | .ok n => n | .error _ => 0
  | .error _ => 0

def boolFieldD (j : Json) (k : String) : Bool :=
  match j.getObjVal? k with
  | .ok (.bool b) => b
  | _ => false

def natOfStr (s : String) : Nat := s.toNat?.getD 0
def intOfStr (s : String) : Int := s.toInt?.getD 0

structure JLeg where
  src : String
  dst : String
  asset : String
  amount : Nat
  allow : String

structure JReq where
  legs : List JLeg := []
  task : String := ""
  kind : String := ""
  ledger : String := ""
  src : String := ""
  dst : String := ""
  asset : String := ""
  amount : Nat := 0
  allow : String := ""
  force : Bool := false
  ik : String := ""
  reference : String := ""
  txid : Nat := 0
  from_ : String := ""
  blockSize : Nat := 0
  withMetadata : Bool := false
  elems : List JReq := []
  deriving Inhabited

partial def parseReq (j : Json) : Except String JReq := do
  let elems ← (← arrField j "elems").mapM parseReq
  let legs := (← arrField j "legs").map (fun l => JLeg.mk (optStrField l "src") (optStrField l "dst") (optStrField l "asset") (natOfStr (optStrField l "amount")) (optStrField l "allow"))
  pure { legs := legs, task := optStrField j "task", kind := optStrField j "kind", ledger := optStrField j "ledger",
         src := optStrField j "src", dst := optStrField j "dst", asset := optStrField j "asset",
         amount := natOfStr (optStrField j "amount"), allow := optStrField j "allow", force := boolFieldD j "force",
         ik := optStrField j "ik", reference := optStrField j "reference", txid := natFieldD j "txid",
         from_ := optStrField j "from", blockSize := natFieldD j "blockSize", withMetadata := boolFieldD j "withMetadata", elems := elems }

structure JLedger where
  name : String
  hashLogs : String

structure JResp where
  task : String := ""
  kind : String := ""
  err : String := ""
  tx : Nat := 0
  log : Nat := 0
  hit : Bool := false
  revertOf : Nat := 0
  elems : List JResp := []
  deriving Inhabited

partial def parseResp (j : Json) : Except String JResp := do
  let elems ← (← arrField j "elems").mapM parseResp
  pure { task := optStrField j "task", kind := optStrField j "kind", err := optStrField j "err",
         tx := natFieldD j "txid", log := natFieldD j "logid", hit := boolFieldD j "hit",
         revertOf := natFieldD j "revertOf", elems := elems }

structure JEvent where
  task : String
  stmt : String
  res : String

structure JTx where
  id : Nat
  reference : String
  reverted : Bool
  /-- (src, dst, asset, amount) -/
  postings : List (String × String × String × Nat)
  revertsTx : Nat

structure JLog where
  id : Nat
  typ : String
  ik : String
  hash : String
  recomputed : String
  tx : Nat

structure JBlock where
  id : Nat
  previous : Nat
  from_ : Nat
  to : Nat
  hash : String := ""
  redigest : String := ""

structure JState where
  /-- "account/asset" ↦ balance (input − output) -/
  vols : List (String × Int) := []
  txs : List JTx := []
  logs : List JLog := []
  blocks : List JBlock := []
  sysState : String := ""

def parseState (j : Json) : Except String JState := do
  let volsObj ← field j "volumes"
  let vols ← match volsObj with
    | .obj kvs => kvs.toList.mapM (fun (k, v) => do
        match v with
        | .arr #[i, o] => pure (k, intOfStr (← i.getStr?) - intOfStr (← o.getStr?))
        | _ => throw "volumes: bad entry")
    | _ => pure []
  let txs ← (← arrField j "txs").mapM (fun t => do
    let ps ← (← arrField t "postings").mapM (fun p => do
      pure (optStrField p "src", optStrField p "dst", optStrField p "asset", natOfStr (optStrField p "amount")))
    pure ({ id := natFieldD t "id", reference := optStrField t "reference", reverted := boolFieldD t "reverted",
            postings := ps, revertsTx := natFieldD t "revertsTx" } : JTx))
  let mkLog := fun (l : Json) => JLog.mk (natFieldD l "id") (optStrField l "type") (optStrField l "ik") (optStrField l "hash") (optStrField l "recomputed") (natFieldD l "txid")
  let logs := (← arrField j "logs").map mkLog
  let mkBlock := fun (b : Json) => JBlock.mk (natFieldD b "id") (natFieldD b "previous") (natFieldD b "from") (natFieldD b "to") (optStrField b "hash") (optStrField b "redigest")
  let blocks := (← arrField j "blocks").map mkBlock
  pure { vols := vols, txs := txs, logs := logs, blocks := blocks, sysState := optStrField j "sysState" }

structure Case where
  workload : String
  ledgers : List JLedger
  setup : List JReq
  reqs : List JReq
  post : List JReq
  fetchInTask : Bool
  events : List JEvent
  resps : List JResp
  setupResps : List JResp
  postResps : List JResp
  commits : List String
  stuck : List String
  state : List (String × JState)
  err : String

def parseCase (inp out : Json) : Except String Case := do
  let ledgers ← (← arrField inp "ledgers").mapM (fun l => pure ({ name := optStrField l "name", hashLogs := optStrField l "hashLogs" } : JLedger))
  let setup ← (← arrField inp "setup").mapM parseReq
  let reqs ← (← arrField inp "reqs").mapM parseReq
  let post ← (← arrField inp "post").mapM parseReq
  let events ← (← arrField out "events").mapM (fun e => pure ({ task := optStrField e "task", stmt := optStrField e "stmt", res := optStrField e "res" } : JEvent))
  let resps ← (← arrField out "resps").mapM parseResp
  let setupResps ← (← arrField out "setupResps").mapM parseResp
  let postResps ← (← arrField out "postResps").mapM parseResp
  let commits ← strArrField out "commits"
  let stuck ← strArrField out "stuck"
  let state ← match out.getObjVal? "state" with
    | .ok (.obj kvs) => kvs.toList.mapM (fun (k, v) => do pure (k, ← parseState v))
    | _ => pure []
  pure { workload := optStrField inp "workload", ledgers := ledgers, setup := setup, reqs := reqs, post := post,
         fetchInTask := boolFieldD inp "fetchInTask", events := events, resps := resps, setupResps := setupResps,
         postResps := postResps, commits := commits, stuck := stuck, state := state, err := optStrField out "err" }

/-! ## interning -/

def indexOf (xs : List String) (x : String) : Option Nat :=
  let rec go (i : Nat) : List String → Option Nat
    | [] => none
    | y :: ys => if y = x then some i else go (i + 1) ys
  go 0 xs

/-- id of a string in the table (1-based; appended when new) -/
def intern (tbl : List String) (x : String) : List String × Nat :=
  match indexOf tbl x with
  | some i => (tbl, i + 1)
  | none => (tbl ++ [x], tbl.length + 1)

structure Names where
  pairs : List String := []
  iks : List String := []
  refs : List String := []
  hashes : List String := []
  ledgers : List String := []
  accts : List String := []

def Names.pair (n : Names) (ledger acct asset : String) : Names × Nat :=
  let (t, i) := intern n.pairs (ledger ++ "|" ++ acct ++ "/" ++ asset)
  ({ n with pairs := t }, i)

/-- ids of the accounts (of one ledger), in address order -/
def Names.acctIds (n : Names) (ledger : String) (addrs : List String) : Names × List Nat :=
  let sorted := (addrs.eraseDups.toArray.qsort (· < ·)).toList
  sorted.foldl (fun (acc : Names × List Nat) a =>
    let (t, i) := intern acc.1.accts (ledger ++ "|" ++ a)
    ({ acc.1 with accts := t }, acc.2 ++ [i])) (n, [])

def Names.ik (n : Names) (k : String) : Names × Nat :=
  if k = "" then (n, 0) else
  let (t, i) := intern n.iks k
  ({ n with iks := t }, i)

def Names.ref (n : Names) (k : String) : Names × Nat :=
  if k = "" then (n, 0) else
  let (t, i) := intern n.refs k
  ({ n with refs := t }, i)

def Names.hash (n : Names) (k : String) : Names × Nat :=
  let (t, i) := intern n.hashes k
  ({ n with hashes := t }, i)

def Names.ledger (n : Names) (k : String) : Nat :=
  match indexOf n.ledgers k with
  | some i => i + 1
  | none => 0

/-- canonical text of a request's input (what the idempotency hash covers) -/
def inputText (r : JReq) : String :=
  let legs := String.intercalate ";" (r.legs.map (fun l => s!"{l.src},{l.dst},{l.asset},{l.amount},{l.allow}"))
  s!"{r.kind}|{r.src}|{r.dst}|{r.asset}|{r.amount}|{r.allow}|{r.force}|{r.reference}|{r.txid}|{r.withMetadata}|{legs}"

/-! ## programs -/

structure Ctx where
  names : Names
  /-- HASH_LOGS=SYNC per ledger id -/
  sync : Nat → Bool
  /-- known transactions: `txKey ledger id` ↦ (src pair, dst pair, srcFirst, amount, dst is world) -/
  postings : List (Nat × Nat × Nat × Bool × Nat × Bool)
  /-- the revert UPDATE carries `reverted_at is null` (always, on the unchanged code) -/
  guarded : Bool := true

def ledgerOf (c : Case) (r : JReq) : String :=
  if r.ledger ≠ "" then r.ledger else (c.ledgers.head?.map (·.name)).getD ""

def allowOf (src allow : String) (force : Bool) : Allow :=
  if src = "world" || force || allow = "unbounded" then .unbounded else .bounded (natOfStr allow)

def sortStrs (xs : List String) : List String := (xs.toArray.qsort (· < ·)).toList

def mkSend (cx : Ctx) (c : Case) (r : JReq) : Ctx × Send :=
  let n := cx.names
  let lname := ledgerOf c r
  let l := n.ledger lname
  let (n, src) := n.pair lname r.src r.asset
  let (n, dst) := n.pair lname r.dst r.asset
  let (n, ik) := n.ik r.ik
  let (n, rf) := n.ref r.reference
  let (n, h) := n.hash (inputText r)
  let all : List JLeg := { src := r.src, dst := r.dst, asset := r.asset, amount := r.amount, allow := r.allow } :: r.legs
  let (n, accts) := n.acctIds lname ((all.map (fun g => [g.src, g.dst])).flatten)
  let allow := allowOf r.src r.allow r.force
  -- further statements of the script
  let (n, legs) := r.legs.foldl (fun (a : Names × List Leg) g =>
    let (n, ps) := a.1.pair lname g.src g.asset
    let (n, pd) := n.pair lname g.dst g.asset
    (n, a.2 ++ [{ src := ps, dst := pd, amt := g.amount, allow := allowOf g.src g.allow r.force }])) (n, [])
  let multi := !r.legs.isEmpty
  -- GetBalances: the distinct bounded sources, sorted by (account, asset)
  let boundedNames := sortStrs ((all.filter (fun g => match allowOf g.src g.allow r.force with | .bounded _ => true | .unbounded => false)).map (fun g => g.src ++ "/" ++ g.asset)).eraseDups
  let (n, readPairs) := boundedNames.foldl (fun (a : Names × List Nat) nm =>
    let (t, i) := intern a.1.pairs (lname ++ "|" ++ nm); ({ a.1 with pairs := t }, a.2 ++ [i])) (n, [])
  -- UpdateVolumes: one row per touched pair, sorted
  let touched := sortStrs ((all.map (fun g => [g.src ++ "/" ++ g.asset, g.dst ++ "/" ++ g.asset])).flatten).eraseDups
  let (n, dsAll) := touched.foldl (fun (a : Names × List (Nat × Int)) nm =>
    let (t, i) := intern a.1.pairs (lname ++ "|" ++ nm)
    let d : Int := all.foldl (fun (acc : Int) g =>
      acc + (if g.dst ++ "/" ++ g.asset = nm then (g.amount : Int) else 0) - (if g.src ++ "/" ++ g.asset = nm then (g.amount : Int) else 0)) 0
    ({ a.1 with pairs := t }, a.2 ++ [(i, d)])) (n, [])
  ({ cx with names := n },
   { l := l, sync := cx.sync l, src := src, dst := dst, srcFirst := decide (r.src < r.dst), amt := r.amount,
     allow := allow, ik := ik, hash := h, ref := rf, accts := accts, legs := legs,
     readPairs := if multi then readPairs else [], dsAll := if multi then dsAll else [] })

/-- key of a known transaction: ids are per ledger -/
def txKey (l tx : Nat) : Nat := l * 100000007 + tx

def mkRevert (cx : Ctx) (c : Case) (r : JReq) : Ctx × Revert :=
  let n := cx.names
  let l := n.ledger (ledgerOf c r)
  let (n, ik) := n.ik r.ik
  let (n, h) := n.hash (inputText r)
  let (src, dst, srcFirst, amt, dstWorld) := ((cx.postings.lookup (txKey l r.txid)).getD (0, 0, true, 0, false))
  ({ cx with names := n },
   { l := l, sync := cx.sync l, tx := r.txid, src := src, dst := dst, srcFirst := srcFirst, amt := amt,
     dstWorld := dstWorld, force := r.force, guarded := cx.guarded, ik := ik, hash := h })

/-- logs of the source ledger as the import stream (from the REAL exported state) -/
def mkImpLogs (cx : Ctx) (ledger : String) (st : JState) : Ctx × List ImpLog :=
  st.logs.foldl (fun (acc : Ctx × List ImpLog) lg =>
    let (cx, out) := acc
    match st.txs.find? (·.id = lg.tx) with
    | some t =>
      let n := cx.names
      let (n, rf) := n.ref t.reference
      let (n, ik) := n.ik lg.ik
      let (n, ds) := t.postings.foldl (fun (a : Names × List (Nat × Int)) p =>
        let (src, dst, asset, amt) := p
        let (n, ps) := a.1.pair ledger src asset
        let (n, pd) := n.pair ledger dst asset
        (n, a.2 ++ (if decide (src < dst) then [(ps, - (amt : Int)), (pd, (amt : Int))] else [(pd, (amt : Int)), (ps, - (amt : Int))]))) (n, [])
      let (n, accts) := n.acctIds ledger ((t.postings.map (fun p => [p.1, p.2.1])).flatten)
      ({ cx with names := n }, out ++ [{ id := lg.id, tx := lg.tx, ref := rf, ik := ik, hash := 0, ds := ds, accts := accts }])
    | none => (cx, out)) (cx, [])

/-- the program of a request; `inUse`: the ledger state cached by the state tracker -/
def mkProg (cx : Ctx) (c : Case) (r : JReq) (inUse : Nat → Bool) : Ctx × Prog :=
  let l := cx.names.ledger (ledgerOf c r)
  match r.kind with
  | "send" => let (cx, q) := mkSend cx c r; (cx, sendProg q (inUse l))
  | "revert" => let (cx, q) := mkRevert cx c r; (cx, revertProg q (inUse l))
  | "bulk" =>
    let (cx, qs) := r.elems.foldl (fun (a : Ctx × List Send) e =>
      let (cx, q) := mkSend a.1 c { e with ledger := r.ledger }; (cx, a.2 ++ [q])) (cx, [])
    (cx, bulkProg (inUse l) qs)
  | "import" =>
    let st := (c.state.lookup r.from_).getD {}
    let (cx, logs) := mkImpLogs cx (ledgerOf c r) st
    (cx, importProg l (cx.sync l) logs)
  | "blocks" => (cx, blocksProg l r.blockSize)
  | _ => (cx, .done { err := "unknown-kind" })

/-- with `fetchInTask` the task first opens the ledger (`SELECT … FROM _system.ledgers WHERE name = …`)
    and the facade caches the state it read -/
def mkTaskProg (cx : Ctx) (c : Case) (r : JReq) (inUse : Nat → Bool) : Ctx × Prog :=
  if c.fetchInTask && r.kind ≠ "blocks" then
    let l := cx.names.ledger (ledgerOf c r)
    let (cx1, pInit) := mkProg cx c r (fun _ => false)
    let (cx2, pUse) := mkProg cx1 c r (fun _ => true)
    (cx2, .stmt (.readState l) fun o => if o.flag then pInit else pUse)
  else mkProg cx c r inUse

/-! ## replay -/

/-- Go statement kinds the model tracks, under the model's names -/
def modelKind (k : String) : Option String :=
  match k with
  | "begin" | "commit" | "rollback" | "savepoint" | "release" | "rollbackTo"
  | "lockLedgerX" | "lockLedgerS" | "unlockLedgerS" | "updateState" | "setval"
  | "readIK" | "getBalances" | "updateVolumes" | "insertTx" | "upsertAccounts" | "advLockLog" | "insertLog"
  | "revertUpdate" | "createBlocks" => some k
  | "readLedgerState" | "openLedger" => some "readState"
  | "readLogs" => some "readLastLog"
  -- variants a changed source would render: tracked, so that they cannot be skipped silently
  | "getBalancesNoLock" | "getBalancesNoIns" | "revertUpdateUnguarded" => some k
  | _ => none

def resName : StepRes → String
  | .idle => "idle"
  | .ok => "ok"
  | .blocked => "blocked"
  | .error .deadlock => "error:40P01"
  | .error .aborted => "error:25P02"
  | .error .noSavepoint => "error:3B001"
  | .error _ => "error:23505"

def nextKind (w : World) (s : Sid) : String :=
  match (w.sess s).prog with
  | .done _ => "done"
  | .stmt st _ => st.kind

/-- run a session to completion on its own (setup / post steps) -/
def runAlone (w : World) (s : Sid) : Nat → World
  | 0 => w
  | fuel + 1 =>
    match (w.sess s).prog with
    | .done _ => w
    | .stmt _ _ => runAlone (step w s) s fuel

def taskSid (c : Case) (t : String) : Sid :=
  match indexOf (c.reqs.map (·.task)) t with
  | some i => i + 1
  | none => 0

structure Replay where
  w : World
  /-- first divergence between the model and the real trace -/
  diverged : Option String := none
  steps : Nat := 0

def replayEvents (c : Case) (w : World) : Replay :=
  c.events.foldl (fun (r : Replay) e =>
    if r.diverged.isSome then r else
    match modelKind e.stmt with
    | none =>
      if e.res.startsWith "error" then { r with diverged := some s!"unmodelled statement {e.stmt} of {e.task} answered {e.res}" } else r
    | some k =>
      let s := taskSid c e.task
      let nk := nextKind r.w s
      if nk ≠ k then { r with diverged := some s!"step {r.steps}: {e.task} issued {k}, the model's next statement is {nk}" }
      else
        let (w', res) := stepR r.w s
        if resName res ≠ e.res then
          { r with diverged := some s!"step {r.steps}: {e.task} {k} answered {e.res}, the model says {resName res}" }
        else { r with w := w', steps := r.steps + 1 }) { w := w }

/-! ## comparison of the final state -/

def respOf (w : World) (s : Sid) : Resp := (w.resp s).getD { err := "unfinished" }

def respText (e : String) (tx log : Nat) (hit : Bool) : String := s!"err={e} tx={tx} log={log} hit={hit}"

def sortBy {α : Type} (key : α → Nat) (xs : List α) : List α :=
  xs.foldr (fun x acc =>
    let rec ins : List α → List α
      | [] => [x]
      | y :: ys => if key x ≤ key y then x :: y :: ys else y :: ins ys
    ins acc) []

def predecessor (ids : List Nat) (id : Nat) : Nat := maxId (ids.filter (· < id))

/-- differences between the model's committed state and the real one for ledger `l` -/
def stateDiff (n : Names) (w : World) (l : Nat) (lname : String) (sync : Bool) (st : JState) : List String :=
  let txs := sortBy (·.id) (w.txs.filter (fun t => t.l = l && t.com))
  let logs := sortBy (·.id) (w.logs.filter (fun e => e.l = l && e.com))
  let d1 := if txs.map (·.id) = st.txs.map (·.id) then [] else [s!"tx ids: model {txs.map (·.id)} real {st.txs.map (·.id)}"]
  let refOf := fun (t : Tx) => if t.ref = 0 then "" else (n.refs[t.ref - 1]?).getD "?"
  let d2 := if txs.map refOf = st.txs.map (·.reference) then [] else [s!"references: model {txs.map refOf} real {st.txs.map (·.reference)}"]
  let revOf := fun (t : Tx) => (w.rev l t.id).com = some true
  let d3 := if txs.map (fun t => decide (revOf t)) = st.txs.map (·.reverted) then [] else ["reverted flags differ"]
  let d4 := if logs.map (·.id) = st.logs.map (·.id) then [] else [s!"log ids: model {logs.map (·.id)} real {st.logs.map (·.id)}"]
  let ikOf := fun (e : Lg) => if e.ik = 0 then "" else (n.iks[e.ik - 1]?).getD "?"
  let d5 := if logs.map ikOf = st.logs.map (·.ik) then [] else ["log idempotency keys differ"]
  let d6 := if logs.map (·.tx) = st.logs.map (·.tx) then [] else [s!"log→tx: model {logs.map (·.tx)} real {st.logs.map (·.tx)}"]
  -- chain: the model's predecessor is the previous id ⇔ the stored hash recomputes over the previous log
  let ids := logs.map (·.id)
  let d7 := if !sync then [] else
    if logs.map (fun e => decide (e.prev = predecessor ids e.id)) = st.logs.map (fun g => decide (g.hash = g.recomputed)) then []
    else ["hash chain: model predecessors vs. real recomputation differ"]
  let d8 := n.pairs.zipIdx.filterMap (fun (name, i) =>
    if !name.startsWith (lname ++ "|") then none else
    let m := (w.vols (i + 1)).com
    let r := st.vols.lookup (name.drop (lname.length + 1)).toString
    if m = r then none else some s!"balance {name}: model {m} real {r}")
  -- blocks: ranges, and which of them are stale (hash computed without a log of the range: the model's
  -- ghost `ids` vs. the real re-digest)
  let comIds := logs.map (·.id)
  let blks := (w.blocks.filter (·.l = l)).map (fun b => (b.from_, b.to, decide (b.ids = comIds.filter (fun i => b.from_ < i && i ≤ b.to))))
  let rblks := (sortBy (·.id) st.blocks).map (fun b => (b.from_, b.to, decide (b.hash = b.redigest)))
  let d9 := if blks = rblks then [] else [s!"blocks (from, to, complete): model {blks} real {rblks}"]
  let inUse := (w.state l).com = some true
  let d10 := if st.sysState = "" || decide inUse = decide (st.sysState = "in-use") then [] else [s!"ledger state: model in-use={decide inUse} real {st.sysState}"]
  d1 ++ d2 ++ d3 ++ d4 ++ d5 ++ d6 ++ d7 ++ d8 ++ d9 ++ d10

/-! ## the model side of a case -/

structure ModelRun where
  diverged : Option String
  waits : Nat
  model : Json

def sidOfSetup (i : Nat) : Sid := 100 + i
def sidOfPost (i : Nat) : Sid := 200 + i

def postingOf (cx : Ctx) (lname : String) (r : JReq) : Ctx × (Nat × Nat × Bool × Nat × Bool) :=
  let (n, src) := cx.names.pair lname r.src r.asset
  let (n, dst) := n.pair lname r.dst r.asset
  ({ cx with names := n }, (src, dst, decide (r.src < r.dst), r.amount, decide (r.dst = "world")))

def runModel (c : Case) (guarded : Bool := true) : ModelRun :=
  let names : Names := { ledgers := c.ledgers.map (·.name) }
  let syncOf : Nat → Bool := fun l => ((c.ledgers[l - 1]?).map (fun x => decide (x.hashLogs = "SYNC"))).getD false
  let cx : Ctx := { names := names, sync := syncOf, postings := [], guarded := guarded }
  -- every ledger starts `initializing`
  let w0 : World := { state := fun l => if l ≥ 1 && l ≤ c.ledgers.length then { com := some false } else {} }
  -- setup: sequential, through the state tracker (the first write moves the ledger to in-use)
  let (cx, w, sdiff, _) := (c.setup.zip c.setupResps).foldl (fun (acc : Ctx × World × List String × Nat) (rq : JReq × JResp) =>
    let (cx, w, diffs, i) := acc
    let (r, real) := rq
    let s := sidOfSetup i
    let l := cx.names.ledger (ledgerOf c r)
    let (cx, p) := mkProg cx c r (fun l' => (w.state l').com = some true)
    let w := runAlone (w.setSess s (fun _ => { prog := p })) s 200
    let m := respOf w s
    let diffs := if respText m.err m.tx m.log m.hit = respText real.err real.tx real.log real.hit then diffs
      else diffs ++ [s!"setup {r.task}: model {respText m.err m.tx m.log m.hit} real {respText real.err real.tx real.log real.hit}"]
    -- remember the posting of every transaction created (for reverts)
    let cx := if real.err ≠ "" then cx else
      match r.kind with
      | "send" => let (cx, p) := postingOf cx (ledgerOf c r) r; { cx with postings := (txKey l real.tx, p) :: cx.postings }
      | "revert" =>
        match cx.postings.lookup (txKey l r.txid) with
        | some (src, dst, sf, amt, _) =>
          -- the revert transaction moves `amt` from dst back to src
          let newDstWorld := ((cx.names.pairs[src - 1]?).map (fun (nm : String) => decide ((nm.splitOn "|world/").length > 1))).getD false
          { cx with postings := (txKey l real.tx, (dst, src, !sf, amt, newDstWorld)) :: cx.postings }
        | none => cx
      | _ => cx
    let _ := l
    (cx, w, diffs, i + 1)) (cx, w0, [], 0)
  -- the tasks
  let (cx, w) := c.reqs.foldl (fun (acc : Ctx × World) r =>
    let (cx, w) := acc
    let (cx, p) := mkTaskProg cx c r (fun l' => (w.state l').com = some true)
    (cx, w.setSess (taskSid c r.task) (fun _ => { prog := p }))) (cx, w)
  let nCommitsBefore := w.commits.length
  let rp := replayEvents c w
  let w := rp.w
  -- post steps (sequential)
  let (cx, w, _) := c.post.foldl (fun (acc : Ctx × World × Nat) r =>
    let (cx, w, i) := acc
    let s := sidOfPost i
    let (cx, p) := mkProg cx c r (fun l' => (w.state l').com = some true)
    (cx, runAlone (w.setSess s (fun _ => { prog := p })) s 200, i + 1)) (cx, w, 0)
  -- comparison
  let respDiffs := (c.reqs.zip c.resps).filterMap (fun (r, real) =>
    let m := respOf w (taskSid c r.task)
    let (mt, rt) := if r.kind = "bulk" || r.kind = "import" || r.kind = "blocks" then (m.err, real.err)
      else (respText m.err m.tx m.log m.hit, respText real.err real.tx real.log real.hit)
    if mt = rt then none else some s!"response {r.task}: model {mt} real {rt}")
  let postDiffs := ((c.post.zip c.postResps).zipIdx).filterMap (fun ((r, real), i) =>
    if r.kind = "blocks" || r.kind = "import" then none else
    let m := respOf w (sidOfPost i)
    if respText m.err m.tx m.log m.hit = respText real.err real.tx real.log real.hit then none
    else some s!"post {r.task}: model {respText m.err m.tx m.log m.hit} real {respText real.err real.tx real.log real.hit}")
  let mCommits := (w.commits.drop nCommitsBefore).filterMap (fun s => if s ≥ 1 && s ≤ c.reqs.length then (c.reqs[s - 1]?).map (·.task) else none)
  let commitDiff := if mCommits = c.commits then [] else [s!"commit order: model {mCommits} real {c.commits}"]
  let stDiffs := (c.ledgers.zipIdx.map (fun (l, i) =>
    match c.state.lookup l.name with
    | some st => stateDiff cx.names w (i + 1) l.name (l.hashLogs = "SYNC") st
    | none => [s!"no state for ledger {l.name}"])).flatten
  let unfinished := (c.reqs.filterMap (fun r => if (w.resp (taskSid c r.task)).isNone then some s!"{r.task} unfinished in the model" else none))
  let all := sdiff ++ (match rp.diverged with | some d => [d] | none => respDiffs ++ postDiffs ++ commitDiff ++ unfinished ++ stDiffs)
  { diverged := all.head?, waits := (c.events.filter (·.res = "blocked")).length,
    model := Json.mkObj [("steps", rp.steps), ("diffs", jStrs (all.take 6))] }

/-! ## the properties' predicates on the REAL output -/

structure PropRes where
  ok : Bool := true
  sig : String := ""
  note : String := ""
  tags : List String := []

def firstFail (xs : List PropRes) : PropRes :=
  match xs.find? (!·.ok) with
  | some f => { f with tags := (xs.map (·.tags)).flatten }
  | none => { tags := (xs.map (·.tags)).flatten }

def respFor (c : Case) (task : String) : JResp :=
  ((c.reqs.zip c.resps).find? (fun (r, _) => r.task = task)).map (·.2) |>.getD {}

def reqFor (c : Case) (task : String) : JReq :=
  (c.reqs.find? (·.task = task)).getD {}

/-- the (src, dst, asset, amount) of the transaction a successful request created -/
def postingOfReq (c : Case) (r : JReq) : Option (String × String × String × Nat) :=
  match r.kind with
  | "send" => some (r.src, r.dst, r.asset, r.amount)
  | "revert" =>
    -- the reverted transaction is a setup transaction (or one created by a setup revert)
    let st := (c.state.lookup (ledgerOf c r)).getD {}
    match st.txs.find? (·.id = r.txid) with
    | some t => match t.postings with
      | [(s, d, a, m)] => some (d, s, a, m)
      | _ => none
    | none => none
  | _ => none

def balOf (m : List (String × Int)) (k : String) : Int := (m.lookup k).getD 0

def addBal (m : List (String × Int)) (k : String) (d : Int) : List (String × Int) :=
  if m.any (·.1 = k) then m.map (fun (k', v) => if k' = k then (k', v + d) else (k', v)) else m ++ [(k, d)]

/-- the postings a successful request created, each with the allowance of its source
    (`none` = unbounded: world, unbounded overdraft, forced) -/
def legsOfReq (c : Case) (r : JReq) : List (String × String × String × Nat × Option Int) :=
  match r.kind with
  | "send" =>
    let al := fun (src allow : String) => (if src = "world" || r.force || allow = "unbounded" then none else some ((natOfStr allow : Nat) : Int) : Option Int)
    (r.src, r.dst, r.asset, r.amount, al r.src r.allow) :: r.legs.map (fun g => (g.src, g.dst, g.asset, g.amount, al g.src g.allow))
  | "revert" =>
    match postingOfReq c r with
    | some (s, d, a, m) => [(s, d, a, m, if s = "world" || r.force then none else some 0)]
    | none => []
  | _ => []

/-- C06 on the real output: replay the committed transactions in COMMIT order; for every bounded
    source pair of a transaction, balance after ≥ min (balance at commit) (−allowance). -/
def propC06 (c : Case) : PropRes :=
  let main := (c.ledgers.head?.map (·.name)).getD ""
  -- balances after the setup (from the setup requests that succeeded, on the ledger under test)
  let init := (c.setup.zip c.setupResps).foldl (fun (m : List (String × Int)) (r, rs) =>
    if rs.err ≠ "" || ledgerOf c r ≠ main then m else
    match r.kind with
    | "send" => addBal (addBal m (r.src ++ "/" ++ r.asset) (- (r.amount : Int))) (r.dst ++ "/" ++ r.asset) r.amount
    | _ => m) []
  let usedBefore := init.map (·.1)
  let (final, res) := c.commits.foldl (fun (acc : List (String × Int) × List PropRes) task =>
    let (m, out) := acc
    let r := reqFor c task
    let rs := respFor c task
    if rs.err ≠ "" || rs.hit then (m, out) else
    let legs := legsOfReq c r
    let m' := legs.foldl (fun m (src, dst, asset, amt, _) =>
      addBal (addBal m (src ++ "/" ++ asset) (- (amt : Int))) (dst ++ "/" ++ asset) amt) m
    -- the bounded source pairs, each with its largest allowance
    let srcs := (legs.filterMap (fun (src, _, asset, _, al) => al.map (fun _ => src ++ "/" ++ asset))).eraseDups
    let checks := srcs.map (fun ks =>
      let a : Int := legs.foldl (fun (acc : Int) (src, _, asset, _, al) =>
        if src ++ "/" ++ asset = ks then (match al with | some x => if x > acc then x else acc | none => acc) else acc) 0
      let before := balOf m ks
      let after := balOf m' ks
      let bound := if before < -a then before else -a
      if after ≥ bound then ({ tags := ["bounded-source-ok"] } : PropRes)
      else
        let never := !(usedBefore.contains ks)
        let sg := if never then "C06:never-used-pair:second-writer-locks-nothing-reads-0" else "C06:existing-row:overdrawn-beyond-allowance"
        let nt := s!"{task} took {ks} from {before} to {after}, allowance {a}"
        { ok := false, sig := sg, note := nt, tags := [if never then "overdrawn-never-used" else "overdrawn-existing"] })
    let unb : List PropRes := if legs.any (fun (_, _, _, _, al) => al.isNone) then [{ tags := ["unbounded-source"] }] else []
    let multi : List PropRes := if legs.length > 1 then [{ tags := ["multi-statement-script"] }] else []
    (m', out ++ checks ++ unb ++ multi)) (init, [])
  -- bookkeeping check: the replayed balances are the real final volumes
  let st := ((c.ledgers.head?.bind (fun l => c.state.lookup l.name)).getD {})
  let bad := final.filter (fun (k, v) => balOf st.vols k ≠ v)
  let book : PropRes := if bad.isEmpty then {} else
    { ok := false, sig := "C06:final-volumes-differ-from-commit-order-fold", note := s!"{bad.map (·.1)}" }
  -- the other ledgers of the bucket are untouched by the tasks
  let others : List PropRes := (c.ledgers.drop 1).map (fun l =>
    let expect := (c.setup.zip c.setupResps).foldl (fun (m : List (String × Int)) (r, rs) =>
      if rs.err ≠ "" || ledgerOf c r ≠ l.name || r.kind ≠ "send" then m else
      addBal (addBal m (r.src ++ "/" ++ r.asset) (- (r.amount : Int))) (r.dst ++ "/" ++ r.asset) r.amount) []
    let stl := (c.state.lookup l.name).getD {}
    if expect.all (fun (k, v) => balOf stl.vols k = v) then { tags := ["other-ledger-untouched"] }
    else { ok := false, sig := "C06:other-ledger-of-the-bucket-changed", note := l.name })
  firstFail (res ++ [book] ++ others)

/-- C09 on the real output: every stored hash recomputes (real `Log.ComputeHash`) over the previous log by id,
    hence no two logs chain from the same predecessor -/
def propC09 (c : Case) : PropRes :=
  firstFail (c.ledgers.map (fun l =>
    if l.hashLogs ≠ "SYNC" then { tags := ["not-sync"] } else
    let st := (c.state.lookup l.name).getD {}
    match st.logs.find? (fun g => g.hash ≠ g.recomputed || g.hash = "") with
    | some g => { ok := false, sig := "C09:chain-not-linear", note := s!"log {g.id} of {l.name}: stored {g.hash} recomputed {g.recomputed}" }
    | none => { tags := [s!"chain-ok"] }))

def nodupNat : List Nat → Bool
  | [] => true
  | x :: xs => !xs.contains x && nodupNat xs

def nodupStr : List String → Bool
  | [] => true
  | x :: xs => !xs.contains x && nodupStr xs

/-- is `xs` non-decreasing? -/
def sortedNat : List Nat → Bool
  | [] | [_] => true
  | x :: y :: r => x ≤ y && sortedNat (y :: r)

/-- C16 on the real output -/
def propC16 (c : Case) : PropRes :=
  firstFail (c.ledgers.map (fun l =>
    let st := (c.state.lookup l.name).getD {}
    let uniq : PropRes := if nodupNat (st.txs.map (·.id)) && nodupNat (st.logs.map (·.id)) then {} else
      { ok := false, sig := "C16:duplicate-id", note := l.name }
    -- ids of the committed writes of this ledger in commit order
    let rows := c.commits.filterMap (fun task =>
      let r := reqFor c task
      let rs := respFor c task
      if ledgerOf c r ≠ l.name || rs.err ≠ "" || rs.hit || r.kind = "bulk" || r.kind = "import" || r.kind = "blocks" then none
      else some (rs.tx, rs.log))
    let txOrd : PropRes := if sortedNat (rows.map (·.1)) then { tags := ["txids-in-commit-order"] } else
      { ok := false, sig := "C16:transaction-id-allocated-before-any-lock:commit-order-inversion",
        note := s!"{l.name}: transaction ids in commit order {rows.map (·.1)}", tags := ["txid-inversion"] }
    let logOrd : PropRes := if sortedNat (rows.map (·.2)) then { tags := ["logids-in-commit-order"] } else
      if l.hashLogs = "SYNC" then { ok := false, sig := "C16:log-id-inversion-with-HASH_LOGS-SYNC", note := s!"{l.name}: {rows.map (·.2)}" }
      else { ok := false, sig := "C16:log-id-without-advisory-lock:commit-order-inversion",
             note := s!"{l.name} ({l.hashLogs}): log ids in commit order {rows.map (·.2)}", tags := ["logid-inversion"] }
    firstFail [uniq, logOrd, txOrd]))

/-- C13 on the real output -/
def propC13 (c : Case) : PropRes :=
  let keys := (c.reqs.map (·.ik)).filter (· ≠ "") |>.eraseDups
  firstFail (keys.map (fun k =>
    -- concurrent requests and the sequential replays after them
    let rq := ((c.reqs.zip c.resps) ++ (c.post.zip c.postResps)).filter (fun (r, _) => r.ik = k)
    let l := ledgerOf c ((rq.head?.map (·.1)).getD {})
    let st := (c.state.lookup l).getD {}
    let logs := st.logs.filter (·.ik = k)
    if logs.length > 1 then { ok := false, sig := "C13:key-applied-twice", note := k } else
    match logs.head? with
    | none =>
      -- nothing committed under the key: every request must have failed
      if rq.all (fun (_, rs) => rs.err ≠ "") then { tags := ["ik-none-committed"] }
      else { ok := false, sig := "C13:success-without-log", note := k }
    | some w =>
      -- the request that recorded the key: a task, or a setup step
      let setupWinner := ((c.setup.zip c.setupResps).find? (fun (r, rs) => r.ik = k && rs.err = "" && rs.log = w.id)).map (·.1)
      let winners := rq.filter (fun (_, rs) => rs.err = "" && !rs.hit)
      let judge := fun (wr : JReq) (skipTask : String) =>
        firstFail (rq.map (fun (r, rs) =>
          if r.task = skipTask then {} else
          let same := inputText r = inputText wr
          if rs.err = "" then
            if same && rs.hit && rs.log = w.id && rs.tx = w.tx then { tags := ["ik-hit"] }
            else { ok := false, sig := "C13:second-success-not-the-original", note := s!"{k}: {r.task}" }
          else if rs.err = "ik-conflict" || rs.err = "deadlock" then { tags := ["ik-retryable"] }
          else if rs.err = "invalid-idempotency-input" then
            if same then { ok := false, sig := "C13:same-input-rejected-as-different", note := s!"{k}: {r.task}" } else { tags := ["ik-different-input-rejected"] }
          else if same then
            { ok := false, sig := "C13:retry-reruns-operation:business-error-contradicts-committed-outcome",
              note := s!"key {k}: {wr.task} committed log {w.id}; {r.task} (same input) answered {rs.err}", tags := ["ik-business-error"] }
          else
            { ok := false, sig := "C13:retry-reruns-operation:different-input-gets-business-error-not-validation",
              note := s!"key {k}: {r.task} (different input) answered {rs.err}", tags := ["ik-business-error-different-input"] }))
      match setupWinner, winners with
      | some sw, [] => judge sw ""
      | none, [(wr, wrs)] =>
        if wrs.log ≠ w.id then { ok := false, sig := "C13:winner-log-mismatch", note := k } else judge wr wr.task
      | _, _ => { ok := false, sig := "C13:not-exactly-one-winner", note := s!"{k}: {winners.length} non-hit successes" }))

/-- C14 on the real output -/
def propC14 (c : Case) : PropRes :=
  firstFail (c.ledgers.map (fun l =>
    let st := (c.state.lookup l.name).getD {}
    let refs := (st.txs.map (·.reference)).filter (· ≠ "")
    if !nodupStr refs then { ok := false, sig := "C14:duplicate-reference", note := s!"{l.name}: {refs}" } else
    firstFail ((c.reqs.zip c.resps).filter (fun (r, _) => ledgerOf c r = l.name && r.reference ≠ "" && r.kind = "send") |>.map (fun (r, rs) =>
      if rs.err = "" then
        if rs.hit then { tags := ["ref-hit"] }
        else match st.txs.find? (·.id = rs.tx) with
          | some t => if t.reference = r.reference then { tags := ["ref-committed"] } else { ok := false, sig := "C14:reference-not-stored", note := r.task }
          | none => { ok := false, sig := "C14:success-without-transaction", note := r.task }
      else if rs.err = "reference-conflict" then
        if refs.contains r.reference then { tags := ["ref-conflict"] } else { ok := false, sig := "C14:conflict-without-holder", note := r.task }
      else if rs.err = "other" && refs.contains r.reference then
        { ok := false, sig := "C14:reference-conflict-answered-as-unclassified-error", note := s!"{r.task}: reference {r.reference} is held by a committed transaction, the request answered an internal error" }
      else { tags := [s!"ref-other-{rs.err}"] }))))

/-- C15 (schedule part) on the real output -/
def propC15 (c : Case) : PropRes :=
  firstFail (c.ledgers.map (fun l =>
    let st := (c.state.lookup l.name).getD {}
    firstFail (st.txs.map (fun t =>
      let reverts := st.txs.filter (·.revertsTx = t.id)
      let okResp := (c.reqs.zip c.resps).filter (fun (r, rs) => r.kind = "revert" && r.txid = t.id && ledgerOf c r = l.name && rs.err = "" && !rs.hit)
      let setupOk := (c.setup.zip c.setupResps).filter (fun (r, rs) => r.kind = "revert" && r.txid = t.id && ledgerOf c r = l.name && rs.err = "")
      if reverts.length > 1 || okResp.length + setupOk.length > 1 then
        { ok := false, sig := "C15:transaction-reverted-twice", note := s!"{l.name}: tx {t.id} has {reverts.length} revert transactions, {okResp.length + setupOk.length} successful reverts" }
      else if decide (reverts.length = 1) ≠ t.reverted then
        { ok := false, sig := "C15:reverted-flag-without-revert-transaction", note := s!"{l.name}: tx {t.id}" }
      else if reverts.length = 1 then { tags := ["reverted-once"] } else {}))))

/-- C12 on the real output: in commit order, the commits of an import are contiguous and precede
    every write on the ledger; a rejected import has no effect -/
def propC12 (c : Case) : PropRes :=
  let crashSig := "C12:write-bypassing-state-tracker:id-collision-nil-deref-panic"
  let crash : List PropRes := (c.reqs.zip c.resps).filterMap (fun ((r : JReq), (rs : JResp)) =>
    if rs.err = "panic" || rs.elems.any (fun (e : JResp) => e.err = "panic") then
      let nt := s!"{r.task} ({r.kind}) panicked: transaction id from an unsynchronised sequence collided with an imported one"
      some ({ ok := false, sig := crashSig, note := nt, tags := ["panic"] } : PropRes)
    else none)
  let imports := (c.reqs.zip c.resps).filter (fun (r, _) => r.kind = "import")
  firstFail (crash ++ imports.map (fun (imp, irs) =>
    let l := ledgerOf c imp
    let seq := c.commits.filter (fun t => ledgerOf c (reqFor c t) = l)
    let isImp := fun t => t = imp.task
    let nImp := (seq.filter isImp).length
    let afterWrite := (seq.dropWhile isImp).any isImp
    let srcLogs := ((c.state.lookup imp.from_).getD {}).logs.length
    let writesBefore := (c.setup.zip c.setupResps).any (fun (r, rs) => ledgerOf c r = l && rs.err = "")
    if afterWrite then
      { ok := false, sig := "C12:import-commit-after-a-write-commit", note := s!"{l}: commit order {seq}",
        tags := ["import-interleaved"] }
    else if irs.err = "" then
      if writesBefore then { ok := false, sig := "C12:import-accepted-after-a-write", note := l }
      else if nImp ≠ srcLogs then { ok := false, sig := "C12:import-ok-but-not-all-logs", note := s!"{nImp}/{srcLogs}" }
      else { tags := ["import-accepted"] }
    else if nImp ≠ 0 then
      { ok := false, sig := "C12:rejected-import-kept-a-prefix", note := s!"{l}: {nImp} logs imported, then {irs.err}", tags := ["import-partial"] }
    else { tags := [s!"import-rejected"] }))

/-- C34 on the real output (after the post `create_blocks`): contiguous chain, ranges partition the log ids -/
def propC34 (c : Case) : PropRes :=
  firstFail (c.ledgers.map (fun l =>
    if l.hashLogs ≠ "ASYNC" then {} else
    let st := (c.state.lookup l.name).getD {}
    let bs := sortBy (·.id) st.blocks
    let rec chain (prevTo prevId : Nat) : List JBlock → Bool
      | [] => true
      | b :: r => b.from_ = prevTo && b.previous = prevId && b.to > b.from_ && chain b.to b.id r
    if !chain 0 0 bs then { ok := false, sig := "C34:blocks-not-a-contiguous-chain", note := l.name } else
    let covered := fun (id : Nat) => (bs.filter (fun b => b.from_ < id && id ≤ b.to)).length
    match st.logs.find? (fun g => covered g.id ≠ 1) with
    | some g =>
      { ok := false, sig := "C34:log-outside-every-block-range",
        note := s!"{l.name}: log {g.id} is in {covered g.id} blocks; blocks {bs.map (fun b => (b.from_, b.to))}", tags := ["log-uncovered"] }
    | none =>
      -- each block hash = the documented digest over the previous block hash and the logs of its range
      match bs.find? (fun b => b.hash ≠ b.redigest) with
      | some b =>
        { ok := false, sig := "C34:late-committing-lower-log-id-skipped-by-create_blocks:block-hash-does-not-cover-it",
          note := s!"{l.name}: block ({b.from_}, {b.to}] stores {b.hash.take 16}…, the digest over the committed logs of its range is {b.redigest.take 16}… (a log of the range committed after the block was built)",
          tags := ["log-skipped"] }
      | none => { tags := [if bs.isEmpty then "no-blocks" else "blocks-partition"] }))

def propFor (c : Case) : PropRes :=
  match c.workload with
  | "overdraft" => propC06 c
  | "chain" => propC09 c
  | "ids" => propC16 c
  | "ik" => propC13 c
  | "reference" => propC14 c
  | "revert2" => propC15 c
  | "import" => propC12 c
  | "blocks" => propC34 c
  | _ => {}

/-! ## handler -/

def handle (inp out : Json) : Except String Verdict := do
  let c ← parseCase inp out
  if c.err ≠ "" then throw s!"harness error: {c.err}"
  let m := runModel c
  let p := propFor c
  let waits := m.waits
  let respTags := c.resps.map (fun r => "resp:" ++ (if r.err = "" then (if r.hit then "hit" else "ok") else r.err))
  let tags := [s!"tasks:{c.reqs.length}", if waits > 0 then "waited" else "no-wait"] ++ respTags ++ p.tags ++
    (if c.stuck.isEmpty then [] else ["stuck"]) ++
    (if c.events.any (·.res = "error:40P01") then ["deadlock"] else []) ++
    (if c.events.any (fun e => e.stmt = "upsertAccounts" && e.res = "error:23505") then ["upsertAccounts-first-use-race"] else [])
  let agree := m.diverged.isNone
  pure { model := m.model, agree := agree, prop := p.ok, propModel := true,
         nontrivial := waits > 0 || ((c.workload = "ids" || c.workload = "blocks") && c.commits.eraseDups.length ≥ 2),
         tags := tags.eraseDups,
         note := if !p.ok then p.note ++ (if agree then "" else " || model: " ++ m.diverged.getD "") else (m.diverged.getD ""),
         -- a failing predicate keeps its (possibly known) signature only when the abstract model reproduces
         -- the real behaviour; otherwise it is something the known finding does not explain
         sig := if !p.ok then (if agree then p.sig else p.sig ++ ":NOT-reproduced-by-the-model") else if agree then ""
           else if ((m.diverged.getD "").splitOn "upsertAccounts").length > 1 && ((m.diverged.getD "").splitOn "23505").length > 1
             then "sched:upsertAccounts-concurrent-first-use-of-an-account:23505-not-retried"
           else "sched:model-real-divergence" }

def handlers : List (String × Handler) :=
  ["overdraft", "chain", "schedchain", "ids", "ik", "reference", "revert2", "import", "blocks"].map (fun w => ("sched." ++ w, handle))

end Ledger.Driver.Sched
