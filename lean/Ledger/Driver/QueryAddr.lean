import Ledger.Driver.QueryCommon
import Ledger.Query.Address

/-! Handler "addrmatch": real `isPartialAddress` / `filterAccountAddress` /
    `filterAccountAddressOnTransactions` / `explodeAddress` vs. `Ledger/Query/Address.lean`. -/
namespace Ledger.Driver.Q
open Lean Ledger.Query Ledger.Driver

def optSegJson : Option Seg → Json
  | none => .null
  | some s => .str (segStr s)

def mapJson (m : List (Nat × Option Seg)) : Json :=
  Json.mkObj (m.map fun (k, v) => (toString k, optSegJson v))

/-- The structure the harness recovers from the rendered text. -/
def structJson (address : String) (p : Pattern) : Json :=
  match p with
  | .exact _ =>
    Json.mkObj [("kind", "exact"), ("exact", address), ("len", Json.null), ("segs", Json.arr #[])]
  | .part len cs =>
    if len.isNone && cs.isEmpty then
      Json.mkObj [("kind", "true"), ("len", Json.null), ("segs", Json.arr #[])]
    else
      Json.mkObj [("kind", "partial"),
        ("len", match len with | some n => (n : Json) | none => Json.null),
        ("segs", Json.arr (cs.map fun (i, s) => Json.arr #[(i : Json), Json.str (segStr s)]).toArray)]

/-- Read the harness' structure back into a `Pattern` (for the property, which is
    evaluated on what the REAL code rendered). -/
def patternOfStruct (j : Json) : Option Pattern :=
  match optStrField j "kind" with
  | "exact" => some (.exact (strSegs (optStrField j "exact")))
  | "true" => some (.part none [])
  | "partial" =>
    let len := (optField j "len").bind fun l => (jsonInt? l).map Int.toNat
    let segs := match optField j "segs" with
      | some (.arr a) => a.toList.filterMap fun e =>
          match e with
          | .arr #[i, .str s] => (jsonInt? i).map fun n => (n.toNat, s.toList)
          | _ => none
      | _ => []
    some (.part len segs)
  | _ => none

def objPairsA (j : Json) : List (String × Json) :=
  match j with
  | .obj kvs => kvs.toList
  | _ => []

def mapOfJson (j : Json) : List (Nat × Option Seg) :=
  (objPairsA j).filterMap fun ((k, v) : String × Json) =>
    match k.toNat? with
    | some n => some (n, match v with | Json.str s => some s.toList | _ => none)
    | none => none

/-- Reference ("documented") meaning of an address filter, written independently of
    `Pattern`: `...` as the last segment = prefix match; otherwise same number of
    segments; an empty segment matches anything; no empty segment and no final
    `...` = plain equality. -/
def refMatch (pat acct : List Seg) : Bool :=
  let isPat := pat.any (·.isEmpty) || pat.getLast? == some dots
  if !isPat then pat == acct else
  let body := if pat.getLast? == some dots then pat.dropLast else pat
  (pat.getLast? == some dots || acct.length == pat.length) &&
  (body.zipIdx).all fun (s, i) => s.isEmpty || s == dots || acct[i]? == some s

def handleAddrMatch : Handler := fun inp out => do
  let pattern ← strField inp "pattern"
  let key ← strField inp "key"
  let source ← boolField inp "source"
  let dest ← boolField inp "dest"
  let accounts ← strArrField inp "accounts"
  let src := strSegs pattern
  -- model
  let partialM := isPartial src
  let text := renderFilterAccountAddress pattern key
  let p := Pattern.ofSegs src
  let ptx := Pattern.ofSegsTx src
  let st := structJson pattern p
  let cols := (if source then [if partialM then "sources_arrays" else "sources"] else []) ++
    (if dest then [if partialM then "destinations_arrays" else "destinations"] else [])
  let tx : Json :=
    if cols.isEmpty then Json.mkObj [("kind", "empty"), ("cols", Json.arr #[])]
    else match ptx with
    | .exact _ => Json.mkObj [("kind", "exact"), ("cols", jStrs cols), ("exact", pattern)]
    | .part _ _ =>
      -- the harness omits an empty map (`omitempty`)
      if ptx.toMap.isEmpty then Json.mkObj [("kind", "partial"), ("cols", jStrs cols)]
      else Json.mkObj [("kind", "partial"), ("cols", jStrs cols), ("map", mapJson ptx.toMap)]
  let expl := accounts.map fun a => mapJson (explode (strSegs a))
  let model := Json.mkObj [("partial", partialM), ("text", text), ("struct", st), ("tx", tx),
    ("explode", Json.arr expl.toArray)]
  -- implementation
  let gPanic := optStrField out "panic"
  let gPartial ← boolField out "partial"
  let gText ← strField out "text"
  let gStruct ← field out "struct"
  let gTx ← field out "tx"
  let gExpl ← arrField out "explode"
  let agree := gPanic == "" && gPartial == partialM && gText == text && gStruct == st &&
    gTx == tx && gExpl == expl
  -- property, on the structures recovered from the REAL text:
  --  (1) the rendered condition means the documented match on every account;
  --  (2) on transactions, jsonb containment of the real map in the real exploded
  --      address means the same (final `...` only; a middle `...` is a literal there).
  let accSegs := accounts.map strSegs
  let prop1 := match patternOfStruct gStruct with
    | some rp => accSegs.all fun a => matchesAddress rp a == refMatch src a
    | none => false
  let midDots := src.dropLast.any (· == dots)
  let prop2 :=
    match optStrField gTx "kind" with
    | "partial" =>
      let m := mapOfJson ((optField gTx "map").getD .null)
      midDots || (gExpl.zip accSegs).all fun (ex, a) => mapContains m (mapOfJson ex) == refMatch src a
    | "exact" => optStrField gTx "exact" == pattern
    | "empty" => !source && !dest
    | _ => false
  let prop := gPanic == "" && prop1 && prop2
  let shape :=
    if !partialM then "exact" else
    if src.getLast? == some dots then "prefix" else "partial"
  let hits := (accSegs.filter fun a => matchesAddress p a).length
  pure { model, agree, prop, propModel := true,
         nontrivial := hits > 0 && hits < accSegs.length,
         tags := [shape, if midDots then "middle-dots" else "plain",
                  if hits == 0 then "no-hit" else if hits == accSegs.length then "all-hit" else "some-hit"],
         note := if prop then "" else s!"prop1={prop1} prop2={prop2}" }

end Ledger.Driver.Q
