import Ledger.Driver.HistH
import Ledger.Driver.QueryTemplate
import Ledger.Reads.RunQuery

/-!
Handler `reads` of `ldriver_reads`: one `vrreads` case = a sequential history executed by the REAL
controller stack over pgfake → LeanPG (the MODELLED Postgres), interleaved with real read calls.
The handler folds the Spec over the writes (`Reads.RState.step`), recomputes every answer from
the folds (`Ledger/Reads`), compares (`agree`), and evaluates the property's own predicate on
the REAL answer (`prop`): conservation per asset of a listing without filter, first usage /
timestamp / reverted mask against the point in time, count = number listed, concatenated pages =
the sorted listing without duplicates, RunQuery = direct list call.
-/
namespace Ledger.Driver.Reads
open Lean Ledger.Base Ledger.Core Ledger.Spec Ledger.Query Ledger.Reads Ledger.Driver

/-! ### decoding -/

def featOf (j : Json) : Features :=
  { moves := optStrField j "MOVES_HISTORY" == "ON",
    pcev := optStrField j "MOVES_HISTORY_POST_COMMIT_EFFECTIVE_VOLUMES" == "SYNC",
    acctMetaHist := optStrField j "ACCOUNT_METADATA_HISTORY" == "SYNC",
    txMetaHist := optStrField j "TRANSACTION_METADATA_HISTORY" == "SYNC" }

def featTag (f : Features) : String :=
  "feat:" ++ (if f.moves then "M" else "m") ++ (if f.pcev then "E" else "e") ++
    (if f.acctMetaHist then "A" else "a") ++ (if f.txMetaHist then "T" else "t")

structure RQuery where
  k : String
  res : String := ""
  address : String := ""
  id : Nat := 0
  pit : Option Int := none
  oot : Option Int := none
  insertionDate : Bool := false
  groupLvl : Nat := 0
  filter : Option Filter := none
  filterErr : Bool := false
  expand : List String := []
  sort : String := ""
  order : Option Order := none
  pageSize : Nat := 0
  count : Bool := false
  deriving Inhabited

def optInt (j : Json) (k : String) : Option Int :=
  match j.getObjVal? k with
  | .ok v => Q.jsonInt? v
  | .error _ => none

def optBool (j : Json) (k : String) : Bool :=
  match j.getObjVal? k with
  | .ok (.bool b) => b
  | _ => false

partial def decQuery (j : Json) : Except String RQuery := do
  let (filter, filterErr) ← match j.getObjVal? "filter" with
    | .ok .null | .error _ => pure (none, false)
    | .ok f => match Q.parseBuilder f with
      | .ok b => pure (b, false)
      | .error _ => pure (none, true)
  pure { k := ← strField j "k", res := optStrField j "res", address := optStrField j "address",
         id := ((optInt j "id").getD 0).toNat, pit := optInt j "pit", oot := optInt j "oot",
         insertionDate := optBool j "insertionDate", groupLvl := ((optInt j "groupLvl").getD 0).toNat,
         filter, filterErr, expand := (← strArrField j "expand"),
         sort := optStrField j "sort",
         order := (match optStrField j "order" with | "asc" => some .asc | "desc" => some .desc | _ => none),
         pageSize := ((optInt j "pageSize").getD 0).toNat, count := optBool j "count" }

/-! ### canonical encoding of the model's answers (same shape as wlreads/queries.go) -/

def jInt (i : Int) : Json := Json.num ⟨i, 0⟩

def encMeta (m : Metadata) : Json := Json.mkObj (m.map fun (k, v) => (k, Json.str v))

def encAssetVols (l : List (String × Volumes)) : Json :=
  Json.arr (l.map fun (a, v) => Json.mkObj [("asset", a), ("input", toString v.input), ("output", toString v.output)]).toArray

def encAccount (v : AccountView) : Json :=
  Json.mkObj ([("address", Json.str v.address), ("metadata", encMeta v.metadata), ("firstUsage", jInt v.firstUsage),
    ("insertionDate", jInt v.insertionDate), ("updatedAt", jInt v.updatedAt)] ++
    (match v.volumes with | some l => [("volumes", encAssetVols l)] | none => []) ++
    (match v.effectiveVolumes with | some l => [("effectiveVolumes", encAssetVols l)] | none => []))

def encTx (v : TxView) : Json :=
  Json.mkObj ([("id", (v.id : Json)), ("postings", encPostings v.postings), ("timestamp", jInt v.timestamp),
    ("insertedAt", jInt v.insertedAt), ("updatedAt", jInt v.updatedAt), ("reference", Json.str v.reference),
    ("metadata", encMeta v.metadata),
    ("revertedAt", match v.revertedAt with | some r => jInt r | none => Json.null)] ++
    (match v.pcv with | some m => [("pcv", encVols m)] | none => []) ++
    (match v.pcev with | some m => [("pcev", encVols m)] | none => []))

def encVolRow (r : VolRow) : Json :=
  Json.mkObj [("account", r.account), ("asset", r.asset), ("input", toString r.volumes.input),
    ("output", toString r.volumes.output), ("balance", toString r.volumes.balance)]

def encLog (r : LogRec) : Json := Json.mkObj [("id", (r.id : Json)), ("type", r.type), ("date", jInt r.date)]

def encErrAns (e : Reads.RErr) : Json := Json.mkObj [("err", e.toString)]

/-! ### the model's listings -/

/-- A listing: rows in the order of the listing, their canonical JSON, sort keys, the identity
    used in walks, and whether the sort column uses the column paginator. -/
structure Listing where
  rows : List Json
  keys : List SKey
  ids : List Json
  column : Bool
  order : Order
  deriving Inhabited

def fieldOfSchema (s : Schema) (col : String) : Option Field :=
  s.find? fun f => f.name == col || f.aliases.contains col

/-- `PaginatedResourceRepository.Paginate` defaulting + paginator choice. -/
def sortSpec (s : Schema) (dfltCol : String) (dfltOrder : Order) (q : RQuery) : Except Reads.RErr (String × Order × Bool) :=
  let col := if q.sort == "" then dfltCol else q.sort
  match fieldOfSchema s col with
  | none => .error .invalidQuery
  | some f => if !f.paginated then .error .invalidQuery else .ok (f.name, q.order.getD dfltOrder, f.type.columnPaginated)

def mkListing {α : Type} (rows : List α) (key : α → Option SKey) (enc : α → Json) (idOf : α → Json)
    (o : Order) (column : Bool) : Except Reads.RErr Listing :=
  if rows.any (fun r => (key r).isNone) then .error .invalidQuery else
  let keyD := fun r => (key r).getD (.int 0)
  let sorted := sortBy keyD o rows
  .ok { rows := sorted.map enc, keys := sorted.map keyD, ids := sorted.map idOf, column, order := o }

def listingOf (feat : Features) (s : RState) (kind : String) (q : RQuery) : Except Reads.RErr Listing := do
  if q.filterErr then throw .invalidQuery
  let l := s.ledger
  match kind with
  | "listAccounts" =>
    let (col, o, column) ← sortSpec accountSchema "address" .asc q
    let sel ← accountsSelected feat l q.pit q.filter
    accountExpandCheck feat q.pit.isSome (sortStrings q.expand)
    mkListing (sel.map (expandAccount l q.pit q.expand)) (accountSortKey col) encAccount (fun v => Json.str v.address) o column
  | "listTransactions" =>
    let (col, o, column) ← sortSpec transactionSchema "id" .desc q
    let sel ← transactionsSelected feat l q.pit q.filter
    txExpandCheck feat (sortStrings q.expand)
    mkListing (sel.map (expandTx l q.expand)) (txSortKey col) encTx (fun v => (v.id : Json)) o column
  | "listLogs" =>
    let (col, o, column) ← sortSpec logSchema "id" .desc q
    let sel ← logsSelected s q.filter
    mkListing sel (logSortKey col) encLog (fun r => (r.id : Json)) o column
  | "volumes" =>
    let (_, o, column) ← sortSpec volumeSchema "account" .asc q
    let sel ← volumesSelected feat l q.pit q.oot q.insertionDate q.filter
    mkListing (groupRows q.groupLvl sel) (fun r => some (.str r.account)) encVolRow
      (fun r => Json.str (r.account ++ "|" ++ r.asset)) o column
  | _ => throw .invalidQuery

def listKind (res : String) : String :=
  match res with
  | "accounts" => "listAccounts" | "transactions" => "listTransactions" | "logs" => "listLogs" | _ => "volumes"

def nth {α : Type} [Inhabited α] (l : List α) (i : Nat) : α := l.getD i default

/-- The pages of a listing: forward (following `next`) and backward (following `previous` from
    the last forward page), as index lists. -/
def pagesOf (ls : Listing) (pageSize : Nat) : List PageOut × List PageOut :=
  walkPages ls.column ls.order pageSize (toRows ls.keys)

/-! ### comparison helpers -/

/-- Equal up to the order inside runs of equal sort keys (expected order = `exp`). -/
def eqUpToTiesGo : Nat → List SKey → List Json → List Json → Bool
  | 0, _, _, _ => false
  | _, [], _, _ => true
  | fuel + 1, k :: ks, e, a =>
    let n := (ks.takeWhile (· == k)).length + 1
    (e.take n).isPerm (a.take n) && eqUpToTiesGo fuel (ks.drop (n - 1)) (e.drop n) (a.drop n)

def eqUpToTies (keys : List SKey) (exp act : List Json) : Bool :=
  exp.length == act.length && eqUpToTiesGo (keys.length + 1) keys exp act

def arrOf (j : Json) (k : String) : List Json :=
  match j.getObjVal? k with
  | .ok (.arr a) => a.toList
  | _ => []

def boolOf (j : Json) (k : String) : Bool :=
  match j.getObjVal? k with
  | .ok (.bool b) => b
  | _ => false

def hasKey (j : Json) (k : String) : Bool := (j.getObjVal? k).toOption.isSome

def strOf (j : Json) (k : String) : String := optStrField j k

def bigOf (j : Json) (k : String) : Int := (optStrField j k).toInt?.getD 0

/-- One checked query. -/
structure Check where
  agree : Bool
  prop : Bool := true
  sig : String := ""
  tags : List String := []
  note : String := ""
  model : Json := Json.null

def shapeOf (q : RQuery) : String :=
  q.k ++ (if q.res != "" then ":" ++ q.res else "") ++
    (if q.pit.isSome then ",pit" else "") ++ (if q.oot.isSome then ",oot" else "") ++
    (if q.insertionDate then ",ins" else "") ++ (if q.groupLvl > 0 then ",grp" else "") ++
    (if q.filter.isSome then ",filter" else "") ++
    (if q.expand.contains "volumes" then ",xv" else "") ++ (if q.expand.contains "effectiveVolumes" then ",xe" else "") ++
    (if q.sort != "" then ",sort=" ++ q.sort else "") ++
    (match q.order with | some .asc => ",asc" | some .desc => ",desc" | none => "")

/-- Σ over the rows of (input − output) per asset is 0. -/
def conservedRows (rows : List Json) : Bool :=
  ((rows.map (strOf · "asset")).eraseDups).all fun a =>
    ((rows.filter (strOf · "asset" == a)).map fun r => bigOf r "input" - bigOf r "output").sum == 0

def assetVolsOf (acct : Json) (k : String) : List Json :=
  (arrOf acct k).map fun v => v.setObjVal! "account" (strOf acct "address")

/-- Filter-entity null sensitivity of a listing (tag). -/
def anyNullSensitive (feat : Features) (s : RState) (kind : String) (q : RQuery) : Bool :=
  match kind with
  | "listAccounts" => (accountsAt feat s.ledger q.pit).any fun v =>
      nullSensitive true q.filter (accountEntity v (accountBalances s.ledger q.pit v.address))
  | "listTransactions" => (transactionsAt feat s.ledger q.pit).any fun v => nullSensitive true q.filter (txEntity v)
  | _ => false

/-- Identities of the rows the filter selects under the DOCUMENTED meaning of `$in` on
    `metadata[k]` (membership), for the listings where the real code renders a containment that
    never matches. `none` = not applicable (grouped volumes, logs, errors). -/
def docMetaInIds (feat : Features) (s : RState) (kind : String) (q : RQuery) : Option (List Json) :=
  let l := s.ledger
  match kind with
  | "listAccounts" => some (((accountsAt feat l q.pit).filter fun v =>
      selectsV .membership true q.filter (accountEntity v (accountBalances l q.pit v.address))).map fun v => Json.str v.address)
  | "listTransactions" => some (((transactionsAt feat l q.pit).filter fun v =>
      selectsV .membership true q.filter (txEntity v)).map fun v => (v.id : Json))
  | "volumes" =>
    if q.groupLvl > 0 then none else
    match volumesDataset feat l q.pit q.oot q.insertionDate with
    | .error _ => none
    | .ok rows =>
      let windowed := q.pit.isSome || q.oot.isSome
      some ((rows.filter fun r => selectsV .membership false q.filter
        (volEntity r (volMetaRead feat l windowed q.pit r.account) ((firstUsage l r.account).getD 0))).map
        fun r => Json.str (r.account ++ "|" ++ r.asset))
  | _ => none

def rowId (kind : String) (r : Json) : Json :=
  match kind with
  | "listAccounts" => Json.str (strOf r "address")
  | "volumes" => Json.str (strOf r "account" ++ "|" ++ strOf r "asset")
  | _ => (r.getObjVal? "id").toOption.getD Json.null

/-- Tags `f:<field>:<operator>` of the leaves of a filter (input distribution). -/
def leafTags (f : Option Filter) : List String :=
  match f with
  | none => []
  | some f => (f.leaves.map fun l => s!"f:{(splitKey l.2.1).1}{if (splitKey l.2.1).2.isSome then "[]" else ""}:{l.1.toString}").eraseDups

def errOf (ans : Json) : Option String :=
  match ans.getObjVal? "err" with
  | .ok (.str e) => some e
  | _ => none

def mismatch (prefix_ : String) (q : RQuery) (what : String) (model : Json) (tags : List String := []) : Check :=
  { agree := false, sig := s!"{prefix_}:{shapeOf q}:{what}", tags, model,
    note := s!"{what} differs for {shapeOf q}" }

/-! ### the property predicates on one REAL list answer -/

/-- The account's documented metadata at `pit` (C17): the fold of the writes dated ≤ pit when the
    history feature is on, the current metadata otherwise. -/
def docAccountMeta (feat : Features) (l : Ledger) (a : String) (pit : Option Int) : Metadata :=
  match pit with
  | some t => if feat.acctMetaHist then metaAt l (.account a) (some t) else metaAt l (.account a) none
  | none => metaAt l (.account a) none

/-- Accounts that exist at `pit` under C18's documented first usage. -/
def docAccountsAt (l : Ledger) (pit : Option Int) : List String :=
  l.accounts.filter fun a =>
    match docFirstUsage l a, pit with
    | some fu, some t => decide (fu ≤ t)
    | some _, none => true
    | none, _ => false

/-- The predicates of property `pid` on a real accounts / transactions / volumes page
    (`complete`: the page holds the whole, unfiltered listing). Returns (holds, stable reason). -/
def listPredicates (pid : String) (feat : Features) (l : Ledger) (kind : String) (q : RQuery) (complete : Bool)
    (data : List Json) : Bool × String :=
  match kind, pid with
  | "listAccounts", "C05" =>
    let fu := match q.pit with
      | some t => data.all fun a => (optInt a "firstUsage").getD 0 ≤ t
      | none => true
    -- every account used (in effective time) at or before `pit` is listed
    let all := !complete || (data.map (strOf · "address")).isPerm (docAccountsAt l q.pit)
    -- conservation per asset of the expanded *effective* volumes of a complete, unfiltered listing
    -- (an account first used after `pit` in effective time may already hold inserted moves, so
    -- the insertion-date volumes of the listed accounts need not sum to zero)
    let cons := !complete || conservedRows (data.flatMap (assetVolsOf · "effectiveVolumes"))
    (fu && all && cons, if !fu then "C05:pit-accounts:first-usage-after-pit"
      else if !all then "C05:pit-accounts-miss-revert-only-usage" else "C05:pit-accounts:effective-volumes-not-conserved")
  | "listAccounts", "C18" =>
    let ok := data.all fun a => optInt a "firstUsage" == docFirstUsage l (strOf a "address") &&
      optInt a "insertionDate" == insertionDate l (strOf a "address")
    (ok, "C18:first-usage-not-earliest-effective-timestamp")
  | "listAccounts", "C17" =>
    let ok := data.all fun a => (a.getObjVal? "metadata").toOption == some (encMeta (docAccountMeta feat l (strOf a "address") q.pit))
    (ok, "C17:account-metadata-at-pit:not-the-fold-at-t")
  | "listTransactions", "C17" =>
    let ok := data.all fun x =>
      let id := ((optInt x "id").getD 0).toNat
      (x.getObjVal? "metadata").toOption == some (encMeta (txMetaDoc l id (if feat.txMetaHist then q.pit else none)))
    (ok, "C17:transaction-metadata-at-pit:not-the-fold-at-t")
  | "listTransactions", "C05" =>
    let ok := match q.pit with
      | some t => data.all fun x => (optInt x "timestamp").getD 0 ≤ t &&
          (match optInt x "revertedAt" with | some r => r ≤ t | none => true)
      | none => true
    (ok, "C05:pit-transactions:timestamp-or-reverted-after-pit")
  | "volumes", "C05" | "volumes", "C02" | "volumes", "C04" | "volumes", "C01" =>
    let cons := q.filter.isSome || conservedRows data
    let bal := data.all fun r => bigOf r "balance" == bigOf r "input" - bigOf r "output"
    (cons && bal, if !cons then s!"{pid}:volumes-listing:not-conserved" else s!"{pid}:volumes-listing:balance-not-input-minus-output")
  | _, _ => (true, "")

/-! ### answering one query -/

def checkList (pid : String) (feat : Features) (s : RState) (kind : String) (q : RQuery) (ans : Json) : Check :=
  let tags := ["q:" ++ kind] ++ (if boolOf ans "ties" then ["ties-flagged"] else [])
  match listingOf feat s kind q with
  | .error e =>
    if errOf ans == some e.toString then { agree := true, tags := tags ++ ["err:" ++ e.toString] }
    else mismatch pid q ("expected-error-" ++ e.toString) (encErrAns e) tags
  | .ok ls =>
    match errOf ans with
    | some e => mismatch pid q ("unexpected-error-" ++ (e.takeWhile (· != ':')).toString) (Json.arr ls.rows.toArray) tags
    | none =>
      let (fwd, _) := pagesOf ls q.pageSize
      let first := fwd.head?.getD { tags := [], hasMore := false, next := false, previous := false }
      let expRows := first.tags.map (nth ls.rows)
      let expKeys := first.tags.map (nth ls.keys)
      let data := arrOf ans "data"
      let exact := expRows == data
      let same := exact || eqUpToTies expKeys expRows data
      let more := boolOf ans "hasMore" == first.hasMore
      let countOk := !q.count || (match ans.getObjVal? "count" with
        | .ok c => c == ((ls.rows.length : Nat) : Json)
        | .error _ => false)
      -- the property's own predicates on the real answer
      let countProp := !q.count || first.hasMore || (match ans.getObjVal? "count" with
        | .ok c => c == ((data.length : Nat) : Json)
        | .error _ => false)
      let complete := q.filter.isNone && !first.hasMore && ls.rows.length == data.length
      let (pp, why) := listPredicates pid feat s.ledger kind q complete data
      let countProp := countProp || pid != "C20"
      -- C20 under the documented meaning of `$in` on metadata[k] (membership)
      let metaInOk := pid != "C20" || !usesMetaIn q.filter || first.hasMore || (match docMetaInIds feat s kind q with
        | some ids => ids.isPerm (data.map (rowId kind))
        | none => true)
      let pp := pp && metaInOk
      let why := if metaInOk then why else "C20:metadata-in-never-matches"
      let prop := countProp && pp
      let tags := tags ++ (if !exact && same then ["ties-reordered"] else []) ++
        (if data.isEmpty then ["empty"] else []) ++
        (if q.filter.isSome && !data.isEmpty && data.length < (match listingOf feat s kind { q with filter := none } with
            | .ok all => all.rows.length | .error _ => 0) then ["filter-proper-subset"] else []) ++
        (if anyNullSensitive feat s kind q then ["null-under-not"] else []) ++
        (if pid == "C20" then leafTags q.filter else [])
      if same && more && countOk then
        { agree := true, prop, tags,
          sig := if prop then "" else if !countProp then s!"C20:{kind}:count-ne-listed" else why,
          note := if prop then "" else s!"predicate failed on the real answer ({shapeOf q}): {if !countProp then "count-ne-listed" else why}" }
      else
        { mismatch pid q (if !same then "rows" else if !more then "hasMore" else "count")
            (Json.mkObj [("data", Json.arr expRows.toArray), ("hasMore", first.hasMore), ("count", (ls.rows.length : Nat))]) tags
          with prop }

def checkGetAccount (pid : String) (feat : Features) (s : RState) (q : RQuery) (ans : Json) : Check :=
  let l := s.ledger
  let tags := ["q:getAccount"] ++ (if q.pit.isSome && feat.acctMetaHist then ["meta-history"] else [])
  let expected : Except Reads.RErr AccountView := do
    let sel ← accountsSelected feat l q.pit (some (.leaf .match_ "address" (.sc (.str q.address))))
    accountExpandCheck feat q.pit.isSome (sortStrings q.expand)
    match sel.head? with
    | some v => pure (expandAccount l q.pit q.expand v)
    | none => throw .notFound
  -- C05 on the real answer: the account is found iff its documented first usage is ≤ pit
  let docExists := (docAccountsAt l q.pit).contains q.address
  match expected with
  | .error e =>
    if errOf ans == some e.toString then
      let c05 := pid != "C05" || e != .notFound || !docExists
      { agree := true, prop := c05, tags := tags ++ ["err:" ++ e.toString],
        sig := if c05 then "" else "C05:pit-accounts-miss-revert-only-usage",
        note := if c05 then "" else s!"account {q.address} not found at pit although a committed (revert) transaction uses it at or before pit" }
    else mismatch pid q ("expected-error-" ++ e.toString) (encErrAns e) tags
  | .ok v =>
    let real := (ans.getObjVal? "account").toOption.getD Json.null
    let c17 := pid != "C17" || (real.getObjVal? "metadata").toOption == some (encMeta (docAccountMeta feat l q.address q.pit))
    let c18 := pid != "C18" || (optInt real "firstUsage" == docFirstUsage l q.address && optInt real "insertionDate" == insertionDate l q.address)
    if real == encAccount v then
      { agree := true, prop := c17 && c18, tags,
        sig := if !c17 then "C17:account-metadata-at-pit:not-the-fold-at-t" else if !c18 then "C18:first-usage-not-earliest-effective-timestamp" else "",
        note := if !c17 then s!"account {q.address}: metadata read at pit is not metaAt (fold of the writes dated ≤ pit)"
                else if !c18 then s!"account {q.address}: first usage is not the earliest effective timestamp of the committed transactions involving it" else "" }
    else
      let m := mismatch pid q "account" (encAccount v) tags
      -- a failing predicate keeps its own stable signature
      { m with prop := c17 && c18,
               sig := if !c17 then "C17:account-metadata-at-pit:not-the-fold-at-t"
                      else if !c18 then "C18:first-usage-not-earliest-effective-timestamp" else m.sig }

def checkGetTransaction (pid : String) (feat : Features) (s : RState) (q : RQuery) (ans : Json) : Check :=
  let l := s.ledger
  let tags := ["q:getTransaction"]
  let expected : Except Reads.RErr TxView := do
    let sel ← transactionsSelected feat l q.pit (some (.leaf .match_ "id" (.sc (.int q.id))))
    txExpandCheck feat (sortStrings q.expand)
    match sel.head? with
    | some v => pure (expandTx l q.expand v)
    | none => throw .notFound
  match expected with
  | .error e =>
    if errOf ans == some e.toString then { agree := true, tags := tags ++ ["err:" ++ e.toString] }
    else mismatch pid q ("expected-error-" ++ e.toString) (encErrAns e) tags
  | .ok v =>
    let real := (ans.getObjVal? "transaction").toOption.getD Json.null
    let c17 := pid != "C17" ||
      (real.getObjVal? "metadata").toOption == some (encMeta (txMetaDoc l q.id (if feat.txMetaHist then q.pit else none)))
    if real == encTx v then
      { agree := true, prop := c17, tags, sig := if c17 then "" else "C17:transaction-metadata-at-pit:not-the-fold-at-t" }
    else mismatch pid q "transaction" (encTx v) tags

def checkAggregated (pid : String) (feat : Features) (s : RState) (q : RQuery) (ans : Json) : Check :=
  let tags := ["q:aggregated"]
  match (if q.filterErr then .error .invalidQuery else aggregatedSelected feat s.ledger q.pit q.insertionDate q.filter) with
  | .error e =>
    if errOf ans == some e.toString then { agree := true, tags := tags ++ ["err:" ++ e.toString] }
    else mismatch pid q ("expected-error-" ++ e.toString) (encErrAns e) tags
  | .ok rows =>
    let exp := Json.mkObj ((aggregate rows).map fun (a, v) => (a, Json.str (toString v.balance)))
    let real := (ans.getObjVal? "balances").toOption.getD Json.null
    -- C01/C05: without filter every aggregated balance is 0
    let prop := q.filter.isSome || (match real with
      | .obj kvs => kvs.toList.all fun (_, v) => v == Json.str "0"
      | _ => false)
    if real == exp then
      { agree := true, prop, tags, sig := if prop then "" else s!"{pid}:aggregated:not-conserved" }
    else
      let m := mismatch pid q "balances" exp tags
      { m with prop, sig := if prop then m.sig else s!"{pid}:aggregated:not-conserved" }

def encPageOut (ls : Listing) (p : PageOut) : Json :=
  Json.mkObj [("keys", Json.arr (p.tags.map (nth ls.ids)).toArray), ("hasMore", p.hasMore),
    ("next", p.next), ("previous", p.previous)]

def keysOfPage (p : Json) : List Json := arrOf p "keys"

def checkWalk (feat : Features) (s : RState) (q : RQuery) (ans : Json) : Check :=
  let kind := listKind q.res
  let tags := ["q:walk:" ++ q.res] ++
    (if q.res == "volumes" then
      [s!"walk:volumes:{if q.groupLvl > 0 then s!"group{q.groupLvl}" else "flat"}{if q.pit.isSome then "+pit" else ""}{if q.oot.isSome then "+oot" else ""}{if q.filter.isSome then "+filter" else ""}"]
     else [])
  match listingOf feat s kind q with
  | .error e =>
    if errOf ans == some e.toString then { agree := true, tags := tags ++ ["err:" ++ e.toString] }
    else mismatch "C21" q ("expected-error-" ++ e.toString) (encErrAns e) tags
  | .ok ls =>
    match errOf ans with
    | some e => mismatch "C21" q ("unexpected-error-" ++ (e.takeWhile (· != ':')).toString) Json.null tags
    | none =>
      let (fwd, back) := pagesOf ls q.pageSize
      let rfwd := arrOf ans "pages"
      let rback := arrOf ans "back"
      let keysDistinct := ls.keys.eraseDups.length == ls.keys.length
      -- C21 speaks of listings sorted by a unique key. A column-paginated walk over a sort column
      -- with ties (transactions by timestamp) is outside it: the real paginator may repeat or skip
      -- rows there (`>= paginationID` restarts inside the tie) — recorded as a tag only.
      if !keysDistinct && ls.column then
        let allKeys := (arrOf ans "pages").flatMap keysOfPage
        { agree := true, tags := tags ++ [if allKeys.isPerm ls.ids then "nonunique-sort-walk:complete" else "nonunique-sort-walk:repeats-or-skips"] }
      else
      -- the property on the REAL pages: the concatenation lists every matching entity exactly once,
      -- in the requested order; no page exceeds the page size; the last page has no `next`;
      -- following `previous` from the last page walks the same pages backwards
      let allKeys := rfwd.flatMap keysOfPage
      -- with ties in the sort column (volumes: several assets per account) the rows of one account
      -- may come in any order, but the accounts themselves must be in the requested order
      let acctOf (j : Json) : String := match j with
        | .str k => (k.splitOn "|").headD ""
        | _ => ""
      let accts := allKeys.map acctOf
      let inOrder := (accts.zip (accts.drop 1)).all fun (a, b) =>
        match ls.order with | .asc => decide (a ≤ b) | .desc => decide (b ≤ a)
      let once := if keysDistinct then allKeys == ls.ids
                  else allKeys.length == ls.ids.length && allKeys.isPerm ls.ids && inOrder
      let sizes := rfwd.all fun p => (keysOfPage p).length ≤ effPageSize q.pageSize
      let lastOk := match rfwd.getLast? with | some p => !boolOf p "next" | none => false
      let backOk := (rback.map keysOfPage) == ((rfwd.dropLast.reverse).map keysOfPage) || !keysDistinct
      let prop := once && sizes && lastOk && backOk
      let why := if !once then "pages-not-each-once-in-order" else if !sizes then "page-too-long"
                 else if !lastOk then "last-page-has-next" else "previous-not-page-before"
      -- agreement with the paginator model (exact for unique sort keys; page boundaries may
      -- fall inside a tie otherwise)
      let agree := if keysDistinct then rfwd == fwd.map (encPageOut ls) && rback == back.map (encPageOut ls)
                   else rfwd.length == fwd.length
      let tags := tags ++ [s!"pages:{if fwd.length ≥ 4 then "4+" else toString fwd.length}"] ++
        (if !keysDistinct then ["tie-keys"] else []) ++ (if back.isEmpty then [] else ["walked-back"]) ++
        (if boolOf ans "ties" then ["ties-flagged"] else [])
      if agree then
        { agree, prop, tags, sig := if prop then "" else s!"C21:{shapeOf q}:prop:{why}",
          note := if prop then "" else why }
      else { mismatch "C21" q "pages" (Json.mkObj [("pages", Json.arr (fwd.map (encPageOut ls)).toArray),
                ("back", Json.arr (back.map (encPageOut ls)).toArray)]) tags with prop }

/-! ### RunQuery through builder-query's model -/

def varValOfDefault : Json → VarVal
  | .str s => .str s
  | .bool b => .bool b
  | .null => .null
  | .num n => if n.exponent == 0 then .num (toString n.mantissa) else .other
  | _ => .other

/-- A stored template (`schema.Queries[id]`) from its JSON. -/
def decStoredTemplate (j : Json) : Except String StoredTemplate := do
  let resource ← strField j "resource"
  let body ← match j.getObjVal? "body" with
    | .ok b => (Q.parseBuilder b).mapError fun e => "template body: " ++ e
    | .error _ => pure none
  let vars ← (Q.objPairsT ((j.getObjVal? "vars").toOption.getD Json.null)).mapM fun (k, d) => do
    match d with
    | .str ts => match Q.ftypeOfString ts with
      | some t => pure (k, ({ type := t } : VarDecl))
      | none => throw "decl type"
    | _ => match Q.ftypeOfString (optStrField d "type") with
      | some t => pure (k, ({ type := t, default := varValOfDefault ((d.getObjVal? "default").toOption.getD Json.null) } : VarDecl))
      | none => throw "decl type"
  let params ← match j.getObjVal? "params" with
    | .ok pj => (Q.parseParams (resource == "volumes") pj.compress).mapError fun e => "template params: " ++ e
    | .error _ => pure none
  pure { tmpl := { resource, body, vars }, params }

/-- The variables of a run (`{"t": type, "v": value, "float": bool}` per variable). -/
def decCallVars (j : Json) : Vars :=
  (Q.objPairsT j).map fun (k, v) =>
    let val := (v.getObjVal? "v").toOption.getD Json.null
    (k, match optStrField v "t" with
      | "int" =>
        let lit := match val with | .str s => s | .num n => toString n.mantissa | _ => ""
        if optBool v "float" then (match lit.toInt? with | some i => VarVal.float i 0 | none => .other) else .num lit
      | "boolean" => (match val with | .bool b => .bool b | _ => .other)
      | _ => (match val with | .str s => .str s | _ => .other))

def rqueryOfList (res : String) (lq : ListQuery) : RQuery :=
  { k := listKind res, res, pit := lq.pit, oot := lq.oot, insertionDate := lq.insertionDate, groupLvl := lq.groupLvl,
    filter := lq.filter, expand := lq.expand, sort := lq.sort, order := lq.order, pageSize := lq.pageSize }

def sameQuery (a b : RQuery) : Bool :=
  a.pit == b.pit && a.oot == b.oot && a.insertionDate == b.insertionDate && a.groupLvl == b.groupLvl &&
  (a.filter.map Q.filterToJson) == (b.filter.map Q.filterToJson) && sortStrings a.expand == sortStrings b.expand &&
  a.sort == b.sort && a.order == b.order && a.pageSize == b.pageSize

def checkRunQuery (feat : Features) (s : RState) (tmpl : Option Json) (qj : Json) (q : RQuery) (direct : Option RQuery) (ans : Json) : Check :=
  let tags := ["q:runquery:" ++ q.res]
  let run := arrOf ans "run"
  let dir := arrOf ans "direct"
  -- the property on the REAL answers: RunQuery = the equivalent direct list call, page by page
  let same := errOf ans == none && !(hasKey ans "directErr") && run.length == dir.length &&
    (run.zip dir).all fun (a, b) => arrOf a "data" == arrOf b "data" && boolOf a "hasMore" == boolOf b "hasMore" &&
      (a.getObjVal? "pageSize").toOption == (b.getObjVal? "pageSize").toOption
  let bothErr := (errOf ans).isSome && run.isEmpty && dir.isEmpty &&
    (ans.getObjVal? "directErr").toOption == (ans.getObjVal? "err").toOption
  let prop := direct.isNone || same || bothErr
  -- the model: builder-query's RunQuery (resolveTemplate + Overwrite + templateParamsToQuery) ending in
  -- the list endpoint of Ledger.Reads
  let modelTarget : Except String (String × ListQuery) :=
    match tmpl with
    | none => .error "unknown-template"
    | some tj =>
      match decStoredTemplate tj with
      | .error e => .error e
      | .ok st =>
        match (match qj.getObjVal? "params" with
            | .ok pj => Q.parseParams (st.tmpl.resource == "volumes") pj.compress
            | .error _ => .ok none) with
        | .error e => .error ("params: " ++ e)
        | .ok rp =>
          match runQueryVia (fun _ lq => lq) st (decCallVars ((qj.getObjVal? "vars").toOption.getD Json.null)) rp with
          | .error _ => .error "rejected"
          | .ok r => .ok r
  match modelTarget with
  | .error e =>
    let agree := (errOf ans).isSome
    { agree, prop, tags := tags ++ ["model-rejects:" ++ e],
      sig := if !agree then s!"C37:runquery:{q.res}:expected-error" else if prop then "" else s!"C37:runquery:{q.res}:prop:run-ne-direct" }
  | .ok (res, lq) =>
    let mq := rqueryOfList res lq
    let resolvedSame := match direct with | some d => sameQuery mq d | none => true
    let tags := tags ++ [if resolvedSame then "resolve=generator" else "resolve≠generator"]
    match listingOf feat s (listKind res) mq with
    | .error e =>
      let agree := errOf ans == some e.toString
      { agree, prop, tags := tags ++ ["err:" ++ e.toString],
        sig := if agree && prop then "" else s!"C37:{shapeOf mq}:{if agree then "prop:run-ne-direct" else "expected-error"}" }
    | .ok ls =>
      let (fwd, _) := pagesOf ls mq.pageSize
      let keysDistinct := ls.keys.eraseDups.length == ls.keys.length
      let expPages := fwd.map fun p => p.tags.map (nth ls.rows)
      let kindOk := run.all fun p => strOf p "kind" == res
      let agree := errOf ans == none && kindOk && resolvedSame &&
        (if keysDistinct then run.map (arrOf · "data") == expPages
         else (run.flatMap (arrOf · "data")).isPerm ls.rows)
      let tags := tags ++ [s!"pages:{if fwd.length ≥ 3 then "3+" else toString fwd.length}"] ++
        (if ls.rows.isEmpty then ["empty"] else [])
      if agree then
        { agree, prop, tags, sig := if prop then "" else s!"C37:{shapeOf mq}:prop:run-ne-direct",
          note := if prop then "" else "RunQuery and the direct list call differ" }
      else { mismatch "C37" mq (if resolvedSame then "run-pages" else "resolved-query")
               (Json.arr (expPages.map fun p => Json.arr p.toArray).toArray) tags with prop }

def checkQuery (pid : String) (feat : Features) (s : RState) (templates : List (String × Json)) (qj : Json) (ans : Json) : Except String Check := do
  let q ← decQuery qj
  if hasKey ans "panic" then
    return { agree := false, prop := false, sig := s!"{pid}:{q.k}{if q.res != "" then ":" ++ q.res else ""}:panic", tags := ["panic"],
             note := "the real code panicked: " ++ strOf ans "panic" }
  match q.k with
  | "getAccount" => pure (checkGetAccount pid feat s q ans)
  | "getTransaction" => pure (checkGetTransaction pid feat s q ans)
  | "aggregated" => pure (checkAggregated pid feat s q ans)
  | "listAccounts" | "listTransactions" | "listLogs" | "volumes" => pure (checkList pid feat s q.k q ans)
  | "walk" => pure (checkWalk feat s q ans)
  | "runquery" =>
    let direct ← match qj.getObjVal? "direct" with
      | .ok .null | .error _ => pure none
      | .ok d => do pure (some (← decQuery d))
    let key := optStrField qj "schemaVersion" ++ "/" ++ optStrField qj "template"
    pure (checkRunQuery feat s (templates.lookup key) qj q direct ans)
  | k => throw s!"unknown query kind {k}"

/-! ### the handler -/

def decStep (j : Json) : Except String ROp := do
  if optStrField j "op" == "schema" then pure (.schema (← intField j "at"))
  else pure (.spec (← decOp j).1)

def opTag : ROp → String
  | .spec (.tx ..) => "op:tx" | .spec (.revert ..) => "op:revert" | .spec (.saveMeta ..) => "op:saveMeta"
  | .spec (.deleteMeta ..) => "op:deleteMeta" | .schema _ => "op:schema"

structure Acc where
  s : RState := {}
  results : List String
  answers : List Json
  agree : Bool := true
  prop : Bool := true
  sig : String := ""
  note : String := ""
  model : Json := Json.null
  tags : List String := []
  nq : Nat := 0
  /-- `version/id` → stored query template -/
  templates : List (String × Json) := []

def stepAcc (pid : String) (feat : Features) (a : Acc) (j : Json) : Except String Acc := do
  match j.getObjVal? "q" with
  | .ok qj =>
    match a.answers with
    | [] => throw "fewer answers than queries"
    | ans :: rest =>
      let c ← checkQuery pid feat a.s a.templates qj ans
      let first := a.agree && a.prop
      let bad := !(c.agree && c.prop)
      -- the signature of the case: the first failing predicate if any (that is what known findings
      -- are matched on), else the first disagreement
      let firstProp := a.prop && !c.prop
      pure { a with answers := rest, agree := a.agree && c.agree, prop := a.prop && c.prop, nq := a.nq + 1,
                    sig := if firstProp || (first && bad) then c.sig else a.sig,
                    note := if firstProp || (first && bad) then s!"query #{a.nq}: {c.note}" else a.note,
                    model := if firstProp || (first && bad) then c.model else a.model,
                    tags := a.tags ++ c.tags.filter (fun t => !a.tags.contains t) }
  | .error _ =>
    let op ← decStep j
    match a.results with
    | [] => throw "fewer results than writes"
    | r :: rest =>
      let (s', o) := a.s.step op
      let ok := r == o.toString
      let first := a.agree && a.prop
      let ts := [opTag op, "res:" ++ o.toString]
      let newT := if optStrField j "op" == "schema" && r == "ok" then
          (Q.objPairsT ((j.getObjVal? "queries").toOption.getD Json.null)).map fun (id, t) => (optStrField j "version" ++ "/" ++ id, t)
        else []
      pure { a with s := s', results := rest, agree := a.agree && ok, templates := newT ++ a.templates,
                    sig := if first && !ok then s!"reads:write-outcome:{opTag op}:model={o.toString}" else a.sig,
                    note := if first && !ok then s!"write outcome: real {r}, model {o.toString}" else a.note,
                    tags := a.tags ++ ts.filter (fun t => !a.tags.contains t) }

def handleReads : Handler := fun inp out => do
  let feat := featOf ((inp.getObjVal? "features").toOption.getD Json.null)
  let workload := optStrField inp "workload"
  let steps ← arrField inp "steps"
  let results ← strArrField out "results"
  let answers ← arrField out "answers"
  if optStrField out "err" != "" then throw ("harness error: " ++ optStrField out "err")
  let pid := match optStrField inp "prop", workload with
    | "", "filter" => "C20" | "", "page" => "C21" | "", "runquery" => "C37" | "", "meta" => "C17" | "", "gates" => "C35" | "", _ => "C05"
    | p, _ => p
  let a ← steps.foldlM (stepAcc pid feat) { results, answers }
  let txs := a.s.txs
  let nonWorld := (involvedOf (allPostings txs)).filter (· != "world")
  let backdated := (txs.zip (txs.drop 1)).any fun (x, y) => y.timestamp < x.timestamp
  pure { model := a.model, agree := a.agree, prop := a.prop,
         nontrivial := txs.length ≥ 1 && nonWorld.length ≥ 2 && a.nq ≥ 1,
         tags := [featTag feat, "wl:" ++ workload, "prop:" ++ pid] ++ (if optBool inp "sibling" then ["sibling-ledger-in-bucket"] else ["alone-in-bucket"]) ++ a.tags ++ (if backdated then ["back-dated"] else []),
         sig := a.sig, note := a.note }

def readsHandlers : List (String × Handler) := [("reads", handleReads)]

end Ledger.Driver.Reads
