import Ledger.Driver.Core
import Ledger.Api.Vars

/-! Shared plumbing of the Api handlers: tagged JSON trees → `JVal`. -/
namespace Ledger.Driver.Api
open Lean Ledger.Api Ledger.Driver

def digitsOfString (s : String) : Except String (List Nat) :=
  s.toList.mapM fun c =>
    match charDigit? c with
    | some d => pure d
    | none => throw s!"not a digit string: {s}"

/-- The harness's `JNum` record. -/
def jnumOfJson (j : Json) : Except String JNum := do
  let neg ← boolField j "neg"
  let int ← digitsOfString (← strField j "int")
  let frac ← digitsOfString (← strField j "frac")
  let exps ← strField j "exp"
  let exp ← if exps = "" then pure none else
    let t := if exps.startsWith "+" then (exps.drop 1).toString else exps
    match t.toInt? with
    | some e => pure (some e)
    | none => throw s!"bad exponent {exps}"
  pure { neg, int := ofDigits int, frac, exp }

/-- The harness's tagged tree (`wlapi.JT`). -/
partial def jvalOfJson (j : Json) : Except String JVal := do
  let t ← strField j "t"
  match t with
  | "null" => pure .null
  | "bool" => pure (.bool ((j.getObjVal? "b").toOption.bind (·.getBool?.toOption) |>.getD false))
  | "str" => pure (.str (optStrField j "s"))
  | "num" => pure (.num (← jnumOfJson (← field j "n")))
  | "arr" => pure (.arr (← (← arrField j "a").mapM jvalOfJson))
  | "obj" =>
    let ks ← strArrField j "k"
    let vs ← (← arrField j "a").mapM jvalOfJson
    if ks.length ≠ vs.length then throw "obj: k/a length mismatch"
    pure (.obj (ks.zip vs))
  | _ => throw s!"unknown tag {t}"

/-- Optional tagged tree: JSON `null` / missing = absent. -/
def optJvalField (j : Json) (k : String) : Except String (Option JVal) :=
  match j.getObjVal? k with
  | .ok .null => pure none
  | .ok v => some <$> jvalOfJson v
  | .error _ => pure none

def jsonOfStrMap (m : List (String × String)) : Json :=
  Json.mkObj (m.map fun (k, v) => (k, Json.str v))

/-- A JSON object of strings as a sorted association list. -/
def strMapOfJson (j : Json) : Except String (List (String × String)) :=
  match j with
  | .obj kvs => kvs.toList.mapM fun (k, v) => do pure (k, ← v.getStr?)
  | .null => pure []
  | _ => throw "not an object"

def sortMap (m : List (String × String)) : List (String × String) :=
  m.mergeSort (fun a b => a.1 ≤ b.1)

end Ledger.Driver.Api
