import Ledger.Driver.ApiCommon
import Ledger.Driver.ApiHttp
import Ledger.Api.TxBody
import Ledger.Api.Cursor
import Ledger.Driver.ApiVars

/-! Handlers "txbody" (C38 predicate) and "txbody36" (C36 predicate): bodies of the
write endpoints through the real handlers; the model predicts status, error code
and the exact controller calls. -/
namespace Ledger.Driver.Api
open Lean Ledger.Api Ledger.Driver

def strMapJson (m : List (String × String)) : Json := Json.mkObj (m.map fun (k, v) => (k, Json.str v))

def createCallJson (ik : String) (c : CreateCall) : Json :=
  Json.mkObj [("method", "CreateTransaction"), ("ik", ik), ("plain", c.plain), ("template", c.template),
    ("vars", strMapJson c.vars),
    -- the zero time is "no timestamp" for the controller
    ("timestamp", if c.timestamp = "0001-01-01T00:00:00Z" then "" else c.timestamp), ("reference", c.reference),
    ("metadata", strMapJson c.metadata),
    ("accountMetadata", Json.mkObj (c.accountMetadata.map fun (k, m) => (k, strMapJson m))),
    ("runtime", c.runtime)]

def bulkCallJson (ik : String) : BulkCall → Json
  | .create c => createCallJson ik c
  | .addAccountMetadata a m => Json.mkObj [("method", "SaveAccountMetadata"), ("ik", ik), ("address", a), ("metadata", strMapJson m)]
  | .addTransactionMetadata i m => Json.mkObj [("method", "SaveTransactionMetadata"), ("ik", ik), ("id", (i : Nat)), ("metadata", strMapJson m)]
  | .revert i f ae m => Json.mkObj [("method", "RevertTransaction"), ("ik", ik), ("id", (i : Nat)), ("force", f),
      ("atEffectiveDate", ae), ("metadata", strMapJson m)]
  | .deleteAccountMetadata a k => Json.mkObj [("method", "DeleteAccountMetadata"), ("ik", ik), ("address", a), ("key", k)]
  | .deleteTransactionMetadata i k => Json.mkObj [("method", "DeleteTransactionMetadata"), ("ik", ik), ("id", (i : Nat)), ("key", k)]

/-- The real call, reduced to the members the model predicts (`null` maps = `{}`). -/
def realCallJson (c : Json) : Json :=
  let m := optStrField c "method"
  let a := (c.getObjVal? "args").toOption.getD Json.null
  let get (k : String) : Json := (a.getObjVal? k).toOption.getD Json.null
  let objOrEmpty (k : String) : Json := match get k with | .null => Json.mkObj [] | j => j
  let base : List (String × Json) := [("method", m), ("ik", get "ik"), ("dryRun", get "dryRun"), ("schemaVersion", get "schemaVersion")]
  let rest : List (String × Json) :=
    if m = "CreateTransaction" then
      [("plain", get "plain"), ("template", get "template"), ("vars", objOrEmpty "vars"), ("timestamp", get "timestamp"),
       ("reference", get "reference"), ("metadata", objOrEmpty "metadata"),
       ("accountMetadata", match objOrEmpty "accountMetadata" with
          | .obj kvs => Json.mkObj (kvs.toList.map fun (k, v) => (k, match v with | .null => Json.mkObj [] | j => j))
          | j => j),
       ("runtime", get "runtime")]
    else if m = "RevertTransaction" then
      [("id", get "id"), ("force", get "force"), ("atEffectiveDate", get "atEffectiveDate"), ("metadata", objOrEmpty "metadata")]
    else if m = "SaveAccountMetadata" then [("address", get "address"), ("metadata", objOrEmpty "metadata")]
    else if m = "SaveTransactionMetadata" then [("id", get "id"), ("metadata", objOrEmpty "metadata")]
    else if m = "DeleteAccountMetadata" then [("address", get "address"), ("key", get "key")]
    else [("id", get "id"), ("key", get "key")]
  Json.mkObj (base ++ rest)

structure TxModel where
  status : Nat
  code : String := ""
  panic : Bool := false
  calls : List Json := []

def runBulk (pt : String → Option String) : List JVal → TxModel := fun els =>
  let outs := els.map (bulkElement pt)
  if outs.any (· == .decodeError) then { status := 400, code := "VALIDATION" } else
  let rec go : List BulkOutcome → List Json → List Json × Bool
    | [], acc => (acc.reverse, false)
    | .call ik c :: rest, acc => go rest (bulkCallJson ik c :: acc)
    | _ :: _, acc => (acc.reverse, true)
  let (calls, failed) := go outs []
  { status := if failed then 400 else 200, calls }

def txModel (kind : String) (pt : String → Option String) (force : Bool) (body : Option JVal) : TxModel :=
  let ofCreate (r : Res CreateCall) : TxModel :=
    match r with
    | .ok c => { status := 200, calls := [createCallJson "" c] }
    | .clientError k => { status := 400, code := k }
    | .fault _ => { status := 500, panic := true }
  match kind, body with
  | "createV1", some b => ofCreate (createV1 pt b)
  | "createV2", some b => ofCreate (createV2 pt force b)
  | "bulk", some (.arr els) => runBulk pt els
  | "bulk", some .null => { status := 200 }
  | "bulk", some _ => { status := 400, code := "VALIDATION" }
  | "revertV2", b =>
    (match revertBodyV2 b with
     | .ok m => { status := 201, calls := [Json.mkObj [("method", "RevertTransaction"), ("ik", ""), ("id", (7 : Nat)),
         ("force", false), ("atEffectiveDate", false), ("metadata", strMapJson m)]] }
     | _ => { status := 400, code := "VALIDATION" })
  | _, some b =>
    (match metadataBody b with
     | .ok m => { status := 204, calls := [Json.mkObj [("method", "SaveAccountMetadata"), ("ik", ""),
         ("address", "users:001"), ("metadata", strMapJson m)]] }
     | _ => { status := 400, code := "VALIDATION" })
  | _, none => { status := 400, code := "VALIDATION" }

/-- Amounts the client wrote in `postings` (integer literals), as `"ASSET amount"`. -/
def postedAmounts (body : JVal) : List String :=
  match body with
  | .obj kvs =>
    match getField kvs "postings" with
    | some (.arr ps) => ps.filterMap fun p =>
        match p with
        | .obj f =>
          (match getField f "asset", getField f "amount" with
           | some (.str a), some (.num n) => if n.isIntLit then some (a ++ " " ++ showIntS n.intVal) else none
           | _, _ => none)
        | _ => none
    | _ => []
  | _ => []

def handleTxbodyWith (c36 : Bool) : Handler := fun inp out => do
  let kind ← strField inp "kind"
  let body ← optJvalField inp "body"
  let force := (inp.getObjVal? "force").toOption.bind (·.getBool?.toOption) |>.getD false
  let times ← strMapOfJson ((inp.getObjVal? "times").toOption.getD Json.null)
  let pt : String → Option String := fun s =>
    match times.lookup s with
    | some "" | none => none
    | some t => some t
  let m0 := txModel kind pt force body
  -- request-level parameters (query string / headers) every write call must carry
  let dryRunRaw := optStrField inp "dryRun"
  let schemaVersion := optStrField inp "schemaVersion"
  let ikHeader := optStrField inp "ik"
  let isV1 := kind = "createV1" || kind = "metaV1"
  let upper (x : String) : String := String.ofList (x.toList.map fun c => if 97 ≤ c.toNat ∧ c.toNat ≤ 122 then Char.ofNat (c.toNat - 32) else c)
  let dryRun : Bool :=
    if kind = "bulk" then false
    else if isV1 then upper dryRunRaw = "YES" || upper dryRunRaw = "TRUE" || dryRunRaw = "1"
    else boolParam dryRunRaw
  let withParams (c : Json) : Json :=
    let c := c.setObjVal! "dryRun" dryRun
    let c := c.setObjVal! "schemaVersion" (if isV1 then "" else schemaVersion)
    if kind = "bulk" then c else c.setObjVal! "ik" ikHeader
  let m := { m0 with calls := m0.calls.map withParams }
  let gStatus ← intField out "status"
  let gCode := optStrField out "errorCode"
  let gPanic ← boolField out "panic"
  let gCalls := (← arrField out "calls").map realCallJson
  -- only numbers decoded into `any` (v2 script variables) go through float formatting
  let scriptVars (b : JVal) : List JVal :=
    match b with
    | .obj kvs => (match getField kvs "script" with
        | some (.obj sk) => (getField sk "vars").toList
        | _ => [])
    | _ => []
  let floatTrees : List JVal := match kind, body with
    | "createV2", some b => scriptVars b
    | "bulk", some (.arr els) => els.flatMap fun el =>
        (match el with
         | .obj kvs => (match getField kvs "data" with | some d => scriptVars d | none => [])
         | _ => [])
    | _, _ => []
  -- (no float formatting any more since ba56562: json.Number keeps the literal text)
  let exact := floatTrees.all fun _ => true
  let callsOk := !exact || (gCalls.length = m.calls.length && (gCalls.zip m.calls).all fun (a, b) => a == b)
  -- v1: a faulting and a rejected variable in the same `vars` object: Go's map order decides
  let mixed : Bool := kind = "createV1" && m.panic &&
    (match body with
     | some (.obj kvs) =>
       (match getField kvs "script" with
        | some (.obj sk) => (match getField sk "vars" with | some (.obj vk) => v1Mixed (mapOfList vk) | _ => false)
        | _ => false)
     | _ => false)
  let agree := (mixed && gStatus = 400 && gCode = "VALIDATION" && gCalls.isEmpty) || gStatus = m.status && gPanic = m.panic && (gStatus ≠ 400 || gCode = m.code || kind = "bulk") &&
    (if exact then callsOk else gCalls.length = m.calls.length)
  -- first member on which a real call differs from the predicted one
  let diffField : String :=
    if gCalls.length ≠ m.calls.length then "call-count" else
    ((gCalls.zip m.calls).findSome? fun (a, b) =>
      match a, b with
      | .obj ka, .obj _ => (ka.toList.findSome? fun (k, v) =>
          if (b.getObjVal? k).toOption == some v then none else some k)
      | _, _ => none).getD ""
  let prop38 := !gPanic && gStatus < 500 && (gStatus < 400 || kind = "bulk" || gCalls.isEmpty)
  -- C36: every integer amount of an accepted postings request reaches the controller unchanged
  let realVars : List String := gCalls.flatMap fun c =>
    match c.getObjVal? "vars" with
    | .ok (.obj kvs) => kvs.toList.filterMap fun (_, v) => v.getStr?.toOption
    | _ => []
  let lost := match body with
    | some b => if (kind = "createV1" || kind = "createV2") && gStatus = 200 then
        (postedAmounts b).filter fun s => !realVars.contains s else []
    | none => []
  let prop36 := lost.isEmpty
  let prop := if c36 then prop36 else prop38
  let big := match body with
    | some b => (postedAmounts b).any fun s => s.length > 22
    | none => false
  pure { model := Json.mkObj [("status", m.status), ("errorCode", m.code), ("panic", m.panic), ("calls", Json.arr m.calls.toArray)],
         agree, prop, propModel := !m.panic,
         nontrivial := if c36 then big else gStatus ≥ 400,
         tags := [s!"{kind}:{gStatus}"] ++ (if exact then [] else ["float>15digits"]) ++ (if big then ["amount>2^53"] else []),
         note := if prop then "" else if c36 then "posting amount changed: " ++ ", ".intercalate lost else "panic / 5xx / write on a 4xx",
         sig := if prop then (if agree then "" else s!"txbody:{kind}:field:{if gStatus = m.status then diffField else "status"}") else if c36 then s!"C36:{kind}-posting-amount" else
           (if kind = "createV1" && gPanic then "C38:v1-vars-panic" else s!"C38:txbody:{kind}:{gStatus}") }

def handleTxbody : Handler := handleTxbodyWith false
/-- C14 at the API boundary: same comparison (every field of the write call, sig per
    field); the predicate is the agreement itself on the `reference` member. -/
def handleTxbody14 : Handler := fun inp out => do
  let v ← handleTxbodyWith false inp out
  let refLost := !v.agree && (v.sig.splitOn ":field:reference").length > 1
  pure { v with prop := !refLost, propModel := true,
                note := if refLost then "the transaction reference the client sent did not reach the controller" else v.note,
                sig := if refLost then "C14:api:reference-dropped" else v.sig }
def handleTxbody36 : Handler := handleTxbodyWith true

end Ledger.Driver.Api
