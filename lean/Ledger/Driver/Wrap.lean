import Ledger.Driver.Core
import Ledger.Wrap.Discipline

/-!
Handlers of `ldriver_wrap`:

* `events` — C31: the model of `ControllerWithEvents` + state tracker + sequential
  bulker (`Ledger/Wrap/{Events,Stack}.lean`) is run on the generated script; its
  global trace, per-operation results and durable set are compared with the real
  stack's; `c31Ok` is evaluated on the REAL trace.
* `bulk` — C32: the model of `Bulker.Run` / `writeJSONResponse`
  (`Ledger/Wrap/Bulk.lean`) against the real bulker and HTTP handlers; the C32
  predicates are evaluated on the REAL output.
-/
namespace Ledger.Driver
open Lean Ledger.Wrap

-- lenient field access: the harness omits zero values
def optNat (j : Json) (k : String) : Nat :=
  match j.getObjVal? k with
  | .ok v => match v.getNat? with | .ok n => n | .error _ => 0
  | .error _ => 0
def optBool (j : Json) (k : String) : Bool :=
  match j.getObjVal? k with
  | .ok (.bool b) => b
  | _ => false
def optInt (j : Json) (k : String) : Int :=
  match j.getObjVal? k with
  | .ok v => match v.getInt? with | .ok n => n | .error _ => 0
  | .error _ => 0

def kindOfStr : String → Except String Kind
  | "createTx" => pure .createTx | "revertTx" => pure .revertTx
  | "saveTxMeta" => pure .saveTxMeta | "saveAccMeta" => pure .saveAccMeta
  | "delTxMeta" => pure .delTxMeta | "delAccMeta" => pure .delAccMeta
  | "insertSchema" => pure .insertSchema
  | s => throw s!"unknown kind {s}"

def kindStr : Kind → String
  | .createTx => "createTx" | .revertTx => "revertTx" | .saveTxMeta => "saveTxMeta"
  | .saveAccMeta => "saveAccMeta" | .delTxMeta => "delTxMeta" | .delAccMeta => "delAccMeta"
  | .insertSchema => "insertSchema"

def resOfStr : String → Except String Res
  | "ok" => pure .ok | "fail" => pure .fail | "done" => pure .done
  | s => throw s!"unknown result {s}"

def resStr : Res → String
  | .ok => "ok" | .fail => "fail" | .done => "done"

def parseItem (j : Json) : Except String Item := do
  let k ← strField j "k"
  let t := optNat j "t"
  match k with
  | "begin" => pure (.begin t (optNat j "p") (← resOfStr (optStrField j "r")))
  | "lock" => pure (.lock t (← resOfStr (optStrField j "r")))
  | "release" => pure (.release t)
  | "commit" => pure (.commit t (← resOfStr (optStrField j "r")))
  | "rollback" => pure (.rollback t (← resOfStr (optStrField j "r")))
  | "write" =>
    if optInt j "w" < 0 then throw "write without id" else
    pure (.write t (← kindOfStr (optStrField j "kind")) (optBool j "dry") (optNat j "w")
      (← resOfStr (optStrField j "r")))
  | "sql" => pure (.sql t (optNat j "tag") (← resOfStr (optStrField j "r")))
  | "publish" =>
    if optInt j "w" < 0 then throw "publish without id" else
    pure (.publish (← kindOfStr (optStrField j "kind")) (optNat j "w"))
  | s => throw s!"unknown item {s}"

def itemJson : Item → Json
  | .begin t p r => Json.mkObj [("k", "begin"), ("t", t), ("p", p), ("r", resStr r)]
  | .lock t r => Json.mkObj [("k", "lock"), ("t", t), ("r", resStr r)]
  | .release t => Json.mkObj [("k", "release"), ("t", t)]
  | .commit t r => Json.mkObj [("k", "commit"), ("t", t), ("r", resStr r)]
  | .rollback t r => Json.mkObj [("k", "rollback"), ("t", t), ("r", resStr r)]
  | .write t k dry w r =>
    Json.mkObj [("k", "write"), ("t", t), ("kind", kindStr k), ("dry", dry), ("w", w), ("r", resStr r)]
  | .sql t tag r => Json.mkObj [("k", "sql"), ("t", t), ("tag", tag), ("r", resStr r)]
  | .publish k w => Json.mkObj [("k", "publish"), ("kind", kindStr k), ("w", w)]

def parseFaults (j : Json) : Faults :=
  match j.getObjVal? "f" with
  | .ok f => { begin := optBool f "begin", lock := optBool f "lock", commit := optBool f "commit",
               commitTop := optBool f "commitTop", rollback := optBool f "rollback", sql := optNat f "sql", rows := optNat f "rows" }
  | .error _ => { rows := 0 }

def parseOp (j : Json) : Except String Op := do
  let op ← strField j "op"
  let h := optNat j "h"
  let ok := optBool j "ok"
  match op with
  | "swrite" => pure (.swrite (← kindOfStr (optStrField j "kind")) (optBool j "dry") ok (optNat j "w") (parseFaults j))
  | "bulk" =>
    let els ← (← arrField j "els").mapM fun e => do
      pure ({ kind := ← kindOfStr (optStrField e "kind"), ok := optBool e "ok", w := optNat e "w" } : BEl)
    pure (.bulk (optBool j "atomic") (optBool j "cof") els (parseFaults j))
  | "write" => pure (.raw (.write h (← kindOfStr (optStrField j "kind")) (optBool j "dry") ok (optNat j "w")))
  | "begin" => pure (.raw (.begin h ok))
  | "lock" => pure (.raw (.lock h ok))
  | "commit" => pure (.raw (.commit h ok))
  | "rollback" => pure (.raw (.rollback h ok))
  | s => throw s!"unknown op {s}"

def retStr : Ret → String
  | .ok => "ok" | .scripted w => s!"scripted{w}" | .txdone => "txdone"
  | .begin => "begin" | .lock => "lock" | .commit => "commit" | .rollback => "rollback"
  | .sql tag => s!"sql{tag}" | .canceled => "canceled"

def outcomeStr : Bulk.Outcome Unit Ret → String
  | .ok _ => "ok" | .err e => retStr e | .skipped => "canceled"

def runErrStr : Bulk.RunErr Ret → String
  | .none => "ok" | .conflict => "conflict" | .begin e => retStr e | .commit e => retStr e

def opRetStrs : OpRet → List String
  | .badHandle => ["badhandle"]
  | .one r => [retStr r]
  | .bulk e rs => runErrStr e :: rs.map outcomeStr

def opTag : Op → String
  | .raw (.write ..) => "raw-write" | .raw (.begin ..) => "raw-begin" | .raw (.lock ..) => "raw-lock"
  | .raw (.commit ..) => "raw-commit" | .raw (.rollback ..) => "raw-rollback"
  | .swrite .. => "swrite"
  | .bulk true _ _ _ => "bulk-atomic"
  | .bulk false _ _ _ => "bulk-plain"

def itemTags (tr : List Item) : List String :=
  let has (p : Item → Bool) (t : String) : List String := if tr.any p then [t] else []
  has (fun | .commit _ .ok => true | _ => false) "commit-ok" ++
  has (fun | .commit _ .fail => true | _ => false) "commit-fail" ++
  has (fun | .commit _ .done => true | _ => false) "commit-done" ++
  has (fun | .rollback _ .ok => true | _ => false) "rollback-ok" ++
  has (fun | .begin _ p .ok => p != 0 | _ => false) "nested-tx" ++
  has (fun | .lock t .ok => t != 0 | _ => false) "lock-in-tx" ++
  has (fun | .write _ _ true _ .ok => true | _ => false) "dry-run" ++
  has (fun | .write _ _ _ _ .fail => true | _ => false) "write-fail" ++
  has (fun | .write _ _ _ _ .done => true | _ => false) "write-txdone" ++
  has (fun | .sql _ _ .fail => true | _ => false) "sql-fail" ++
  has (fun | .sql _ 2 .ok => true | _ => false) "first-write-path" ++
  has (fun | .publish .. => true | _ => false) "publish" ++
  -- the first-write path running in a savepoint of an atomic bulk's transaction
  (if tr.any (fun | .begin t p .ok => p != 0 && tr.any (fun | .sql t' _ _ => t' == t | _ => false) | _ => false)
   then ["first-write-in-bulk"] else []) ++
  -- a Rollback issued on a SAVEPOINT after its successful release (ROLLBACK TO a released
  -- savepoint aborts the outer transaction in Postgres; the fake only answers "done")
  (let nested := tr.filterMap (fun | .begin t p .ok => if p != 0 then some t else none | _ => none)
   let rec go : List Item → List Nat → Bool
     | [], _ => false
     | .commit t .ok :: rest, done => go rest (if nested.contains t then t :: done else done)
     | .rollback t _ :: rest, done => done.contains t || go rest done
     | _ :: rest, done => go rest done
   if go tr [] then ["rollback-after-savepoint-release"] else [])

def handleEvents : Handler := fun inp out => do
  let inUse ← boolField inp "inUse"
  let ops ← (← arrField inp "ops").mapM parseOp
  -- model
  let s0 : St := { inUse }
  let (rets, s) := runOps s0 ops
  let mTrace := s.trace
  let mRets := rets.map opRetStrs
  let mDur := (specOf mTrace).dur.map (·.2)
  let model := Json.mkObj [
    ("trace", Json.arr (mTrace.map itemJson).toArray),
    ("rets", Json.arr (mRets.map jStrs).toArray),
    ("durable", Json.arr (mDur.map (fun (n : Nat) => (n : Json))).toArray)]
  -- implementation
  let gPanic := optStrField out "panic"
  let gTrace ← (← arrField out "trace").mapM parseItem
  let gRets ← (← arrField out "rets").mapM fun r => do
    match r with
    | .arr a => a.toList.mapM (·.getStr?)
    | _ => throw "rets: not an array"
  let gDur ← (← arrField out "durable").mapM (·.getNat?)
  let agree := gPanic = "" && gTrace = mTrace && gRets = mRets && gDur = mDur
  -- C31 on the implementation's own trace, for programs within the calling discipline
  let disc := disciplined true s0 ops
  let ok := c31Ok gTrace
  -- auxiliary: the state tracker / bulker never roll back a savepoint they already released
  let apiOnly := ops.all (fun | .raw _ => false | _ => true)
  let svp := apiOnly && (itemTags gTrace).contains "rollback-after-savepoint-release"
  let prop := gPanic = "" && (!disc || ok) && (specOf gTrace).dur.map (·.2) = gDur && !svp
  let propModel := !disc || c31Ok mTrace
  let sig := if gPanic ≠ "" then "C31:panic" else if disc && !ok then violationSig gTrace
             else if svp then "C31:rollback-after-savepoint-release"
             else if (specOf gTrace).dur.map (·.2) ≠ gDur then "C31:fake-durable-differs-from-spec" else ""
  let tags := (ops.map opTag).eraseDups ++ itemTags gTrace ++
    [if disc then "disciplined" else "undisciplined", if inUse then "in-use" else "initializing"]
  pure { model, agree, prop, propModel,
         nontrivial := disc && gTrace.any (fun | .publish .. => true | _ => false) &&
                       gTrace.any (fun | .commit _ .ok => true | _ => false),
         tags, sig,
         note := if prop then "" else s!"C31 predicate fails on the implementation's trace: {sig}" }

-- ---------------------------------------------------------------------------
-- bulk

/-- State of the fake controller as far as a bulk can see it. -/
structure FSt where
  /-- successful applies so far (drives LogID) -/
  seq : Nat := 0
  /-- elements applied so far (attempts), with success flag -/
  applied : List (Nat × Bool) := []
  deriving Repr, DecidableEq

structure FEl where
  kind : Kind
  ok : Bool
  w : Nat
  deriving Repr, DecidableEq

/-- What one element returns on its own in state `s`: LogID = (seq+1)*1000 + id. -/
def fApply (e : FEl) (s : FSt) : Except Nat Nat × FSt :=
  if e.ok then (.ok ((s.seq + 1) * 1000 + e.w), { seq := s.seq + 1, applied := s.applied ++ [(e.w, true)] })
  else (.error e.w, { s with applied := s.applied ++ [(e.w, false)] })

def actionOf : Kind → String
  | .createTx => "CREATE_TRANSACTION" | .revertTx => "REVERT_TRANSACTION"
  | .saveTxMeta | .saveAccMeta => "ADD_METADATA"
  | .delTxMeta | .delAccMeta => "DELETE_METADATA"
  | .insertSchema => "?"

/-- does the result of this kind carry the transaction (and so its reference) as data -/
def carriesRef : Kind → Bool
  | .createTx | .revertTx => true
  | _ => false

/-- A result as the client sees it. -/
structure GRes where
  cls : String
  logID : Nat
  eid : Nat
  rt : String
  ref : Int
  deriving Repr, DecidableEq

def parseGRes (j : Json) : Except String GRes := do
  pure { cls := ← strField j "class", logID := optNat j "logID", eid := optNat j "eid",
         rt := optStrField j "rt", ref := optInt j "ref" }

/-- which element (index) a real result belongs to, from the marker it carries -/
def ownerIdx (els : List FEl) (g : GRes) : Option Nat :=
  if g.cls = "ok" then els.findIdx? (fun e => e.w = g.logID % 1000)
  else if g.cls.startsWith "scripted" then
    els.findIdx? (fun e => s!"scripted{e.w}" = g.cls)
  else none

def clsOfOutcome : Bulk.Outcome Nat Nat → String
  | .ok _ => "ok" | .err w => s!"scripted{w}" | .skipped => "canceled"

def logOfOutcome : Bulk.Outcome Nat Nat → Nat
  | .ok l => l | _ => 0

def handleBulk : Handler := fun inp out => do
  let via ← strField inp "via"
  let atomic := optBool inp "atomic"
  let cof := optBool inp "cof"
  let parallel := optBool inp "parallel"
  let par := optNat inp "par"
  let f := parseFaults inp
  let els ← (← arrField inp "els").mapM fun e => do
    pure ({ kind := ← kindOfStr (optStrField e "kind"), ok := optBool e "ok", w := optNat e "w" } : FEl)
  let n := els.length
  let gPanic := optStrField out "panic"
  let gResults ← (← arrField out "results").mapM parseGRes
  let gApplied ← (← arrField out "applied").mapM fun a => do
    pure (optNat a "w", optBool a "ok")
  let gTrace ← (← arrField out "trace").mapM parseItem
  let gDur ← (← arrField out "durable").mapM (·.getNat?)
  let gRunErr := optStrField out "runErr"
  let gStatus := optNat out "status"
  let gTopErr := optStrField out "topErr"
  let http := via ≠ "direct"
  let seqRun := !parallel || par ≤ 1
  -- the schedule: for a sequential run it is the model's own; for a parallel run it is
  -- reconstructed from the real output (applied-order log; results carry their markers)
  let appliedIdx := gApplied.filterMap fun (w, _) => els.findIdx? (fun e => e.w = w)
  let known := gResults.filterMap (ownerIdx els)
  let skippedIdx := (List.range n).filter (fun i => !appliedIdx.contains i)
  -- channel order is only visible in direct mode (results carry ElementID there);
  -- over HTTP the response is already sorted by ElementID, so a skipped result
  -- (which carries no marker) is attributed to its position
  let order : List Nat :=
    (List.zipWith (fun (pos : Nat) g =>
        match ownerIdx els g with
        | some i => i
        | none => if http then pos else g.eid) (List.range gResults.length) gResults)
  let sched : Bulk.Sched := { applied := appliedIdx, order }
  let ctl : Bulk.Ctrl (FSt × Bool) Nat := {
    begin := fun (s, _) => if f.begin then (.error 0, (s, false)) else (.ok (), (s, true)),
    commit := fun (s, t) => if f.commit then (.error 1, (s, t)) else (.ok (), (s, t)),
    rollback := fun p => p }
  let apply' (e : FEl) (p : FSt × Bool) : Except Nat Nat × (FSt × Bool) :=
    let (r, s) := fApply e p.1
    (r, (s, p.2))
  let run (p : FSt × Bool) :=
    if seqRun then Bulk.runSeq Bulk.elementTag apply' cof els 0 false p
    else Bulk.runPar Bulk.elementTag apply' els sched p
  let (mErr, mRes, mSt) := Bulk.runBulk ctl { atomic, cof, parallel } run (({} : FSt), false)
  let schedValid := seqRun || (atomic && parallel) ||
    Bulk.schedOk apply' cof els sched (({} : FSt), false)
  -- what the model says the client sees
  let mErrStr := match mErr with
    | .none => "ok" | .conflict => "conflict" | .begin _ => "begin" | .commit _ => "commit"
  let actions := els.map (fun e => actionOf e.kind)
  let mClient : Option (List GRes) :=
    if http then
      match mErr with
      | .none =>
        (Bulk.respond actions mRes).map fun rs => rs.map fun a =>
          { cls := clsOfOutcome a.out, logID := logOfOutcome a.out, eid := 0, rt := a.responseType, ref := 0 }
      | _ => some []
    else
      match mErr with
      | .begin _ | .conflict => some []
      | _ => some (mRes.map fun r =>
          { cls := clsOfOutcome r.out, logID := logOfOutcome r.out, eid := r.elementID, rt := "", ref := 0 })
  let mStatus : Nat :=
    if !http then 0 else
    match mErr with
    | .none => Bulk.status mRes
    | .conflict => 412
    | _ => 500
  -- the model's view of the fake: applied log, trace, durable set
  let mApplied := mSt.1.applied
  let mDurable : List Nat :=
    if atomic && !parallel then
      match mErr with
      | .none => if mApplied.any (fun p => !p.2) then [] else mApplied.map (·.1)
      | _ => []
    else if atomic && parallel then []
    else (mApplied.filter (·.2)).map (·.1)
  let tx : Nat := if atomic && !parallel && !f.begin then 1 else 0
  let kindOfW (w : Nat) : Kind := match els.find? (fun e => e.w = w) with
    | some e => e.kind | none => .createTx
  let mTrace : List Item :=
    if atomic && parallel then [] else
    (if atomic then [Item.begin tx 0 (if f.begin then .fail else .ok)] else []) ++
    (if atomic && f.begin then [] else
      mApplied.map (fun (w, ok) => Item.write tx (kindOfW w) false w (if ok then .ok else .fail)) ++
      (if atomic then
        (if mApplied.any (fun p => !p.2) then [Item.rollback tx (if f.rollback then .fail else .ok)]
         else [Item.commit tx (if f.commit then .fail else .ok)])
       else []))
  let same (m g : GRes) : Bool :=
    m.cls = g.cls && m.logID = g.logID && m.eid = g.eid && m.rt = g.rt
  let clientAgree := match mClient with
    | none => false
    | some ms => ms.length = gResults.length && (List.zipWith same ms gResults).all id
  -- the data carried by a successful create / revert is the transaction of the SAME
  -- result (Data and LogID are built together): ref = id in LogID
  let refsOk := gResults.all fun g =>
    g.cls ≠ "ok" || g.ref = -1 || g.ref = (g.logID % 1000 : Nat)
  -- (before /repo commit 0a80472 the JSON-stream handler reported io.EOF here: "VALIDATION:other:EOF")
  let mTop := if http && mErrStr = "conflict" then "VALIDATION" else
              if http && mErrStr ≠ "ok" then "INTERNAL" else ""
  let agree := gPanic = "" && schedValid && clientAgree && refsOk &&
    (http || gRunErr = mErrStr) && (!http || gStatus = mStatus) &&
    gApplied = mApplied && gTrace = mTrace && gDur = mDurable &&
    (!http || gTopErr.startsWith mTop && (mTop ≠ "" || gTopErr = "")) &&
    known.length ≤ gResults.length
  let model := Json.mkObj [
    ("runErr", mErrStr), ("status", mStatus),
    ("results", match mClient with
      | none => Json.null
      | some ms => Json.arr (ms.map fun m => Json.mkObj [("class", m.cls), ("logID", m.logID), ("eid", m.eid), ("rt", m.rt)]).toArray),
    ("applied", Json.arr (mApplied.map fun (w, ok) => Json.mkObj [("w", w), ("ok", ok)]).toArray),
    ("trace", Json.arr (mTrace.map itemJson).toArray),
    ("durable", Json.arr (mDurable.map (fun (x : Nat) => (x : Json))).toArray),
    ("sched", Json.mkObj [("applied", Json.arr (appliedIdx.map (fun (x : Nat) => (x : Json))).toArray),
                           ("order", Json.arr (order.map (fun (x : Nat) => (x : Json))).toArray)])]
  -- ---- C32 predicates on the REAL output --------------------------------------
  let delivered := if http then gStatus = 200 || gStatus = 400 else gRunErr = "ok" || gRunErr = "commit"
  -- what a client of the raw channel sees once it has ordered the results by ElementID
  let insG (x : GRes) : List GRes → List GRes := fun l =>
    (l.takeWhile (fun y => y.eid < x.eid)) ++ x :: (l.dropWhile (fun y => y.eid < x.eid))
  let gResults := if http then gResults else gResults.foldr insG []
  let gAppliedW := gApplied.map (·.1)
  let elsW := els.map (·.w)
  -- one result per element, in order: position i carries element i's marker (skips carry none)
  let pOne := !delivered || gResults.length = n
  let pInOrder := !delivered || (List.zipWith (fun (i : Nat) g =>
      match ownerIdx els g with
      | some j => i = j
      | none => g.cls = "canceled") (List.range n) gResults).all id
  -- responseType of a successful result is the action of the element at that position
  let pType := !delivered || !http || (List.zipWith (fun e g => g.cls ≠ "ok" || g.rt = actionOf e.kind) els gResults).all id
  -- each successful result equals what the element returns on its own in the state it ran in
  let pStandalone := !delivered || (List.zipWith (fun e g =>
      g.cls ≠ "ok" ||
      (let before := gApplied.takeWhile (fun p => p.1 ≠ e.w)
       let seq := (before.filter (·.2)).length
       g.logID = (seq + 1) * 1000 + e.w &&
       (g.ref = -1 || !carriesRef e.kind || g.ref = (e.w : Int)) &&
       (!carriesRef e.kind || g.ref ≠ -1))) els gResults).all id
  -- atomic: all or nothing
  let pAtomic := !(atomic && !parallel) || gDur = [] || gDur = elsW
  let pAtomicNoPartial := !(atomic && !parallel) || gDur = [] ||
    (els.all (·.ok) && gAppliedW = elsW)
  -- sequential, no continueOnFailure: in order, nothing after the first failure
  let firstFail := els.findIdx? (fun e => !e.ok)
  let pSeqStop := !seqRun || cof || (atomic && parallel) || (atomic && f.begin) ||
    (match firstFail with
     | none => gAppliedW = elsW
     | some k => gAppliedW = elsW.take (k + 1) &&
        (!delivered || ((gResults.drop (k + 1)).all (fun g => g.cls = "canceled"))))
  -- continueOnFailure: every element applied exactly once (in order when sequential)
  let pCof := !cof || (atomic && parallel) || (atomic && f.begin) ||
    (if seqRun then gAppliedW = elsW
     else gAppliedW.length = n && elsW.all (fun w => gAppliedW.contains w))
  -- non-atomic: durable = the successful applied elements
  let pDurable := atomic || gDur = (gApplied.filter (·.2)).map (·.1)
  let prop := gPanic = "" && pOne && pInOrder && pType && pStandalone && pAtomic && pAtomicNoPartial &&
    pSeqStop && pCof && pDurable
  let sig :=
    if gPanic ≠ "" then "C32:panic"
    else if !pOne then "C32:result-count"
    else if !pInOrder || !pType || !pStandalone then
      (if !seqRun then "C32:parallel-results-misassigned" else "C32:sequential-results-misassigned")
    else if !pAtomic || !pAtomicNoPartial then "C32:atomic-partial"
    else if !pSeqStop then "C32:applied-after-failure"
    else if !pCof then "C32:continue-on-failure-skipped"
    else if !pDurable then "C32:durable-mismatch"
    else ""
  -- the same predicates on the model's output (only the ordering ones can differ)
  let propModel := match mClient with
    | none => false
    | some ms =>
      let ms := if http then ms else ms.foldr insG []
      !delivered || (ms.length = n &&
        (List.zipWith (fun (i : Nat) m => match ownerIdx els m with
          | some j => i = j | none => m.cls = "canceled") (List.range n) ms).all id)
  let tags := [s!"via-{via}",
    if atomic && parallel then "atomic+parallel" else if atomic then "atomic" else
    if parallel then (if par ≤ 1 then "parallel-1" else "parallel") else "sequential",
    if cof then "cof" else "stop-on-failure",
    if els.all (·.ok) then "all-ok" else "with-failure",
    if n = 0 then "empty" else if n ≤ 12 then "n≤12" else "n>12"] ++
    (if f.begin then ["begin-fail"] else []) ++ (if f.commit && atomic then ["commit-fail"] else []) ++
    (if !seqRun && order ≠ List.range n then ["completion-reordered"] else []) ++
    (if !seqRun && appliedIdx ≠ (List.range n).take appliedIdx.length then ["apply-reordered"] else []) ++
    (if skippedIdx.isEmpty then [] else ["skipped"])
  pure { model, agree, prop, propModel,
         nontrivial := n ≥ 2 && delivered, tags, sig,
         note := if prop then "" else s!"C32 predicate fails on the implementation's output: {sig}" }

def wrapHandlers : List (String × Handler) := [
  ("events", handleEvents),
  ("bulk", handleBulk)
]

end Ledger.Driver
