import Ledger.Driver.Core
import Ledger.Driver.MachineDecode
import Ledger.Machine.Resolve
import Ledger.Machine.TxScript
import Ledger.Machine.Compile
import Ledger.Machine.VM

/-! Handlers of `ldriver_machine`: `prog` (+ per-property variants). -/
namespace Ledger.Driver
open Lean Ledger.Machine

/-! ## Input decoding -/

def objPairs (j : Json) : List (String × Json) :=
  match j with
  | .obj kvs => kvs.toList
  | _ => []

def decInput (inp : Json) : Except String Input := do
  let vars ← (objPairs (← field inp "vars")).mapM fun (k, v) => do pure (k, ← v.getStr?)
  let bals ← (objPairs (← field inp "balances")).mapM fun (a, m) => do
    let row ← (objPairs m).mapM fun (c, v) => do pure (c, ← parseInt (← v.getStr?))
    pure (a, row)
  let metas ← (objPairs (← field inp "meta")).mapM fun (a, m) => do
    let row ← (objPairs m).mapM fun (k, v) => do pure (k, ← v.getStr?)
    pure (a, row)
  pure {
    vars := vars,
    balance := fun a c => match bals.lookup a with
      | some row => (row.lookup c).getD 0   -- the store's contract: unknown pair = 0
      | none => 0,
    accountMeta := fun a => metas.lookup a }

/-! ## Canonical rendering of the model's result -/

/-- `NewStringFromValue`. -/
def valueStr : Value → String
  | .account s => s
  | .asset s => s
  | .number n => toString n
  | .str s => s
  | .monetary a v => a ++ " " ++ toString (nilAsZero v)
  | .portion .remaining => "remaining"
  | .portion (.specific r) => s!"{r.num}/{r.den}"

def jPosting (p : Posting) : Json :=
  Json.mkObj [("s", p.source), ("d", p.destination), ("a", p.asset), ("amt", toString p.amount)]

def sortPairs (xs : List (String × String)) : List (String × String) :=
  (xs.toArray.qsort (fun a b => a.1 < b.1)).toList

def jStrMap (xs : List (String × String)) : Json :=
  Json.mkObj ((sortPairs xs).map fun (k, v) => (k, Json.str v))

def accMetaGroups (m : List (String × String × Value)) : List (String × List (String × String)) :=
  let accts := (m.map (·.1)).eraseDups
  accts.map fun a => (a, (m.filter (·.1 = a)).map fun x => (x.2.1, valueStr x.2.2))

def jAccMeta (m : List (String × String × Value)) : Json :=
  let g := (accMetaGroups m).toArray.qsort (fun a b => a.1 < b.1)
  Json.mkObj (g.toList.map fun (a, kvs) => (a, jStrMap kvs))

def dedupSorted (xs : List String) : List String :=
  (xs.toArray.qsort (· < ·)).toList.eraseDups

/-! ## The implementation's output -/

structure RealOut where
  compileErr : String
  err : String
  panic : String
  timeout : Bool
  resultNil : Bool
  postings : List Posting
  txMeta : Json
  accMeta : Json
  queried : List String

def decPosting (j : Json) : Except String Posting := do
  pure ⟨← strField j "s", ← strField j "d", ← strField j "a", ← parseInt (← strField j "amt")⟩

def decRealOut (out : Json) : Except String RealOut := do
  let norm (j : Json) : Json := match j with
    | .obj kvs => Json.mkObj (kvs.toList.toArray.qsort (fun a b => a.1 < b.1)).toList
    | x => x
  let accMeta := match out.getObjVal? "accMeta" with
    | .ok (.obj kvs) => Json.mkObj ((kvs.toList.toArray.qsort (fun a b => a.1 < b.1)).toList.map fun (a, m) => (a, norm m))
    | _ => Json.mkObj []
  pure {
    compileErr := optStrField out "compileErr",
    err := optStrField out "err",
    panic := optStrField out "panic",
    timeout := (match out.getObjVal? "timeout" with | .ok (.bool b) => b | _ => false),
    resultNil := (match out.getObjVal? "resultNil" with | .ok (.bool b) => b | _ => false),
    postings := ← (← arrField out "postings").mapM decPosting,
    txMeta := norm ((out.getObjVal? "txMeta").toOption.getD (Json.mkObj [])),
    accMeta := accMeta,
    queried := ← strArrField out "queried" }

/-! ## Feature tags -/

mutual
  def srcTags : Source → List String
    | .account e od =>
      (if e.isWorld then ["src-world"] else []) ++
      (match e with | .var _ => ["src-var"] | _ => []) ++
      (match od with | .none => [] | .upTo _ => ["overdraft-upto"] | .unbounded => ["overdraft-unbounded"])
    | .maxed _ s => "src-max" :: srcTags s
    | .inorder ss => "src-inorder" :: srcsTags ss
  def srcsTags : SourceList → List String
    | .nil => []
    | .cons s ss => srcTags s ++ srcsTags ss
end

def allotSrcTags : AllotSrcList → List String
  | .nil => []
  | .cons _ s r => srcTags s ++ allotSrcTags r

mutual
  def dstTags : Dest → List String
    | .account _ => []
    | .inorder items rem => "dst-inorder" :: (inOrderTags items ++ kdTags rem)
    | .allot items => "dst-allot" :: allotDstTags items
  def kdTags : KeptOrDest → List String
    | .kept => ["kept"]
    | .to d => dstTags d
  def inOrderTags : InOrderDstList → List String
    | .nil => []
    | .cons _ d r => kdTags d ++ inOrderTags r
  def allotDstTags : AllotDstList → List String
    | .nil => []
    | .cons p d r => (match p with | .var _ => ["portion-var"] | .remaining => ["portion-remaining"] | _ => []) ++
        kdTags d ++ allotDstTags r
end

def stmtTags : Stmt → List String
  | .print _ => ["print"]
  | .save _ _ => ["save"]
  | .saveAll _ _ => ["save-all"]
  | .setTxMeta _ _ => ["tx-meta"]
  | .setAccountMeta _ _ _ => ["acc-meta"]
  | .fail => ["fail"]
  | .send m src dst =>
    (match m with | .add _ _ => ["mon-arith"] | .sub _ _ => ["mon-arith"] | .var _ => ["mon-var"] | _ => []) ++
    (match src with
     | .src s => srcTags s
     | .allot items => "src-allot" :: allotSrcTags items) ++ dstTags dst
  | .sendAll _ src dst =>
    "send-all" :: ((match src with | .src s => srcTags s | .allot _ => []) ++ dstTags dst)

def scriptTags (s : Script) : List String :=
  let v := s.vars.flatMap fun d => match d.orig with
    | .none => ["var-" ++ d.ty.name]
    | .accountMeta _ _ => ["var-meta"]
    | .balance _ _ => ["var-balance"]
  (v ++ s.stmts.flatMap stmtTags).eraseDups

/-! ## Property predicates evaluated on the REAL postings -/

mutual
  def keptFreeDest : Dest → Bool
    | .account _ => true
    | .inorder items rem => keptFreeInOrder items && keptFreeKD rem
    | .allot items => keptFreeAllot items
  def keptFreeKD : KeptOrDest → Bool
    | .kept => false
    | .to d => keptFreeDest d
  def keptFreeInOrder : InOrderDstList → Bool
    | .nil => true
    | .cons _ d r => keptFreeKD d && keptFreeInOrder r
  def keptFreeAllot : AllotDstList → Bool
    | .nil => true
    | .cons _ d r => keptFreeKD d && keptFreeAllot r
end

/-- What C22 expects of the postings of one statement. -/
structure SendSpec where
  asset : String
  /-- `some amt` for `send mon`, `none` for `send [A *]` -/
  amount : Option Int
  keptFree : Bool
  /-- for `send [A *]`: total funding taken from the sources (model) -/
  available : Int

/-- Runs the statements one by one with the model and records, per statement, how
    many postings it produced and (for sends) what C22 expects. -/
def traceStmts (env : Env) : List Stmt → State → List (Nat × Option SendSpec)
  | [], _ => []
  | s :: ss, st =>
    match evalStmt Cfg.fixed env s st with
    | .error _ => []
    | .ok st1 =>
      let n := st1.postings.length - st.postings.length
      let spec : Option SendSpec :=
        match s with
        | .send mon _ dst =>
          match evalMonetary env mon with
          | .ok (a, some v) => some ⟨a, some v, keptFreeDest dst, 0⟩
          | _ => none
        | .sendAll assetE (.src src) dst =>
          match evalAssetE env assetE with
          | .ok a =>
            match evalSource Cfg.fixed env a src st.bal with
            | .ok (f, _) => some ⟨a, none, keptFreeDest dst, total f.parts⟩
            | .error _ => none
          | .error _ => none
        | _ => none
      (n, spec) :: traceStmts env ss st1

/-- The known finding: a `send [A *]` statement whose postings are not in `A`. -/
def c22SendAllAsset : List (Nat × Option SendSpec) → List Posting → Bool
  | [], _ => false
  | (n, spec) :: more, ps =>
    (match spec with
     | some sp => sp.amount.isNone && (ps.take n).any (fun p => p.asset ≠ sp.asset)
     | none => false) || c22SendAllAsset more (ps.drop n)

def sumAmounts (ps : List Posting) : Int := (ps.map (·.amount)).foldl (· + ·) 0

/-- C22 on the real postings, split per statement by the model's counts. -/
def c22Check : List (Nat × Option SendSpec) → List Posting → Bool
  | [], rest => rest.isEmpty
  | (n, spec) :: more, ps =>
    let mine := ps.take n
    let ok :=
      mine.length = n &&
      match spec with
      | none => n = 0
      | some sp =>
        mine.all (fun p => p.asset = sp.asset && 0 ≤ p.amount) &&
        (match sp.amount with
         | some amt => if sp.keptFree then sumAmounts mine = amt else sumAmounts mine ≤ amt
         | none => if sp.keptFree then sumAmounts mine = sp.available else sumAmounts mine ≤ sp.available)
    ok && c22Check more (ps.drop n)

/-- Source leaves of a script, evaluated: (account, overdraft) with overdraft
    `none` = unbounded, `some (asset?, bound)`. -/
inductive LeafOd where
  | unbounded
  | bounded (asset : Option String) (bound : Int)

mutual
  def srcLeaves (env : Env) : Source → List (String × LeafOd)
    | .account e od =>
      match evalAccount env e with
      | .error _ => []
      | .ok a =>
        if e.isWorld then [(a, .unbounded)] else
        match od with
        | .none => [(a, .bounded none 0)]
        | .unbounded => [(a, .unbounded)]
        | .upTo x =>
          match evalMonetary env x with
          | .ok (c, v) => [(a, .bounded (some c) (nilAsZero v))]
          | .error _ => []
    | .maxed _ s => srcLeaves env s
    | .inorder ss => srcsLeaves env ss
  def srcsLeaves (env : Env) : SourceList → List (String × LeafOd)
    | .nil => []
    | .cons s ss => srcLeaves env s ++ srcsLeaves env ss
end

def allotSrcLeaves (env : Env) : AllotSrcList → List (String × LeafOd)
  | .nil => []
  | .cons _ s r => srcLeaves env s ++ allotSrcLeaves env r

def stmtLeaves (env : Env) : Stmt → List (String × LeafOd)
  | .send _ (.src s) _ => srcLeaves env s
  | .send _ (.allot items) _ => allotSrcLeaves env items
  | .sendAll _ (.src s) _ => srcLeaves env s
  | _ => []

def netFlow (ps : List Posting) (a c : String) : Int :=
  ps.foldl (fun acc p =>
    acc + (if p.destination = a ∧ p.asset = c then p.amount else 0)
        - (if p.source = a ∧ p.asset = c then p.amount else 0)) 0

/-- C23 on the real postings: every bounded source pair keeps
    `initial + net ≥ min(initial, -bound)`. -/
def c23Check (inp : Input) (env : Env) (stmts : List Stmt) (pairs : List (String × String))
    (ps : List Posting) : Bool :=
  let leaves := stmts.flatMap (stmtLeaves env)
  pairs.all fun (a, c) =>
    if a = "world" then true
    else if leaves.any (fun l => l.1 = a && match l.2 with | .unbounded => true | _ => false) then true
    else if !leaves.any (fun l => l.1 = a) then true
    else
      let bound := leaves.foldl (fun b l =>
        if l.1 = a then
          match l.2 with
          | .bounded (some c') v => if c' = c ∧ b < v then v else b
          | _ => b
        else b) 0
      let init := inp.balance a c
      let fin := init + netFlow ps a c
      decide (min init (-bound) ≤ fin)

/-! ## Byte code rendering (same canonical strings as wlmachine/run.go `dumpProgram`) -/

def cvalueStr : CValue → String
  | .account s => "account:" ++ s
  | .asset s => "asset:" ++ s
  | .number n => "number:" ++ toString n
  | .str s => "string:" ++ s
  | .portion .remaining => "portion:remaining"
  | .portion (.specific r) => s!"portion:{r.num}/{r.den}"

def resStr : Res → String
  | .const v => "const:" ++ cvalueStr v
  | .var ty n => s!"var:{ty.name}:{n}"
  | .varMeta ty n a k => s!"meta:{ty.name}:{n}:{a}:{k}"
  | .varBalance n a c => s!"balance:{n}:{a}:{c}"
  | .mon a v => s!"mon:{a}:{v}"

def neededStrs (nd : List (Nat × Nat)) : List String :=
  let sorted := nd.toArray.qsort (fun x y => x.1 < y.1 || (x.1 = y.1 && x.2 < y.2))
  sorted.toList.map fun (a, m) => s!"{a}:{m}"

/-- Compares the model's program with the real compiler's dump; `none` = no dump. -/
def programAgrees (out : Json) (p : Program) : Except String (Option Bool) := do
  match out.getObjVal? "program" with
  | .ok (.obj _) =>
    let pj ← field out "program"
    let instr ← (← arrField pj "instr").mapM fun j => do
      match j.getNat? with
      | .ok n => pure n
      | .error e => throw e
    let res ← strArrField pj "res"
    let needed ← strArrField pj "needed"
    let decOk := match decode p.instrs with | .ok is => is == p.code | .error _ => false
    pure (some (decOk && instr = p.instrs && res = p.res.map resStr && needed = neededStrs p.needed))
  | _ => pure none

/-! ## The `prog` handler -/

def shortTag (s : String) : String :=
  let t := (s.take 48).toString
  t

/-- `which`: "" (all predicates), "C22", "C23", "C27". -/
def handleProg (which : String) : Handler := fun inp out => do
  let (script, flags) ← decScript (← field inp "script")
  let src ← strField inp "src"
  let input ← decInput inp
  let real ← decRealOut out
  let rendered := rScript script flags
  let textOk := rendered = src
  -- model
  let tc := typecheck script
  let modelCompileErr := match tc with | .ok _ => "" | .error m => m
  let mProg := compile script
  let res := sem Cfg.fixed script input
  let prep := match tc with | .ok _ => some (prepare Cfg.fixed script input) | .error _ => none
  let (mErr, mPanic, mPostings, mTx, mAcc) :=
    match res with
    | .ok r => ("", "", r.postings, jStrMap (r.txMeta.map fun (k, v) => (k, valueStr v)), jAccMeta r.accMeta)
    | .error (.compile _) => ("", "", [], Json.mkObj [], Json.mkObj [])
    | .error (.run st k) => (st ++ ":" ++ k, "", [], Json.mkObj [], Json.mkObj [])
    | .error (.panic sig) => ("", "panic:" ++ sig, [], Json.mkObj [], Json.mkObj [])
    | .error (.fault w) => ("fault:" ++ w, "", [], Json.mkObj [], Json.mkObj [])
  let mQueried := match prep with
    | some (.ok (_, _, pairs)) => some (dedupSorted (pairs.map fun p => p.1 ++ " " ++ p.2))
    | _ => none
  let model := Json.mkObj [
    ("compileErr", modelCompileErr), ("err", mErr), ("panic", mPanic),
    ("postings", Json.arr (mPostings.map jPosting).toArray), ("txMeta", mTx), ("accMeta", mAcc),
    ("queried", match mQueried with | some q => jStrs q | none => Json.null),
    ("rendered", if textOk then Json.null else Json.str rendered),
    ("program", match mProg with
      | .ok p => Json.mkObj [("instr", Json.arr (p.instrs.map (fun (n : Nat) => Json.num (JsonNumber.fromNat n))).toArray),
          ("res", jStrs (p.res.map resStr)), ("needed", jStrs (neededStrs p.needed))]
      | .error e => Json.str e)]
  let agreeCompile := real.compileErr = modelCompileErr
  let agreeRun :=
    if modelCompileErr ≠ "" then true
    else if mPanic ≠ "" then real.panic ≠ "" && !real.timeout
    else
      real.panic = "" && real.err = mErr && real.postings = mPostings &&
      real.txMeta == mTx && real.accMeta == mAcc &&
      (match mQueried with
       | some q => if real.err = "" then real.queried = q else true
       | none => true)
  -- byte code: instruction for instruction, resource table, NeededBalances
  let progOk ← match mProg with
    | .ok p => do
      match ← programAgrees out p with
      | some b => pure b
      | none => pure (real.compileErr ≠ "")
    | .error e => pure (e = modelCompileErr)
  -- byte-code VM model: exec (compile ast) must give what `sem` gives (and hence the real VM)
  let outcomeOf (r : Except Err Result) : String × List Posting × Json × Json :=
    match r with
    | .ok x => ("", x.postings, jStrMap (x.txMeta.map fun (k, v) => (k, valueStr v)), jAccMeta x.accMeta)
    | .error (.compile m) => ("compile:" ++ m, [], Json.mkObj [], Json.mkObj [])
    | .error (.run st k) => (st ++ ":" ++ k, [], Json.mkObj [], Json.mkObj [])
    | .error (.panic sg) => ("panic:" ++ sg, [], Json.mkObj [], Json.mkObj [])
    | .error (.fault w) => ("fault:" ++ w, [], Json.mkObj [], Json.mkObj [])
  let oSem := outcomeOf res
  let oVm := outcomeOf (semBytecode Cfg.fixed script input)
  let vmOk := oSem.1 = oVm.1 && oSem.2.1 = oVm.2.1 && oSem.2.2.1 == oVm.2.2.1 && oSem.2.2.2 == oVm.2.2.2
  let agree := textOk && agreeCompile && agreeRun && progOk && vmOk
  -- property predicates on the REAL output
  let okRun := real.compileErr = "" && real.err = "" && real.panic = ""
  let (p22, p23, sendAllAsset) :=
    match prep with
    | some (.ok (env, bal, pairs)) =>
      if okRun then
        let tr := traceStmts env script.stmts (initState bal)
        (c22Check tr real.postings && tr.length = script.stmts.length,
         c23Check input env script.stmts pairs real.postings,
         c22SendAllAsset tr real.postings)
      else (true, true, false)
    | _ => (true, true, false)
  -- C27: no panic, no hang, and an error leaves no partial result
  let p27 := real.panic = "" && !real.timeout &&
    ((real.err = "" && real.compileErr = "") ||
      (real.resultNil && real.postings.isEmpty))
  let prop := match which with
    | "C22" => p22
    | "C23" => p23
    | "C27" => p27
    | _ => p22 && p23 && p27
  let (pm22, pm23) :=
    match prep, res with
    | some (.ok (env, bal, pairs)), .ok r =>
      let tr := traceStmts env script.stmts (initState bal)
      (c22Check tr r.postings, c23Check input env script.stmts pairs r.postings)
    | _, _ => (true, true)
  let propModel := match which with
    | "C22" => pm22
    | "C23" => pm23
    | "C27" => (match res with | .error (.panic _) => false | .error (.fault _) => false | _ => true)
    | _ => pm22 && pm23
  let outcome :=
    if modelCompileErr ≠ "" then "compile:" ++ shortTag modelCompileErr
    else if mPanic ≠ "" then mPanic
    else if mErr ≠ "" then mErr
    else "ok"
  let feats := if outcome = "ok" then (scriptTags script).map ("ok+" ++ ·) else []
  let sig :=
    if real.timeout then "timeout"
    else if real.panic ≠ "" then
      (match res with
       | .error (.panic s) => "panic:" ++ s
       | _ => "panic:unpredicted")
    else if which = "C23" && !p23 then "C23-predicate"
    else if !p22 && sendAllAsset then "C22-sendall-overdraft-asset"
    else if !p22 then "C22-predicate"
    else if !p23 then "C23-predicate"
    else if !p27 then "C27-partial-result"
    else ""
  let note :=
    if !textOk then "rendered text differs from the harness's text"
    else if !agreeCompile then "compile result differs"
    else if !progOk then "byte code / resources / needed balances differ from the model's `compile`"
    else if !agreeRun then "run result differs"
    else if !vmOk then "model `exec (compile ast)` differs from model `sem`: " ++ oVm.1
    else if !prop then "property predicate fails on the implementation's output: " ++ sig
    else ""
  pure { model, agree, prop, propModel,
         nontrivial := okRun && !real.postings.isEmpty,
         tags := outcome :: feats, note, sig }

/-! ## The `postings` handler (C25) -/

def handlePostings : Handler := fun inp out => do
  let ps ← (← arrField inp "postings").mapM decPosting
  let force ← boolField inp "force"
  let bals ← (objPairs (← field inp "balances")).mapM fun (a, m) => do
    let row ← (objPairs m).mapM fun (c, v) => do pure (c, ← parseInt (← v.getStr?))
    pure (a, row)
  let balance : String → String → Int := fun a c =>
    match bals.lookup a with
    | some row => (row.lookup c).getD 0
    | none => 0
  -- model
  let text := txText ps force
  let vars := txVars ps
  let script := txScript ps force
  let input : Input := { vars := vars, balance := balance, accountMeta := fun _ => none }
  let res := sem Cfg.fixed script input
  -- hypothesis of C25.postings_roundtrip, evaluated on this case
  let envOK := match prepare Cfg.fixed script input with
    | .ok (env, _, _) => txEnvOK env (txAccounts ps []) (txMons ps []) ps
    | .error _ => true
  let (mCompile, mErr, mPanic, mPostings) :=
    if ps.isEmpty then ("syntax", "", "", [])   -- `vars {` `}` with no declaration and no statement
    else match res with
      | .ok r => ("", "", "", r.postings)
      | .error (.compile m) => (m, "", "", [])
      | .error (.run st k) => ("", st ++ ":" ++ k, "", [])
      | .error (.panic sg) => ("", "", "panic:" ++ sg, [])
      | .error (.fault w) => ("", "fault:" ++ w, "", [])
  let model := Json.mkObj [("plain", text), ("vars", jStrMap vars), ("compileErr", mCompile), ("err", mErr),
    ("panic", mPanic), ("postings", Json.arr (mPostings.map jPosting).toArray)]
  -- implementation
  let gPlain ← strField out "plain"
  let gVars := match out.getObjVal? "vars" with
    | .ok (.obj kvs) => Json.mkObj (kvs.toList.toArray.qsort (fun a b => a.1 < b.1)).toList
    | _ => Json.mkObj []
  let gPanic := optStrField out "panic"
  let real ← decRealOut (← field out "run")
  let agree := envOK && gPanic = "" && gPlain = text && gVars == jStrMap vars &&
    real.compileErr = mCompile && real.err = mErr && (real.panic = "") = (mPanic = "") &&
    real.postings = mPostings
  -- C25 on the implementation's output
  let valid := ps.all fun p => validAccount p.source && validAccount p.destination && validAsset p.asset && 0 ≤ p.amount
  let specFails := !force && (applyPostings balance ps).isNone
  let prop :=
    gPanic = "" && real.panic = "" && !real.timeout &&
    (if ps.isEmpty then true
     else if !valid then real.err ≠ "" || real.compileErr ≠ ""
     else if real.compileErr ≠ "" then false
     else if real.err = "" then real.postings = ps && !specFails
     else real.err = "exec:insufficient" && specFails && real.postings.isEmpty)
  let propModel :=
    if ps.isEmpty || !valid then true
    else match res with
      | .ok r => r.postings = ps && !specFails
      | .error (.run "exec" "insufficient") => specFails
      | _ => false
  let outcome := if mCompile ≠ "" then "compile:" ++ mCompile else if mErr ≠ "" then mErr else "ok"
  let feats :=
    (if force then ["force"] else []) ++
    (if ps.any (fun p => p.source = p.destination) then ["self-posting"] else []) ++
    (if ps.any (fun p => p.amount = 0) then ["zero-amount"] else []) ++
    (if ps.any (fun p => p.source = "world") then ["world-src"] else []) ++
    (if ps.any (fun p => p.destination = "world") then ["world-dst"] else []) ++
    (if (txAccounts ps []).length > 10 then ["more-than-10-accounts"] else []) ++
    (if !valid then ["invalid-input"] else [])
  pure { model, agree, prop, propModel,
         nontrivial := valid && ps.length ≥ 2 && (ps.map (·.source)).eraseDups.length ≥ 2,
         tags := outcome :: feats,
         note := if !envOK then "txEnvOK (hypothesis of postings_roundtrip) is false on this case"
                 else if !agree then "TxToScriptData text/vars or run result differs" else if !prop then "C25 predicate fails" else "",
         sig := if !prop then "C25-predicate" else "" }

/-! ## The `malformed` handler (C27): no model of the parser; records crashes -/

def handleMalformed : Handler := fun inp out => do
  let real ← decRealOut out
  let kind := optStrField inp "kind"
  let prop := real.panic = "" && !real.timeout &&
    ((real.err = "" && real.compileErr = "") || (real.resultNil && real.postings.isEmpty))
  let outcome :=
    if real.timeout then "timeout" else if real.panic ≠ "" then "panic"
    else if real.compileErr ≠ "" then "compile-error" else if real.err ≠ "" then real.err else "ok"
  let firstLine := ((real.panic.splitOn "\n").headD "")
  pure { model := Json.null, agree := true, prop, propModel := true,
         nontrivial := real.compileErr = "",
         tags := [kind, outcome],
         note := if prop then "" else "panic / hang / partial result: " ++ real.panic,
         sig := if real.timeout then "timeout"
                else if (real.panic.splitOn "nil *MonetaryInt pointer").length > 1 then "panic:nil-number"
                else if real.panic ≠ "" then "panic:" ++ firstLine
                else if !prop then "C27-partial-result" else "" }

end Ledger.Driver
