import Lean.Data.Json

/-!
Line-protocol plumbing shared by every handler of the correspondence driver.
One case per input line `{"f":…,"in":…,"out":…}`; one verdict per output line.
-/
namespace Ledger.Driver
open Lean

structure Verdict where
  /-- model output, in the canonical shape of the harness's "out" -/
  model : Json
  /-- model output = implementation output -/
  agree : Bool
  /-- the property's decidable predicate evaluated on the implementation's output -/
  prop : Bool := true
  /-- the same predicate on the model's output -/
  propModel : Bool := true
  /-- non-trivial by the workload's stated rule -/
  nontrivial : Bool := true
  /-- branch / error-kind tags for the input distribution -/
  tags : List String := []
  /-- free text explaining a failed predicate -/
  note : String := ""

abbrev Handler := Json → Json → Except String Verdict

def Verdict.toJson (v : Verdict) (i : Nat) : Json :=
  let base : List (String × Json) :=
    [("i", i), ("agree", v.agree), ("prop", v.prop), ("propModel", v.propModel),
     ("nt", v.nontrivial), ("tags", Json.arr (v.tags.map Json.str).toArray)]
  let extra := if v.agree && v.prop then [] else [("model", v.model), ("note", Json.str v.note)]
  Json.mkObj (base ++ extra)

-- JSON access helpers (all total, errors as `Except String`)
def field (j : Json) (k : String) : Except String Json := j.getObjVal? k
def strField (j : Json) (k : String) : Except String String := do (← field j k).getStr?
def boolField (j : Json) (k : String) : Except String Bool := do (← field j k).getBool?
def arrField (j : Json) (k : String) : Except String (List Json) := do
  match j.getObjVal? k with
  | .ok (.arr a) => pure a.toList
  | .ok .null => pure []
  | .ok _ => throw s!"field {k}: not an array"
  | .error _ => pure []
def strArrField (j : Json) (k : String) : Except String (List String) := do
  (← arrField j k).mapM (·.getStr?)
def optStrField (j : Json) (k : String) : String :=
  match j.getObjVal? k with
  | .ok (.str s) => s
  | _ => ""

/-- Decimal integer (optional leading `-`) of any size. -/
def parseInt (s : String) : Except String Int :=
  match s.toInt? with
  | some v => pure v
  | none => throw s!"not an integer: {s}"

def jStrs (xs : List String) : Json := Json.arr (xs.map Json.str).toArray
def jBools (xs : List Bool) : Json := Json.arr (xs.map Json.bool).toArray

end Ledger.Driver
