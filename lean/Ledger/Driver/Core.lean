import Lean.Data.Json

/-!
Line-protocol plumbing shared by every handler of the correspondence driver.
One case per input line `{"f":…,"in":…,"out":…}`; one verdict per output line.
-/
namespace Ledger.Driver
open Lean

structure Verdict where
  /-- model output, in the canonical shape of the harness's "out" -/
  model : Json
  /-- model output = implementation output -/
  agree : Bool
  /-- the property's decidable predicate evaluated on the implementation's output -/
  prop : Bool := true
  /-- the same predicate on the model's output -/
  propModel : Bool := true
  /-- non-trivial by the workload's stated rule -/
  nontrivial : Bool := true
  /-- branch / error-kind tags for the input distribution -/
  tags : List String := []
  /-- free text explaining a failed predicate -/
  note : String := ""
  /-- stable signature of a failure (what fails, not on which random input);
      `known_findings.json` entries match on it -/
  sig : String := ""

abbrev Handler := Json → Json → Except String Verdict

def Verdict.toJson (v : Verdict) (i : Nat) : Json :=
  let base : List (String × Json) :=
    [("i", i), ("agree", v.agree), ("prop", v.prop), ("propModel", v.propModel),
     ("nt", v.nontrivial), ("tags", Json.arr (v.tags.map Json.str).toArray)]
  let extra := if v.agree && v.prop then [] else
    [("model", v.model), ("note", Json.str v.note), ("sig", Json.str v.sig)]
  Json.mkObj (base ++ extra)

-- JSON access helpers (all total, errors as `Except String`)
def field (j : Json) (k : String) : Except String Json := j.getObjVal? k
def strField (j : Json) (k : String) : Except String String := do (← field j k).getStr?
def boolField (j : Json) (k : String) : Except String Bool := do (← field j k).getBool?
def arrField (j : Json) (k : String) : Except String (List Json) := do
  match j.getObjVal? k with
  | .ok (.arr a) => pure a.toList
  | .ok .null => pure []
  | .ok _ => throw s!"field {k}: not an array"
  | .error _ => pure []
def strArrField (j : Json) (k : String) : Except String (List String) := do
  (← arrField j k).mapM (·.getStr?)
def optStrField (j : Json) (k : String) : String :=
  match j.getObjVal? k with
  | .ok (.str s) => s
  | _ => ""

/-- Decimal integer (optional leading `-`) of any size. -/
def parseInt (s : String) : Except String Int :=
  match s.toInt? with
  | some v => pure v
  | none => throw s!"not an integer: {s}"

def jStrs (xs : List String) : Json := Json.arr (xs.map Json.str).toArray
def jBools (xs : List Bool) : Json := Json.arr (xs.map Json.bool).toArray


/-- The driver loop shared by every `ldriver*` executable: one JSON case per
    stdin line, one verdict per stdout line. -/
partial def loop (handlers : List (String × Handler)) (h out : IO.FS.Stream) (i : Nat) : IO Unit := do
  let line ← h.getLine
  if line.isEmpty then return ()
  let t := line.trimAscii.toString
  if t.isEmpty then loop handlers h out i else
  let res : Except String Verdict := do
    let j ← Json.parse t
    let f ← strField j "f"
    let inp ← field j "in"
    let o ← field j "out"
    match handlers.lookup f with
    | some hd => hd inp o
    | none => throw s!"no handler for {f}"
  match res with
  | .ok v => out.putStrLn (v.toJson i).compress
  | .error e => out.putStrLn (Json.mkObj [("i", i), ("error", e)]).compress
  loop handlers h out (i + 1)

def runDriver (handlers : List (String × Handler)) : IO Unit := do
  let stdin ← IO.getStdin
  let stdout ← IO.getStdout
  loop handlers stdin stdout 0
  stdout.flush

end Ledger.Driver
