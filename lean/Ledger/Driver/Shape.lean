import Ledger.Driver.Core
import Ledger.Gates.Shape

/-! Handler "shape": one rendered read query of the shape matrix (workload
    `shapes`, bin `vrshape`).  There is no separate model output: the verdict is
    the decidable predicates of `Ledger.Gates.Shape` on the facts of the REAL
    rendered SQL; `sig` names the predicate that fails. -/
namespace Ledger.Driver
open Lean Ledger.Gates

def resOf : String → Res
  | "transactions" => .transactions | "accounts" => .accounts | "volumes" => .volumes
  | "aggregated" => .aggregated | "logs" => .logs | "schemas" => .schemas | _ => .unknown

def natOf (xs : List String) (s : String) : Nat := (xs.findIdx? (· == s)).getD xs.length

def handleShape : Handler := fun inp out => do
  let focus := optStrField inp "focus"
  let b (k : String) : Except String Bool := boolField out k
  let n (k : String) : Except String Nat := do (← field out k).getNat?
  let tables ← strArrField out "tables"
  let errS := optStrField out "err"
  let panicS := optStrField out "panic"
  let err : ErrK :=
    if panicS ≠ "" then .other
    else if errS = "" then .ok
    else if errS = "missing-feature:\"MOVES_HISTORY\"" then .missingMH
    else if errS = "missing-feature:\"MOVES_HISTORY_POST_COMMIT_EFFECTIVE_VOLUMES\"" then .missingPCEV
    else if errS = "invalid-query" then .invalidQuery else .other
  let s : Shape := {
    mh := ← b "mh", pcev := ← b "pcev", amh := ← b "amh", tmh := ← b "tmh", alone := ← b "alone",
    pit := ← b "pit", oot := ← b "oot", insDate := ← b "insDate", group := (← n "group") ≠ 0,
    resource := resOf (← strField out "resource"),
    call := natOf ["list", "count", "get"] (← strField out "call"),
    expand := natOf ["", "volumes", "effectiveVolumes"] (← strField out "expand"),
    filter := natOf ["", "metadata", "account", "address", "balance"] (← strField out "filter"),
    err := err, baseRefs := ← n "baseRefs", ledgerPreds := ← n "ledgerPreds", otherLedger := ← n "otherLedger",
    tMoves := tables.contains "moves", tTxMeta := tables.contains "transactions_metadata",
    tAccMeta := tables.contains "accounts_metadata", usesPCEV := ← b "usesPCEV", statements := ← n "statements" }
  let sig :=
    if !s.featuresOk then "C35:read-needs-disabled-feature"
    else if !s.metaHistoryOk then "C17:metadata-history-gate"
    else if !s.scopedOk then "C19:unscoped-read" else ""
  -- each property's check looks at its own predicate only (`-focus Cxx`)
  let (prop, sig) :=
    if focus = "C35" then (s.featuresOk, if s.featuresOk then "" else "C35:read-needs-disabled-feature")
    else if focus = "C17" then (s.metaHistoryOk, if s.metaHistoryOk then "" else "C17:metadata-history-gate")
    else if focus = "C19" then (s.scopedOk, if s.scopedOk then "" else "C19:unscoped-read")
    else (s.ok, sig)
  pure { model := Json.null, agree := true, prop := prop, propModel := true,
         nontrivial := s.err == .ok,
         tags := [s!"{repr s.resource}", if s.err == .ok then "rendered" else "rejected",
                  if s.alone then "alone" else "shared"],
         note := sig, sig := sig }

end Ledger.Driver
