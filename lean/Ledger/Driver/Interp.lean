import Ledger.Driver.Core
import Ledger.Driver.Machine
import Ledger.Interp.Fragment
import Ledger.Api.InterpCompare

/-!
Handlers of `ldriver_interp` (C26, model layer): `interpmodel`, `interpedge`.

Per case (a program as AST + text, variables, balances, account metadata, and what
the two REAL runtimes returned):
  * `agree`  = the interpreter MODEL (`Interp.run`) reproduces the real interpreter
               (outcome, error kind, postings in order, metadata) AND the machine MODEL
               (`Machine.sem`) reproduces the real machine (as in C22's `prog`);
  * `prop`   = the C26 predicate on the two REAL results (both fail, or same non-zero
               postings in order after merging adjacent equal pairs, same metadata);
  * `propModel` = the same predicate on the two MODEL results;
  * tags     = generator, outcome, `F1` / `F2` (in F2 but not F1) / `notF2:<first failing condition>`;
  * `sig`    = `C26:<class>:<aspect>`; the class is the first reason the program is
               outside the proved fragment (so every divergence is named by a construct
               the theorem excludes; a divergence inside F2 would be `C26:in-fragment:…`).
-/
namespace Ledger.Driver.InterpH
open Lean Ledger.Driver Ledger.Machine

/-! ## Real interpreter output -/

structure IReal where
  ok : Bool
  err : String
  panic : String
  timeout : Bool
  postings : List Posting
  txMeta : Json
  accMeta : Json

def sortObj (j : Json) : Json :=
  match j with
  | .obj kvs => Json.mkObj (kvs.toList.toArray.qsort (fun a b => a.1 < b.1)).toList
  | x => x

/-- Account metadata: accounts sorted, keys sorted, accounts with no key dropped. -/
def normAccMeta (j : Json) : Json :=
  match j with
  | .obj kvs =>
    let rows := (kvs.toList.toArray.qsort (fun a b => a.1 < b.1)).toList
    Json.mkObj ((rows.map fun (a, m) => (a, sortObj m)).filter fun (_, m) =>
      match m with
      | .obj x => !x.toList.isEmpty
      | _ => true)
  | _ => Json.mkObj []

def decIReal (out : Json) : Except String IReal := do
  pure {
    ok := ← boolField out "ok",
    err := optStrField out "err",
    panic := optStrField out "panic",
    timeout := (match out.getObjVal? "timeout" with | .ok (.bool b) => b | _ => false),
    postings := ← (← arrField out "postings").mapM decPosting,
    txMeta := sortObj ((out.getObjVal? "txMeta").toOption.getD (Json.mkObj [])),
    accMeta := normAccMeta ((out.getObjVal? "accMeta").toOption.getD (Json.mkObj [])) }

/-! ## Canonical results (either runtime, real or model) -/

structure Res where
  ok : Bool
  /-- failure known before execution by one front end only (compile / parse error) -/
  static : Bool := false
  crash : Bool := false
  postings : List Posting := []
  txMeta : Json := Json.mkObj []
  accMeta : Json := Json.mkObj []

def jAccMetaStr (m : List (String × String × String)) : Json :=
  let accts := (m.map (·.1)).eraseDups
  let g := (accts.map fun a => (a, (m.filter (·.1 = a)).map fun x => (x.2.1, x.2.2))).toArray.qsort (fun a b => a.1 < b.1)
  Json.mkObj (g.toList.map fun (a, kvs) => (a, jStrMap kvs))

def resOfIModel (r : Except String Interp.Result) : Res :=
  match r with
  | .ok x => { ok := true, postings := x.postings,
               txMeta := jStrMap (x.txMeta.map fun (k, v) => (k, Interp.valStr v)),
               accMeta := normAccMeta (jAccMetaStr x.accMeta) }
  | .error k => { ok := false, static := k = "Parse" }

def resOfIReal (r : IReal) : Res :=
  if r.ok then { ok := true, postings := r.postings, txMeta := r.txMeta, accMeta := r.accMeta }
  else { ok := false, static := r.err = "Parse", crash := r.panic ≠ "" || r.timeout }

def resOfMModel (r : Except Err Machine.Result) : Res :=
  match r with
  | .ok x => { ok := true, postings := x.postings,
               txMeta := jStrMap (x.txMeta.map fun (k, v) => (k, valueStr v)),
               accMeta := normAccMeta (jAccMeta x.accMeta) }
  | .error (.compile _) => { ok := false, static := true }
  | .error (.panic _) => { ok := false, crash := true }
  | .error _ => { ok := false }

def resOfMReal (r : RealOut) : Res :=
  if r.compileErr ≠ "" then { ok := false, static := true }
  else if r.panic ≠ "" || r.timeout then { ok := false, crash := true }
  else if r.err ≠ "" then { ok := false }
  else { ok := true, postings := r.postings, txMeta := r.txMeta, accMeta := normAccMeta r.accMeta }

def toP (ps : List Posting) : List Ledger.Api.Interp.P :=
  ps.map fun p => { source := p.source, destination := p.destination, asset := p.asset, amount := p.amount }

/-- The C26 predicate on two results: "" = agree (or outside the shared language). -/
def c26Aspect (m i : Res) : String :=
  if m.crash || i.crash then s!"crash:machine={m.crash}:interp={i.crash}"
  else if (m.static && !i.static) || (i.static && !m.static) then ""   -- only one front end accepts the text
  else if m.ok != i.ok then (if m.ok then "outcome:machine-ok-interp-fail" else "outcome:machine-fail-interp-ok")
  else if !m.ok then ""
  else if Ledger.Api.Interp.norm (toP m.postings) ≠ Ledger.Api.Interp.norm (toP i.postings) then "postings"
  else if !(m.txMeta == i.txMeta) then "txmeta"
  else if !(m.accMeta == i.accMeta) then "accountmeta"
  else ""

/-! ## Why a program is outside the proved fragment (names the divergence class) -/

def exprHasArith : Expr → Bool
  | .add _ _ => true
  | .sub _ _ => true
  | _ => false

/-- What is wrong with a cap-like expression (`""` = nothing). -/
def capReason (env : Env) (asset : String) (e : Expr) : String :=
  if !Interp.litsOK e then "octal-portion"
  else
    match evalMonetary env e with
    | .ok (a, some v) => if a ≠ asset then "asset-mismatch" else if v < 0 then "negative-cap" else ""
    | _ => "ill-typed"

def acctReason (env : Env) (e : Expr) (source : Bool) : String :=
  match evalAccount env e with
  | .ok a => if source && !e.isWorld && a = "world" then "world-variable" else ""
  | .error _ => "ill-typed"

mutual
  def srcReasons (env : Env) (asset : String) : Source → List String
    | .account e od =>
      [acctReason env e true] ++
      (match od with
       | .upTo x => [capReason env asset x]
       | _ => [])
    | .maxed m s => capReason env asset m :: srcReasons env asset s
    | .inorder ss => srcsReasons env asset ss
  def srcsReasons (env : Env) (asset : String) : SourceList → List String
    | .nil => []
    | .cons s ss => srcReasons env asset s ++ srcsReasons env asset ss
end

def allotSrcReasons (env : Env) (asset : String) : AllotSrcList → List String
  | .nil => []
  | .cons p s r =>
    (match p with | .lit t => (if Interp.portionLitOK t then [] else ["octal-portion"]) | .var _ => ["portion-variable"] | _ => []) ++
    srcReasons env asset s ++ allotSrcReasons env asset r

mutual
  def dstReasons (env : Env) (asset : String) : Dest → List String
    | .account e => [acctReason env e false]
    | .inorder items rem => inOrderReasons env asset items ++ kdReasons env asset rem
    | .allot items =>
      (if Interp.allotOK env items.portions then [] else ["allotment-shares"]) ++ allotDstReasons env asset items
  def kdReasons (env : Env) (asset : String) : KeptOrDest → List String
    | .kept => ["kept"]
    | .to d => dstReasons env asset d
  def inOrderReasons (env : Env) (asset : String) : InOrderDstList → List String
    | .nil => []
    | .cons m d r => capReason env asset m :: (kdReasons env asset d ++ inOrderReasons env asset r)
  def allotDstReasons (env : Env) (asset : String) : AllotDstList → List String
    | .nil => []
    | .cons p d r =>
      (match p with | .lit t => (if Interp.portionLitOK t then [] else ["octal-portion"]) | .var _ => ["portion-variable"] | _ => []) ++
      kdReasons env asset d ++ allotDstReasons env asset r
end

def valReason (env : Env) (e : Expr) : String :=
  if !Interp.litsOK e then "octal-portion"
  else match Machine.evalExpr env e with | .ok _ => "" | .error _ => "ill-typed"

def stmtReasons (env : Env) : Stmt → List String
  | .print _ => ["print"]
  | .fail => ["fail"]
  | .save m _ => [if exprHasArith m then "save-expression" else "save"]
  | .saveAll _ _ => ["save"]
  | .setTxMeta _ e => [valReason env e]
  | .setAccountMeta a _ e => [acctReason env a false, valReason env e]
  | .send mon src dst =>
    match evalMonetary env mon with
    | .ok (a, some _) =>
      (match src with
       | .src s => srcReasons env a s
       | .allot items =>
         (if Interp.allotOK env items.portions then [] else ["allotment-shares"]) ++
         (match evalMonetary env mon with | .ok (_, some v) => (if v < 0 then ["negative-amount"] else []) | _ => []) ++
         allotSrcReasons env a items) ++ dstReasons env a dst
    | _ => ["ill-typed"]
  | .sendAll ae src dst =>
    match evalAssetE env ae with
    | .ok a =>
      (match src with
       | .src s => srcReasons env a s
       | .allot _ => ["ill-typed"]) ++ dstReasons env a dst
    | .error _ => ["ill-typed"]

/-- Priority of the classes: the three listed by the `interp` workload first. -/
def classPriority : List String :=
  ["kept", "save-expression", "save", "negative-cap", "world-variable", "asset-mismatch", "octal-portion",
   "portion-variable", "negative-amount", "allotment-shares", "print", "fail", "ill-typed"]

def hasBoundedOverdraft (s : Script) : Bool := (scriptTags s).contains "overdraft-upto"
def hasSave (s : Script) : Bool := (scriptTags s).contains "save" || (scriptTags s).contains "save-all"

/-- A `balance()` variable on the literal `@world`. -/
def balanceWorld (s : Script) : Bool :=
  s.vars.any fun d => match d.orig with
    | .balance (.acct a) _ => a = "world"
    | _ => false

/-! ## Asset literals the interpreter's lexer reads differently

The machine's ASSET token is `[A-Z/0-9]+`; the compiler then rejects the literals
outside the asset pattern.  The interpreter's lexer (`[A-Z][A-Z0-9]*('/'[0-9]+)?`) splits
such a text into other tokens, so the AST is not the interpreter's reading of the text:
no claim about the interpreter model is made for these programs. -/

def exprAssetsOK : Expr → Bool
  | .asset s => validAsset s
  | .mon a _ => exprAssetsOK a
  | .add l r => exprAssetsOK l && exprAssetsOK r
  | .sub l r => exprAssetsOK l && exprAssetsOK r
  | _ => true

def odAssetsOK : Overdraft → Bool
  | .upTo x => exprAssetsOK x
  | _ => true

mutual
  def srcAssetsOK : Source → Bool
    | .account e od => exprAssetsOK e && odAssetsOK od
    | .maxed m s => exprAssetsOK m && srcAssetsOK s
    | .inorder ss => srcsAssetsOK ss
  def srcsAssetsOK : SourceList → Bool
    | .nil => true
    | .cons s ss => srcAssetsOK s && srcsAssetsOK ss
end

def allotSrcAssetsOK : AllotSrcList → Bool
  | .nil => true
  | .cons _ s r => srcAssetsOK s && allotSrcAssetsOK r

mutual
  def dstAssetsOK : Dest → Bool
    | .account e => exprAssetsOK e
    | .inorder items rem => inOrderAssetsOK items && kdAssetsOK rem
    | .allot items => allotDstAssetsOK items
  def kdAssetsOK : KeptOrDest → Bool
    | .kept => true
    | .to d => dstAssetsOK d
  def inOrderAssetsOK : InOrderDstList → Bool
    | .nil => true
    | .cons m d r => exprAssetsOK m && kdAssetsOK d && inOrderAssetsOK r
  def allotDstAssetsOK : AllotDstList → Bool
    | .nil => true
    | .cons _ d r => kdAssetsOK d && allotDstAssetsOK r
end

def vsrcAssetsOK : VSource → Bool
  | .src s => srcAssetsOK s
  | .allot items => allotSrcAssetsOK items

def stmtAssetsOK : Stmt → Bool
  | .print e => exprAssetsOK e
  | .save m a => exprAssetsOK m && exprAssetsOK a
  | .saveAll m a => exprAssetsOK m && exprAssetsOK a
  | .setTxMeta _ e => exprAssetsOK e
  | .setAccountMeta a _ e => exprAssetsOK a && exprAssetsOK e
  | .fail => true
  | .send m src dst => exprAssetsOK m && vsrcAssetsOK src && dstAssetsOK dst
  | .sendAll m src dst => exprAssetsOK m && vsrcAssetsOK src && dstAssetsOK dst

def scriptAssetsOK (s : Script) : Bool :=
  s.stmts.all stmtAssetsOK &&
  s.vars.all fun d => match d.orig with
    | .none => true
    | .accountMeta a _ => exprAssetsOK a
    | .balance a c => exprAssetsOK a && exprAssetsOK c

/-! ## The handler -/

/-- `checkProp = false` (workload `interpfuzz`): only the two model = implementation ties are
    checked; the programs of the compiler fuzzer are mostly outside the shared language. -/
def handleInterp (checkProp : Bool) : Handler := fun inp out => do
  let (script, flags) ← decScript (← field inp "script")
  let src ← strField inp "src"
  let genKind := optStrField inp "gen"
  let input ← decInput inp
  let ireal ← decIReal (← field out "interp")
  let mreal ← decRealOut (← field out "machine")
  let textOk := rScript script flags = src
  -- models
  -- `destination = … source = …` (destination first) only exists in the machine grammar: the
  -- interpreter's parser rejects the text (the AST does not record the order)
  let iModel := if flags.any id then .error "Parse" else Interp.run script input
  let mModel := sem Cfg.fixed script input
  let tc := typecheck script
  let compiles := match tc with | .ok _ => true | .error _ => false
  let rIM := resOfIModel iModel
  let rIR := resOfIReal ireal
  let rMM := resOfMModel mModel
  let rMR := resOfMReal mreal
  -- model = implementation?
  let iKind := match iModel with | .ok _ => "" | .error k => k
  let agreeI :=
    !scriptAssetsOK script ||
    !rIR.crash && rIM.ok = rIR.ok &&
    (if rIM.ok then rIM.postings = rIR.postings && rIM.txMeta == rIR.txMeta && rIM.accMeta == rIR.accMeta
     else (iKind = ireal.err || !compiles))
  let mErr := match mModel with
    | .error (.run st k) => st ++ ":" ++ k
    | .error (.fault w) => "fault:" ++ w
    | _ => ""
  let agreeM :=
    (match tc with | .ok _ => mreal.compileErr = "" | .error m => mreal.compileErr = m) &&
    (if !compiles then true
     else if rMM.crash then rMR.crash
     else !rMR.crash && rMM.ok = rMR.ok &&
       (if rMM.ok then rMM.postings = rMR.postings && rMM.txMeta == rMR.txMeta && rMM.accMeta == rMR.accMeta
        else mreal.err = mErr))
  let agree := textOk && agreeI && agreeM
  -- the property, on the real results and on the models
  let aspect := c26Aspect rMR rIR
  let aspectModel := c26Aspect rMM rIM
  let prop := aspect = "" || !checkProp
  let propModel := aspectModel = ""
  -- fragment
  let why := Interp.whyNotF2 script input
  let inF2 := why = ""
  let inF1 := Interp.InF1 script input
  let prep := prepare Cfg.fixed script input
  let reasons : List String :=
    match prep with
    | .ok (env, _, _) =>
      script.stmts.flatMap (stmtReasons env)
    | .error _ => []
  let cls : String :=
    if mreal.err = "exec:allot-exceeded" then "portions-over-100"
    else if hasSave script && hasBoundedOverdraft script then "save-overdraft"
    else if inF2 then "in-fragment"
    else if why = "front-ends-differ" then
      (if mreal.err = "vars:extraneous" then "extraneous-variable"
       else if mreal.err = "balances:world-source" then "world-variable"
       else if balanceWorld script then "balance-world"
       else "variable-format")
    else (classPriority.find? fun c => reasons.contains c).getD why
  let outcome :=
    if (rMR.static && !rIR.static) || (rIR.static && !rMR.static) then "out-of-subset"
    else if rMR.ok && rIR.ok then "both-ok" else if !rMR.ok && !rIR.ok then "both-fail" else "diverge"
  let nz := (Ledger.Api.Interp.norm (toP rMR.postings))
  -- a divergence of the MODELS inside F2 would contradict `machine_interp_agree_F2`
  let theoremOk := !(inF2 && !propModel)
  let note :=
    if !textOk then "rendered text differs from the harness's text"
    else if !agreeI then s!"interpreter model differs from the real interpreter (model: {if rIM.ok then "ok" else iKind}, real: {if rIR.ok then "ok" else ireal.err})"
    else if !agreeM then s!"machine model differs from the real machine (model: {if rMM.ok then "ok" else mErr}, real: {mreal.compileErr}{mreal.err}{mreal.panic})"
    else if !theoremOk then "models diverge inside F2"
    else if !prop then s!"runtimes diverge ({aspect}), class {cls}"
    else ""
  let model := Json.mkObj [
    ("interp", Json.mkObj [("ok", rIM.ok), ("err", iKind),
      ("postings", Json.arr (rIM.postings.map jPosting).toArray), ("txMeta", rIM.txMeta), ("accMeta", rIM.accMeta)]),
    ("machine", Json.mkObj [("ok", rMM.ok), ("err", mErr),
      ("postings", Json.arr (rMM.postings.map jPosting).toArray), ("txMeta", rMM.txMeta), ("accMeta", rMM.accMeta)])]
  pure { model, agree := agree && theoremOk, prop, propModel,
         nontrivial := rMR.ok && rIR.ok && !nz.isEmpty,
         tags := ["gen:" ++ genKind, outcome,
                  (if inF1 then "F1" else if inF2 then "F2" else "notF2:" ++ (if why = "statement-outside-F2" then cls else why))] ++
                 (if inF2 && rMR.ok && !nz.isEmpty then ["F2-ok-nontrivial"] else []) ++
                 (if inF2 && !rMR.ok && !rMR.static && mreal.err = "exec:insufficient" then ["F2-insufficient"] else []) ++
                 (if rIR.ok then [] else ["interp-err:" ++ ireal.err]),
         note, sig := if prop then "" else s!"C26:{cls}:{aspect}" }

end Ledger.Driver.InterpH
