import Ledger.Driver.CoreH
import Ledger.Spec.Hist
import Ledger.Spec.Reads

/-!
Handler `hist`: a history (`ops`) + a ledger snapshot produced elsewhere → fold the Spec,
compare, evaluate the fold predicates on the snapshot's own values.
JSON shapes: `Ledger/Spec/README.md`.
-/
namespace Ledger.Driver
open Lean Ledger.Base Ledger.Core Ledger.Spec

def decObjMap (j : Json) : Except String Metadata := do
  match j with
  | .obj kvs =>
    let l ← kvs.toList.mapM fun (k, v) => do pure (k, ← v.getStr?)
    pure (Map.ofList (fun _ n => n) l)
  | .null => pure []
  | _ => throw "metadata: not an object"

def optField (j : Json) (k : String) : Option Json :=
  match j.getObjVal? k with
  | .ok .null => none
  | .ok v => some v
  | .error _ => none

def decOptInt (j : Json) (k : String) : Except String (Option Int) :=
  match optField j k with
  | none => pure none
  | some _ => do pure (some (← intField j k))

def decTarget (j : Json) : Except String Target := do
  match optField j "account", optField j "tx" with
  | some a, _ => pure (.account (← a.getStr?))
  | none, some _ => pure (.tx (← natField j "tx"))
  | none, none => throw "target: neither account nor tx"

def decOp (j : Json) : Except String (Op × String) := do
  let kind ← strField j "op"
  let at_ ← intField j "at"
  let expect := optStrField j "expect"
  match kind with
  | "tx" =>
    let am ← match optField j "accountMetadata" with
      | some (.obj kvs) => do
        let l ← kvs.toList.mapM fun (k, v) => do pure (k, ← decObjMap v)
        pure (Map.ofList (fun _ n => n) l)
      | _ => pure []
    let force := match j.getObjVal? "force" with | .ok (.bool b) => b | _ => false
    pure (.tx at_ (← decOptInt j "timestamp") (← decPostings j "postings") (optStrField j "reference")
            (← decObjMap ((optField j "metadata").getD .null)) am force, expect)
  | "revert" =>
    pure (.revert at_ (← natField j "id") (← boolField j "force") (← boolField j "atEffectiveDate")
            (← decObjMap ((optField j "metadata").getD .null)), expect)
  | "saveMeta" =>
    pure (.saveMeta at_ (← decTarget (← field j "target")) (← decObjMap ((optField j "metadata").getD .null)), expect)
  | "deleteMeta" =>
    pure (.deleteMeta at_ (← decTarget (← field j "target")) (← strField j "key"), expect)
  | k => throw s!"unknown op {k}"

structure SnapTx where
  id : Nat
  postings : List Posting
  timestamp : Int
  insertedAt : Int
  reference : String
  metadata : Metadata
  revertedAt : Option Int
  pcv : PCV

def decSnapTx (j : Json) : Except String SnapTx := do
  pure { id := ← natField j "id", postings := ← decPostings j "postings", timestamp := ← intField j "timestamp",
         insertedAt := ← intField j "insertedAt", reference := optStrField j "reference",
         metadata := ← decObjMap ((optField j "metadata").getD .null), revertedAt := ← decOptInt j "revertedAt",
         pcv := ← decVols j "postCommitVolumes" }

def decVolObj (j : Json) : Except String Volumes := do
  pure ⟨← parseInt (← strField j "input"), ← parseInt (← strField j "output")⟩

/-- moves row; `pcev = none` when the snapshot has `null` there -/
def decSnapMove (j : Json) (i : Nat) : Except String (MoveRow × Bool) := do
  let pcev ← match optField j "pcev" with
    | some v => do pure (some (← decVolObj v))
    | none => pure none
  pure ({ seq := i, txId := ← natField j "txId", account := ← strField j "account", asset := ← strField j "asset",
          amount := ← parseInt (← strField j "amount"), isSource := ← boolField j "isSource",
          insertionDate := ← intField j "insertionDate", effectiveDate := ← intField j "effectiveDate",
          pcv := ← decVolObj (← field j "pcv"), pcev := pcev.getD Volumes.zero }, pcev.isSome)

structure SnapAccount where
  address : String
  firstUsage : Int
  insertionDate : Int
  metadata : Metadata

def decSnapAccount (j : Json) : Except String SnapAccount := do
  pure { address := ← strField j "address", firstUsage := ← intField j "firstUsage",
         insertionDate := ← intField j "insertionDate", metadata := ← decObjMap ((optField j "metadata").getD .null) }

structure SnapRev where
  txId : Nat
  address : String
  revision : Nat
  date : Int
  metadata : Metadata

def decSnapRev (j : Json) : Except String SnapRev := do
  pure { txId := ← (match optField j "txId" with | some _ => natField j "txId" | none => pure 0),
         address := optStrField j "address", revision := ← natField j "revision", date := ← intField j "date",
         metadata := ← decObjMap ((optField j "metadata").getD .null) }

/-- what the PIT read returns from a metadata-history table: the highest revision dated ≤ pit, `{}` if none -/
def revAt (revs : List SnapRev) (pit : Int) : Metadata :=
  match (revs.filter (fun r => r.date ≤ pit)).foldl
      (fun (best : Option SnapRev) r => match best with
        | none => some r
        | some b => if b.revision < r.revision then some r else some b) none with
  | some r => r.metadata
  | none => []

def section? (j : Json) (k : String) : Option (List Json) :=
  match j.getObjVal? k with
  | .ok (.arr a) => some a.toList
  | _ => none

def first? (checks : List (Bool × String)) : String :=
  match checks.find? (fun c => !c.1) with
  | some c => c.2
  | none => ""

/-- the revert transaction of `t` in `txs`: later, marked, reversed postings -/
def revertsOf (txs : List SnapTx) (t : SnapTx) : List SnapTx :=
  txs.filter fun r => r.metadata.get? revertMetaKey == some (toString t.id)

def handleHist : Handler := fun inp out => do
  let opsE ← (← arrField inp "ops").mapM decOp
  let ops := opsE.map (·.1)
  let snap ← field out "snapshot"
  let (w, outcomes) := (World.run {} ops)
  let recs := w.ledger.txs
  let st := w.store
  -- outcomes
  let observed : List String ← match out.getObjVal? "results" with
    | .ok (.arr a) => a.toList.mapM (·.getStr?)
    | _ => pure (opsE.map (·.2))
  let outcomeOk := (observed.zip outcomes).all fun (o, m) => o == "" || o == m.toString
  -- sections
  let av? ← match section? snap "accountsVolumes" with
    | some l => do pure (some (← l.mapM decVol))
    | none => pure none
  let txs? ← match section? snap "transactions" with
    | some l => do pure (some (← l.mapM decSnapTx))
    | none => pure none
  let moves? ← match section? snap "moves" with
    | some l => do pure (some (← (l.zipIdx).mapM fun (j, i) => decSnapMove j (i + 1)))
    | none => pure none
  let accts? ← match section? snap "accounts" with
    | some l => do pure (some (← l.mapM decSnapAccount))
    | none => pure none
  let txRevs? ← match section? snap "transactionsMetadata" with
    | some l => do pure (some (← l.mapM decSnapRev))
    | none => pure none
  let accRevs? ← match section? snap "accountsMetadata" with
    | some l => do pure (some (← l.mapM decSnapRev))
    | none => pure none
  -- agreement with the abstract store
  let avAgree := match av? with
    | none => true
    | some av => Map.isSorted av &&
        av.all (fun (k, v) => match st.accountsVolumes.get? k with | some v' => v == v' | none => v == Volumes.zero) &&
        st.accountsVolumes.all (fun (k, _) => (Map.get? av k).isSome)
  let txAgree := match txs? with
    | none => true
    | some txs => txs.length == st.txs.length && (txs.zip st.txs).all fun (g, r) =>
        g.id == r.tx.id && g.postings == r.tx.postings && g.timestamp == r.tx.timestamp &&
        g.insertedAt == r.tx.insertedAt && g.reference == r.tx.reference && g.revertedAt == r.tx.revertedAt &&
        g.pcv == r.pcv && g.metadata == metaAt w.ledger (.tx g.id) none
  let movesAgree := match moves? with
    | none => true
    | some ms => ms.length == st.moves.length && (ms.zip st.moves).all fun ((g, hasPcev), r) =>
        g.toMove == r.toMove && g.txId == r.txId && g.insertionDate == r.insertionDate &&
        g.effectiveDate == r.effectiveDate && (!hasPcev || g.pcev == r.pcev)
  let acctAgree := match accts? with
    | none => true
    | some as => as.map (·.address) == st.accounts.keys && as.all fun a =>
        match st.accounts.get? a.address with
        | some r => r.firstUsage == a.firstUsage && r.insertionDate == a.insertionDate && r.metadata == a.metadata
        | none => false
  let agree := outcomeOk && avAgree && txAgree && movesAgree && acctAgree
  -- predicates on the snapshot's own values, against the journal's folds
  let c01 := match av? with | none => true | some av => conservedTable av
  let c02 := match av? with
    | none => true
    | some av => av.all (fun (k, v) => v == volumesOf recs k) &&
        (allPostings recs).all (fun p => (Map.get? av p.srcKey).isSome && (Map.get? av p.dstKey).isSome)
  let c03 := match txs? with
    | none => true
    | some txs => (txs.zipIdx).all fun (g, i) =>
        let upTo := (txs.take (i + 1)).map fun t =>
          ({ id := t.id, postings := t.postings, timestamp := t.timestamp, insertedAt := t.insertedAt } : TxRec)
        g.pcv.all (fun (k, v) => touches k g.postings && v == volumesOf upTo k) &&
        g.postings.all (fun p => (g.pcv.get? p.srcKey).isSome && (g.pcv.get? p.dstKey).isSome)
  let c03m := match txs?, moves? with
    | some txs, some ms => txs.all fun g =>
        match PCV.subtractPostings g.pcv g.postings with
        | .error _ => false
        | .ok pre => runningMoves pre g.postings == .ok ((ms.filter (·.1.txId == g.id)).map (·.1.toMove))
    | _, _ => true
  let c04 := match moves? with
    | none => true
    | some ms => !ms.all (·.2) || pcevInvB (ms.map (·.1))
  -- C05: the two moves-based read shapes against the journal fold, at every recorded instant
  let instants := (recs.map (·.timestamp) ++ recs.map (·.insertedAt)).eraseDups
  let keys := ((allPostings recs).map (·.srcKey) ++ (allPostings recs).map (·.dstKey)).eraseDups
  let insMono := (recs.zip (recs.drop 1)).all fun (a, b) => a.insertedAt ≤ b.insertedAt
  let c05 := match moves? with
    | none => true
    | some ms =>
      let rows := ms.map (·.1)
      instants.all fun t => keys.all fun k =>
        [DateMode.insertion, DateMode.effective].all (fun mode =>
          movesWindowVolumes rows { pit := some t } mode k == volumesAt recs { pit := some t } mode k &&
          movesWindowVolumes rows { oot := some t } mode k == volumesAt recs { oot := some t } mode k) &&
        (!ms.all (·.2) || effectiveVolumesAt rows k t == volumesAt recs { pit := some t } .effective k) &&
        (!insMono || insertionVolumesAt rows k t == volumesAt recs { pit := some t } .insertion k)
  -- C17: metadata as of every recorded instant, from the REAL history tables, against `metaAt`
  let metaInstants := instants ++ (w.ledger.events.filterMap fun e => match e with
      | .metaWrite m => some m.date | .reverted _ a => some a | _ => none)
  let c17t := match txRevs? with
    | none => true
    | some revs => recs.all fun t => metaInstants.all fun pit =>
        revAt (revs.filter (·.txId == t.id)) pit == metaAt w.ledger (.tx t.id) (some pit)
  let c17a := match accRevs? with
    | none => true
    | some revs => w.ledger.accounts.all fun a => metaInstants.all fun pit =>
        revAt (revs.filter (·.address == a)) pit == metaAt w.ledger (.account a) (some pit)
  let c15 := match txs? with
    | none => true
    | some txs => txs.all fun t =>
        let rs := revertsOf txs t
        (if t.revertedAt.isSome then rs.length == 1 else rs.isEmpty) &&
        rs.all fun r => r.id > t.id && r.postings == reversePostings t.postings
  let c18 := match accts? with
    | none => true
    | some as => as.map (·.address) == w.ledger.accounts.filter (fun a => (firstUsage w.ledger a).isSome) &&
        as.all fun a => firstUsage w.ledger a.address == some a.firstUsage && insertionDate w.ledger a.address == some a.insertionDate &&
          a.metadata == metaAt w.ledger (.account a.address) none
  let sig := pickSig (focusOf inp) [(c01, "C01:snapshot-not-conserved"), (c02, "C02:snapshot-volumes-not-fold"),
    (c03, "C03:snapshot-pcv-not-state-after"), (c03m, "C03:snapshot-moves-not-running"),
    (c04, "C04:snapshot-pcev-invariant"), (c05, "C05:snapshot-moves-window-not-fold"),
    (c17t, "C17:snapshot-tx-metadata-history"), (c17a, "C17:snapshot-account-metadata-history"), (c15, "C15:snapshot-revert-shape"), (c18, "C18:snapshot-accounts")]
  let prop := sig == ""
  let disagreeAt := first? [(outcomeOk, "outcomes"), (avAgree, "accountsVolumes"), (txAgree, "transactions"),
    (movesAgree, "moves"), (acctAgree, "accounts")]
  let opTag : Op → String
    | .tx .. => "op:tx" | .revert .. => "op:revert" | .saveMeta .. => "op:saveMeta" | .deleteMeta .. => "op:deleteMeta"
  let backdated := (recs.zip (recs.drop 1)).any fun (a, b) => b.timestamp < a.timestamp
  let tiedTs := (recs.map (·.timestamp)).eraseDups.length < recs.length
  let featTags : List String := match inp.getObjVal? "features" with
    | .ok (.obj kvs) => if kvs.toList.isEmpty then ["features:default"] else
        kvs.toList.map fun (k, v) => s!"{k}={v.getStr?.toOption.getD ""}"
    | _ => ["features:default"]
  pure { model := Json.mkObj [("accountsVolumes", encVols st.accountsVolumes),
                              ("outcomes", jStrs (outcomes.map (·.toString))), ("disagreeAt", disagreeAt)],
         agree, prop, propModel := pcevInvB st.moves && conservedTable st.accountsVolumes,
         nontrivial := recs.length ≥ 1 && (involvedOf (allPostings recs)).length ≥ 3,
         tags := ((ops.map opTag) ++ (outcomes.map fun o => "res:" ++ o.toString)).eraseDups ++
                 (if backdated then ["back-dated"] else []) ++ (if tiedTs then ["tied-timestamps"] else []) ++
                 (match moves? with | some ms => if ms.all (·.2) then ["pcev-present"] else ["pcev-null"] | none => ["no-moves-section"]) ++
                 featTags,
         sig, note := if agree && prop then "" else s!"disagree at: {disagreeAt}; predicate: {sig}" }

/-- Self-check: the snapshot the abstract store itself denotes (used for corpus/selftest lines
    whose `out.snapshot` is `"self"`). -/
def encSnapshot (w : World) : Json :=
  Json.mkObj [
    ("accountsVolumes", encVols w.store.accountsVolumes),
    ("transactions", Json.arr (w.store.txs.map fun r => Json.mkObj [
        ("id", r.tx.id), ("postings", encPostings r.tx.postings), ("timestamp", Json.num r.tx.timestamp),
        ("insertedAt", Json.num r.tx.insertedAt), ("reference", r.tx.reference),
        ("metadata", Json.mkObj ((metaAt w.ledger (.tx r.tx.id) none).map fun (k, v) => (k, Json.str v))),
        ("revertedAt", match r.tx.revertedAt with | some t => Json.num t | none => Json.null),
        ("postCommitVolumes", encVols r.pcv)]).toArray),
    ("moves", Json.arr (w.store.moves.map fun m => Json.mkObj [
        ("seq", m.seq), ("txId", m.txId), ("account", m.account), ("asset", m.asset), ("amount", toString m.amount),
        ("isSource", m.isSource), ("insertionDate", Json.num m.insertionDate), ("effectiveDate", Json.num m.effectiveDate),
        ("pcv", Json.mkObj [("input", toString m.pcv.input), ("output", toString m.pcv.output)]),
        ("pcev", Json.mkObj [("input", toString m.pcev.input), ("output", toString m.pcev.output)])]).toArray),
    ("accounts", Json.arr (w.store.accounts.map fun (a, r) => Json.mkObj [
        ("address", a), ("firstUsage", Json.num r.firstUsage), ("insertionDate", Json.num r.insertionDate),
        ("metadata", Json.mkObj (r.metadata.map fun (k, v) => (k, Json.str v)))]).toArray)]

/-- `histself`: `in.ops` only; the handler builds the store's own snapshot and runs `hist` on
    it (consistency of journal folds vs. abstract store on arbitrary histories). -/
def handleHistSelf : Handler := fun inp _ => do
  let opsE ← (← arrField inp "ops").mapM decOp
  let (w, _) := World.run {} (opsE.map (·.1))
  handleHist inp (Json.mkObj [("snapshot", encSnapshot w)])

def histHandlers : List (String × Handler) := [("hist", handleHist), ("histself", handleHistSelf)]

end Ledger.Driver
