import Ledger.Driver.Core
import Ledger.Spec.Store
import Ledger.Spec.Reads

/-!
Handlers of the Core-area correspondence driver (`ldriver_core`):

* `volupd`   — `Transaction.VolumeUpdates`                         (C01, C02)
* `pcv`      — one real `CommitTransaction` over the fake driver    (C03)
* `pcvops`   — `PostCommitVolumes` operations, `ComputePostCommitEffectiveVolumes`
* `reverse`  — `Postings.Reverse`, `Transaction.Reverse`, `revertTransaction` (C15)
* `histfold` — histories through the real `CommitTransaction`, against the Spec fold and
               the abstract store (C01, C02, C03)

Every handler (1) computes the model's output and compares it with the real output,
(2) evaluates the property predicates on the REAL output.
-/
namespace Ledger.Driver
open Lean Ledger.Base Ledger.Core Ledger.Spec

/-! ### decoding -/

def intField (j : Json) (k : String) : Except String Int := do
  match (← field j k) with
  | .num n => if n.exponent = 0 then pure n.mantissa else throw s!"field {k}: not an integer"
  | .str s => parseInt s
  | _ => throw s!"field {k}: not a number"

def natField (j : Json) (k : String) : Except String Nat := do
  let i ← intField j k
  if i < 0 then throw s!"field {k}: negative" else pure i.toNat

def decPosting (j : Json) : Except String Posting := do
  pure { source := ← strField j "source", destination := ← strField j "destination",
         amount := ← parseInt (← strField j "amount"), asset := ← strField j "asset" }

def decPostings (j : Json) (k : String) : Except String (List Posting) := do
  (← arrField j k).mapM decPosting

/-- One flattened volumes entry; `"nil"` integers (nil `*big.Int`) are rejected. -/
def decVol (j : Json) : Except String (Key × Volumes) := do
  pure ((← strField j "account", ← strField j "asset"),
        ⟨← parseInt (← strField j "input"), ← parseInt (← strField j "output")⟩)

def decVols (j : Json) (k : String) : Except String (List (Key × Volumes)) := do
  (← arrField j k).mapM decVol

def decBal (j : Json) : Except String (Key × Int) := do
  pure ((← strField j "account", ← strField j "asset"), ← parseInt (← strField j "balance"))

structure RealMove where
  move : Move
  txId : String
  ins : String
  eff : String
  deriving BEq

def decMove (j : Json) : Except String RealMove := do
  pure { move := { account := ← strField j "account", asset := ← strField j "asset",
                   amount := ← parseInt (← strField j "amount"), isSource := ← boolField j "isSource",
                   pcv := ⟨← parseInt (← strField j "input"), ← parseInt (← strField j "output")⟩ },
         txId := ← strField j "txId", ins := ← strField j "ins", eff := ← strField j "eff" }

def decPair (j : Json) : Except String (String × String) := do
  match j with
  | .arr a =>
    if h : a.size = 2 then pure (← a[0].getStr?, ← a[1].getStr?) else throw "pair: wrong size"
  | _ => throw "pair: not an array"

/-! ### encoding (for the `model` field of a failed verdict) -/

def encVols (m : List (Key × Volumes)) : Json :=
  Json.arr (m.map fun (k, v) => Json.mkObj [("account", k.1), ("asset", k.2),
    ("input", toString v.input), ("output", toString v.output)]).toArray

def encPostings (ps : List Posting) : Json :=
  Json.arr (ps.map fun p => Json.mkObj [("source", p.source), ("destination", p.destination),
    ("amount", toString p.amount), ("asset", p.asset)]).toArray

def encMoves (ms : List Move) : Json :=
  Json.arr (ms.map fun m => Json.mkObj [("account", m.account), ("asset", m.asset), ("amount", toString m.amount),
    ("isSource", m.isSource), ("input", toString m.pcv.input), ("output", toString m.pcv.output)]).toArray

def encErr {α : Type} (f : α → Json) : Except Err α → Json
  | .ok a => f a
  | .error e => Json.mkObj [("error", e.toString)]

/-! ### property focus -/

/-- The property the running check is about (`in.prop`, set by `vrcore -prop Cxx`); `""` = all. -/
def focusOf (inp : Json) : String := optStrField inp "prop"

/-- Signature of the first failing predicate that belongs to the focused property (sigs are
    `"Cxx:what"`); `""` when none fails.  A check only fails on its own property's predicates;
    disagreement between model and real output (`agree`) stays common to all. -/
def pickSig (focus : String) (checks : List (Bool × String)) : String :=
  match checks.find? (fun c => !c.1 && (focus == "" || c.2.startsWith (focus ++ ":"))) with
  | some c => c.2
  | none => ""

/-! ### shared predicates -/

def assetsOf (ps : List Posting) : List String := (ps.map (·.asset)).eraseDups

/-- C01 on a volumes table: per asset Σ inputs = Σ outputs. -/
def conservedTable (m : PCV) : Bool :=
  ((m.map (·.1.2)).eraseDups).all fun s => netIn s m == 0

/-- C01 on `VolumeUpdates`' output: per asset Σ inputs = Σ outputs = Σ amounts. -/
def conservedUpdates (ps : List Posting) (m : PCV) : Bool :=
  (assetsOf ps ++ m.map (·.1.2)).eraseDups.all fun s =>
    inputsIn s m == assetTotal s ps && outputsIn s m == assetTotal s ps

/-- C02 on `VolumeUpdates`' output: sorted, exactly the touched pairs, each holding the fold. -/
def updatesAreFold (ps : List Posting) (m : PCV) : Bool :=
  Map.isSorted m &&
  m.all (fun (k, v) => touches k ps && v == foldVolumes k ps) &&
  ps.all (fun p => (m.get? p.srcKey).isSome && (m.get? p.dstKey).isSome)

def magTag (ps : List Posting) : List String :=
  (if ps.any (fun p => p.amount ≥ 18446744073709551616) then ["amount≥2^64"] else []) ++
  (if ps.any (fun p => p.amount ≥ 9007199254740992 && p.amount < 18446744073709551616) then ["amount≥2^53"] else []) ++
  (if ps.any (fun p => p.amount == 0) then ["zero-amount"] else []) ++
  (if ps.any (fun p => p.amount < 0) then ["negative-amount"] else [])

def shapeTags (ps : List Posting) : List String :=
  (if ps.isEmpty then ["no-postings"] else []) ++
  (if ps.any (fun p => p.source == p.destination) then ["self-posting"] else []) ++
  (if ps.any (fun p => p.source == "world" || p.destination == "world") then ["world"] else []) ++
  (if (ps.map (fun p => (p.source, p.destination, p.asset))).eraseDups.length < ps.length then ["repeated-pair"] else []) ++
  (if (assetsOf ps).length > 1 then ["multi-asset"] else []) ++
  (if ps.any (fun p => ps.any (fun q => p.destination == q.source && p.asset == q.asset && p.source != p.destination)) then ["chain"] else []) ++
  magTag ps

def involvedOf (ps : List Posting) : List String :=
  ((ps.map (·.source)) ++ (ps.map (·.destination))).eraseDups

/-! ### volupd -/

def handleVolupd : Handler := fun inp out => do
  let ps ← decPostings inp "postings"
  let model := volumeUpdates ps
  let mAccounts := involvedAccounts ps
  let mDest := involvedDestinations ps
  let gPanic := optStrField out "panic"
  let gUpd ← decVols out "updates"
  let gAcc ← strArrField out "accounts"
  let gDest ← (← arrField out "destinations").mapM decPair
  let agree := gPanic == "" && gUpd == model && gAcc == mAccounts && gDest == mDest
  let sig := pickSig (focusOf inp) [(conservedUpdates ps gUpd, "C01:VolumeUpdates-not-conserved"),
    (updatesAreFold ps gUpd, "C02:VolumeUpdates-not-fold")]
  let prop := sig == ""
  pure { model := Json.mkObj [("updates", encVols model), ("accounts", jStrs mAccounts)],
         agree, prop, propModel := conservedUpdates ps model && updatesAreFold ps model,
         nontrivial := ps.length ≥ 2 && (involvedOf ps).length ≥ 2,
         tags := shapeTags ps, sig,
         note := if prop then "" else "conservation / fold predicate fails on the real VolumeUpdates output" }

/-! ### pcv -/

def toMoveList (rs : List RealMove) : List Move := rs.map (·.move)

/-- Attach the canned effective volumes (one per move, insert order). -/
def withPcev : List Move → List Volumes → List Move
  | [], _ => []
  | m :: ms, [] => { m with pcev := some Volumes.zero } :: withPcev ms []
  | m :: ms, v :: vs => { m with pcev := some v } :: withPcev ms vs

def decPcevList (j : Json) (k : String) : Except String (List Volumes) := do
  (← arrField j k).mapM fun e => do
    let (a, b) ← decPair e
    pure ⟨← parseInt a, ← parseInt b⟩

structure CommitModel where
  upsert : PCV
  table : PCV
  pcv : PCV
  pre : Except Err PCV
  moves : Except Err (List Move)

def commitModel (prior : PCV) (ps : List Posting) : CommitModel :=
  let vu := volumeUpdates ps
  let (av, ret) := upsertVolumes prior vu
  { upsert := vu, table := av, pcv := ret, pre := PCV.subtractPostings ret ps, moves := movesOf ret ps }

/-- C03 predicates on the REAL outputs of one commit: pre-commit volumes are the prior
    volumes of the touched pairs (zero when there was no row); applying the postings in order
    to them gives the post-commit volumes; the moves are the running moves. -/
def commitProps (prior : PCV) (ps : List Posting) (gPcv gPre : PCV) (gMoves : List Move) : Bool × Bool × Bool :=
  let preOk := ps.isEmpty || gPre == preVolumes prior (volumeUpdates ps)
  let postOk := ps.isEmpty || applyPostings gPre ps == .ok gPcv
  let movesOk := ps.isEmpty || runningMoves gPre ps == .ok gMoves
  (preOk, postOk, movesOk)

def handlePcv : Handler := fun inp out => do
  let ps ← decPostings inp "postings"
  let prior : PCV := Map.ofList (fun _ n => n) (← decVols inp "prior")
  let id ← natField inp "id"
  let ts ← intField inp "timestamp"
  let ins ← intField inp "insertedAt"
  let canned ← decPcevList inp "pcev"
  let m := commitModel prior ps
  let mPcev : Except Err PCV := match m.moves with
    | .error e => .error e
    | .ok ms => computePCEV (withPcev ms canned)
  let mPreEff : Except Err PCV := match mPcev with
    | .error e => .error e
    | .ok pe => PCV.subtractPostings pe ps
  -- real
  let gPanic := optStrField out "panic"
  let gErr := optStrField out "err"
  let gUpsert ← decVols out "upsert"
  let gPcv ← decVols out "pcv"
  let gMovesR ← (← arrField out "moves").mapM decMove
  let gMoves := toMoveList gMovesR
  let gPcev ← decVols out "pcev"
  let gPre ← decVols out "pre"
  let gPreEff ← decVols out "preEff"
  let gStmts ← strArrField out "stmts"
  let ok := gPanic == "" && gErr == ""
  let agree := ok && gUpsert == m.upsert && gPcv == m.pcv && m.moves == .ok gMoves && mPcev == .ok gPcev &&
    m.pre == .ok gPre && mPreEff == .ok gPreEff &&
    gStmts == ["upsert-volumes", "insert-transaction", "insert-moves"]
  let datesOk := gMovesR.all fun r => r.txId == toString id && r.ins == toString ins && r.eff == toString ts
  let (preOk, postOk, movesOk) := commitProps prior ps gPcv gPre gMoves
  let consOk := conservedUpdates ps gUpsert
  let lenOk := gMoves.length == 2 * ps.length
  let sig := if !ok then "C03:commit-error-or-panic" else
    pickSig (focusOf inp) [(consOk, "C01:upsert-rows-not-conserved"), (preOk, "C03:pre-not-state-before"),
      (postOk, "C03:pre-plus-own-not-post"), (movesOk, "C03:moves-not-running"), (datesOk, "C03:moves-dates-or-id"),
      (lenOk, "C03:moves-count")]
  let prop := sig == ""
  let mMoves := match m.moves with | .ok ms => ms | .error _ => []
  let mPre := match m.pre with | .ok p => p | .error _ => []
  let (a, b, c) := commitProps prior ps m.pcv mPre mMoves
  let touchedPrior := ps.any fun p => (prior.get? p.srcKey).isSome || (prior.get? p.dstKey).isSome
  pure { model := Json.mkObj [("upsert", encVols m.upsert), ("pcv", encVols m.pcv), ("moves", encErr encMoves m.moves),
                              ("pcev", encErr encVols mPcev), ("pre", encErr encVols m.pre), ("preEff", encErr encVols mPreEff)],
         agree, prop, propModel := a && b && c,
         nontrivial := ps.length ≥ 2 && (involvedOf ps).length ≥ 2,
         tags := shapeTags ps ++ (if touchedPrior then ["prior-rows"] else ["fresh-rows"]) ++
                 (if ps.any (fun p => ps.any (fun q => (p.srcKey == q.dstKey))) then ["account-both-sides"] else []),
         sig, note := if prop then "" else "C03 predicate fails on the real CommitTransaction output" }

/-! ### pcvops -/

def decOpRes (j : Json) (k : String) : Except String (Except Err PCV) := do
  let o ← field j k
  if optStrField o "panic" != "" then pure (.error .nilDeref) else
  pure (.ok (← decVols o "v"))

def decOpMove (j : Json) : Except String Move := do
  let has ← boolField j "hasPcev"
  let i ← parseInt (← strField j "input")
  let o ← parseInt (← strField j "output")
  pure { account := ← strField j "account", asset := ← strField j "asset", amount := 0, isSource := false,
         pcv := Volumes.zero, pcev := if has then some ⟨i, o⟩ else none }

def handlePcvOps : Handler := fun inp out => do
  let a : PCV := Map.ofList (fun _ n => n) (← decVols inp "a")
  let b : PCV := Map.ofList (fun _ n => n) (← decVols inp "b")
  let ps ← decPostings inp "postings"
  let moves ← (← arrField inp "moves").mapM decOpMove
  let account ← strField inp "account"
  let asset ← strField inp "asset"
  let amount ← parseInt (← strField inp "amount")
  let mSub := PCV.subtractPostings a ps
  let mMerge : Except Err PCV := .ok (PCV.merge a b)
  let mAddIn := PCV.addInput a account asset amount
  let mAddOut := PCV.addOutput a account asset amount
  let mPcev := computePCEV moves
  let mBal := PCV.balances a
  let gSub ← decOpRes out "subtract"
  let gMerge ← decOpRes out "merge"
  let gAddIn ← decOpRes out "addInput"
  let gAddOut ← decOpRes out "addOutput"
  let gPcev ← decOpRes out "pcev"
  let gBal ← (← arrField out "balances").mapM decBal
  let gJsonBal ← (← arrField out "jsonBalances").mapM decBal
  let unchanged := match out.getObjVal? "aUnchanged" with | .ok (.bool b) => b | _ => false
  let agree := gSub == mSub && gMerge == mMerge && gAddIn == mAddIn && gAddOut == mAddOut && gPcev == mPcev &&
    gBal == mBal && gJsonBal == mBal
  -- properties on the real output: subtract then re-apply gives the receiver back; receiver not mutated
  let subOk := match gSub with
    | .error _ => true
    | .ok r => a.isEmpty || applyPostings r ps == .ok a
  let aliasOk := match gSub with | .error _ => true | .ok _ => unchanged
  let sigOps := pickSig (focusOf inp) [(subOk, "C03:subtract-not-inverse"), (aliasOk, "C03:subtract-mutates-receiver")]
  let prop := sigOps == ""
  let tag := fun (n : String) (r : Except Err PCV) => match r with | .ok _ => n ++ ":ok" | .error _ => n ++ ":panic"
  pure { model := Json.mkObj [("subtract", encErr encVols mSub), ("merge", encErr encVols mMerge),
                              ("addInput", encErr encVols mAddIn), ("addOutput", encErr encVols mAddOut),
                              ("pcev", encErr encVols mPcev)],
         agree, prop, propModel := true,
         nontrivial := !ps.isEmpty && !a.isEmpty,
         tags := [tag "subtract" mSub, tag "pcev" mPcev, tag "addInput" mAddIn] ++ (if a.isEmpty then ["empty-receiver"] else []),
         sig := sigOps,
         note := if prop then "" else "SubtractPostings predicate fails on the real output" }

/-! ### reverse -/

def decKVs (j : Json) (k : String) : Except String (List (String × String)) := do
  (← arrField j k).mapM fun e => do pure (← strField e "k", ← strField e "v")

structure RealTx where
  postings : List Posting
  metadata : List (String × String)
  timestamp : String
  reference : String
  hasId : Bool
  deriving BEq

def decTx (j : Json) : Except String RealTx := do
  pure { postings := ← decPostings j "postings", metadata := ← decKVs j "metadata",
         timestamp := ← strField j "timestamp", reference := optStrField j "reference", hasId := ← boolField j "hasId" }

def tsStr : Option Int → String
  | none => "zero"
  | some t => toString t

def realOf (t : Tx) : RealTx :=
  { postings := t.postings, metadata := t.metadata, timestamp := tsStr t.timestamp, reference := t.reference,
    hasId := t.id.isSome }

def handleReverse : Handler := fun inp out => do
  let ps ← decPostings inp "postings"
  let id ← natField inp "id"
  let ts ← intField inp "timestamp"
  let rev ← intField inp "revertedAt"
  let force ← boolField inp "force"
  let atEff ← boolField inp "atEffectiveDate"
  let already ← boolField inp "already"
  let md : Metadata := Map.ofList (fun _ n => n) (← decKVs inp "metadata")
  let current : Balances := Map.ofList (fun _ n => n) (← (← arrField inp "current").mapM decBal)
  -- model
  let orig : Tx := { id := some id, postings := ps, timestamp := if ts == 0 then none else some ts,
                     reference := "orig-ref", metadata := [("orig", "meta")], revertedAt := some rev }
  let queried := involvedDestinations ps
  let balances : Balances := queried.map fun k => (k, match current.get? k with | some b => b | none => 0)
  let mRes : Except Err Tx := buildRevertTx orig { force, atEffectiveDate := atEff, metadata := md } balances
  let mErr := if already then "already-reverted" else match mRes with
    | .ok _ => "" | .error .insufficientFunds => "insufficient-funds" | .error .nilDeref => "panic"
  -- real
  let gPanic := optStrField out "panic"
  let gRev ← decPostings out "reversed"
  let gInvol ← boolField out "involutive"
  let gUntouched ← boolField out "inputUntouched"
  let gTxRev ← decTx (← field out "txReverse")
  let gQueried ← (← arrField out "queried").mapM decPair
  let gErr := if gPanic != "" then "panic" else optStrField out "err"
  let gCommitted ← boolField out "committed"
  let gTx ← decTx (← field out "tx")
  let gOrigKept ← boolField out "origKept"
  let revAgree := gRev == reversePostings ps && gTxRev == realOf orig.reverse
  let agree :=
    if gPanic != "" && gRev.isEmpty && !ps.isEmpty then false  -- Reverse itself panicked
    else revAgree && gErr == mErr &&
      (already || gQueried == queried) &&
      (match mRes with
       | .ok t => already || (gCommitted && gTx == realOf t && gOrigKept)
       | .error _ => !gCommitted)
  -- C15 on the real output
  let revShape := gRev == (ps.map Posting.swap).reverse && gInvol && gUntouched
  let neutral := (involvedOf ps).all fun a => (assetsOf ps).all fun s =>
    (foldVolumes (a, s) (ps ++ gRev)).balance == 0
  let txShape := !gCommitted ||
    (gTx.postings == (ps.map Posting.swap).reverse &&
     gTx.metadata.lookup revertMetaKey == some (toString id) &&
     md.all (fun (k, v) => k == revertMetaKey || gTx.metadata.lookup k == some v) &&
     gTx.metadata.all (fun (k, _) => k == revertMetaKey || (md.get? k).isSome) &&
     gTx.timestamp == (if atEff then (if ts == 0 then "zero" else toString ts) else toString rev) &&
     gTx.reference == "" && !gTx.hasId)
  let noPanic := gPanic == ""
  let sig := pickSig (focusOf inp) [(revShape, "C15:reverse-shape"), (neutral, "C15:not-balance-neutral"),
    (txShape, "C15:revert-tx-shape"),
    (noPanic, if force then "C15:revert-forced-panic" else "C15:revert-nonforced-nil-balance-panic")]
  let prop := sig == ""
  let mOk := match mRes with | .ok _ => true | .error _ => false
  pure { model := Json.mkObj [("reversed", encPostings (reversePostings ps)), ("err", mErr),
                              ("queried", Json.arr (queried.map fun k => Json.arr #[Json.str k.1, Json.str k.2]).toArray),
                              ("tx", match mRes with
                                | .ok t => Json.mkObj [("postings", encPostings t.postings), ("timestamp", tsStr t.timestamp),
                                    ("metadata", Json.arr (t.metadata.map fun (k, v) => Json.mkObj [("k", k), ("v", v)]).toArray)]
                                | .error e => Json.str e.toString)],
         agree, prop, propModel := mErr != "panic",
         nontrivial := ps.length ≥ 2 && mOk && !already,
         tags := ["res:" ++ (if mErr == "" then "committed" else mErr), (if force then "force" else "checked"),
                  (if atEff then "at-effective-date" else "at-revert-time")] ++ shapeTags ps ++
                 (if md.contains revertMetaKey then ["client-sets-revert-key"] else []),
         sig, note := if prop then "" else "C15 predicate fails on the real output (" ++ sig ++ ")" }

/-! ### histfold -/

structure HTx where
  postings : List Posting
  timestamp : Int
  insertedAt : Int

def decHTx (j : Json) : Except String HTx := do
  pure { postings := ← decPostings j "postings", timestamp := ← intField j "timestamp",
         insertedAt := ← intField j "insertedAt" }

structure HStep where
  upsert : PCV
  pcv : PCV
  pre : PCV
  moves : List RealMove
  volumes : PCV
  failed : Bool

def decHStep (j : Json) : Except String HStep := do
  pure { upsert := ← decVols j "upsert", pcv := ← decVols j "pcv", pre := ← decVols j "pre",
         moves := ← (← arrField j "moves").mapM decMove, volumes := ← decVols j "volumes",
         failed := optStrField j "panic" != "" || optStrField j "err" != "" }

/-- Walk the history: abstract store step vs. real step, and the fold predicates on the real values. -/
def histWalk (focus : String) : Store → List TxRec → List HTx → List HStep → Nat → (Bool × Bool × String)
  | _, _, [], [], _ => (true, true, "")
  | st, recs, t :: ts, g :: gs, i =>
    let tin : TxIn := { postings := t.postings, timestamp := t.timestamp, insertedAt := t.insertedAt }
    match applyTx st tin with
    | .error _ => (false, false, s!"step {i}: model store failed")
    | .ok st' =>
      let recs' := recs ++ [{ id := i + 1, postings := t.postings, timestamp := t.timestamp, insertedAt := t.insertedAt }]
      let newRows := st'.moves.drop st.moves.length
      let mPcv := match st'.txs.getLast? with | some r => r.pcv | none => []
      let agree := !g.failed && g.upsert == volumeUpdates t.postings && g.volumes == st'.accountsVolumes &&
        g.pcv == mPcv && toMoveList g.moves == newRows.map MoveRow.toMove &&
        g.moves.all (fun r => r.txId == toString (i + 1) && r.ins == toString t.insertedAt && r.eff == toString t.timestamp)
      -- predicates on the REAL values, against pure folds over the committed history
      let c01 := conservedTable g.volumes
      let c02 := Map.isSorted g.volumes && g.volumes.all (fun (k, v) => v == volumesOf recs' k) &&
        t.postings.all (fun p => (g.volumes.get? p.srcKey).isSome && (g.volumes.get? p.dstKey).isSome)
      let c03a := g.pcv.all (fun (k, v) => touches k t.postings && v == volumesOf recs' k) &&
        t.postings.all (fun p => (g.pcv.get? p.srcKey).isSome && (g.pcv.get? p.dstKey).isSome)
      let c03b := g.pre.all (fun (k, v) => v == volumesOf recs k) && g.pre.map (·.1) == g.pcv.map (·.1)
      let c03c := runningMoves g.pre t.postings == .ok (toMoveList g.moves)
      let sig := if g.failed then "C03:commit-error-or-panic" else
        pickSig focus [(c01, "C01:table-not-conserved"), (c02, "C02:table-not-fold"), (c03a, "C03:pcv-not-state-after"),
          (c03b, "C03:pre-not-state-before"), (c03c, "C03:moves-not-running")]
      if !agree then (false, sig == "", if sig == "" then s!"step {i}: disagreement" else sig)
      else if sig != "" then (true, false, sig)
      else histWalk focus st' recs' ts gs (i + 1)
  | _, _, _, _, _ => (false, true, "length mismatch")

def handleHistfold : Handler := fun inp out => do
  let txs ← (← arrField inp "txs").mapM decHTx
  let steps ← (← arrField out "steps").mapM decHStep
  let (agree, prop, note) := histWalk (focusOf inp) {} [] txs steps 0
  -- point-in-time conservation on the Spec folds of this history (both modes, every grid instant)
  let recs := (txs.zipIdx).map fun (t, i) =>
    ({ id := i + 1, postings := t.postings, timestamp := t.timestamp, insertedAt := t.insertedAt } : TxRec)
  let allPs := allPostings recs
  let accts := involvedOf allPs
  let instants := (txs.map (·.timestamp) ++ txs.map (·.insertedAt)).eraseDups
  let pitOk := instants.all fun t => [DateMode.insertion, DateMode.effective].all fun mode =>
    (assetsOf allPs).all fun s => sumOver accts (fun a => balanceAt recs { pit := some t } mode (a, s)) == 0
  -- C04 / C05 on the abstract store of this history (back-dated / tied / future timestamps)
  let stFinal := runOps (txs.map fun t => StoreOp.commit { postings := t.postings, timestamp := t.timestamp, insertedAt := t.insertedAt })
  let keysAll := (allPs.map (·.srcKey) ++ allPs.map (·.dstKey)).eraseDups
  let pcevOk := match stFinal with
    | .error _ => false
    | .ok st => pcevInvCheck st.moves &&
        instants.all fun t => keysAll.all fun k =>
          effectiveVolumesAt st.moves k t == volumesAt recs { pit := some t } .effective k &&
          movesWindowVolumes st.moves { pit := some t } .insertion k == volumesAt recs { pit := some t } .insertion k
  let backdated := (txs.zip (txs.drop 1)).any fun (a, b) => b.timestamp < a.timestamp
  let ties := (txs.map (·.timestamp)).eraseDups.length < txs.length
  let sizeTag := if txs.length ≤ 3 then "len≤3" else if txs.length ≤ 10 then "len≤10" else "len>10"
  pure { model := Json.mkObj [("note", if pcevOk then note else note ++ " abstract-store PCEV/C05 self-check failed")],
         agree := agree && pcevOk, prop := prop, propModel := pitOk && pcevOk,
         nontrivial := txs.length ≥ 2 && (involvedOf allPs).length ≥ 3,
         tags := [sizeTag] ++ (if backdated then ["back-dated"] else []) ++ (if ties then ["tied-timestamps"] else []) ++
                 (shapeTags allPs).filter (fun t => t == "self-posting" || t == "multi-asset" || t == "amount≥2^64"),
         sig := if prop then "" else note, note }

def coreHandlers : List (String × Handler) := [
  ("volupd", handleVolupd),
  ("pcv", handlePcv),
  ("pcvops", handlePcvOps),
  ("reverse", handleReverse),
  ("histfold", handleHistfold)
]

end Ledger.Driver
