import Ledger.Driver.Repl
import Ledger.Repl.Shared

/-!
Handler "replm" (property C33, several pipelines, shared exporters). Replays the
manager operations of the script on `Ledger.Repl.Shared.mstep` and compares, after
every step, the real Manager's running pipelines, registered exporter drivers,
operation result and driver lifecycle events with the model (the refcount rule).
The C33 predicates are evaluated per pipeline on the real observations: every
exporter call carries contiguous ascending ids of one ledger starting at most
right after the highest id that pipeline delivered since its last reset, a state
write never exceeds the acknowledged prefix, and at the final quiescence every
log of every running pipeline's ledger has been acknowledged by its exporter.
-/
namespace Ledger.Driver.ReplM
open Lean Ledger.Driver Ledger.Driver.Repl Ledger.Repl.Shared

def pname (p : Pipe) : String := s!"l{p.ledger}/e{p.exporter}"
def ename (e : Nat) : String := s!"e{e}"

def sortStrs (xs : List String) : List String := (xs.toArray.qsort (· < ·)).toList

/-- per-pipeline view of the real trace -/
structure PSt where
  key : String
  delivHW : Nat := 0
  acked : List Nat := []
  persisted : Nat := 0

def ackPrefix (acked : List Nat) (n : Nat) : Nat := Id.run do
  let mut p := 0
  for _ in [0:n] do
    if acked.contains (p + 1) then p := p + 1
  return p

structure St where
  m : MState := MState.init
  pipes : List PSt := []
  logs : List (String × Nat) := []
  /-- failing predicate and the known finding it is attributed to ("" = none) -/
  fails : List (String × String) := []
  tags : List String := []
  sharedStops : Nat := 0
  /-- pipeline key → logs of pages whose `Batcher.Accept` was abandoned (it returned an
      error: the handler was stopped; the exporter of this workload never fails) and that
      the shared batcher has not flushed yet -/
  orphans : List (String × List Nat) := []
  inflight : List (String × List Nat) := []
  calls : Nat := 0

def St.tag (s : St) (t : String) : St := if s.tags.contains t then s else { s with tags := t :: s.tags }
def St.violate (s : St) (f : String) (known : String := "") : St :=
  if s.fails.contains (f, known) then s else { s with fails := s.fails ++ [(f, known)] }

def flushSig : String := "C33:shared-batcher-flushes-abandoned-page-after-reset"
def stoppedSig : String := "C33:shared-batcher-delivers-for-stopped-pipeline"
def St.nLogs (s : St) (l : String) : Nat := (s.logs.lookup l).getD 0
def St.pipe (s : St) (k : String) : PSt := (s.pipes.find? (·.key = k)).getD { key := k }
def St.setPipe (s : St) (p : PSt) : St := { s with pipes := p :: s.pipes.filter (·.key ≠ p.key) }
/-- abandoned pages outlive the pipeline row (delete) and its epochs (reset, re-create) -/
def St.abandonedOf (s : St) (k : String) : List Nat := (s.orphans.lookup k).getD []

/-- expected result and driver events of a manager operation in model state `m` -/
def expect (m : MState) (a : String) (p : Pipe) : String × List String :=
  let sole := !((m.running.erase p).any (fun q => q.exporter == p.exporter))
  let stopEv := if decide (p ∈ m.running) && sole then [s!"stop:{ename p.exporter}"] else []
  let newOf (m' : MState) := (m'.live.filter (fun e => !m.live.contains e)).flatMap
    fun e => [s!"new:{ename e}", s!"start:{ename e}"]
  if !m.mgrUp && a ≠ "mgrStart" then ("down", []) else
  match a with
  | "create" => if m.created.contains p then ("exists", []) else ("ok", newOf (mstep m (.create p)))
  | "start" =>
    if !m.created.contains p then ("notFound", [])
    else if decide (p ∈ m.running) then ("alreadyStarted", []) else ("ok", newOf (mstep m (.start p)))
  | "stop" => if decide (p ∈ m.running) then ("ok", stopEv) else ("notFound", [])
  | "reset" =>
    if !m.created.contains p then ("notFound", [])
    else ("ok", stopEv ++ (if stopEv.isEmpty then [] else [s!"new:{ename p.exporter}", s!"start:{ename p.exporter}"]))
  | "delete" => if decide (p ∈ m.running) then ("ok", stopEv) else ("notFound", [])
  | "sync" => ("ok", newOf (mstep m .sync))
  | "mgrStop" => ("ok", m.live.map fun e => s!"stop:{ename e}")
  | "mgrStart" => if m.mgrUp then ("up", []) else ("ok", newOf (mstep m .mgrStart))
  | _ => ("", [])

def opOf (a : String) (p : Pipe) : Option MOp :=
  match a with
  | "create" => some (.create p) | "start" => some (.start p) | "stop" => some (.stop p)
  | "reset" => some (.reset p) | "delete" => some (.delete p) | "sync" => some .sync
  | "mgrStop" => some .mgrStop | "mgrStart" => some .mgrStart
  | _ => none

def handleReplM : Handler := fun inp out => do
  let script ← arrField inp "script"
  let trace ← arrField out "trace"
  let mut s : St := {}
  let mut agree := script.length == trace.length
  let mut note := if agree then "" else "trace length differs from the script"
  let mut lastQuiet := false
  let mut k := 0
  for ev in trace do
    let a ← strField ev "a"
    let p : Pipe := { ledger := natField ev "l", exporter := natField ev "e" }
    let key := pname p
    let res := optStrField ev "res"
    let res := if res.startsWith "other:" then "exists" else res
    if a = "append" then
      let l := s!"l{p.ledger}"
      s := { s with logs := (l, s.nLogs l + natField ev "n") :: s.logs.filter (·.1 ≠ l) }
    -- manager-level correspondence (refcount rule)
    match opOf a p with
    | some op =>
      let (eres, edrv) := expect s.m a p
      let m' := mstep s.m op
      let gdrv ← strArrField ev "drivers"
      if (a = "stop" || a = "reset" || a = "delete") && eres = "ok" &&
          (s.m.running.erase p).any (fun q => q.exporter == p.exporter) then
        s := { (s.tag "stop-with-sibling-on-exporter") with sharedStops := s.sharedStops + 1 }
      if eres ≠ res || sortStrs edrv ≠ sortStrs gdrv then
        if agree then note := s!"event {k} ({a} {key}): model res={eres} drivers={edrv}, real res={res} drivers={gdrv}"
        agree := false
      s := { s with m := m' }
      s := s.tag ("op-" ++ a)
      if res ≠ "ok" then s := s.tag ("res-" ++ res)
    | none => pure ()
    let grun ← strArrField ev "running"
    let glive ← strArrField ev "live"
    let mrun := sortStrs (s.m.running.map pname)
    let mlive := sortStrs (s.m.live.map ename)
    if mrun ≠ grun || mlive ≠ glive then
      if agree then note := s!"event {k} ({a} {key}): model running={mrun} live={mlive}, real running={grun} live={glive}"
      agree := false
    -- pages entering / leaving Batcher.Accept
    for pg in ← arrField ev "pages" do
      let pk := s!"{← strField pg "l"}/{← strField pg "e"}"
      if (← strField pg "k") = "send" then
        s := { s with inflight := (pk, ← natArr pg "ids") :: s.inflight.filter (·.1 ≠ pk) }
      else
        let ids := (s.inflight.lookup pk).getD []
        s := { s with inflight := s.inflight.filter (·.1 ≠ pk) }
        if !boolFieldD pg "ok" && !ids.isEmpty then
          s := { (s.tag "page-abandoned") with
                 orphans := (pk, ids ++ s.abandonedOf pk) :: s.orphans.filter (·.1 ≠ pk) }
    -- C33 predicates per pipeline on the real observations (a step may contain several
    -- exporter calls and state writes; the writes are checked against all calls of the step
    -- and before: the harness lets a write through only after the call that caused it)
    for c in ← arrField ev "calls" do
      let pk := s!"{← strField c "l"}/{← strField c "e"}"
      let ids ← natArr c "ids"
      let ps := s.pipe pk
      s := { s with calls := s.calls + 1 }
      -- a page whose Accept was abandoned and that the still running shared batcher flushes
      let orphan := !ids.isEmpty && ids.all (s.abandonedOf pk).contains
      if orphan then
        s := { (s.tag "abandoned-page-flushed") with
               orphans := (pk, (s.abandonedOf pk).filter (!ids.contains ·)) :: s.orphans.filter (·.1 ≠ pk) }
      let isRunning := (s.m.running.map pname).contains pk
      if !isRunning then
        s := s.violate "delivery_for_stopped_pipeline" (if orphan then stoppedSig else "")
      else match ids with
      | [] => s := s.violate "in_order_no_gaps"
      | first :: _ =>
        let last := first + ids.length - 1
        if ids ≠ List.range' first ids.length || first = 0 || last > s.nLogs ((pk.splitOn "/").headD "") then
          s := s.violate "in_order_no_gaps"
        if first > ps.delivHW + 1 then
          s := s.violate "in_order_no_gaps" (if orphan then flushSig else "")
        if first ≤ ps.delivHW then s := s.tag "redelivery"
        s := s.setPipe { ps with delivHW := max ps.delivHW last, acked := ids ++ ps.acked }
    for w in ← arrField ev "stores" do
      let pk ← strField w "p"
      let v := natField w "v"
      let ps := s.pipe pk
      if v > ackPrefix ps.acked v then s := s.violate "persisted_le_acked"
      s := s.setPipe { ps with persisted := v }
    -- (the gated calls of an operation's step happen before the operation completes: a state
    -- write drained before a reset belongs to the old epoch)
    -- new epochs
    for wr in ← strArrField ev "writes" do
      match wr.splitOn ":" with
      | [kind, pk] =>
        if kind = "create" || kind = "reset" then s := s.setPipe { key := pk }
        if kind = "delete" then s := { s with pipes := s.pipes.filter (·.key ≠ pk) }
      | _ => pure ()
    lastQuiet := a = "settle" && boolFieldD ev "quiet"
    k := k + 1
  -- quiescence: every running pipeline delivered every log of its ledger
  if !lastQuiet then s := s.violate "at_least_once_no_quiescence"
  for p in s.m.running do
    let ps := s.pipe (pname p)
    let n := s.nLogs s!"l{p.ledger}"
    if ackPrefix ps.acked n ≠ n then s := s.violate "at_least_once"
  if natField out "leak" ≠ 0 then
    agree := false
    note := "goroutine leak in the real code"
  let shared := s.m.created.any fun p => s.m.created.any fun q => q ≠ p && q.exporter == p.exporter
  if shared then s := s.tag "shared-exporter-at-end"
  s := s.tag s!"pipelines={s.m.created.length}"
  let prop := s.fails.isEmpty
  pure { model := Json.mkObj [("running", jStrs (s.m.running.map pname)), ("live", jStrs (s.m.live.map ename))],
         agree, prop, propModel := true,
         nontrivial := s.sharedStops ≥ 1 && s.calls ≥ 3,
         tags := s.tags.reverse,
         note := if note ≠ "" then note else if prop then "" else s!"C33 predicates failing on the real trace: {s.fails}",
         -- a failure without a recognised cause (or any failure of a case that disagrees
         -- with the model) is never covered by a known finding
         sig := match s.fails.find? (fun f => f.2 = "" || !agree) with
           | some f => s!"C33m:{f.1}"
           | none => match s.fails.head? with | some f => f.2 | none => "" }

def handlers : List (String × Handler) := [("replm", handleReplM)]

end Ledger.Driver.ReplM
