import Ledger.Driver.CtrlJson

/-!
Controller driver, part 2: handler "ctrlhist" — fold the controller model over a
history and compare, after EVERY op, the response, the store-call trace, the
sequences and the whole snapshot with what the real `DefaultController` over
memstore produced.
-/
namespace Ledger.Driver.Ctrl
open Lean Ledger.Base Ledger.Core Ledger.Ctrl Ledger.Driver

structure Mismatch where
  op : Nat
  field : String
  model : Json
  real : Json

def Mismatch.toJson (m : Mismatch) : Json :=
  Json.mkObj [("op", jNat m.op), ("field", m.field), ("model", m.model), ("real", m.real)]

structure FoldSt where
  state : State := {}
  real : Tables := {}
  i : Nat := 0
  mismatch : Option Mismatch := none
  tags : List String := []
  /-- property predicate failures on the REAL outputs: (property, op, what) -/
  propFail : List (String × Nat × String) := []
  /-- findings reproduced: (property, stable signature) -/
  sigs : List (String × String) := []
  committedTx : Nat := 0
  nontrivial : Bool := false

def opTag (inp : Json) : String := optStrField inp "k"

def isMutating (m : String) : Bool :=
  ["GetBalances", "CommitTransaction", "UpsertAccounts", "RevertTransaction", "UpdateTransactionMetadata",
   "DeleteTransactionMetadata", "UpdateAccountsMetadata", "DeleteAccountMetadata", "InsertSchema", "InsertLog"].any
    (fun p => m.startsWith p)

/-- Handle discipline on a real trace: every mutating call runs on a transaction
    handle; every transaction begun is ended by Commit or Rollback. Returns the
    first violation. -/
def traceDiscipline (tr : List String) : String :=
  let words := tr.map (fun s => s.splitOn " ")
  let rootWrite := words.any fun w => match w with
    | h :: m :: _ => h == "root" && isMutating m
    | _ => false
  let begun := (words.filter fun w => match w with
    | _ :: "BeginTX" :: rest => !(rest.any (·.startsWith "!"))
    | _ => false).length
  let ended := (words.filter fun w => match w with
    | _ :: m :: _ => m == "Commit" || m == "Rollback"
    | _ => false).length
  if rootWrite then "write-on-root-handle"
  else if begun ≠ ended then "transaction-not-closed"
  else ""

def stepHist (strict : Bool) (fs : FoldSt) (inp out : Json) : Except String FoldSt := do
  if fs.mismatch.isSome then return { fs with i := fs.i + 1 } else
  let op ← opOfJson inp out
  let o := forgeLog strict op none false fs.state
  let resp ← field out "resp"
  let delta ← field out "delta"
  let real' ← applyDelta fs.real delta
  let realTrace ← strArrField out "trace"
  let seqJ ← arrField out "seq"
  let mk (f : String) (m r : Json) : FoldSt :=
    { fs with i := fs.i + 1, real := real', mismatch := some { op := fs.i, field := f, model := m, real := r } }
  -- response
  let mResp := jResp o.resp
  let rResp := realResp resp
  if mResp != rResp then return mk "resp" mResp rResp else
  if o.trace != realTrace then return mk "trace" (jStrs o.trace) (jStrs realTrace) else
  let mSeq := Json.arr #[jNat o.state.seq.tx, jNat o.state.seq.log]
  if mSeq != Json.arr seqJ.toArray then return mk "seq" mSeq (Json.arr seqJ.toArray) else
  let mTabs := tablesOfDb o.state.db
  let d := mTabs.diff real'
  if d ≠ "" then return mk ("snapshot." ++ d) mTabs.toJson real'.toJson else
  -- property predicates on the real outputs
  let rErr := match rResp.getObjVal? "err" with | .ok (.str s) => s | _ => ""
  let rHit := boolFieldD rResp "hit"
  let dry := boolFieldD inp "dry"
  let outOk := boolFieldD resp "outOk"
  let failed := rErr ≠ ""
  let mut pf := fs.propFail
  let mut sigs := fs.sigs
  if (failed || dry || rHit) && !deltaEmpty delta then
    pf := pf ++ [("C07", fs.i, "failed/dry-run/idempotent write changed the snapshot")]
  if !outOk then pf := pf ++ [("C08", fs.i, "returned output differs from the returned log's payload")]
  let disc := traceDiscipline realTrace
  if disc ≠ "" then
    if rErr = "panic" && disc = "transaction-not-closed" then
      sigs := sigs ++ [("C07", "C07:revert-nil-balance-panic-leaves-transaction-open")]
    else pf := pf ++ [("C07", fs.i, "handle discipline: " ++ disc)]
  let tag := opTag inp ++ ":" ++ (if failed then rErr else if rHit then "hit" else if dry then "dry" else "ok")
  let committedTx := fs.committedTx + (if !failed && !dry && !rHit && (opTag inp).startsWith "create" then 1 else 0)
  return { fs with state := o.state, real := real', i := fs.i + 1, tags := fs.tags ++ [tag], propFail := pf,
                   sigs := sigs, committedTx := committedTx }

def dedup (l : List String) : List String := l.foldl (fun acc x => if acc.contains x then acc else acc ++ [x]) []

def handleHist : Handler := fun inp out => do
  let strict := boolFieldD inp "strict"
  let ops ← arrField inp "ops"
  let outs ← arrField out "ops"
  if ops.length ≠ outs.length then throw "ops / outputs length mismatch"
  let fs ← (ops.zip outs).foldlM (fun fs (i, o) => stepHist strict fs i o) ({} : FoldSt)
  let agree := fs.mismatch.isNone
  let want := optStrField inp "prop"
  let sel (p : String) : Bool := want = "" || p = want
  let sigs := dedup ((fs.sigs.filter (sel ·.1)).map (·.2))
  let fails := fs.propFail.filter (sel ·.1)
  let prop := fails.isEmpty && sigs.isEmpty
  let note :=
    if !fails.isEmpty then
      "; ".intercalate (fails.map fun (p, i, w) => s!"{p} op {i}: {w}")
    else if !sigs.isEmpty then "known defect reproduced: " ++ ", ".intercalate sigs
    else ""
  pure { model := match fs.mismatch with | some m => m.toJson | none => Json.null,
         agree := agree, prop := prop, propModel := true,
         nontrivial := fs.committedTx ≥ 2,
         tags := dedup fs.tags ++ [if strict then "mode:strict" else "mode:audit"],
         note := note,
         sig := if fails.isEmpty then ", ".intercalate sigs else "" }

def handlers : List (String × Handler) := [
  ("ctrlhist", handleHist)
]

end Ledger.Driver.Ctrl
