import Ledger.Driver.CtrlJson
import Ledger.Ctrl.Import
import Ledger.Ctrl.Spec

/-!
Controller driver, part 2: handler "ctrlhist" — fold the controller model over a
history and compare, after EVERY op, the response, the store-call trace, the
sequences and the whole snapshot with what the real `DefaultController` over
memstore produced.
-/
namespace Ledger.Driver.Ctrl
open Lean Ledger.Base Ledger.Core Ledger.Ctrl Ledger.Driver

structure Mismatch where
  op : Nat
  field : String
  model : Json
  real : Json

def Mismatch.toJson (m : Mismatch) : Json :=
  Json.mkObj [("op", jNat m.op), ("field", m.field), ("model", m.model), ("real", m.real)]

structure FoldSt where
  state : State := {}
  real : Tables := {}
  i : Nat := 0
  mismatch : Option Mismatch := none
  tags : List String := []
  /-- property predicate failures on the REAL outputs: (property, op, what) -/
  propFail : List (String × Nat × String) := []
  /-- findings reproduced: (property, stable signature) -/
  sigs : List (String × String) := []
  committedTx : Nat := 0
  nontrivial : Bool := false
  /-- ops go through the state tracker (`facadeWrite`); traces are then not compared -/
  facade : Bool := false
  inUse : Bool := false
  /-- chart tables of the schema versions inserted so far (from the ops' oracles) -/
  charts : List (String × List (String × Meta)) := []
  /-- the request that created the log carrying each idempotency key (clock, dry-run
      flag and schema version removed: they are not part of the hashed input) -/
  ikOps : List (String × String) := []

def opTag (inp : Json) : String := optStrField inp "k"

def isMutating (m : String) : Bool :=
  ["GetBalances", "CommitTransaction", "UpsertAccounts", "RevertTransaction", "UpdateTransactionMetadata",
   "DeleteTransactionMetadata", "UpdateAccountsMetadata", "DeleteAccountMetadata", "InsertSchema", "InsertLog"].any
    (fun p => m.startsWith p)

/-- Handle discipline on a real trace: every mutating call runs on a transaction
    handle; every transaction begun is ended by Commit or Rollback. Returns the
    first violation. -/
def traceDiscipline (tr : List String) : String :=
  let words := tr.map (fun s => s.splitOn " ")
  let rootWrite := words.any fun w => match w with
    | h :: m :: _ => h == "root" && isMutating m
    | _ => false
  let begun := (words.filter fun w => match w with
    | _ :: "BeginTX" :: rest => !(rest.any (·.startsWith "!"))
    | _ => false).length
  let ended := (words.filter fun w => match w with
    | _ :: m :: _ => m == "Commit" || m == "Rollback"
    | _ => false).length
  if rootWrite then "write-on-root-handle"
  else if begun ≠ ended then "transaction-not-closed"
  else ""

def maxKey (l : List (Nat × Json)) : Nat := l.foldl (fun m e => if m < e.1 then e.1 else m) 0

def jsonStr (j : Json) (k : String) : String := optStrField j k

/-- Distinct non-empty values of a string column. -/
def distinctNonEmpty (l : List String) : Bool :=
  let xs := l.filter (· ≠ "")
  xs.length == (xs.foldl (fun (acc : List String) x => if acc.contains x then acc else x :: acc) []).length

/-- C17 / C18 on a REAL snapshot: accounts and transaction metadata equal the
    reference reading (`specOf`) of the REAL journal. -/
def specCheck (charts : List (String × List (String × Meta))) (real : Tables) : Except String (List (String × String)) := do
  let chartOf (v : String) : List (String × Meta) := (charts.lookup v).getD []
  let logs ← real.logs.mapM (fun e => logOfJson chartOf e.2)
  let sp := specOf logs
  let accs ← real.accounts.mapM (fun e => accountOfJson e.2)
  let mut fails : List (String × String) := []
  -- C18: same set of accounts
  let specAddrs := sp.accounts.map (·.1)
  let realAddrs := accs.map (·.1)
  if specAddrs != realAddrs then
    fails := fails ++ [("C18", s!"accounts listed {realAddrs} but the journal involves {specAddrs}")]
  for (a, r) in accs do
    match sp.accounts.lookup a with
    | none => pure ()
    | some x =>
      if x.metadata != r.metadata then
        fails := fails ++ [("C17", s!"account {a}: metadata differs from the fold of the journal")]
      if x.firstUsage != r.firstUsage then
        fails := fails ++ [("C18", s!"account {a}: first usage {r.firstUsage} but the journal says {x.firstUsage}")]
      if x.insertionDate != r.insertionDate then
        fails := fails ++ [("C18", s!"account {a}: insertion date {r.insertionDate} but the journal says {x.insertionDate}")]
  for (id, row) in real.txs do
    let m ← metaField row "meta"
    match sp.txMeta.lookup id with
    | some x => if x != m then fails := fails ++ [("C17", s!"transaction {id}: metadata differs from the fold of the journal")]
    | none => fails := fails ++ [("C17", s!"transaction {id} is not in the journal")]
  pure fails

/-- The hashed part of a request, as text. -/
def inputKey (inp : Json) : String :=
  match inp with
  | .obj kvs => (Json.mkObj (kvs.foldl (fun acc k v =>
      if k = "now" || k = "dry" || k = "sv" then acc else (k, v) :: acc) [])).compress
  | j => j.compress

/-- The request as the harness reports it field by field (`req`), else the op itself. -/
def reqKeyOf (inp out : Json) : String :=
  let r := optStrField out "req"
  if r ≠ "" then r else inputKey inp

def stepHist (strict : Bool) (fs : FoldSt) (inp out : Json) : Except String FoldSt := do
  let resp ← field out "resp"
  let delta ← field out "delta"
  let real' ← applyDelta fs.real delta
  let realTrace ← strArrField out "trace"
  let seqJ ← arrField out "seq"
  let rResp := realResp resp
  -- the model (skipped once it has diverged: the predicates below only look at the real outputs)
  let mut mismatch := fs.mismatch
  let mut state' := fs.state
  let mut inUse' := fs.inUse
  if mismatch.isNone then
    let op0 ← opOfJson inp out
    -- The model's idempotency hash is a function of the REQUEST (injective on the requests
    -- of this history), not of the real hash: a key whose creating request is known gets
    -- the stored hash exactly when the request is the same one.
    let storedIh := (fs.real.logs.find? (fun e => jsonStr e.2 "ik" == op0.ik)).map (fun e => jsonStr e.2 "ih")
    let ih' := match fs.ikOps.lookup op0.ik, storedIh with
      | some k, some sih =>
        if k == reqKeyOf inp out then sih
        else if op0.ihash == sih then op0.ihash ++ "#another-request" else op0.ihash
      | _, _ => op0.ihash
    let op : Op := { op0 with ihash := ih' }
    let o : Outcome :=
      if fs.facade then
        let (l, r) := facadeWrite strict { state := fs.state, inUse := fs.inUse } op
        { state := l.state, resp := r, trace := [] }
      else forgeLog strict op [] false fs.state
    if fs.facade then inUse' := (facadeWrite strict { state := fs.state, inUse := fs.inUse } op).1.inUse
    state' := o.state
    let mk (f : String) (m r : Json) : Option Mismatch := some { op := fs.i, field := f, model := m, real := r }
    let mResp := jResp o.resp
    let mSeq := Json.arr #[jNat o.state.seq.tx, jNat o.state.seq.log]
    let mTabs := tablesOfDb o.state.db
    let d := mTabs.diff real'
    if mResp != rResp then mismatch := mk "resp" mResp rResp
    else if !fs.facade && o.trace != realTrace then mismatch := mk "trace" (jStrs o.trace) (jStrs realTrace)
    else if mSeq != Json.arr seqJ.toArray then mismatch := mk "seq" mSeq (Json.arr seqJ.toArray)
    else if d ≠ "" then mismatch := mk ("snapshot." ++ d) mTabs.toJson real'.toJson
  -- property predicates on the real outputs
  let rErr := match rResp.getObjVal? "err" with | .ok (.str s) => s | _ => ""
  let rHit := boolFieldD rResp "hit"
  let dry := boolFieldD inp "dry"
  let outOk := boolFieldD resp "outOk"
  let failed := rErr ≠ ""
  let mut pf := fs.propFail
  let mut sigs := fs.sigs
  if (failed || dry || rHit) && !deltaEmpty delta then
    pf := pf ++ [("C07", fs.i, "failed/dry-run/idempotent write changed the snapshot")]
  if !outOk then pf := pf ++ [("C08", fs.i, "returned output differs from the returned log's payload")]
  let disc := if fs.facade then "" else traceDiscipline realTrace
  if disc ≠ "" then
    if rErr = "panic" && disc = "transaction-not-closed" then
      sigs := sigs ++ [("C07", "C07:revert-nil-balance-panic-leaves-transaction-open")]
    else pf := pf ++ [("C07", fs.i, "handle discipline: " ++ disc)]
  let effective := !failed && !dry && !rHit
  -- C08: exactly one new log per effective write, none otherwise; its id is the answered one
  let newLogs := real'.logs.filter (fun e => !(fs.real.logs.any (·.1 == e.1)))
  let respLogId : Option Nat := match optField resp "log" with
    | some l => (match natField l "id" with | .ok n => some n | .error _ => none)
    | none => none
  if effective then
    if newLogs.length ≠ 1 then pf := pf ++ [("C08", fs.i, s!"successful write added {newLogs.length} logs")]
    else if some (newLogs.map (·.1)).head! ≠ respLogId then
      pf := pf ++ [("C08", fs.i, "the new log's id is not the id the write answered")]
  else if !newLogs.isEmpty then pf := pf ++ [("C08", fs.i, "a log was written by a failed / dry-run / idempotent write")]
  if real'.logs.length ≠ fs.real.logs.length + newLogs.length then
    pf := pf ++ [("C08", fs.i, "an existing log row was rewritten")]
  -- C16 / C08: new ids above every existing id
  let newTxs := real'.txs.filter (fun e => !(fs.real.txs.any (·.1 == e.1)))
  if newLogs.any (fun e => e.1 ≤ maxKey fs.real.logs) then
    pf := pf ++ [("C16", fs.i, "new log id not above the existing ones"), ("C08", fs.i, "new log id not above the existing ones")]
  if newTxs.any (fun e => e.1 ≤ maxKey fs.real.txs) then
    pf := pf ++ [("C16", fs.i, "new transaction id not above the existing ones")]
  -- C13: idempotency keys
  let ik := optStrField inp "ik"
  if ik ≠ "" then
    match fs.real.logs.find? (fun e => jsonStr e.2 "ik" == ik) with
    | some (_, l) =>
      -- same input = the same request, field by field (`req`: the Go value the controller
      -- received, independently of any encoding or hash); only for a key whose creating
      -- request this history has not seen (imported logs) the hashes decide
      let same := match fs.ikOps.lookup ik with
        | some k => k == reqKeyOf inp out
        | none => jsonStr l "ih" == optStrField out "ih"
      if same then
        if !(rHit && !failed && optField resp "log" == some l && deltaEmpty delta) then
          pf := pf ++ [("C13", fs.i, "same key + same input did not return the original log as a hit without effect")]
      else if !(rErr == "invalid-idempotency-input" && deltaEmpty delta) then
        let fld := ((optStrField inp "mut").splitOn ":").headD ""
        let what := if fld = "" then "input" else fld
        pf := pf ++ [("C13", fs.i, s!"C13:reuse-with-different-{what}-accepted: same key + different input " ++
          s!"({if optStrField inp "mut" = "" then "another request" else "only " ++ optStrField inp "mut" ++ " differs"}) was answered " ++
          s!"'{if rErr = "" then (if rHit then "hit" else "ok") else rErr}' instead of invalid-idempotency-input without effect")]
    | none =>
      if rHit then pf := pf ++ [("C13", fs.i, "idempotency hit without a log carrying the key")]
      if effective && !(newLogs.all (fun e => jsonStr e.2 "ik" == ik)) then
        pf := pf ++ [("C13", fs.i, "the new log does not carry the idempotency key")]
  if !distinctNonEmpty (real'.logs.map (fun e => jsonStr e.2 "ik")) then
    pf := pf ++ [("C13", fs.i, "two logs carry the same idempotency key")]
  -- C14: references
  if !distinctNonEmpty (real'.txs.map (fun e => jsonStr e.2 "ref")) then
    pf := pf ++ [("C14", fs.i, "two transactions carry the same reference")]
  let ref := optStrField inp "ref"
  if ref ≠ "" && (opTag inp).startsWith "create" && fs.real.txs.any (fun e => jsonStr e.2 "ref" == ref) then
    if !failed && !rHit then pf := pf ++ [("C14", fs.i, "a create reusing a reference did not fail")]
  -- C17 / C18: the tables equal the reference reading of the journal
  let charts := if effective && opTag inp = "insertSchema" then
      fs.charts ++ [(optStrField inp "version", (chartTableOf out).toOption.getD [])] else fs.charts
  for (p, w) in (← specCheck charts real') do pf := pf ++ [(p, fs.i, w)]
  -- C18: insertion dates never change
  for (a, row) in real'.accounts do
    match fs.real.accounts.lookup a with
    | some old => if (old.getObjVal? "ins").toOption != (row.getObjVal? "ins").toOption then
        pf := pf ++ [("C18", fs.i, s!"insertion date of {a} changed")]
    | none => pure ()
  let tag := opTag inp ++ ":" ++ (if failed then rErr else if rHit then "hit" else if dry then "dry" else "ok")
  let committedTx := fs.committedTx + (if !failed && !dry && !rHit && (opTag inp).startsWith "create" then 1 else 0)
  return { fs with state := state', mismatch := mismatch, real := real', i := fs.i + 1, tags := fs.tags ++ [tag], propFail := pf,
                   sigs := sigs, committedTx := committedTx, inUse := inUse', charts := charts,
                   ikOps := if effective && ik ≠ "" then fs.ikOps ++ [(ik, reqKeyOf inp out)] else fs.ikOps }

def dedup (l : List String) : List String := l.foldl (fun acc x => if acc.contains x then acc else acc ++ [x]) []

def handleHist : Handler := fun inp out => do
  let strict := boolFieldD inp "strict"
  let ops ← arrField inp "ops"
  let outs ← arrField out "ops"
  if ops.length ≠ outs.length then throw "ops / outputs length mismatch"
  let fs ← (ops.zip outs).foldlM (fun fs (i, o) => stepHist strict fs i o) ({} : FoldSt)
  let agree := fs.mismatch.isNone
  let want := optStrField inp "prop"
  let sel (p : String) : Bool := want = "" || p = want
  let sigs := dedup ((fs.sigs.filter (sel ·.1)).map (·.2))
  let fails := fs.propFail.filter (sel ·.1)
  let prop := fails.isEmpty && sigs.isEmpty
  let note :=
    if !fails.isEmpty then
      "; ".intercalate (fails.map fun (p, i, w) => s!"{p} op {i}: {w}")
    else if !sigs.isEmpty then "known defect reproduced: " ++ ", ".intercalate sigs
    else ""
  pure { model := match fs.mismatch with | some m => m.toJson | none => Json.null,
         agree := agree, prop := prop, propModel := true,
         nontrivial := fs.committedTx ≥ 2,
         tags := dedup fs.tags ++ [if strict then "mode:strict" else "mode:audit"],
         note := note,
         sig := if fails.isEmpty then sigs.headD "" else "" }

/-! ### handler "ctrlfault" -/

def faultKindOf (kind : String) : Except String FaultKind :=
  if kind = "error" then pure .error
  else if kind = "deadlock" then pure .deadlock
  else if kind = "cancel" then pure .cancel
  else if kind = "ik-conflict" then pure .ikConflict
  else throw s!"unknown fault kind {kind}"

/-- A plan: the call faults, and whether a COMMIT failure is armed. -/
def planOfJson (j : Json) : Except String (Faults × Bool) := do
  let fs ← (match j with | .arr a => pure a.toList | _ => throw "plan: not an array")
  fs.foldlM (fun (acc : Faults × Bool) fj => do
    let kind ← strField fj "kind"
    let cf := acc.2 || kind = "commit" || boolFieldD fj "andCommit"
    if kind = "commit" then pure (acc.1, cf)
    else pure (acc.1 ++ [{ at_ := ← natField fj "at", kind := ← faultKindOf kind }], cf)) ([], false)

/-- The store call a real trace entry names (second word). -/
def entryMethod (e : String) : String :=
  match e.splitOn " " with
  | _ :: m :: _ => m
  | _ => ""

def handleFault : Handler := fun inp out => do
  let strict := boolFieldD inp "strict"
  let want := optStrField inp "prop"
  let pre ← arrField inp "prefix"
  let preOut ← arrField out "prefix"
  if pre.length ≠ preOut.length then throw "prefix / outputs length mismatch"
  let fs ← (pre.zip preOut).foldlM (fun fs (i, o) => stepHist strict fs i o) ({} : FoldSt)
  let opIn ← field inp "op"
  let base ← field out "base"
  let runs ← arrField out "runs"
  let kindTag := opTag opIn
  let mut mismatch := fs.mismatch
  let mut fails : List String := []
  let mut failsOther : List (String × String) := []
  let mut tags : List String := ["op:" ++ kindTag]
  let mut fired := 0
  -- one comparison of the model with a real run from the prefix state
  let compare (f : Faults) (cf : Bool) (real : Json) (label : String) : Except String (Option Mismatch) := do
    let op ← opOfJson opIn real
    let o := forgeLog strict op f cf fs.state
    let resp ← field real "resp"
    let delta ← field real "delta"
    let real' ← applyDelta fs.real delta
    let realTrace ← strArrField real "trace"
    let seqJ ← arrField real "seq"
    let mResp := jResp o.resp
    let rResp := realResp resp
    let mk (fld : String) (m r : Json) : Option Mismatch :=
      some { op := pre.length, field := label ++ ":" ++ fld, model := m, real := r }
    if mResp != rResp then return mk "resp" mResp rResp
    if o.trace != realTrace then return mk "trace" (jStrs o.trace) (jStrs realTrace)
    let mSeq := Json.arr #[jNat o.state.seq.tx, jNat o.state.seq.log]
    if mSeq != Json.arr seqJ.toArray then return mk "seq" mSeq (Json.arr seqJ.toArray)
    let mTabs := tablesOfDb o.state.db
    let d := mTabs.diff real'
    if d ≠ "" then return mk ("snapshot." ++ d) mTabs.toJson real'.toJson
    return none
  if mismatch.isNone then mismatch ← compare [] false base "base"
  let baseErr := optStrField (← field base "resp") "err"
  tags := tags ++ ["base:" ++ (if baseErr = "" then "ok" else baseErr)]
  for r in runs do
    let fj ← field r "plan"
    let (f, cf) ← planOfJson fj
    let real ← field r "out"
    let label := s!"plan {fj.compress}"
    let kinds : List String := (match fj with | .arr a => a.toList.map (fun x => optStrField x "kind") | _ => [])
    let single := kinds.length = 1
    if mismatch.isNone then mismatch ← compare f cf real label
    -- C07 on the real outputs
    let resp ← field real "resp"
    let rErr := if optStrField resp "panic" ≠ "" then "panic" else optStrField resp "err"
    let delta ← field real "delta"
    let didFire := boolFieldD r "fired"
    if didFire then fired := fired + 1
    let fk := "+".intercalate kinds
    let andCommit := cf && !(kinds == ["commit"])
    let onlyKinds (ks : List String) : Bool := kinds.all (fun k => ks.contains k)
    if rErr ≠ "" && !deltaEmpty delta then
      fails := fails ++ [s!"{label}: failed write changed the snapshot"]
    if boolFieldD opIn "dry" && !deltaEmpty delta then
      fails := fails ++ [s!"{label}: dry-run write changed the snapshot"]
    if didFire && kinds == ["commit"] && rErr = "" && !boolFieldD opIn "dry" then
      fails := fails ++ [s!"{label}: COMMIT failed but the write answered success"]
    if (← strArrField real "trace").any (·.endsWith "Commit !commit-failed") && rErr = "" then
      fails := fails ++ [s!"{label}: COMMIT failed but the write answered success"]
    if didFire && single && (fk = "error" || fk = "cancel") && rErr = "" && !boolFieldD opIn "dry" then
      -- a non-retryable failure may only be swallowed when it hit a Rollback
      let tr ← strArrField real "trace"
      let hit := tr.filter (fun e => (e.splitOn " !").length > 1 &&
        (e.endsWith "!injected" || e.endsWith "!canceled"))
      if !(hit.all (fun e => entryMethod e = "Rollback")) then
        fails := fails ++ [s!"{label}: store failure swallowed"]
    if didFire && onlyKinds ["deadlock"] && !andCommit && rErr = "deadlock" then
      -- a deadlock is retried unless it hit BeginTX, the idempotency-key read, or Commit
      let tr ← strArrField real "trace"
      let hit := (tr.filter (·.endsWith "!deadlock")).map entryMethod
      if !(hit.all (fun m => m = "BeginTX" || m = "ReadLogWithIdempotencyKey" || m = "Commit")) then
        fails := fails ++ [s!"{label}: deadlock inside the operation was not retried"]
    -- C14 / C13 on the real outputs: a business refusal keeps its class when the attempt
    -- that meets it is a retry after deadlocks (the retried attempt sees the same tables)
    if didFire && onlyKinds ["deadlock"] && !andCommit && rErr ≠ "deadlock" && rErr ≠ baseErr then
      if baseErr = "reference-conflict" then
        failsOther := failsOther ++ [("C14", s!"{label}: reference conflict met on a retried attempt answered '{rErr}'")]
      if baseErr = "invalid-idempotency-input" then
        failsOther := failsOther ++ [("C13", s!"{label}: idempotency-key reuse with another input, met on a retried attempt, answered '{rErr}'")]
    let disc := traceDiscipline (← strArrField real "trace")
    if disc ≠ "" then fails := fails ++ [s!"{label}: handle discipline: {disc}"]
    tags := tags ++ [s!"{fk}{if andCommit then "+commit" else ""}{if boolFieldD opIn "dry" then "/dry" else ""}:" ++ (if !didFire then "not-reached" else if rErr = "" then "ok" else rErr)]
  let sel (p : String) : Bool := want = "" || p = want
  let selFails := (if sel "C07" then fails else []) ++ ((failsOther.filter (sel ·.1)).map (fun (p, w) => s!"{p}: {w}"))
  pure { model := match mismatch with | some m => m.toJson | none => Json.null,
         agree := mismatch.isNone, prop := selFails.isEmpty, propModel := true,
         nontrivial := fired ≥ 3 && (baseErr = "" || (want = "C14" && baseErr = "reference-conflict") ||
                                      (want = "C13" && baseErr = "invalid-idempotency-input")),
         tags := dedup tags, note := "; ".intercalate (selFails.take 5) }

/-! ### handler "ctrlimport" -/

def importErrClass : Option ImportErr → String
  | none => ""
  | some .notInitializing => "import"
  | some (.alreadyExists _) => "import"
  | some (.failed _ e) => e.toString

/-- Which columns of the accounts differ between two real snapshots (by address). -/
def accountsDiff (a b : List (String × Json)) : List String :=
  let cols := ["meta", "fu", "ins", "upd"]
  dedup (a.foldl (fun acc (k, ra) =>
    match b.lookup k with
    | none => acc ++ ["missing"]
    | some rb => acc ++ cols.filter (fun c => (ra.getObjVal? c).toOption != (rb.getObjVal? c).toOption)) []
    ++ (if a.length ≠ b.length then ["count"] else []))

def handleImport : Handler := fun inp out => do
  let strict := boolFieldD inp "strict"
  let want := optStrField inp "prop"
  let variant ← strField inp "variant"
  let k ← natField inp "k"
  let ops ← arrField inp "ops"
  let srcOut ← arrField out "src"
  if ops.length ≠ srcOut.length then throw "ops / outputs length mismatch"
  -- 1. source history through the state tracker
  let fs ← (ops.zip srcOut).foldlM (fun fs (i, o) => stepHist strict fs i o) ({ facade := true } : FoldSt)
  let mut mismatch := fs.mismatch
  let mk (f : String) (m r : Json) : Option Mismatch := some { op := ops.length, field := f, model := m, real := r }
  let srcReal ← applyDelta {} (← field out "srcSnap")
  if mismatch.isNone && (tablesOfDb fs.state.db).diff srcReal ≠ "" then
    mismatch := mk "srcSnap" (tablesOfDb fs.state.db).toJson srcReal.toJson
  -- 2. export
  let logs := exportLogs fs.state
  let realExported ← arrField out "exported"
  if mismatch.isNone && Json.arr (logs.map jLog).toArray != Json.arr realExported.toArray then
    mismatch := mk "exported" (Json.arr (logs.map jLog).toArray) (Json.arr realExported.toArray)
  -- 3. import steps on a fresh ledger
  let kk := min k logs.length
  let streams : List (List Log) :=
    if variant = "ok" then [logs]
    else if variant = "twoParts" then [logs.take kk, logs.drop kk]
    else if variant = "inUse" then [logs]
    else if variant = "twice" then [logs, logs]
    else [logs.take kk ++ logs.take 1]
  let mut dst : Ledger := {}
  let mut dstFs : FoldSt := { facade := true }
  let mut fails : List (String × String) := []
  let mut sigs : List (String × String) := []
  let mut tags : List String := ["variant:" ++ variant]
  if variant = "inUse" then
    match optField inp "pre", optField out "preOut" with
    | some pre, some preOut =>
      dstFs ← stepHist strict dstFs pre preOut
      if mismatch.isNone then mismatch := dstFs.mismatch.map (fun m => { m with field := "pre:" ++ m.field })
      dst := { state := dstFs.state, inUse := dstFs.inUse }
    | _, _ => throw "variant inUse without pre op"
  let steps ← arrField out "steps"
  if steps.length ≠ streams.length then throw "import steps mismatch"
  let nowBase := (ops.length + 5 + 1) * 10000000 + 1704067200000000
  let mut stepNo := 0
  let mut before : Tables := dstFs.real
  for (stream, st) in streams.zip steps do
    let (dst', e) := facadeImport (Int.ofNat nowBase + stepNo * 1000000) dst stream
    let rErr := optStrField st "err"
    let real ← applyDelta {} (← field st "snap")
    let seqJ ← arrField st "seq"
    if mismatch.isNone then
      if importErrClass e ≠ rErr then
        mismatch := mk s!"import[{stepNo}].err" (importErrClass e) rErr
      else if (tablesOfDb dst'.state.db).diff real ≠ "" then
        mismatch := mk s!"import[{stepNo}].snapshot.{(tablesOfDb dst'.state.db).diff real}"
          (tablesOfDb dst'.state.db).toJson real.toJson
      else if Json.arr #[jNat dst'.state.seq.tx, jNat dst'.state.seq.log] != Json.arr seqJ.toArray then
        mismatch := mk s!"import[{stepNo}].seq" (Json.arr #[jNat dst'.state.seq.tx, jNat dst'.state.seq.log]) (Json.arr seqJ.toArray)
      else if (optStrField st "state" = "in-use") ≠ dst'.inUse then
        mismatch := mk s!"import[{stepNo}].state" (toString dst'.inUse) (optStrField st "state")
    tags := tags ++ [s!"import:{if rErr = "" then "ok" else rErr}"]
    -- C12 on the real outputs
    let changed := before.diff real ≠ ""
    if rErr ≠ "" && changed then
      if variant = "failAtK" && rErr = "import" then
        sigs := sigs ++ [("C12", "C12:failed-import-keeps-earlier-logs")]
      else fails := fails ++ [("C12", s!"rejected import (step {stepNo}) changed the ledger")]
    if variant = "inUse" && rErr ≠ "import" then
      fails := fails ++ [("C12", "import on an in-use ledger was not refused")]
    if variant = "twice" && stepNo = 1 && rErr ≠ "import" && !logs.isEmpty then
      fails := fails ++ [("C12", "re-import of existing log ids was not refused")]
    if (variant = "ok" || variant = "twoParts") && rErr ≠ "" then
      fails := fails ++ [("C11", s!"import of an exported stream failed: {rErr}")]
    before := real
    dst := dst'
    stepNo := stepNo + 1
  -- C11 / C08: the copy equals the source
  if variant = "ok" || variant = "twoParts" then
    -- volumes are compared as values: zero rows left by balance locks of the live path
    -- (never created by importLog) are not a difference
    let d := srcReal.normVols.diff before.normVols
    if d = "" && srcReal.diff before ≠ "" then tags := tags ++ ["zero-row-difference"]
    if d ≠ "" then
      if d = "accounts" then
        let cols := accountsDiff srcReal.accounts before.accounts
        let onlyDates := cols.all (fun c => c = "fu" || c = "upd")
        if cols.contains "meta" then
          sigs := sigs ++ [("C11", "C11:import-drops-chart-default-metadata"), ("C08", "C08:replay-drops-chart-default-metadata")]
        if cols.contains "fu" then
          sigs := sigs ++ [("C11", "C11:import-moves-account-dates"), ("C08", "C08:replay-moves-account-dates")]
        else if cols.contains "upd" then
          sigs := sigs ++ [("C11", "C11:import-restamps-account-updated-at"), ("C08", "C08:replay-restamps-account-updated-at")]
        if !(cols.contains "meta") && !onlyDates then
          fails := fails ++ [("C11", s!"copy differs from source in accounts columns {cols}"), ("C08", s!"replay differs in accounts columns {cols}")]
      else fails := fails ++ [("C11", s!"copy differs from source in {d}"), ("C08", s!"replay differs in {d}")]
    tags := tags ++ [if d = "" then "copy:equal" else "copy:differs:" ++ d]
  if !boolFieldD out "wireOk" then fails := fails ++ [("C11", "a log changed through the JSON wire encoding")]
  -- 4. more writes on the copy
  let extra ← arrField inp "extra"
  let extraOut ← arrField out "extra"
  if extra.length ≠ extraOut.length then throw "extra / outputs length mismatch"
  let maxTx0 := maxKey before.txs
  let maxLog0 := maxKey before.logs
  let fs2 ← (extra.zip extraOut).foldlM (fun fs (i, o) => stepHist strict fs i o)
    ({ facade := true, state := dst.state, inUse := dst.inUse, real := before, charts := fs.charts } : FoldSt)
  -- on a copy that already differs from its source (findings above) the journal reading
  -- of accounts cannot hold either: reported once, through the C11 / C08 signatures
  let copyExact := (variant = "ok" || variant = "twoParts") && srcReal.normVols.diff before.normVols = ""
  let fs2 := if copyExact then fs2 else
    { fs2 with propFail := fs2.propFail.filter (fun (p, _, _) => p ≠ "C17" && p ≠ "C18") }
  if mismatch.isNone then mismatch := fs2.mismatch.map (fun m => { m with field := "extra:" ++ m.field })
  -- C11 ids continue: every new id is above every imported one
  let newTx := fs2.real.txs.filter (fun e => !(before.txs.any (·.1 == e.1)))
  let newLogs := fs2.real.logs.filter (fun e => !(before.logs.any (·.1 == e.1)))
  if newTx.any (fun e => e.1 ≤ maxTx0) || newLogs.any (fun e => e.1 ≤ maxLog0) then
    fails := fails ++ [("C11", "a write after the import reused an id at or below the imported ones"),
                       ("C16", "a write after the import reused an id at or below the imported ones")]
  tags := tags ++ [s!"extra-new-tx:{if newTx.isEmpty then "0" else "some"}"]
  let sel (p : String) : Bool := want = "" || p = want
  let selSigs := dedup ((sigs.filter (sel ·.1)).map (·.2))
  let selFails := ((fs.propFail ++ fs2.propFail).filter (sel ·.1)).map (fun (p, i, w) => s!"{p} op {i}: {w}") ++
    (fails.filter (sel ·.1)).map (fun (p, w) => s!"{p}: {w}")
  pure { model := match mismatch with | some m => m.toJson | none => Json.null,
         agree := mismatch.isNone, prop := selFails.isEmpty && selSigs.isEmpty, propModel := true,
         nontrivial := logs.length ≥ 3,
         tags := dedup tags,
         note := if !selFails.isEmpty then "; ".intercalate (selFails.take 5)
                 else if !selSigs.isEmpty then "known defect reproduced: " ++ ", ".intercalate selSigs else "",
         -- one signature per verdict (known_findings matches it exactly): the first reproduced
         sig := if selFails.isEmpty then selSigs.headD "" else "" }

def handlers : List (String × Handler) := [
  ("ctrlhist", handleHist),
  ("ctrlfault", handleFault),
  ("ctrlimport", handleImport)
]

end Ledger.Driver.Ctrl
