import Ledger.Driver.Core
import Ledger.Api.InterpCompare

/-! Handler "interp" (C26): differential of the two REAL Numscript runtimes.  There
is no Lean model here: the handler only compares the two recorded results
(non-zero postings in order, transaction metadata, account metadata, both-fail). -/
namespace Ledger.Driver.Api
open Lean Ledger.Driver

structure RtRes where
  ok : Bool
  err : String
  postings : List (String × String × String × String)
  txMeta : Json
  accountMeta : Json

def rtOfJson (j : Json) : Except String RtRes := do
  let ok ← boolField j "ok"
  let ps ← (← arrField j "postings").mapM fun p => do
    pure (← strField p "source", ← strField p "destination", ← strField p "asset", ← strField p "amount")
  let norm (k : String) : Json := match j.getObjVal? k with
    | .ok .null => Json.mkObj []
    | .ok v => v
    | .error _ => Json.mkObj []
  -- account metadata: accounts with an empty map are the same as absent
  let am : Json := match norm "accountMeta" with
    | .obj kvs => Json.mkObj (kvs.toList.filter fun (_, v) => match v with
        | .obj m => !m.toList.isEmpty
        | _ => true)
    | v => v
  pure { ok, err := optStrField j "err", postings := ps, txMeta := norm "txMeta", accountMeta := am }

/-- Priority order of constructs: the signature names the first one present. -/
def featurePriority : List String :=
  ["kept", "allotment-source", "allotment-dest", "save", "send-all", "overdraft-bounded", "overdraft-unbounded",
   "max-source", "inorder-source", "inorder-dest", "balance-var", "meta-var", "portion-var", "monetary-var",
   "account-var", "set-account-meta", "set-tx-meta", "bad-vars", "plain"]

def handleInterp : Handler := fun inp out => do
  let feats ← strArrField inp "features"
  let m ← rtOfJson (← field out "machine")
  let i ← rtOfJson (← field out "interp")
  let primary := (featurePriority.find? fun f => feats.contains f).getD "plain"
  -- zero-amount postings are ignored; postings that become adjacent with the same
  -- (source, destination, asset) once the zeros are gone are merged on both sides
  let nz (ps : List (String × String × String × String)) : List Ledger.Api.Interp.P :=
    Ledger.Api.Interp.norm (ps.map fun p =>
      { source := p.1, destination := p.2.1, asset := p.2.2.1, amount := p.2.2.2.toInt?.getD 1 })
  let staticOnly (e : String) : Bool := e = "compile" || e = "parse"
  -- a program only one front end accepts is not in the shared language
  let outOfSubset := (!m.ok && staticOnly m.err && i.ok) || (!i.ok && staticOnly i.err && m.ok)
  let bad (r : RtRes) : Bool := r.err = "panic" || r.err = "timeout"
  let aspect : String :=
    if bad m || bad i then s!"crash:machine={m.err}:interp={i.err}"
    else if outOfSubset then ""
    else if m.ok != i.ok then (if m.ok then "outcome:machine-ok-interp-fail" else "outcome:machine-fail-interp-ok")
    else if !m.ok then ""
    else if nz m.postings ≠ nz i.postings then "postings"
    else if !(m.txMeta == i.txMeta) then "txmeta"
    else if !(m.accountMeta == i.accountMeta) then "accountmeta"
    else ""
  -- root cause, when the divergence falls in one of the three known classes of the
  -- interpreter library (see checks/C26.json), else the first construct present
  let mErrText := match (out.getObjVal? "machine").toOption with
    | some mj => optStrField mj "errText"
    | none => ""
  let has (f : String) : Bool := feats.contains f
  let cause : String :=
    if (mErrText.splitOn "sum of portions exceeded").length > 1 then "portions-over-100"
    else if has "save" && has "overdraft-bounded" then "save-overdraft"
    else if has "kept" then "kept"
    else primary
  let prop := aspect = ""
  let outcome :=
    if outOfSubset then "out-of-subset"
    else if m.ok && i.ok then "both-ok" else if !m.ok && !i.ok then "both-fail" else "diverge"
  pure { model := Json.null, agree := true, prop,
         nontrivial := m.ok && i.ok && !(nz m.postings).isEmpty,
         tags := [outcome] ++ feats.map (fun f => "f:" ++ f) ++
                 (if m.ok && (m.postings.any fun p => p.2.2.2 = "0") then ["machine-zero-postings"] else []),
         note := if prop then "" else s!"runtimes diverge ({aspect}) on a program using {primary} (class {cause})",
         sig := if prop then "" else s!"C26:{cause}:{aspect}" }

/-- "interp36" (C36): programs whose amounts and balances sit around 2^63 / 2^64, without
    the constructs that have a known interpreter divergence; the interpreter (big.Int
    throughout) is the oracle for the machine's in-VM aggregation of amounts. -/
def handleInterp36 : Handler := fun inp out => do
  let v ← handleInterp inp out
  pure { v with sig := if v.prop then "" else "C36:vm-aggregation:" ++ v.sig,
                note := if v.prop then "" else "in-VM aggregation of amounts around 2^63 differs from the interpreter: " ++ v.note }

end Ledger.Driver.Api
