import Ledger.Driver.ApiCommon

/-! Handler "http": the C38 oracle on one request through the real router
(status < 500, no panic, well-formed error body, certainly-invalid input answered
4xx, no effective write on a 4xx).  There is no model of the whole HTTP surface;
the only modelled expectation is that an unmodified template is accepted. -/
namespace Ledger.Driver.Api
open Lean Ledger.Driver

def intField (j : Json) (k : String) : Except String Int := do
  match (← field j k) with
  | .num n => if n.exponent = 0 then pure n.mantissa else throw s!"field {k}: not an integer"
  | _ => throw s!"field {k}: not a number"

/-- Coarse, stable class of a mutation label (`body:type:/postings/#/amount` → `body`). -/
def mutClass (m : String) : String :=
  let parts := m.splitOn ":"
  match parts with
  | "inject" :: e :: _ => "inject:" ++ e
  | "query" :: "filter" :: "metadata-bracket" :: _ => "query:filter:metadata-bracket"
  | "query" :: "filter" :: _ => "query:filter"
  | "query" :: "cursor" :: k :: _ => "query:cursor:" ++ k
  | "query" :: k :: _ => "query:" ++ k
  | "logs" :: k :: _ => "logs:" ++ k
  | "path" :: k :: _ => "path:" ++ k
  | "env" :: k :: _ => "env:" ++ k
  | "body" :: "text" :: _ => "body:text"
  | "body" :: _ => "body"
  | p :: _ => p
  | [] => ""

def containsSub (s sub : String) : Bool := (s.splitOn sub).length > 1

def handleHttp : Handler := fun inp out => do
  let route ← strField inp "route"
  let mut_ ← strField inp "mut"
  let expect := optStrField inp "expect"
  let query := optStrField inp "query"
  let status ← intField out "status"
  let ctype := optStrField out "ctype"
  let bodyLen ← intField out "bodyLen"
  let bodyJSON ← boolField out "bodyJSON"
  let errorCode := optStrField out "errorCode"
  let panic := optStrField out "panic"
  let timeout := (out.getObjVal? "timeout").toOption.bind (·.getBool?.toOption) |>.getD false
  let writes ← strArrField out "writes"
  let mc := mutClass mut_
  let isV1 := route.startsWith "v1 "
  let isBulk := containsSub route "/_bulk"
  let atomic := containsSub query "atomic=true" || containsSub query "atomic=1" || containsSub query "atomic=TRUE"
  -- writes that count against a 4xx: v1 auto-creates the ledger before the handler
  -- runs; a non-atomic bulk keeps the elements applied before the failing one
  let effWrites := writes.filter fun w => !(isV1 && w = "CreateLedger")
  let writeOn4xx := 400 ≤ status && status < 500 && !effWrites.isEmpty && (!isBulk || atomic)
  let jsonCT := containsSub ctype "application/json"
  let badBody := status ≥ 400 && bodyLen > 0 && jsonCT && (!bodyJSON || (errorCode = "" && !isBulk))
  let plainOk := status = 404 || status = 405 || containsSub route "/transactions/batch"
  let nonJsonError := status ≥ 400 && status < 500 && bodyLen > 0 && !jsonCT && !bodyJSON && !plainOk
  let cls : String :=
    if status = -1 then ""
    else if panic ≠ "" then "panic-escaped"
    else if timeout then "timeout"
    else if status ≥ 500 && bodyLen = 0 then "panic"   -- recovered by the router: bare 500
    else if status ≥ 500 then s!"5xx-{errorCode}"
    else if expect = "4xx" && status < 400 then "accepted-invalid"
    else if writeOn4xx then "write-on-4xx"
    else if badBody then "bad-error-body"
    else if nonJsonError then "non-json-error"
    else ""
  -- stable signature: the defect, not the route it was observed on, when the
  -- defect is shared by a family of routes
  let readErr := mc = "inject:ErrInvalidQuery" || mc = "inject:ErrMissingFeature" || mc = "inject:ErrNotPaginatedField"
  let v1FilterParam := ["query:after", "query:startTime", "query:endTime", "query:start_time", "query:end_time"].contains mc
  let is5xx := cls.startsWith "5xx"
  let isCursor := mc.startsWith "query:cursor"
  -- null | no-order | no-bottom are three distinct panics; other kinds only by class
  let cursorKind := match mc.splitOn ":" with
    | [_, _, k] => if k = "null" || k = "no-order" || k = "no-bottom" then k else "other"
    | _ => "other"
  let family : String :=
    if isCursor && cls = "panic" then s!"C38:cursor:panic:{cursorKind}"
    else if isCursor && is5xx && isV1 then "C38:v1-read-errors:5xx"   -- the store's ErrInvalidQuery again
    else if isCursor && is5xx then "C38:cursor:5xx"
    -- one defect, whatever makes the later line malformed: the import commits log by log, so the
    -- logs decoded before the malformed part stay (same cause as C12:failed-import-keeps-earlier-logs)
    else if containsSub route "/logs/import" && cls = "write-on-4xx" then "C38:logs-import:malformed-later-line-keeps-earlier-logs"
    else if containsSub route "/logs/import" then s!"C38:logs-import:{cls}:{mc}"
    else if isV1 && is5xx && (readErr || v1FilterParam) then "C38:v1-read-errors:5xx"
    else if isV1 && cls = "accepted-invalid" && containsSub route "HEAD /{ledger}/transactions" && (mc = "query:pit" || mc = "query:oot") then
      "C38:v1-count-transactions:bad-date-accepted"
    else if is5xx && mc = "query:filter:metadata-bracket" then "C38:filter-metadata-bracket:5xx"
    else if is5xx && mc = "query:sort" then "C38:sort-unknown-column:5xx"
    else if !isV1 && is5xx && readErr && (containsSub route "/accounts/{address}" || containsSub route "/transactions/{id}") then
      "C38:v2-read-one-errors:5xx"
    else if isV1 && is5xx && containsSub route "/revert" && mc.startsWith "inject:" then "C38:v1-revert-write-errors:5xx"
    else if isV1 && cls = "panic" && containsSub route "POST /{ledger}/transactions" && mc = "body" then "C38:v1-vars-panic"
    else s!"C38:{route}:{cls}:{mc}"
  let prop := cls = ""
  let agree := !(expect = "2xx" && status ≠ -1 && (status < 200 || status ≥ 300))
  let statusTag := if status = -1 then "unsendable" else s!"{status / 100}xx"
  pure { model := Json.mkObj [("expect", expect)], agree, prop,
         nontrivial := status ≥ 400 || mc ≠ "valid",
         tags := [(if isV1 then "v1:" else "v2:") ++ statusTag, "mut:" ++ (mc.splitOn ":").headD ""],
         note := if !agree then s!"unmodified template answered {status}" else
                 if prop then "" else s!"{route} [{mut_}] → {status} {errorCode} ({cls})",
         sig := if prop then (if agree then "" else s!"http:{route}:template-rejected") else family }

end Ledger.Driver.Api
