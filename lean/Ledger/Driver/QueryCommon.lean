import Ledger.Driver.Core
import Ledger.Query.Filter
import Ledger.Query.Cursor

/-! JSON plumbing shared by the query-area handlers (core-only). -/
namespace Ledger.Driver.Q
open Lean Ledger.Query Ledger.Driver

/-- An integer JSON number (exponent 0 after Lean's normalisation). -/
def jsonInt? : Json → Option Int
  | .num n => if n.exponent == 0 then some n.mantissa else none
  | _ => none

partial def toJ : Json → J
  | .null => .null
  | .bool b => .bool b
  | .num n => if n.exponent == 0 then .num n.mantissa else .str s!"<non-integer {n}>"
  | .str s => .str s
  | .arr a => .arr (a.toList.map toJ)
  | .obj kvs => .obj (kvs.toList.map fun (k, v) => (k, toJ v))

partial def ofJ : J → Json
  | .null => .null
  | .bool b => .bool b
  | .num n => .num ⟨n, 0⟩
  | .str s => .str s
  | .arr l => .arr (l.map ofJ).toArray
  | .obj kvs => Json.mkObj (kvs.map fun (k, v) => (k, ofJ v))

def optField (j : Json) (k : String) : Option Json :=
  match j.getObjVal? k with
  | .ok v => some v
  | .error _ => none

def natField (j : Json) (k : String) : Except String Nat := do
  match jsonInt? (← field j k) with
  | some n => if n < 0 then throw s!"field {k}: negative" else pure n.toNat
  | none => throw s!"field {k}: not an integer"

def intField (j : Json) (k : String) : Except String Int := do
  match jsonInt? (← field j k) with
  | some n => pure n
  | none => throw s!"field {k}: not an integer"

def scalarOfJson : Json → Scalar
  | .str s => .str s
  | .bool b => .bool b
  | .null => .null
  | j => match jsonInt? j with
    | some n => .int n
    | none => .other

def valOfJson : Json → Val
  | .arr a => .arr (a.toList.map scalarOfJson)
  | j => .sc (scalarOfJson j)

def jsonOfScalar : Scalar → Json
  | .str s => .str s
  | .int i => .num ⟨i, 0⟩
  | .bool b => .bool b
  | .null => .null
  | .other => .str "<other>"

def jsonOfVal : Val → Json
  | .sc s => jsonOfScalar s
  | .arr l => .arr (l.map jsonOfScalar).toArray

/-- Does a JSON value contain a number that is not an integer (go-libs
    `convertJsonNumbersToBigInt` rejects the whole document then)? -/
partial def hasNonInteger : Json → Bool
  | .num n => n.exponent != 0
  | .arr a => a.any hasNonInteger
  | .obj kvs => kvs.toList.any fun (_, v) => hasNonInteger v
  | _ => false

/-- Model of go-libs `query.ParseJSON` on an already-decoded JSON value:
    `none` = nil builder (null / empty object), error = rejected. -/
partial def parseFilter (j : Json) : Except String Filter :=
  match j with
  | .obj kvs =>
    match kvs.toList with
    | [(op, v)] =>
      if op == "$and" || op == "$or" then
        match v with
        | .arr items => do
          let fs ← items.toList.mapM fun it =>
            match it with
            | .obj _ => parseFilter it
            | _ => throw "set item"
          pure (if op == "$and" then .and fs else .or fs)
        | _ => throw "set"
      else if op == "$not" then
        match v with
        | .obj _ => do pure (.not (← parseFilter v))
        | _ => throw "not"
      else match Op.ofString? op with
        | some o =>
          match v with
          | .obj kv =>
            (match kv.toList with
              | [(k, x)] => pure (.leaf o k (valOfJson x))
              | _ => throw "single key")
          | _ => throw "leaf"
        | none => throw "operator"
    | _ => throw "single key"
  | _ => throw "type"

def parseBuilder (j : Json) : Except String (Option Filter) :=
  if hasNonInteger j then throw "non-integer" else
  match j with
  | .null => pure none
  | .obj kvs => if kvs.isEmpty then pure none else (parseFilter j).map some
  | _ => throw "type"

partial def filterToJson : Filter → Json
  | .and fs => Json.mkObj [("$and", .arr (fs.map filterToJson).toArray)]
  | .or fs => Json.mkObj [("$or", .arr (fs.map filterToJson).toArray)]
  | .not f => Json.mkObj [("$not", filterToJson f)]
  | .leaf op k v => Json.mkObj [(op.toString, Json.mkObj [(k, jsonOfVal v)])]

def segStr (s : Seg) : String := String.ofList s
def strSegs (s : String) : List Seg := segments s.toList

end Ledger.Driver.Q
