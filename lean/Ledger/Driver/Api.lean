import Ledger.Driver.Core
import Ledger.Driver.ApiVars
import Ledger.Driver.ApiHttp
import Ledger.Driver.ApiTxBody
import Ledger.Driver.ApiCursor
import Ledger.Driver.ApiInterp

/-! Handler table of `ldriver_api` (Api area: C38, C36, C26). -/
namespace Ledger.Driver.Api
open Ledger.Driver

def handlers : List (String × Handler) := [
  ("vars", handleVars),
  ("vars36", handleVars36),
  ("http", handleHttp),
  ("txbody", handleTxbody),
  ("txbody36", handleTxbody36),
  ("txbody14", handleTxbody14),
  ("cursor", handleCursor),
  ("interp", handleInterp),
  ("interp36", handleInterp36)
]

end Ledger.Driver.Api
