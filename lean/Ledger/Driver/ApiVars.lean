import Ledger.Driver.ApiCommon

/-! Handlers "vars" (C38 predicate) and "vars36" (C36 predicate): script variables
through the v1 / v2 request decoders down to the machine's typed values. -/
namespace Ledger.Driver.Api
open Lean Ledger.Api Ledger.Driver

def varTypeOfString : String → Except String VarType
  | "account" => pure .account
  | "asset" => pure .asset
  | "number" => pure .number
  | "string" => pure .string
  | "monetary" => pure .monetary
  | "portion" => pure .portion
  | s => throw s!"unknown variable type {s}"

def tvalJson : TVal → Json
  | .account a => Json.mkObj [("t", "account"), ("v", a)]
  | .asset a => Json.mkObj [("t", "asset"), ("v", a)]
  | .number none => Json.mkObj [("t", "number"), ("v", "nil")]
  | .number (some n) => Json.mkObj [("t", "number"), ("v", showIntS n)]
  | .string s => Json.mkObj [("t", "string"), ("v", s)]
  | .monetary a n => Json.mkObj [("t", "monetary"), ("v", a ++ " " ++ showIntS n)]
  | .portion r => Json.mkObj [("t", "portion"), ("v", showIntS r.num ++ "/" ++ String.ofList (showNat r.den))]

structure VarsModel where
  stage : String
  /-- other stage the real code may legitimately reach (Go map iteration order) -/
  altStage : Option String := none
  vars : Option VarMap := none
  typed : Option (List (String × TVal)) := none

/-- v1 only: some variable faults *and* some variable is a client error. -/
def v1Mixed (kvs : List (String × JVal)) : Bool :=
  (kvs.any fun kv => (varV1 kv.2).isFault) &&
  (kvs.any fun kv => match varV1 kv.2 with | .clientError _ => true | _ => false)

def runVarsModel (api : String) (decl : List (String × VarType)) (vars : Option JVal) : VarsModel :=
  let decoded := if api = "v1" then decodeVarsV1 vars else decodeVarsV2 vars
  let bodyLevel : Bool := match vars with
    | none | some .null | some (.obj _) => false
    | _ => true
  match decoded with
  | .fault _ =>
    let mixed := match vars with | some (.obj kvs) => v1Mixed (mapOfList kvs) | _ => false
    { stage := "panic", altStage := if mixed then some "tocore" else none }
  | .clientError _ =>
    -- a `vars` member of the wrong JSON type (or a float64 overflow, v2) fails the body decode
    if bodyLevel || api ≠ "v1" then { stage := "decode" } else { stage := "tocore" }
  | .ok m =>
    match setVars decl m with
    | .error _ => { stage := "invalidvars", vars := some m }
    | .ok typed => { stage := "ok", vars := some m, typed := some typed }

/-- Exact value the client wrote for a monetary / number variable, when the input
    has one of the documented numeric shapes. -/
def intendedAmount (ty : VarType) (v : JVal) : Option Rat :=
  let ofNum (n : JNum) : Rat := if n.neg then -n.absRat else n.absRat
  let ofStr (s : String) : Option Rat := (parseBigInt s.toList).map fun i => (i : Rat)
  match ty, v with
  | .monetary, .obj kvs =>
    match (mapOfList kvs).lookup "amount" with
    | some (.num n) => some (ofNum n)
    | some (.str s) => ofStr s
    | _ => none
  | .number, .num n => some (ofNum n)
  | .number, .str s => ofStr s
  | _, _ => none

/-- Amount found in the real typed output (`"ASSET amount"` or `"amount"`). -/
def typedAmount (o : Json) : Option Int :=
  let v := optStrField o "v"
  let last := (v.splitOn " ").getLast?
  last.bind fun s => s.toInt?

def handleVarsWith (c36 : Bool) : Handler := fun inp out => do
  let api ← strField inp "api"
  let decl ← (← arrField inp "decl").mapM fun d => do
    pure (← strField d "name", ← varTypeOfString (← strField d "type"))
  let vars ← optJvalField inp "vars"
  let m := runVarsModel api decl vars
  -- numbers are json.Number (literal text) since ba56562: nothing is formatted through float64
  let exact := true
  -- implementation
  let gStage ← strField out "stage"
  let nonNull (k : String) : Option Json := match out.getObjVal? k with
    | .ok .null => none
    | .ok v => some v
    | .error _ => none
  let gVars := nonNull "vars"
  let gTyped := nonNull "typed"
  let modelJson := Json.mkObj [
    ("stage", m.stage),
    ("vars", match m.vars with | some v => jsonOfStrMap v | none => Json.null),
    ("typed", match m.typed with
      | some t => Json.mkObj (t.map fun (k, v) => (k, tvalJson v))
      | none => Json.null)]
  let stageOk := gStage = m.stage || m.altStage = some gStage
  let varsOk : Bool := match m.vars, gVars with
    | some mv, some gv =>
      (match strMapOfJson gv with
       | .ok g => sortMap g = sortMap mv
       | .error _ => false)
    | none, none => true
    | none, some (.obj kvs) => kvs.toList.isEmpty
    | _, _ => false
  let typedOk : Bool := match m.typed, gTyped with
    | some mt, some gt => Json.mkObj (mt.map fun (k, v) => (k, tvalJson v)) == gt
    | none, none => true
    | _, _ => false
  -- floats with more than 15 significant digits: only the early stages are compared
  let agree :=
    if exact then stageOk && (gStage ≠ m.stage || (varsOk && typedOk))
    else if m.stage = "decode" || m.stage = "panic" || m.stage = "tocore" then stageOk
    else gStage = "ok" || gStage = "invalidvars"
  -- predicates on the implementation's output
  let prop38 := gStage ≠ "panic" && gStage ≠ "othererr" && gStage ≠ "compile"
  let varsKvs : List (String × JVal) := match vars with | some (.obj kvs) => mapOfList kvs | _ => []
  let lossy : List String := decl.filterMap fun (name, ty) =>
    match varsKvs.lookup name with
    | none => none
    | some v =>
      match intendedAmount ty v, gTyped.bind (·.getObjVal? name |>.toOption) with
      | some want, some got =>
        (match typedAmount got with
         | some have_ => if (have_ : Rat) = want then none else some name
         | none => if optStrField got "v" = "nil" then some name else none)
      | _, _ => none
  let prop36 := gStage ≠ "ok" || lossy.isEmpty
  let prop := if c36 then prop36 else prop38
  let sig :=
    if c36 then (if prop36 then "" else s!"C36:{api}-numeric-amount-float64")
    else if prop38 then "" else s!"C38:{api}-vars-{gStage}"
  let hasBig := decl.any fun (name, ty) =>
    match varsKvs.lookup name with
    | some v => (match intendedAmount ty v with
        | some q => q.den = 1 && q.num.natAbs > two53
        | none => false)
    | none => false
  pure { model := modelJson, agree, prop,
         propModel := if c36 then true else m.stage ≠ "panic",
         nontrivial := if c36 then hasBig else (m.stage ≠ "ok"),
         tags := [api ++ ":" ++ gStage] ++ (if exact then [] else ["float>15digits"]) ++
                 (if hasBig then ["amount>2^53"] else []),
         note := if prop then "" else
           (if c36 then "amount changed between the request and the machine value: " ++ ", ".intercalate lossy
            else "client input answered with a panic / non-client error"),
         sig }

def handleVars : Handler := handleVarsWith false
def handleVars36 : Handler := handleVarsWith true

end Ledger.Driver.Api
