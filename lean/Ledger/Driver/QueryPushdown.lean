import Ledger.Driver.QueryCommon
import Ledger.Query.Pushdown
import Ledger.Query.Date

/-! Handler "pushdown": real `validateFilters` / `collectAddressFilters` /
    `canPushAddressFilterToLateral` / `BuildDataset` vs. `Ledger/Query/Pushdown.lean`,
    plus the brute-force soundness check of the pushdown on random rows. -/
namespace Ledger.Driver.Q
open Lean Ledger.Query Ledger.Driver

def objPairs (j : Json) : List (String × Json) :=
  match j with
  | .obj kvs => kvs.toList
  | _ => []

def parseEntity (r : Json) : Except String Entity := do
  let address ← strField r "address"
  let md := (objPairs ((optField r "metadata").getD .null)).filterMap fun (k, v) =>
    match v with | .str s => some (k, s) | _ => none
  let bal ← (objPairs ((optField r "balances").getD .null)).mapM fun (k, v) => do
    match v with
    | .str s => pure (k, ← parseInt s)
    | _ => throw "balance"
  let fu := optStrField r "firstUsage"
  let dates := match parseRFC3339 fu with | some t => [("first_usage", t)] | none => []
  pure { address := strSegs address, metadata := md, balances := bal, dates }

/-- The sub-query `join lateral (…) accounts on true` exists. -/
def hasLateral (d : Dataset) (validated : List (String × Val)) : Bool :=
  let need := (collectAddressFilters validated).2
  match d with
  | .volumes => useFilter validated "metadata" || useFilter validated "first_usage" || need
  | .volumesPit => need || useFilter validated "first_usage"
  | .aggregatedPit => need
  | .aggregated => useFilter validated "metadata" || need


def handlePushdown : Handler := fun inp out => do
  let resource ← strField inp "resource"
  let pit ← boolField inp "pit"
  let text ← strField inp "filter"
  let rows ← (← arrField inp "rows").mapM parseEntity
  let schema ← match resource with
    | "volumes" => pure volumeSchema
    | "aggregated" => pure aggregatedSchema
    | _ => throw "resource"
  let ds : Dataset := match resource, pit with
    | "volumes", false => .volumes | "volumes", true => .volumesPit
    | _, false => .aggregated | _, true => .aggregatedPit
  -- model
  let parsed : Except String (Option Filter) :=
    if text.isEmpty then .ok none else
    match Json.parse text with
    | .error _ => .error "parse"
    | .ok j => parseBuilder j
  let gParseErr := optStrField out "parseErr"
  let gPanic := optStrField out "panic"
  match parsed with
  | .error _ =>
    pure { model := Json.mkObj [("parseErr", "parse")], agree := gParseErr == "parse" && gPanic == "",
           nontrivial := false, tags := ["parse-error"] }
  | .ok bf =>
    let leaves := match bf with | some f => f.leaves | none => []
    let can := canPush bf
    let v := validateLeaves parseRFC3339 schema leaves
    let gValidErr := optStrField out "validErr"
    let gCan := (optField out "canPush") == some (Json.bool true)
    match v with
    | .error e =>
      pure { model := Json.mkObj [("validErr", e.toString), ("canPush", can)],
             agree := gParseErr == "" && gPanic == "" && gValidErr == e.toString && gCan == can,
             nontrivial := false, tags := ["invalid:" ++ e.toString] }
    | .ok validated =>
      let (as, need) := collectAddressFilters validated
      let use := ["address", "metadata", "first_usage", "balance"].map fun n => (n, useFilter validated n)
      let applied := pushdownApplied ds validated can
      let lat := hasLateral ds validated
      let latText := renderLateral as
      let model := Json.mkObj [("addresses", jStrs as), ("need", need), ("canPush", can),
        ("use", Json.mkObj (use.map fun (k, b) => (k, Json.bool b))), ("hasLateral", lat),
        ("pushed", applied), ("lateralText", latText)]
      -- implementation
      let gAddrs ← strArrField out "addresses"
      let gNeed := (optField out "need") == some (Json.bool true)
      let gUse := (optField out "use").getD .null
      let gLat := (optField out "hasLateral") == some (Json.bool true)
      let gPushed := (optField out "pushed") == some (Json.bool true)
      let gText := optStrField out "lateralText"
      let gSqlErr := optStrField out "sqlErr"
      let useAgree := use.all fun (k, b) => optField gUse k == some (Json.bool b)
      let reAgree := match bf, optField out "reencoded" with
        | some f, some j => j == filterToJson f
        | none, none => true
        | none, some j => j.isNull
        | _, _ => false
      let existsOnBalance := resource == "volumes" && (leaves.zip validated).any fun (l, v) =>
        l.1 == Op.exists_ && v.1 == "balance"
      -- a key such as `metadata[` passes `validateFilters` (compared up to `[`) but the
      -- resource's own `ResolveFilter` (SQL rendering, not modelled here) refuses it:
      -- no statement is rendered, so there is nothing to compare on the SQL side
      let resolveRefused := gSqlErr.startsWith "building filtered dataset: unsupported filter" ||
        gSqlErr.startsWith "building filtered dataset: unknown key" ||
        gSqlErr.startsWith "unsupported filter" || gSqlErr.startsWith "unknown key" ||
        -- `$exists` on `balance` passes validation (map type) and is refused by the
        -- volumes `ResolveFilter` with an invalid-query error (fix 6249c09)
        (existsOnBalance && gSqlErr.startsWith "building filtered dataset: operator '$exists' is not allowed")
      let agree := gParseErr == "" && gPanic == "" && gValidErr == "" &&
        gAddrs == as && gNeed == need && gCan == can && useAgree && gText == latText && reAgree &&
        (if resolveRefused then true else gSqlErr == "" && gLat == lat && gPushed == applied)
      -- property on the implementation's outputs: a row the filter selects must
      -- survive the lateral join whenever the real code pushed the address filter
      let f := bf.getD (.and [])
      -- besides the random rows: one witness account per address mentioned by the filter
      -- (`$in` members as they are; patterns instantiated: empty segment ↦ "w", final
      -- `...` dropped), so that every address leaf selects something
      let witness (s : String) : Entity :=
        let segs := strSegs s
        let segs := if segs.getLast? == some dots then segs.dropLast else segs
        { address := segs.map fun g => if g.isEmpty then ['w'] else g }
      let rows := rows ++ ((addrs f).eraseDups.map witness).filter (fun e => !e.address.isEmpty)
      let selected := rows.filter fun e => Filter.eval (leafSem parseRFC3339 e) f
      let dropped := selected.filter fun e => gPushed && !lateralKeeps gAddrs e.address
      let prop := gPanic == "" && dropped.isEmpty
      let droppedModel := selected.filter fun e => applied && !lateralKeeps as e.address
      let hasIn := !noAddrIn f
      let sig := ""
      let kept := rows.filter fun e => !gPushed || lateralKeeps gAddrs e.address
      pure { model, agree, prop, propModel := droppedModel.isEmpty,
             nontrivial := gPushed && !selected.isEmpty && kept.length < rows.length,
             tags := [resource ++ (if pit then "-pit" else ""),
                      if applied then "pushed" else if lat then "lateral-unpushed" else "no-lateral",
                      if can then "canPush" else "cannotPush",
                      if hasIn then "addr-$in" else "no-addr-$in",
                      if resolveRefused then "resolve-refused" else "rendered",
                      s!"depth{min f.depth 6}"],
             note := if prop then "" else
               s!"lateral join drops a selected row: address {String.intercalate ":" ((dropped.head?.map (·.address)).getD [] |>.map segStr)}",
             sig }

end Ledger.Driver.Q
