import Ledger.Driver.Ctrl

/-!
Handlers of the END-TO-END leg (`ldriver_e2e`): the REAL SQL store
(internal/storage/ledger + driver + system) under the real controller stack, on
pgfake → LeanPG — the MODELLED PostgreSQL (there is no real Postgres in this
sandbox).

* `ctrlhist`, `ctrlfault`, `ctrlimport`: builder-ctrl's handlers, reused unchanged
  (the harness `vre2e` emits its case shapes; responses, store-call traces,
  sequences and snapshots must equal `Ledger.Ctrl`'s, the snapshots now coming
  from LeanPG's dump of the bucket tables).
* `sqlfault`: C07 at SQL-statement granularity (this file).
* `features`, `multiledger`: `Ledger/Driver/E2eMulti.lean`.
-/
namespace Ledger.Driver.E2e
open Lean Ledger.Base Ledger.Core Ledger.Ctrl Ledger.Driver Ledger.Driver.Ctrl

/-- One comparison of the controller model with a real run (`OpOut` shape) from a state. -/
def compareRun (strict : Bool) (opIn real : Json) (f : Faults) (cf : Bool) (st : State) (realBefore : Tables)
    (opNo : Nat) (label : String) : Except String (Option Mismatch) := do
  let op ← opOfJson opIn real
  let o := forgeLog strict op f cf st
  let resp ← field real "resp"
  let delta ← field real "delta"
  let real' ← applyDelta realBefore delta
  let realTrace ← strArrField real "trace"
  let seqJ ← arrField real "seq"
  let mResp := jResp o.resp
  let rResp := realResp resp
  let mk (fld : String) (m r : Json) : Option Mismatch :=
    some { op := opNo, field := label ++ ":" ++ fld, model := m, real := r }
  if mResp != rResp then return mk "resp" mResp rResp
  if o.trace != realTrace then return mk "trace" (jStrs o.trace) (jStrs realTrace)
  let mSeq := Json.arr #[jNat o.state.seq.tx, jNat o.state.seq.log]
  if mSeq != Json.arr seqJ.toArray then return mk "seq" mSeq (Json.arr seqJ.toArray)
  let mTabs := tablesOfDb o.state.db
  let d := mTabs.diff real'
  if d ≠ "" then return mk ("snapshot." ++ d) mTabs.toJson real'.toJson
  return none

/-- C07's handle discipline on the SQL statements of one operation: every statement
    that writes, locks or draws from a sequence runs inside a transaction block. -/
def stmtsOnBareConn (stmts : List Json) : List String :=
  stmts.filterMap fun s =>
    if optStrField s "h" = "conn" && boolFieldD s "mut" then
      some s!"{optStrField s "k"} of {optStrField s "call"} ran on a bare connection"
    else none

/-- The store calls whose failure by deadlock the controller answers by a retry
    (everything inside `runLog`: not BeginTX / the idempotency-key read / Commit / Rollback). -/
def retriedCall (call kind : String) : Bool :=
  kind ≠ "begin" && kind ≠ "commit" && kind ≠ "rollback" &&
  call ≠ "ReadLogWithIdempotencyKey" && call ≠ "BeginTX" && call ≠ "Commit" && call ≠ "Rollback" && call ≠ "" &&
  -- resource reads (the machine's meta() lookup) return the driver error unresolved: a deadlock there is not
  -- recognised, hence not retried (recorded deviation; a plain SELECT cannot deadlock)
  !(call.startsWith "Accounts." || call.startsWith "Transactions." || call.startsWith "Logs.")

def handleSqlFault : Handler := fun inp out => do
  let strict := boolFieldD inp "strict"
  let want := optStrField inp "prop"
  let pre ← arrField inp "prefix"
  let preOut ← arrField out "prefix"
  if pre.length ≠ preOut.length then throw "prefix / outputs length mismatch"
  let fs ← (pre.zip preOut).foldlM (fun fs (i, o) => stepHist strict fs i o) ({} : FoldSt)
  let opIn ← field inp "op"
  let base ← field out "base"
  let runs ← arrField out "runs"
  let dry := boolFieldD opIn "dry"
  let mut mismatch := fs.mismatch
  let mut fails : List String := []
  let mut tags : List String := ["op:" ++ opTag opIn ++ (if dry then "/dry" else "")]
  if mismatch.isNone then mismatch ← compareRun strict opIn base [] false fs.state fs.real pre.length "base"
  let baseResp ← field base "resp"
  let baseErr := if optStrField baseResp "panic" ≠ "" then "panic" else optStrField baseResp "err"
  let baseHit := boolFieldD baseResp "hit"
  let baseStmts ← arrField out "baseStmts"
  let baseEvents ← arrField out "baseEvents"
  -- (an empty volumes table may travel as `null` or `[]`)
  let normVols (j : Json) : Json := match j with | .null => Json.arr #[] | x => x
  let baseVols := normVols ((out.getObjVal? "baseVols").toOption.getD Json.null)
  tags := tags ++ ["base:" ++ (if baseErr = "" then (if baseHit then "hit" else "ok") else baseErr), s!"stmts:{baseStmts.length}"]
  -- the fault-free run itself
  for w in stmtsOnBareConn baseStmts do fails := fails ++ [s!"base: handle discipline: {w}"]
  if (← natField out "baseOpenTx") ≠ 0 then fails := fails ++ ["base: a transaction was left open"]
  let baseEffective := baseErr = "" && !dry && !baseHit
  if baseEffective && baseEvents.length ≠ 1 then fails := fails ++ [s!"base: committed write published {baseEvents.length} events"]
  if !baseEffective && !baseEvents.isEmpty then fails := fails ++ ["base: failed / dry-run / idempotent write published an event"]
  let mut fired := 0
  for r in runs do
    let fj ← field r "fault"
    let fk ← strField fj "kind"
    let at_ ← natField fj "at"
    let real ← field r "out"
    let label := s!"fault {fj.compress}"
    let resp ← field real "resp"
    let rErr := if optStrField resp "panic" ≠ "" then "panic" else optStrField resp "err"
    let rHit := boolFieldD resp "hit"
    let delta ← field real "delta"
    let didFire := boolFieldD r "fired"
    if didFire then fired := fired + 1
    let hitK := optStrField r "hitK"
    let hitCall := optStrField r "hitCall"
    let changed ← arrField r "changed"
    let sameDump := optStrField r "dumpBefore" = optStrField r "dumpAfter" && changed.isEmpty
    let events ← arrField r "events"
    let stmts ← arrField r "stmts"
    let failed := rErr ≠ ""
    -- C07: no trace of a failed / dry-run / idempotent write — in ANY bucket table (sequences excepted)
    if (failed || dry || rHit) && !(sameDump && deltaEmpty delta) then
      fails := fails ++ [s!"{label}: failed / dry-run / idempotent write changed the tables {Json.arr changed.toArray |>.compress}"]
    if (failed || dry || rHit) && !events.isEmpty then
      fails := fails ++ [s!"{label}: failed / dry-run / idempotent write published {events.length} event(s)"]
    -- a statement failure that is not retried is an error of the write (unless it hit the final ROLLBACK)
    if didFire && (fk = "error" || fk = "serialization" || fk = "cancel" || fk = "conn") && hitK ≠ "rollback" && !failed then
      fails := fails ++ [s!"{label}: statement failure on {hitK} of {hitCall} swallowed (the write answered success)"]
    -- a deadlock inside the operation is retried: same answer as the fault-free run, effect exactly once
    if didFire && fk = "deadlock" && retriedCall hitCall hitK then
      if rErr ≠ baseErr then fails := fails ++ [s!"{label}: deadlock on {hitCall} not retried (answer {rErr}, fault-free answer {baseErr})"]
    if !failed && !dry && !rHit then
      if events.length ≠ 1 then fails := fails ++ [s!"{label}: committed write published {events.length} events"]
      let newLogs ← arrField delta "logs"
      if newLogs.length ≠ 1 then fails := fails ++ [s!"{label}: committed write added {newLogs.length} logs"]
      if baseEffective && normVols ((r.getObjVal? "vols").toOption.getD Json.null) != baseVols then
        fails := fails ++ [s!"{label}: volumes after the retried write differ from the fault-free run's"]
    -- handle discipline, transactions closed
    for w in stmtsOnBareConn stmts do fails := fails ++ [s!"{label}: handle discipline: {w}"]
    if (← natField r "openTx") ≠ 0 then fails := fails ++ [s!"{label}: a transaction was left open"]
    let disc := traceDiscipline (← strArrField real "trace")
    if disc ≠ "" then fails := fails ++ [s!"{label}: handle discipline: {disc}"]
    -- the controller model with the fault at the store call the statement belongs to
    let ci ← natField r "hitCallIdx"
    if mismatch.isNone then
      if !didFire then mismatch ← compareRun strict opIn real [] false fs.state fs.real pre.length label
      else if ci > 0 && fk = "error" then
        mismatch ← compareRun strict opIn real [{ at_ := ci, kind := .error }] false fs.state fs.real pre.length label
      else if ci > 0 && fk = "deadlock" && !(hitCall.startsWith "Accounts." || hitCall.startsWith "Transactions." || hitCall.startsWith "Logs.") then
        mismatch ← compareRun strict opIn real [{ at_ := ci, kind := .deadlock }] false fs.state fs.real pre.length label
      else if fk = "conn" && hitK = "commit" then
        mismatch ← compareRun strict opIn real [] true fs.state fs.real pre.length label
    let _ := at_
    tags := tags ++ [s!"{fk}@{if !didFire then "-" else if hitK = "begin" || hitK = "commit" || hitK = "rollback" then hitK else hitCall}:" ++
      (if !didFire then "not-reached" else if rErr = "" then (if rHit then "hit" else "ok") else rErr)]
  let sel (p : String) : Bool := want = "" || p = want
  let selFails := if sel "C07" then fails else []
  pure { model := match mismatch with | some m => m.toJson | none => Json.null,
         agree := mismatch.isNone, prop := selFails.isEmpty, propModel := true,
         nontrivial := fired ≥ 3 && baseErr = "",
         tags := dedup tags, note := "; ".intercalate (selFails.take 5) }

end Ledger.Driver.E2e
