import Ledger.Driver.Core
import Ledger.Base.Regex
import Ledger.Chart.Model
import Ledger.Chart.Enforce
import Ledger.Chart.Posting
import Ledger.Chart.SchemaJson
import Ledger.Generated.Grammar

/-!
Handlers of the chart / schema area (`ldriver_chart`):

* `chartrt`    – UnmarshalJSON / MarshalJSON / FindAccountSchema / ValidatePosting (C30, C29)
* `enforce`    – schema enforcement decisions of the controller (C29)
* `patterns`   – account / asset / chart-segment patterns, lexer rules, chart patterns (C28)
* `scriptlit`  – scripts with literal asset / account at the lexer edge, end to end (C28)
* `postingval` – `Postings.Validate` (C28)
* `schemadb`   – InsertSchema / GetSchema / ListSchemas through the real SQL store on LeanPG (C30, DB leg)
* `importlog`  – crafted export stream through the real Import over the SQL store on LeanPG (C28)
* `scriptvar`  – script variables, meta()-sourced accounts, templates, postings form, end to end (C28)
* `schemart`   – SchemaData (chart + templates + query templates) JSON round trip (C30)
-/
namespace Ledger.Driver
open Lean Ledger.Chart Ledger.Regex

/-! ### regex-lite as the model's `regexp` -/

def liteOps : RegexOps where
  compiles p := match parse p with | .ok _ => true | .error _ => false
  isMatch p seg := match parse p with | .ok r => search r seg | .error _ => false

/-! ### JSON ⇄ model -/

partial def toTree : Json → JTree
  | .null => .null
  | .bool b => .bool b
  | .num n => .num n.toString
  | .str s => .str s
  | .arr xs => .arr (xs.toList.map toTree)
  | .obj kvs => .obj ((kvs.foldl (fun acc k v => (k.toList, toTree v) :: acc) []).reverse)

partial def ofTree : JTree → Json
  | .null => .null
  | .bool b => .bool b
  | .num t => match Json.parse t with | .ok j => j | .error _ => .str t
  | .str s => .str s
  | .arr xs => .arr (xs.map ofTree).toArray
  | .obj kvs => Json.mkObj (kvs.map fun (k, v) => (String.ofList k, ofTree v))

/-- every `.pattern` string of a document (any depth) -/
partial def patternsOf : JTree → List String
  | .obj kvs => kvs.foldr (fun (k, v) acc =>
      (if k = keyPattern then (match v with | .str p => [p] | _ => []) else []) ++ patternsOf v ++ acc) []
  | .arr xs => xs.foldr (fun v acc => patternsOf v ++ acc) []
  | _ => []

def unsupportedPattern (p : String) : Bool :=
  match parse p with
  | .error (.unsupported _) => true
  | _ => false

def dumpMeta : Option (List (Key × Option String)) → Json
  | none => .null
  | some m => Json.mkObj (m.map fun (k, d) => (String.ofList k, match d with | none => Json.null | some v => Json.str v))

def dumpAccount : Option AccountSchema → Json
  | none => .null
  | some a => Json.mkObj [("metadata", dumpMeta a.metadata)]

partial def dumpSeg : Segment → Json
  | .mk fixed var acct =>
    Json.mkObj [
      ("fixed", Json.mkObj (fixed.map fun (k, s) => (String.ofList k, dumpSeg s))),
      ("var", match var with
        | none => Json.null
        | some (.mk label pat s) => Json.mkObj [
            ("label", Json.str (String.ofList label)),
            ("pattern", match pat with | none => Json.null | some p => Json.str p),
            ("seg", dumpSeg s)]),
      ("account", dumpAccount acct)]

def dumpChart (c : Chart) : Json := Json.mkObj (c.map fun (k, s) => (String.ofList k, dumpSeg s))

def errName : Err → String
  | .notObject => "notObject" | .invalidSegmentName => "invalidSegmentName"
  | .rootVariable => "rootVariable" | .rootProperty => "rootProperty"
  | .patternOnFixed => "patternOnFixed" | .patternNotString => "patternNotString"
  | .invalidPattern => "invalidPattern" | .twoVariable => "twoVariable"
  | .selfNotEmpty => "selfNotEmpty" | .invalidMetadata => "invalidMetadata"
  | .invalidRules => "invalidRules" | .metadataOnNonAccount => "metadataOnNonAccount"
  | .rulesOnNonAccount => "rulesOnNonAccount"

/-- `ErrInvalidAccount.Error()` -/
def findErrMsg (e : FindErr) : String :=
  let seg := String.ofList e.segment
  let path := ":".intercalate (e.path.map String.ofList)
  if e.path.isEmpty then
    if e.hasSubsegments then s!"account starting with `{seg}` is not defined in the chart of accounts"
    else s!"account `{seg}` is not defined in the chart of accounts"
  else if e.patternMismatch then
    s!"segment `{seg}` defined by the chart of accounts at `{path}` does not match the pattern"
  else s!"segment `{seg}` is not allowed by the chart of accounts at `{path}`"

def dumpDefaults (d : List (Key × String)) : Json :=
  Json.mkObj (d.map fun (k, v) => (String.ofList k, Json.str v))

def classifyJson (c : Chart) (addr : String) : Json :=
  let (h, t) := splitColon addr.toList
  match findAccountSchema liteOps c h t with
  | .ok a => Json.mkObj [("ok", true), ("meta", dumpMeta a.metadata), ("defaults", dumpDefaults a.defaults), ("err", "")]
  | .error e => Json.mkObj [("ok", false), ("meta", Json.null), ("defaults", Json.mkObj []), ("err", findErrMsg e)]

def jsonEq (a b : Json) : Bool := a.compress == b.compress

def getD (j : Json) (k : String) (d : Json) : Json :=
  match j.getObjVal? k with | .ok v => v | .error _ => d

/-! ### chartrt -/

def handleChartRt : Handler := fun inp out => do
  let doc ← strField inp "doc"
  let addrs ← strArrField inp "addrs"
  let strictKind := match inp.getObjVal? "strictKind" with | .ok (.bool b) => b | _ => false
  let postings : List (String × String) ← (← arrField inp "postings").mapM fun p => do
    match p with
    | .arr #[.str a, .str b] => pure (a, b)
    | _ => throw "bad posting"
  let docJ ← match Json.parse doc with
    | .ok j => pure j
    | .error e => throw s!"chart document does not parse: {e}"
  let tree := toTree docJ
  if (patternsOf tree).any unsupportedPattern then
    return { model := Json.null, agree := true, nontrivial := false, tags := ["skipped:pattern-outside-subset"] }
  let gErr := optStrField out "err"
  let gPanic := optStrField out "panic"
  match unmarshal liteOps tree with
  | .error e =>
    let model := Json.mkObj [("err", errName e)]
    let agree := gPanic = "" && gErr ≠ "" && (!strictKind || gErr = errName e)
    pure { model, agree, nontrivial := false, tags := ["reject:" ++ errName e] }
  | .ok c =>
    let remarshal := ofTree (marshal c)
    let cls := addrs.map (classifyJson c)
    let pv := postings.map fun (s, d) =>
      match validatePosting liteOps c s.toList d.toList with
      | .ok _ => "" | .error e => findErrMsg e
    -- the model's own round trip
    let (rtOk, cls2) := match unmarshal liteOps (marshal c) with
      | .ok c' => (jsonEq (dumpChart c') (dumpChart c), addrs.map (classifyJson c'))
      | .error _ => (false, [])
    let model := Json.mkObj [("err", ""), ("chart", dumpChart c), ("remarshal", remarshal),
      ("classify", Json.arr cls.toArray), ("postings", jStrs pv)]
    let gCls ← arrField out "classify"
    let gCls2 ← arrField out "classify2"
    let gPv ← strArrField out "postings"
    let agree := gPanic = "" && gErr = "" &&
      jsonEq (getD out "chart" .null) (dumpChart c) &&
      jsonEq (getD out "remarshal" .null) remarshal &&
      jsonEq (Json.arr gCls.toArray) (Json.arr cls.toArray) &&
      gPv = pv
    -- C30 on the implementation's own outputs
    let rtSame := match out.getObjVal? "rtSame" with | .ok (.bool b) => b | _ => false
    let rtMs := match out.getObjVal? "rtMarshalSame" with | .ok (.bool b) => b | _ => false
    let prop := gPanic = "" && optStrField out "rtErr" = "" && rtSame && rtMs &&
      jsonEq (Json.arr gCls.toArray) (Json.arr gCls2.toArray)
    let propModel := rtOk && jsonEq (Json.arr cls2.toArray) (Json.arr cls.toArray)
    let accepted := cls.filter fun j => match j.getObjVal? "ok" with | .ok (.bool true) => true | _ => false
    let hasVar := (doc.splitOn "\"$").length > 1
    let hasPat := (doc.splitOn ".pattern").length > 1
    let hasMeta := (doc.splitOn ".metadata").length > 1
    let hasSelf := (doc.splitOn ".self").length > 1
    let tags := ["accept"] ++ (if hasVar then ["var"] else []) ++ (if hasPat then ["pattern"] else [])
      ++ (if hasMeta then ["metadata"] else []) ++ (if hasSelf then ["self"] else [])
      ++ (if accepted.isEmpty then [] else ["addr-accepted"])
      ++ (if accepted.length < cls.length then ["addr-rejected"] else [])
      ++ (if cls.any (fun j => ((optStrField j "err").splitOn "does not match the pattern").length > 1) then ["addr-pattern-mismatch"] else [])
    pure { model, agree, prop, propModel, nontrivial := !c.isEmpty && (hasVar || hasMeta || hasSelf), tags,
           note := if prop then "" else "C30: real round trip changes the chart or its classification",
           sig := if prop then "" else "C30:roundtrip" }

/-! ### enforce -/

def metaOfJson (j : Json) : Meta :=
  match j with
  | .obj kvs => (kvs.foldl (fun acc k v => (k.toList, (match v with | .str s => s | _ => "")) :: acc) []).reverse
  | _ => []

def metaJson (m : Meta) : Json := Json.mkObj (m.map fun (k, v) => (String.ofList k, Json.str v))

def postingOfJson (j : Json) : Except String Posting :=
  match j with
  | .arr #[.str s, .str d, .str a, .str n] => do
    let v ← parseInt n
    pure { source := s.toList, destination := d.toList, asset := a, amount := v.toNat }
  | _ => throw "bad posting"

def postingJson (p : Posting) : Json :=
  Json.arr #[.str (String.ofList p.source), .str (String.ofList p.destination), .str p.asset, .str (toString p.amount)]

def rejectName : Reject → String × String
  | .schemaNotFound => ("schema-not-found", "")
  | .schemaNotSpecified => ("schema-not-specified", "")
  | .templateRequired => ("template-required", "")
  | .templateNotFound => ("template-not-found", "")
  | .noTemplateDefinitions => ("no-template-definitions", "")
  | .compile => ("compile", "")
  | .chart e => ("chart", findErrMsg e)

def accountsJson (accts : List (List Char × Meta)) : Json :=
  Json.mkObj (accts.map fun (a, m) => (String.ofList a, metaJson m))

def upsertJson (u : Upsert) : Json :=
  Json.mkObj [("address", Json.str (String.ofList u.address)), ("explicit", metaJson u.explicit),
    ("defaults", metaJson u.defaults)]

structure OpResult where
  json : Json
  err : String
  accepted : Bool

def opJson (st : State) (d : Decision) : OpResult :=
  match d with
  | .reject r =>
    let (k, msg) := rejectName r
    ⟨Json.mkObj [("err", k), ("errMsg", msg), ("postings", Json.arr #[]), ("upserts", Json.arr #[]),
      ("txs", st.txCount), ("accounts", accountsJson st.accounts)], k, false⟩
  | .accept ps ups _ =>
    ⟨Json.mkObj [("err", ""), ("errMsg", ""), ("postings", Json.arr (ps.map postingJson).toArray),
      ("upserts", Json.arr (ups.map upsertJson).toArray),
      ("txs", st.txCount), ("accounts", accountsJson st.accounts)], "", true⟩

def pick (j : Json) (keys : List String) : Json :=
  Json.mkObj (keys.map fun k => (k, getD j k .null))

def handleEnforce : Handler := fun inp out => do
  let mode ← match (← strField inp "mode") with
    | "strict" => pure Mode.strict
    | "audit" => pure Mode.audit
    | m => throw s!"bad mode {m}"
  -- schemas
  let mut st : State := { schemas := [], accounts := [], txCount := 0 }
  let mut schemaErrs : List String := []
  for sj in (← arrField inp "schemas") do
    let version ← strField sj "version"
    let doc ← strField sj "chart"
    let tree := toTree (← Json.parse doc)
    if (patternsOf tree).any unsupportedPattern then
      return { model := Json.null, agree := true, nontrivial := false, tags := ["skipped:pattern-outside-subset"] }
    let templates : List (String × List Posting) ← match sj.getObjVal? "templates" with
      | .ok (.obj kvs) => (kvs.foldl (fun acc k v => (k, v) :: acc) []).reverse.mapM fun (k, v) => do
          let ps ← match v with
            | .arr xs => xs.toList.mapM postingOfJson
            | _ => throw "bad template"
          pure (k, ps)
      | _ => pure []
    match unmarshal liteOps tree with
    | .error _ => schemaErrs := schemaErrs ++ ["chart"]
    | .ok chart =>
      if templates.any (fun t => t.2.isEmpty) then schemaErrs := schemaErrs ++ ["invalid-schema"]
      else if (findSchema st.schemas version).isSome then schemaErrs := schemaErrs ++ ["already-exists"]
      else
        st := { st with schemas := st.schemas ++ [{ version, chart, templates }] }
        schemaErrs := schemaErrs ++ [""]
  -- pre-existing accounts
  match inp.getObjVal? "pre" with
  | .ok (.obj kvs) =>
    st := { st with accounts := (kvs.foldl (fun acc k v => (k.toList, metaOfJson v) :: acc) []).reverse }
  | _ => pure ()
  -- operations
  let gOps ← arrField out "ops"
  let mut results : List Json := []
  let mut tags : List String := [if mode = .strict then "strict" else "audit"]
  let mut prop := true
  let mut note := ""
  let mut sig := ""
  let mut i := 0
  let mut nt := false
  -- the implementation's own state before each operation (for the "no effect" /
  -- "never overwrite" predicates, which must not depend on the model's state)
  let mut gAccounts : Json := accountsJson st.accounts
  let mut gTxs : Json := Json.num 0
  for oj in (← arrField inp "ops") do
    let kind ← strField oj "kind"
    let version := optStrField oj "version"
    let g := gOps.getD i Json.null
    let gErr := optStrField g "err"
    let before := st
    let schemasExist := !st.schemas.isEmpty
    let versionKnown := (findSchema st.schemas version).isSome
    let mut d : Decision := .reject .compile
    if kind = "tx" then
      let plain ← (← arrField oj "plain").mapM postingOfJson
      let am : List (List Char × Meta) := match oj.getObjVal? "accountMetadata" with
        | .ok (.obj kvs) => (kvs.foldl (fun acc k v => (k.toList, metaOfJson v) :: acc) []).reverse
        | _ => []
      let req : TxRequest := { schemaVersion := version, template := optStrField oj "template", plain, accountMetadata := am }
      d := enforce liteOps mode st req
      st := applyDecision st d
      -- C29 on the implementation's own output
      let schema := findSchema before.schemas version
      let hasTemplates := match schema with | some s => !s.templates.isEmpty | none => false
      if mode = .strict then
        if version = "" && schemasExist && gErr = "" then
          prop := false; note := "strict: write without schema version accepted"; sig := "C29:strict-version"
        if version ≠ "" && !versionKnown && gErr = "" then
          prop := false; note := "strict: unknown schema version accepted"; sig := "C29:strict-version"
        if hasTemplates && req.template = "" && gErr = "" then
          prop := false; note := "strict: write without template accepted"; sig := "C29:strict-template"
        if gErr = "" then
          match schema with
          | some s =>
            let gPs ← (← arrField g "postings").mapM postingOfJson
            if gPs.any (fun p => (classifyAddr liteOps s.chart p.source).isNone ||
                (classifyAddr liteOps s.chart p.destination).isNone) then
              prop := false; note := "strict: posting on an account outside the chart accepted"; sig := "C29:strict-chart"
          | none => pure ()
      else
        -- audit accepts: missing version, chart violations, missing template
        let wouldRun := match selectScript .audit schema req with
          | .ok (ps, _) => !ps.isEmpty
          | .error _ => false
        if version = "" && wouldRun && gErr ≠ "" then
          prop := false; note := "audit: write without schema version rejected"; sig := "C29:audit-version"
        if gErr = "chart" then
          prop := false; note := "audit: chart violation rejected"; sig := "C29:audit-chart"
        if versionKnown && hasTemplates && req.template = "" && !req.plain.isEmpty && gErr ≠ "" then
          prop := false
          note := "audit: a write without template on a schema with templates is rejected (" ++ gErr ++ ")"
          sig := "C29:audit-template-required-rejected"
      tags := tags ++ [match d with | .accept _ _ w => if w.isEmpty then "tx:accept" else "tx:accept-with-warning" | .reject r => "tx:" ++ (rejectName r).1]
      match d with
      | .accept _ ups _ =>
        if ups.any (fun u => !u.defaults.isEmpty) then tags := tags ++ ["defaults-applied"]; nt := true
        if ups.any (fun u => !u.defaults.isEmpty && (before.accounts.lookup u.address).isSome) then tags := tags ++ ["defaults-on-existing"]
      | .reject (.chart _) => nt := true
      | .reject .templateRequired => nt := true
      | .reject .schemaNotSpecified => nt := true
      | _ => pure ()
    else if kind = "savemeta" then
      let addr := (← strField oj "address").toList
      let m := metaOfJson (getD oj "metadata" .null)
      d := enforceSaveMeta liteOps mode st version addr m
      st := applySaveMeta st d
      tags := tags ++ [match d with | .accept _ _ _ => "savemeta:accept" | .reject r => "savemeta:" ++ (rejectName r).1]
      if mode = .strict && version = "" && schemasExist && gErr = "" then
        prop := false; note := "strict: metadata write without schema version accepted"; sig := "C29:strict-version"
    else throw s!"bad op kind {kind}"
    let r := opJson st d
    results := results ++ [r.json]
    -- rejected ⇒ no effect, rolled back, not committed; accepted ⇒ committed once
    let commits : Int := match g.getObjVal? "commits" with | .ok (.num n) => n.mantissa | _ => -1
    let rolls : Int := match g.getObjVal? "rolls" with | .ok (.num n) => n.mantissa | _ => -1
    if gErr ≠ "" then
      if !(commits = 0 && rolls ≥ 1) then
        prop := false; note := "rejected write was not rolled back"; sig := "C29:no-effect"
      if !(jsonEq (getD g "accounts" .null) gAccounts) || !(jsonEq (getD g "txs" .null) gTxs) then
        prop := false; note := "rejected write changed the ledger"; sig := "C29:no-effect"
    else if commits ≠ 1 then
      prop := false; note := "accepted write not committed exactly once"; sig := "C29:commit"
    -- defaults never overwrite existing values
    if gErr = "" then
      -- explicit values of this write, from the request itself
      let explicitOf (a : String) : Meta :=
        if kind = "savemeta" then (if optStrField oj "address" = a then metaOfJson (getD oj "metadata" .null) else [])
        else metaOfJson (getD (getD oj "accountMetadata" .null) a .null)
      match g.getObjVal? "accounts", gAccounts with
      | .ok (.obj after), .obj prev =>
        for (a, mj) in prev.toList do
          let am := metaOfJson ((after.get? a).getD .null)
          for (k, v) in metaOfJson mj do
            if ((explicitOf a).lookup k).isNone && am.lookup k ≠ some v then
              prop := false; note := "existing metadata value overwritten"; sig := "C29:defaults-overwrite"
      | _, _ => pure ()
    gAccounts := getD g "accounts" gAccounts
    gTxs := getD g "txs" gTxs
    i := i + 1
  let model := Json.mkObj [("schemaErrs", jStrs schemaErrs), ("ops", Json.arr results.toArray)]
  let keys := ["err", "errMsg", "postings", "upserts", "txs", "accounts"]
  let gSchemaErrs ← strArrField out "schemaErrs"
  let agree := optStrField out "panic" = "" && gSchemaErrs = schemaErrs && gOps.length = results.length &&
    (List.zip gOps results).all fun (g, m) => jsonEq (pick g keys) (pick m keys)
  pure { model, agree, prop, nontrivial := nt, tags := tags.eraseDups, note, sig }

/-! ### patterns -/

open Ledger.Generated.Grammar in
def lexRules : List (String × Re) :=
  [("ASSET", lexAsset), ("ACCOUNT", lexAccount), ("NUMBER", lexNumber), ("PORTION", lexPortion),
   ("VARIABLE_NAME", lexVariableName)]

/-- Which of the five literal-token rules turns the whole string into one token
    (ANTLR: longest match; ties go to the rule listed first in the grammar). -/
def lexModel (s : List Char) : String :=
  match Ledger.Generated.Grammar.lexerRuleOrder.find? fun n =>
      match lexRules.lookup n with | some r => fullMatchPos r s | none => false with
  | some n => n
  | none => ""

open Ledger.Generated.Grammar in
def handlePatterns : Handler := fun inp out => do
  let s ← strField inp "s"
  let cs := s.toList
  let pattern := match inp.getObjVal? "pattern" with | .ok (.str p) => some p | _ => none
  let account := search accountPattern cs
  let asset := search assetPattern cs
  let segment := search chartSegmentPattern cs
  let lx := lexModel cs
  let (compiles, isMatch, unsupported) := match pattern with
    | none => (true, false, false)
    | some p => match parse p with
      | .ok r => (true, search r cs, false)
      | .error (.syntax _) => (false, false, false)
      | .error (.unsupported _) => (false, false, true)
  if unsupported then
    return { model := Json.null, agree := true, nontrivial := false, tags := ["skipped:pattern-outside-subset"] }
  let model := Json.mkObj [("account", account), ("asset", asset), ("segment", segment), ("lex", lx),
    ("compiles", compiles), ("match", isMatch)]
  -- the three routes to the same answer inside the model
  let viaParser (src : String) (ast : Re) : Bool := match parse src with | .ok r => search r cs == search ast cs | .error _ => false
  let viaDeriv (ast : Re) (expected : Bool) : Bool := match ast.unanchor with | some body => accepts body cs == expected | none => false
  let selfOk := viaParser accountPatternSrc accountPattern && viaParser assetPatternSrc assetPattern &&
    viaParser chartSegmentPatternSrc chartSegmentPattern &&
    viaDeriv accountPattern account && viaDeriv assetPattern asset && viaDeriv chartSegmentPattern segment &&
    segment == validateSegment cs && account == validAddress cs && asset == validAsset cs &&
    lexRules.all (fun (_, r) => accepts r cs == fullMatchPos r cs)
  let agree := optStrField out "panic" = "" && selfOk && jsonEq (pick out ["account", "asset", "segment", "lex", "compiles", "match"]) model
  -- C28 at the pattern level, on the implementation's answers
  let gLex := optStrField out "lex"
  let gB (k : String) : Bool := match out.getObjVal? k with | .ok (.bool b) => b | _ => false
  let accOk := gLex ≠ "ACCOUNT" || gB "accountBody"
  -- (the lexer rule ASSET is wider than the asset pattern; literals are validated
  --  by the compiler, see `scriptlit` – reported as a tag only)
  let assOutside := gLex = "ASSET" && !gB "asset"
  let tags := [if lx = "" then "lex:none" else "lex:" ++ lx] ++ (if account then ["account-ok"] else []) ++
    (if asset then ["asset-ok"] else []) ++ (if segment then ["segment-ok"] else []) ++
    (if assOutside then ["lexer-asset-outside-pattern"] else []) ++
    (match pattern with | none => [] | some _ => [if !compiles then "custom:compile-error" else if isMatch then "custom:match" else "custom:no-match"])
  pure { model, agree, prop := accOk, nontrivial := lx ≠ "" || pattern.isSome, tags,
         note := if !accOk then "lexer ACCOUNT literal outside the account pattern" else "",
         sig := if !accOk then "C28:account-literal-outside-pattern" else "" }

/-! ### scriptlit: a script with literal asset / account, through the real controller -/

open Ledger.Generated.Grammar in
def handleScriptLit : Handler := fun inp out => do
  -- blanks around a literal are skipped by the lexer (WHITESPACE -> skip)
  let isSp := fun (c : Char) => c = ' ' || c = '\t'
  let trim := fun (cs : List Char) => ((cs.dropWhile isSp).reverse.dropWhile isSp).reverse
  let assetRaw := (← strField inp "asset").toList.dropWhile isSp
  let asset := String.ofList (trim assetRaw)
  -- (the harness glues `@` to the account text: only trailing blanks are skipped)
  let account := String.ofList ((← strField inp "account").toList.reverse.dropWhile isSp).reverse
  let runtime := optStrField inp "runtime"
  -- context of the harness script `send [<asset> 1] (…)`: a literal starting with `//`
  -- opens a LINE_COMMENT and `<digits>/` joins the following ` 1` into a PORTION
  -- (both are longer matches than ASSET)
  let startsComment := match asset.toList with | '/' :: '/' :: _ => true | _ => false
  let digitsSlash := match assetRaw.reverse with
    | '/' :: rest => !rest.isEmpty && rest.all Ledger.Regex.isDigit
    | _ => false
  let compiles := lexModel asset.toList = "ASSET" && !startsComment && !digitsSlash &&
    lexModel ('@' :: account.toList) = "ACCOUNT" &&
    (match compileAssetLiteral asset.toList with | .ok _ => true | .error _ => false)
  let wellFormed := validAsset asset.toList && validAddress account.toList
  let model := if compiles then
      Json.mkObj [("err", ""), ("postings", Json.arr #[Json.arr #[.str "world", .str account, .str asset, .str "1"]]),
        ("valid", wellFormed)]
    else Json.mkObj [("err", "compile"), ("postings", Json.arr #[]), ("valid", true)]
  let gErr := optStrField out "err"
  -- only the machine runtime is modelled (the interpreter has its own grammar)
  let agree := optStrField out "panic" = "" &&
    (runtime ≠ "machine" || jsonEq (pick out ["err", "postings", "valid"]) model)
  let gValid := match out.getObjVal? "valid" with | .ok (.bool b) => b | _ => false
  let prop := gErr ≠ "" || gValid
  pure { model, agree, prop, nontrivial := gErr = "",
         tags := [runtime, if compiles then (if wellFormed then "committed:well-formed" else "committed:ill-formed") else "compile-error"],
         note := if prop then "" else s!"committed posting fails Postings.Validate: asset literal `{asset}`",
         sig := if prop then "" else "C28:asset-literal-outside-pattern" }

/-! ### postingval: `Postings.Validate` -/

def handlePostingVal : Handler := fun inp out => do
  let ps ← (← arrField inp "postings").mapM fun p => do
    let amount ← match p.getObjVal? "amount" with
      | .ok (.str s) => do pure (some (← parseInt s))
      | _ => pure none
    pure ({ source := (optStrField p "source").toList, destination := (optStrField p "destination").toList,
            asset := (optStrField p "asset").toList, amount } : RawPosting)
  let (idx, err) := match postingsValidate ps 0 with
    | none => (0, "")
    | some (i, e) => (i, e)
  let model := Json.mkObj [("index", idx), ("err", err)]
  let agree := optStrField out "panic" = "" && jsonEq (pick out ["index", "err"]) model
  pure { model, agree, nontrivial := err = "" && !ps.isEmpty, tags := [if err = "" then "valid" else err] }

/-! ### schemart -/

def rawJson : Option JTree → Json
  | none => .null
  | some v => Json.mkObj [("raw", ofTree v)]

def dumpTemplates (ts : List (Key × TxTemplate)) : Json :=
  Json.mkObj (ts.map fun (k, t) => (String.ofList k,
    Json.mkObj [("description", t.description), ("script", t.script), ("runtime", t.runtime)]))

def dumpQueries (qs : List (Key × QueryTemplate)) : Json :=
  Json.mkObj (qs.map fun (k, q) => (String.ofList k, Json.mkObj [
    ("description", q.description), ("resource", q.resource), ("params", rawJson q.params),
    ("vars", Json.mkObj (q.vars.map fun (vk, d) => (String.ofList vk,
      Json.mkObj [("type", d.type.toString), ("default", rawJson d.default)]))),
    ("body", rawJson q.body)]))

def handleSchemaRt : Handler := fun inp out => do
  let doc ← strField inp "doc"
  let tree := toTree (← Json.parse doc)
  if (patternsOf tree).any unsupportedPattern then
    return { model := Json.null, agree := true, nontrivial := false, tags := ["skipped:pattern-outside-subset"] }
  let gErr := optStrField out "err"
  let gPanic := optStrField out "panic"
  match unmarshalSchemaData liteOps tree with
  | .error e =>
    let kind : String := match e with | .chart _ => "chart" | .badType => "badType" | .badVarType => "badVarType"
    pure { model := Json.mkObj [("err", Json.str kind)], agree := gPanic = "" && gErr ≠ "", nontrivial := false,
           tags := ["reject:" ++ kind] }
  | .ok s =>
    let remarshal := ofTree (marshalSchemaData s)
    let model := Json.mkObj [("err", ""), ("chart", dumpChart s.chart), ("transactions", dumpTemplates s.transactions),
      ("queries", dumpQueries s.queries), ("remarshal", remarshal)]
    let agree := gPanic = "" && gErr = "" && jsonEq (pick out ["chart", "transactions", "queries", "remarshal"])
      (pick model ["chart", "transactions", "queries", "remarshal"])
    let rtModel := match unmarshalSchemaData liteOps (marshalSchemaData s) with
      | .ok s' => jsonEq (dumpChart s'.chart) (dumpChart s.chart) && jsonEq (dumpTemplates s'.transactions) (dumpTemplates s.transactions)
          && jsonEq (dumpQueries s'.queries) (dumpQueries s.queries)
      | .error _ => false
    let gB (k : String) : Bool := match out.getObjVal? k with | .ok (.bool b) => b | _ => false
    let prop := gPanic = "" && optStrField out "rtErr" = "" && gB "rtSame" && gB "rtMarshalSame" &&
      gB "colChartSame" && gB "colTxSame" && gB "colQSame"
    let valid := optStrField out "invalid" = ""
    pure { model, agree, prop, propModel := rtModel,
           nontrivial := !s.transactions.isEmpty || !s.queries.isEmpty,
           tags := ["accept", if valid then "NewSchema:ok" else "NewSchema:rejected"] ++
             (if s.transactions.isEmpty then [] else ["templates"]) ++ (if s.queries.isEmpty then [] else ["queries"]) ++
             (if s.queries.any (fun kq => !kq.2.vars.isEmpty) then ["query-vars"] else []) ++
             (if s.queries.any (fun kq => kq.2.params.isSome || kq.2.body.isSome) then ["raw-members"] else []),
           note := if prop then "" else "C30: schema data changes across the JSON round trip",
           sig := if prop then "" else "C30:schema-roundtrip" }

/-! ### scriptvar: variables / meta() / template / postings form, through the real controller -/

def rawPostingOfJson (j : Json) : Except String RawPosting :=
  match j with
  | .arr #[.str s, .str d, .str a, .str n] => do
    pure { source := s.toList, destination := d.toList, asset := a.toList, amount := some (← parseInt n) }
  | _ => throw "bad posting"

def handleScriptVar : Handler := fun inp out => do
  let path ← strField inp "path"
  let src := (← strField inp "src").toList
  let dst := (← strField inp "dst").toList
  let asset := (← strField inp "asset").toList
  let amount := (← strField inp "amount").toList
  let okJson (p : RawPosting) : Json :=
    Json.mkObj [("err", ""), ("postings", Json.arr #[Json.arr #[.str (String.ofList p.source),
      .str (String.ofList p.destination), .str (String.ofList p.asset), .str (toString (p.amount.getD 0))]]),
      ("valid", true)]
  let errJson (k : String) : Json := Json.mkObj [("err", Json.str k), ("postings", Json.arr #[]), ("valid", true)]
  let model ←
    if path = "var" || path = "template" || path = "meta" then
      pure (match variablePosting src dst (asset ++ ' ' :: amount) with
        | .ok p => okJson p | .error _ => errJson "vars")
    else if path = "assetvar" then
      pure (match assetVariablePosting src dst asset ['1', '0'] with
        | .ok p => okJson p | .error _ => errJson "vars")
    else if path = "postings" then
      let p : RawPosting := { source := src, destination := dst, asset, amount := parseBigInt amount }
      pure (match postingsValidate [p] 0 with
        | none => okJson p | some _ => errJson "validate")
    else throw s!"bad path {path}"
  let agree := optStrField out "panic" = "" && jsonEq (pick out ["err", "postings", "valid"]) model
  -- C28 on what the implementation committed
  let gErr := optStrField out "err"
  let gValid := match out.getObjVal? "valid" with | .ok (.bool b) => b | _ => false
  let gPs ← (← arrField out "postings").mapM rawPostingOfJson
  let wf := (postingsValidate gPs 0).isNone
  let prop := gErr ≠ "" || (gValid && wf)
  let padded (v : List Char) : Bool :=
    let isWs := fun (c : Char) => c = ' ' || c = '\t' || c = '\n' || c = '\r'
    match v, v.reverse with
    | c :: _, d :: _ => isWs c || isWs d
    | _, _ => false
  pure { model, agree, prop, nontrivial := gErr = "",
         tags := ["path:" ++ path, if gErr = "" then "committed" else "rejected:" ++ gErr] ++
           (if padded src || padded dst || padded asset then ["padded-value"] else []),
         note := if prop then "" else s!"committed posting is not well-formed (path {path})",
         sig := if prop then "" else
           (if path = "postings" then "C28:postings-path-outside-pattern" else "C28:variable-value-outside-pattern") }

/-! ### importlog: NEW_TRANSACTION logs of a crafted stream through the real Import -/

def rawPostingOfJson' (j : Json) : Except String RawPosting :=
  match j with
  | .arr #[.str s, .str d, .str a, .str n] => do
    let amount ← if n = "" then pure none else do pure (some (← parseInt n))
    pure { source := s.toList, destination := d.toList, asset := a.toList, amount }
  | _ => throw "bad posting"

def rawPostingJson (p : RawPosting) : Json :=
  Json.arr #[.str (String.ofList p.source), .str (String.ofList p.destination), .str (String.ofList p.asset),
    .str (match p.amount with | some a => toString a | none => "")]

def handleImportLog : Handler := fun inp out => do
  let txs ← (← arrField inp "txs").mapM fun t => do
    match t with
    | .arr ps => ps.toList.mapM rawPostingOfJson'
    | _ => throw "bad tx"
  let validates := Ledger.Generated.Grammar.importValidatesCreated
  let (committed, failed) := importTxs validates txs
  let txsJson (ts : List (List RawPosting)) : Json := Json.arr (ts.map fun ps => Json.arr (ps.map rawPostingJson).toArray).toArray
  let model := Json.mkObj [("err", if failed then "invalid" else ""), ("txs", txsJson committed)]
  let agree := optStrField out "panic" = "" && jsonEq (pick out ["err", "txs"]) model
  -- C28 on what the implementation stored
  let gTxs ← (← arrField out "txs").mapM fun t => do
    match t with
    | .arr ps => ps.toList.mapM rawPostingOfJson'
    | _ => throw "bad tx"
  let gValid := match out.getObjVal? "valid" with | .ok (.bool b) => b | _ => false
  let wf := gTxs.all fun ps => (postingsValidate ps 0).isNone
  let prop := gValid && wf
  let malformedIn := txs.any fun ps => (postingsValidate ps 0).isSome
  pure { model, agree, prop, nontrivial := !gTxs.isEmpty,
         tags := [if malformedIn then "stream:malformed" else "stream:well-formed",
                  if failed then "import:refused" else "import:ok"],
         note := if prop then "" else "import committed a malformed posting",
         sig := if prop then "" else "C28:import-commits-malformed-posting" }

/-! ### schemadb: insert + read back through the SQL store (on the MODELLED Postgres) -/

/-- numbers of opaque members as exact rationals, like the harness's `canon` -/
def numCanon (t : String) : Json :=
  match Json.parse t with
  | .ok (.num n) =>
    let den : Nat := 10 ^ n.exponent
    let g := Nat.gcd n.mantissa.natAbs den
    let g := if g = 0 then 1 else g
    Json.mkObj [("#", Json.str s!"{n.mantissa / (g : Int)}/{den / g}")]
  | _ => Json.str ("#bad:" ++ t)

partial def ofTreeCanon : JTree → Json
  | .null => .null
  | .bool b => .bool b
  | .num t => numCanon t
  | .str s => .str s
  | .arr xs => .arr (xs.map ofTreeCanon).toArray
  | .obj kvs => Json.mkObj (kvs.map fun (k, v) => (String.ofList k, ofTreeCanon v))

def rawJsonCanon : Option JTree → Json
  | none => .null
  | some v => Json.mkObj [("raw", ofTreeCanon v)]

def dumpQueriesCanon (qs : List (Key × QueryTemplate)) : Json :=
  Json.mkObj (qs.map fun (k, q) => (String.ofList k, Json.mkObj [
    ("description", q.description), ("resource", q.resource), ("params", rawJsonCanon q.params),
    ("vars", Json.mkObj (q.vars.map fun (vk, d) => (String.ofList vk,
      Json.mkObj [("type", d.type.toString), ("default", rawJsonCanon d.default)]))),
    ("body", rawJsonCanon q.body)]))

def handleSchemaDb : Handler := fun inp out => do
  let doc ← strField inp "doc"
  let addrs ← strArrField inp "addrs"
  let tree := toTree (← Json.parse doc)
  if (patternsOf tree).any unsupportedPattern then
    return { model := Json.null, agree := true, nontrivial := false, tags := ["skipped:pattern-outside-subset"] }
  let gPanic := optStrField out "panic"
  let gDecodeErr := optStrField out "decodeErr"
  let gInsertErr := optStrField out "insertErr"
  match unmarshalSchemaData liteOps tree with
  | .error _ =>
    pure { model := Json.mkObj [("decodeErr", "error")], agree := gPanic = "" && gDecodeErr ≠ "",
           nontrivial := false, tags := ["decode-rejected"] }
  | .ok s =>
    let dC := dumpChart s.chart
    let dT := dumpTemplates s.transactions
    let dQ := dumpQueriesCanon s.queries
    let cls := addrs.map (classifyJson s.chart)
    let model := Json.mkObj [("chart", dC), ("transactions", dT), ("queries", dQ),
      ("chart2", dC), ("transactions2", dT), ("queries2", dQ), ("classify", Json.arr cls.toArray)]
    -- the decoded value always has to be the model's; the value read back as well once the insert went through
    let decodedOk := gDecodeErr = "" && jsonEq (pick out ["chart", "transactions", "queries"]) (pick model ["chart", "transactions", "queries"])
    if gInsertErr ≠ "" then
      -- NewSchema's validation of templates / queries and the database's own refusals
      -- (e.g. a NUL character in a jsonb string) are not part of this model
      let nul := (doc.splitOn "\\u0000").length > 1
      return { model, agree := gPanic = "" && decodedOk, nontrivial := false,
               tags := ["insert-rejected:" ++ (if gInsertErr = "invalid-schema" then "invalid-schema" else if nul then "db-refuses-nul" else "other")],
               prop := gInsertErr = "invalid-schema" || nul,
               note := if gInsertErr = "invalid-schema" || nul then "" else "unexpected insert error: " ++ gInsertErr,
               sig := if gInsertErr = "invalid-schema" || nul then "" else "C30:insert-error" }
    let gCls ← arrField out "classify"
    let gCls2 ← arrField out "classify2"
    let backOk := jsonEq (pick out ["chart2", "transactions2", "queries2"]) (pick model ["chart2", "transactions2", "queries2"])
    let agree := gPanic = "" && decodedOk && optStrField out "readErr" = "" && backOk &&
      jsonEq (Json.arr gCls.toArray) (Json.arr cls.toArray)
    -- C30 on the implementation's own values: read back = inserted
    let listed := match out.getObjVal? "listed" with | .ok (.bool b) => b | _ => false
    let prop := gPanic = "" && optStrField out "readErr" = "" && listed &&
      jsonEq (getD out "chart2" .null) (getD out "chart" .null) &&
      jsonEq (getD out "transactions2" .null) (getD out "transactions" .null) &&
      jsonEq (getD out "queries2" .null) (getD out "queries" .null) &&
      jsonEq (Json.arr gCls.toArray) (Json.arr gCls2.toArray)
    pure { model, agree, prop, nontrivial := true,
           tags := ["stored"] ++ (if s.transactions.isEmpty then [] else ["templates"]) ++
             (if s.queries.isEmpty then [] else ["queries"]) ++
             (if s.queries.any (fun kq => kq.2.params.isSome || kq.2.body.isSome) then ["raw-members"] else []) ++
             (if (doc.splitOn ".pattern").length > 1 then ["pattern"] else []),
           note := if prop then "" else "C30: schema read back from the store differs from the schema inserted",
           sig := if prop then "" else "C30:db-roundtrip" }

def chartHandlers : List (String × Handler) := [
  ("chartrt", handleChartRt),
  ("enforce", handleEnforce),
  ("patterns", handlePatterns),
  ("scriptlit", handleScriptLit),
  ("postingval", handlePostingVal),
  ("scriptvar", handleScriptVar),
  ("importlog", handleImportLog),
  ("schemadb", handleSchemaDb),
  ("schemart", handleSchemaRt)
]

end Ledger.Driver
