-- GENERATED-MODULE: Ledger.Generated.Handles
-- by tools/t3_handles (vrsched handles): DO NOT EDIT. Regenerated from /repo on every check.
import Ledger.Sched.Kinds

/-!
For every write kind and branch: the ordered list of (statement kind, handle) the REAL
controller stack (system controller → state tracker → ledger controller → SQL store → bun)
issued when run once over pgfake/LeanPG. pgfake knows the handle of every statement
(`conn` = autocommit on the pool, `tx` = inside BEGIN…COMMIT, `savepoint` = inside a nested BeginTX).
-/
namespace Ledger.Generated.Handles
open Ledger.Sched

abbrev Trace := List (Kind × Handle)

/-- createTransaction, bounded source, HASH_LOGS=SYNC, idempotency key, ledger in use — answered `ok` -/
def sendSyncBounded : Trace :=
  [(.begin, .conn), (.readIK, .tx), (.readSchema, .tx), (.getBalances, .tx), (.updateVolumes, .tx), (.insertTx, .tx), (.insertMoves, .tx), (.upsertAccounts, .tx), (.advLockLog, .tx), (.insertLog, .tx), (.commit, .tx)]

def sendSyncBoundedAnswer : String := ""

/-- the same with HASH_LOGS=ASYNC (no advisory lock) — answered `ok` -/
def sendAsyncBounded : Trace :=
  [(.begin, .conn), (.readSchema, .tx), (.getBalances, .tx), (.updateVolumes, .tx), (.insertTx, .tx), (.insertMoves, .tx), (.upsertAccounts, .tx), (.insertLog, .tx), (.commit, .tx)]

def sendAsyncBoundedAnswer : String := ""

/-- unbounded source: no balance is read — answered `ok` -/
def sendSyncUnbounded : Trace :=
  [(.begin, .conn), (.readSchema, .tx), (.updateVolumes, .tx), (.insertTx, .tx), (.insertMoves, .tx), (.upsertAccounts, .tx), (.advLockLog, .tx), (.insertLog, .tx), (.commit, .tx)]

def sendSyncUnboundedAnswer : String := ""

/-- first write on an initializing ledger: state tracker (handleState) around a nested forgeLog — answered `ok` -/
def sendFirstWrite : Trace :=
  [(.begin, .conn), (.lockLedgerX, .tx), (.updateState, .tx), (.setval, .tx), (.setval, .tx), (.savepoint, .tx), (.readSchema, .savepoint), (.updateVolumes, .savepoint), (.insertTx, .savepoint), (.insertMoves, .savepoint), (.upsertAccounts, .savepoint), (.advLockLog, .savepoint), (.insertLog, .savepoint), (.release, .savepoint), (.commit, .tx)]

def sendFirstWriteAnswer : String := ""

/-- refused by the funds check — answered `insufficient-funds` -/
def sendInsufficient : Trace :=
  [(.begin, .conn), (.readSchema, .tx), (.getBalances, .tx), (.rollback, .tx)]

def sendInsufficientAnswer : String := "insufficient-funds"

/-- idempotency key already recorded — answered `ok` -/
def sendIkHit : Trace :=
  [(.begin, .conn), (.readIK, .tx), (.rollback, .tx)]

def sendIkHitAnswer : String := ""

/-- reference already used — answered `reference-conflict` -/
def sendReferenceConflict : Trace :=
  [(.begin, .conn), (.readSchema, .tx), (.updateVolumes, .tx), (.insertTx, .tx), (.rollback, .tx)]

def sendReferenceConflictAnswer : String := "reference-conflict"

/-- revertTransaction (non-forced) — answered `ok` -/
def revertSync : Trace :=
  [(.begin, .conn), (.readSchema, .tx), (.revertUpdate, .tx), (.getBalances, .tx), (.updateVolumes, .tx), (.insertTx, .tx), (.insertMoves, .tx), (.advLockLog, .tx), (.insertLog, .tx), (.commit, .tx)]

def revertSyncAnswer : String := ""

/-- second revert of the same transaction — answered `already-reverted` -/
def revertAlreadyReverted : Trace :=
  [(.begin, .conn), (.readSchema, .tx), (.revertUpdate, .tx), (.rollback, .tx)]

def revertAlreadyRevertedAnswer : String := "already-reverted"

/-- atomic bulk of two creates: Controller.BeginTX, nested forgeLogs, Commit — answered `ok` -/
def bulkAtomic : Trace :=
  [(.begin, .conn), (.savepoint, .tx), (.readSchema, .savepoint), (.getBalances, .savepoint), (.updateVolumes, .savepoint), (.insertTx, .savepoint), (.insertMoves, .savepoint), (.upsertAccounts, .savepoint), (.advLockLog, .savepoint), (.insertLog, .savepoint), (.release, .savepoint), (.savepoint, .tx), (.readSchema, .savepoint), (.getBalances, .savepoint), (.updateVolumes, .savepoint), (.insertTx, .savepoint), (.insertMoves, .savepoint), (.upsertAccounts, .savepoint), (.advLockLog, .savepoint), (.insertLog, .savepoint), (.release, .savepoint), (.commit, .tx)]

def bulkAtomicAnswer : String := ""

/-- Import of two NEW_TRANSACTION logs into an initializing ledger (HASH_LOGS=SYNC) — answered `ok` -/
def importTwoLogs : Trace :=
  [(.lockLedgerS, .conn), (.readState, .conn), (.readLastLog, .conn), (.begin, .conn), (.updateVolumes, .tx), (.insertTx, .tx), (.insertMoves, .tx), (.upsertAccounts, .tx), (.advLockLog, .tx), (.insertLog, .tx), (.commit, .tx), (.begin, .conn), (.updateVolumes, .tx), (.insertTx, .tx), (.insertMoves, .tx), (.upsertAccounts, .tx), (.advLockLog, .tx), (.insertLog, .tx), (.commit, .tx), (.unlockLedgerS, .conn)]

def importTwoLogsAnswer : String := ""

/-- the async block builder's statement — answered `ok` -/
def createBlocks : Trace :=
  [(.createBlocks, .conn)]

def createBlocksAnswer : String := ""

def all : List (String × Trace) :=
  [("sendSyncBounded", sendSyncBounded), ("sendAsyncBounded", sendAsyncBounded), ("sendSyncUnbounded", sendSyncUnbounded), ("sendFirstWrite", sendFirstWrite), ("sendInsufficient", sendInsufficient), ("sendIkHit", sendIkHit), ("sendReferenceConflict", sendReferenceConflict), ("revertSync", revertSync), ("revertAlreadyReverted", revertAlreadyReverted), ("bulkAtomic", bulkAtomic), ("importTwoLogs", importTwoLogs), ("createBlocks", createBlocks)]

end Ledger.Generated.Handles
