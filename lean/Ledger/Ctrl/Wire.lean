import Ledger.Ctrl.Replay
import Ledger.Log.PayloadCanon

/-!
Controller layer, part 7: the export stream on the wire.  `Export` writes each log
as JSON and `Import` hydrates it (`HydrateLog`); that codec is another area's model
(`Ledger/Log/PayloadJson.lean`, bytes and civil dates).  The controller model keeps
text and time abstract (`String`, `Int`), so the link is an embedding `enc`/`dec` of
its payloads into that model, given as a parameter.
-/
namespace Ledger.Ctrl
open Ledger.Base Ledger.Core

/-- One exported log through `json.Marshal` → `HydrateLog`. -/
def wireLog (enc : Payload → Ledger.Log.Payload) (dec : Ledger.Log.Payload → Option Payload) (l : Log) : Option Log :=
  match Ledger.Log.decodePayload (enc l.payload).type (Ledger.Log.encodePayload (enc l.payload)) with
  | .ok q => (dec q).map fun p => { l with payload := p }
  | .error _ => none

/-- The whole stream; `none` when a log does not hydrate. -/
def wireStream (enc : Payload → Ledger.Log.Payload) (dec : Ledger.Log.Payload → Option Payload) :
    List Log → Option (List Log)
  | [] => some []
  | l :: r =>
    match wireLog enc dec l, wireStream enc dec r with
    | some l', some r' => some (l' :: r')
    | _, _ => none

end Ledger.Ctrl
