import Ledger.Ctrl.Controller

/-!
Controller layer, part 9: the INPUT of a write, field by field — the Go value the
controller receives and `ComputeIdempotencyHash` fingerprints (`Parameters.Input`;
the idempotency key, dry-run flag and schema version are parameters, not input).
The harness reports exactly this value for every request (`OpOut.Req`,
`wlctrl/ikmut.go: canonCreate / reqString`).  The controller model itself keeps the
idempotency hash opaque (`Op.ihash`); theorems about key reuse are stated for any
fingerprint function `H : Request → String` under explicit hypotheses on `H`.
-/
namespace Ledger.Ctrl
open Ledger.Base Ledger.Core

inductive Request where
  /-- `CreateTransaction{RunScript{Script{Plain, Template, Vars}, Timestamp, Metadata, Reference},
      AccountMetadata, Runtime}` (`none` = nil map / zero time) -/
  | create (plain template : String) (vars : Option (Map String String)) (timestamp : Option Time)
      (metadata : Option Meta) (reference : String) (accountMetadata : Option (Map String (Option Meta)))
      (runtime : String)
  /-- `RevertTransaction{Force, AtEffectiveDate, TransactionID, Metadata}` -/
  | revert (force atEffectiveDate : Bool) (id : Nat) (metadata : Option Meta)
  | saveTxMeta (id : Nat) (metadata : Option Meta)
  | saveAccMeta (address : String) (metadata : Option Meta)
  | delTxMeta (id : Nat) (key : String)
  | delAccMeta (address key : String)
  /-- `InsertSchema{Version, Data}` (`data`: the parsed chart and templates) -/
  | insertSchema (version : String) (data : String)
  deriving DecidableEq, Repr

end Ledger.Ctrl
