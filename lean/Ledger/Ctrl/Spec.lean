import Ledger.Ctrl.Controller

/-!
Controller layer: the **reference reading of the journal** — what the log, read
in id order, says the accounts and the transaction metadata must be.  A reader
can check these few lines against the property statements:

* C17: current metadata = the saves in order (later values win) minus the
  deletes; the chart's default metadata is added when the account is first
  created, below the explicit values, and never again;
* C18: an account exists iff a committed transaction involves it (source,
  destination, or account-metadata key) or metadata was saved on it; its first
  usage is the date it was created by a metadata save, or else the earliest
  timestamp of the transactions involving it (a later back-dated transaction
  lowers it, nothing raises it); its insertion date never changes.
-/
namespace Ledger.Ctrl
open Ledger.Base Ledger.Core

structure AccSpec where
  metadata : Meta
  firstUsage : Time
  insertionDate : Time
  deriving DecidableEq, Repr, Inhabited

structure SpecSt where
  schemas : List Schema := []
  accounts : Map String AccSpec := []
  /-- (transaction id, current metadata), in creation order -/
  txMeta : List (Nat × Meta) := []
  deriving DecidableEq, Repr, Inhabited

/-- Rewrite the metadata of transaction `id`. -/
def updTxMeta (l : List (Nat × Meta)) (id : Nat) (g : Meta → Meta) : List (Nat × Meta) :=
  l.map fun e => if e.1 = id then (e.1, g e.2) else e

/-- Chart defaults of `address` under schema version `v` ("" = no schema). -/
def specDefaults (schemas : List Schema) (v address : String) : Meta :=
  if v = "" then [] else
  match schemas.find? (·.version == v) with
  | some sc => (match sc.find address with | some d => d | none => [])
  | none => []

/-- A committed transaction touches `address` at `ts` (inserted at `ins`) with explicit metadata `m`. -/
def specTouch (schemas : List Schema) (v : String) (ts ins : Time) (accounts : Map String AccSpec)
    (address : String) (m : Meta) : Map String AccSpec :=
  match accounts.get? address with
  | some a =>
    -- nothing to lower, nothing new to say: the row is left alone
    if decide (ts < a.firstUsage) || !metaContains a.metadata m then
      accounts.insert address
        { a with metadata := metaMerge a.metadata m, firstUsage := if ts < a.firstUsage then ts else a.firstUsage }
    else accounts
  | none => accounts.insert address
      { metadata := metaMerge (specDefaults schemas v address) m, firstUsage := ts, insertionDate := ins }

/-- A metadata save on `address` at `date`. -/
def specSave (schemas : List Schema) (v : String) (date : Time) (accounts : Map String AccSpec)
    (address : String) (m : Meta) : Map String AccSpec :=
  match accounts.get? address with
  | some a =>
    if metaContains a.metadata m then accounts
    else accounts.insert address { a with metadata := metaMerge a.metadata m }
  | none => accounts.insert address
      { metadata := metaMerge (specDefaults schemas v address) m, firstUsage := date, insertionDate := date }

def specStep (st : SpecSt) (l : Log) : SpecSt :=
  match l.payload with
  | .insertedSchema s => { st with schemas := st.schemas ++ [s] }
  | .created tx am =>
    { st with
      accounts := (accountsToUpsert tx.postings am).foldl (fun acc a =>
        specTouch st.schemas l.schemaVersion tx.timestamp tx.insertedAt acc a
          (match am.get? a with | some m => m | none => [])) st.accounts,
      txMeta := st.txMeta ++ [(tx.id, tx.metadata)] }
  | .reverted _ rev => { st with txMeta := st.txMeta ++ [(rev.id, rev.metadata)] }
  | .savedMeta (.account a) m => { st with accounts := specSave st.schemas l.schemaVersion l.date st.accounts a m }
  | .savedMeta (.transaction id) m =>
    { st with txMeta := updTxMeta st.txMeta id (fun old => if metaContains old m then old else metaMerge old m) }
  | .deletedMeta (.account a) key =>
    { st with accounts := match st.accounts.get? a with
                          | some x => st.accounts.insert a { x with metadata := x.metadata.erase key }
                          | none => st.accounts }
  | .deletedMeta (.transaction id) key =>
    { st with txMeta := updTxMeta st.txMeta id (fun old => if old.contains key then old.erase key else old) }

/-- The reference reading of a journal (logs in id order). -/
def specOf (logs : List Log) : SpecSt := logs.foldl specStep {}

/-- The same columns of the actual tables. -/
def projAccounts (d : Db) : Map String AccSpec :=
  d.accounts.map fun e => (e.1, { metadata := e.2.metadata, firstUsage := e.2.firstUsage, insertionDate := e.2.insertionDate })

def projTxMeta (d : Db) : List (Nat × Meta) := d.txs.map fun t => (t.id, t.metadata)

end Ledger.Ctrl
