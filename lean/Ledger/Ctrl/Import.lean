import Ledger.Ctrl.Controller

/-!
Controller layer, part 5: `Export`, `Import` / `importLog`
(/repo/internal/controller/ledger/controller_default.go) and the ledger state
tracker (/repo/internal/controller/system/state_tracker.go: `handleState`,
`Import`).
-/
namespace Ledger.Ctrl
open Ledger.Base Ledger.Core

/-- `Export`: the logs in ascending id order (pages of 100 over `Logs().Paginate`). -/
def insertById (l : Log) : List Log → List Log
  | [] => [l]
  | x :: r => if l.id < x.id then l :: x :: r else x :: insertById l r

def exportLogs (s : State) : List Log := s.db.logs.foldl (fun acc l => insertById l acc) []

def txIn (t : Tx) : TxIn :=
  { id := some t.id, postings := t.postings, metadata := t.metadata, reference := t.reference,
    timestamp := some t.timestamp, insertedAt := some t.insertedAt, updatedAt := some t.updatedAt,
    revertedAt := t.revertedAt, template := t.template }

/-- `importLog`: re-apply the payload through the store, then insert the log
    with its id and date. -/
def importLog (log : Log) : Prog Unit :=
  let insert : Prog Unit :=
    .call (.insertLog { id := some log.id, payload := log.payload, date := some log.date, ik := log.ik,
                        ihash := log.ihash, schemaVersion := log.schemaVersion }) fun _ => .pure ()
  match log.payload with
  | .insertedSchema s =>
    .call (.insertSchema { version := s.version, createdAt := some s.createdAt, chartRaw := s.chartRaw,
                           chart := s.chart, templates := s.templates }) fun r =>
      match r with
      | some _ => insert
      | none => .fail (.store .constraint)
  | .created tx am =>
    let go (schema : Option Schema) : Prog Unit :=
      .call (.commitTransaction (txIn tx)) fun row =>
      .call (.upsertAccounts (accountRows schema row am)) fun _ => insert
    if log.schemaVersion ≠ "" then
      .call (.findSchema log.schemaVersion) fun r =>
        match r with
        | some sc => go (some sc)
        | none => .fail (.store .notFound)
    else go none
  | .reverted orig rev =>
    match orig.revertedAt with
    | none => .fail .panic   -- `*payload.RevertedTransaction.RevertedAt` on nil
    | some w =>
      .call (.revertTransaction orig.id (some w)) fun _ =>
      .call (.commitTransaction (txIn rev)) fun _ => insert
  | .savedMeta (.transaction id) m => .call (.updateTxMeta id m (some log.date)) fun _ => insert
  | .savedMeta (.account a) m => .call (.updateAccountsMeta [(a, m)] (some log.date)) fun _ => insert
  | .deletedMeta (.transaction id) key => .call (.deleteTxMeta id key (some log.date)) fun _ => insert
  | .deletedMeta (.account a) key => .call (.deleteAccountMeta a key) fun _ => insert

/-- Errors of `Import`. -/
inductive ImportErr where
  /-- `ErrImport`: ledger not in initializing state -/
  | notInitializing
  /-- `ErrImport`: "log <id> already exists" (id not above every existing / previous id) -/
  | alreadyExists (id : Nat)
  /-- importing log `id` failed with `e` -/
  | failed (id : Nat) (e : Err)
  deriving DecidableEq, Repr, Inhabited

/-- One log in its own SQL transaction. -/
def importOne (now : Time) (s : State) (log : Log) : State × Option Err :=
  match run now "t" [] (importLog log) { db := s.db, seq := s.seq } with
  | (.error e, st) => ({ s with seq := st.seq }, some e)
  | (.ok _, st) => ({ db := st.db, seq := st.seq }, none)

def importFrom (now : Time) : State → Option Nat → List Log → State × Option ImportErr
  | s, _, [] => (s, none)
  | s, last, l :: r =>
    if (match last with | some m => decide (l.id ≤ m) | none => false) then (s, some (.alreadyExists l.id))
    else match importOne now s l with
      | (s', some e) => (s', some (.failed l.id e))
      | (s', none) => importFrom now s' (some l.id) r

def maxLogId (d : Db) : Option Nat :=
  d.logs.foldl (fun m l => match m with
    | none => some l.id
    | some x => some (if x < l.id then l.id else x)) none

/-- `DefaultController.Import`: the stream must continue above the last log id. -/
def importLogs (now : Time) (s : State) (stream : List Log) : State × Option ImportErr :=
  importFrom now s (maxLogId s.db) stream

/-! ### the state tracker -/

/-- A ledger as the system layer sees it: `_system.ledgers.state` + the tables. -/
structure Ledger where
  state : State := {}
  inUse : Bool := false
  deriving DecidableEq, Repr, Inhabited

def maxTxId (d : Db) : Option Nat :=
  d.txs.foldl (fun m t => match m with
    | none => some t.id
    | some x => some (if x < t.id then t.id else x)) none

/-- `select setval(seq, (select max(id) …))` twice; `setval(seq, NULL)` is a no-op. -/
def resync (s : State) : State :=
  { s with seq := { tx := (match maxTxId s.db with | some m => m | none => s.seq.tx),
                    log := (match maxLogId s.db with | some m => m | none => s.seq.log) } }

/-- `controllerFacade.handleState` around a write: on an in-use ledger the write
    goes straight to the controller; otherwise an outer transaction flips the
    state, resynchronises both sequences (not transactional) and commits only
    when the write succeeds and is not a dry run. -/
def facadeWrite (strict : Bool) (l : Ledger) (op : Op) : Ledger × Resp :=
  if l.inUse then
    let (s, r) := step strict l.state op
    ({ l with state := s }, r)
  else
    let (s, r) := step strict (resync l.state) op
    if r.isError || op.dry then ({ state := { db := l.state.db, seq := s.seq }, inUse := false }, r)
    else ({ state := s, inUse := true }, r)

/-- `controllerFacade.Import`. -/
def facadeImport (now : Time) (l : Ledger) (stream : List Log) : Ledger × Option ImportErr :=
  if l.inUse then (l, some .notInitializing)
  else
    let (s, e) := importLogs now l.state stream
    ({ l with state := s }, e)

end Ledger.Ctrl
