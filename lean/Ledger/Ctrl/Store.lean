import Ledger.Ctrl.Types

/-!
Controller layer, part 2: the **store contract** as pure functions on `Db`.

Each function states what one method of the controller's `Store` interface does
to the tables (the Go reference implementation of exactly this contract is
/verif/harness/go/internal/verif/memstore; the SQL store is tied to the same
contract separately).  `now` is `transaction_date()` / `now()` of the enclosing
SQL transaction.  Sequences are threaded separately: `nextval` is evaluated
before any constraint is checked and is never rolled back.
-/
namespace Ledger.Ctrl
open Ledger.Base Ledger.Core

/-- Errors a store call can answer with. -/
inductive StoreErr where
  | notFound            -- postgres.ErrNotFound
  | referenceConflict   -- ErrTransactionReferenceConflict (transactions_reference)
  | ikConflict          -- ErrIdempotencyKeyConflict (logs_idempotency_key)
  | concurrentTx        -- ErrConcurrentTransaction (transactions_ledger: duplicate id)
  | constraint          -- any other unique violation (postgres.ErrConstraintsFailed)
  | injected            -- fault injection: generic error
  | deadlock            -- fault injection: postgres.ErrDeadlockDetected
  | canceled            -- fault injection: context cancelled
  deriving DecidableEq, Repr, Inhabited

/-! ### argument records (zero / nil Go values are `none`) -/

structure TxIn where
  id : Option Nat := none
  postings : List Posting
  metadata : Meta := []
  reference : String := ""
  timestamp : Option Time := none
  insertedAt : Option Time := none
  updatedAt : Option Time := none
  revertedAt : Option Time := none
  template : String := ""
  deriving DecidableEq, Repr, Inhabited

structure AccIn where
  address : String
  metadata : Meta := []
  firstUsage : Option Time := none
  insertionDate : Option Time := none
  updatedAt : Option Time := none
  defaults : Meta := []
  deriving DecidableEq, Repr, Inhabited

structure LogIn where
  id : Option Nat := none
  payload : Payload
  date : Option Time := none
  ik : String := ""
  ihash : String := ""
  schemaVersion : String := ""
  deriving DecidableEq, Repr, Inhabited

structure SchemaIn where
  version : String
  createdAt : Option Time := none
  chartRaw : String
  chart : List (String × Meta)
  templates : List String := []
  deriving DecidableEq, Repr, Inhabited

/-! ### accounts_volumes -/

def volOf (v : PCV) (k : Key) : Volumes :=
  match v.get? k with
  | some x => x
  | none => Volumes.zero

/-- `GetBalances`: `INSERT (0,0) ON CONFLICT DO NOTHING` + `SELECT … FOR UPDATE`. -/
def lockZero (v : PCV) (k : Key) : PCV :=
  match v.get? k with
  | some _ => v
  | none => v.insert k Volumes.zero

def getBalances (q : List Key) (d : Db) : Balances × Db :=
  let vols := q.foldl lockZero d.volumes
  (q.map (fun k => (k, (volOf vols k).balance)), { d with volumes := vols })

/-- `UpdateVolumes`: upsert adding input/output, returning the new totals. -/
def addVolumes (v : PCV) (e : Key × Volumes) : PCV := v.insert e.1 ((volOf v e.1).add e.2)

def updateVolumes (ups : PCV) (v : PCV) : PCV × PCV :=
  let v' := ups.foldl addVolumes v
  (ups.map (fun e => (e.1, volOf v' e.1)), v')

/-! ### transactions -/

/-- `UPDATE transactions SET … WHERE id = …`: `g` on every row with that id. -/
def Db.modifyTx (d : Db) (id : Nat) (g : Tx → Tx) : Db :=
  { d with txs := d.txs.map (fun x => if x.id = id then g x else x) }

/-- `CommitTransaction` = `UpdateVolumes` + `InsertTransaction`. -/
def commitTransaction (now : Time) (t : TxIn) (d : Db) (sq : Seqs) : Seqs × Except StoreErr (Tx × Db) :=
  let (pcv, vols) := updateVolumes (volumeUpdates t.postings) d.volumes
  let (id, sq') := match t.id with
    | some i => (i, sq)
    | none => (sq.tx + 1, { sq with tx := sq.tx + 1 })
  let ins := match t.insertedAt with | some x => x | none => now
  let row : Tx := {
    id := id, postings := t.postings, metadata := t.metadata, reference := t.reference,
    timestamp := (match t.timestamp with | some x => x | none => now),
    insertedAt := ins,
    updatedAt := (match t.updatedAt with | some x => x | none => ins),
    revertedAt := t.revertedAt, pcv := pcv, template := t.template }
  if d.txs.any (fun x => x.id = id) then (sq', .error .concurrentTx)
  else if t.reference ≠ "" ∧ d.txs.any (fun x => x.reference = t.reference) then (sq', .error .referenceConflict)
  else (sq', .ok (row, { d with volumes := vols, txs := d.txs ++ [row] }))

/-- `RevertTransaction(id, at)`: (row, modified). -/
def revertTransaction (now : Time) (id : Nat) (at_ : Option Time) (d : Db) : Except StoreErr ((Tx × Bool) × Db) :=
  match d.findTx id with
  | none => .error .notFound
  | some t =>
    match t.revertedAt with
    | some _ => .ok ((t, false), d)
    | none =>
      let w := match at_ with | some x => x | none => now
      let g : Tx → Tx := fun x => { x with revertedAt := some w, updatedAt := w }
      .ok ((g t, true), d.modifyTx id g)

/-- `UpdateTransactionMetadata(id, m, at)`:
    `UPDATE … SET metadata = metadata || m, updated_at … WHERE id = … AND NOT (metadata @> m)`. -/
def updateTxMeta (now : Time) (id : Nat) (m : Meta) (at_ : Option Time) (d : Db) : Except StoreErr ((Tx × Bool) × Db) :=
  match d.findTx id with
  | none => .error .notFound
  | some t =>
    let g : Tx → Tx := fun x =>
      if metaContains x.metadata m then x
      else { x with metadata := metaMerge x.metadata m, updatedAt := (match at_ with | some x => x | none => now) }
    .ok ((g t, !metaContains t.metadata m), d.modifyTx id g)

/-- `DeleteTransactionMetadata(id, key, at)`:
    `UPDATE … SET metadata = metadata - key, updated_at … WHERE id = … AND metadata -> key IS NOT NULL`. -/
def deleteTxMeta (now : Time) (id : Nat) (key : String) (at_ : Option Time) (d : Db) : Except StoreErr ((Tx × Bool) × Db) :=
  match d.findTx id with
  | none => .error .notFound
  | some t =>
    let g : Tx → Tx := fun x =>
      if x.metadata.contains key then
        { x with metadata := x.metadata.erase key, updatedAt := (match at_ with | some x => x | none => now) }
      else x
    .ok ((g t, t.metadata.contains key), d.modifyTx id g)

/-! ### accounts -/

/-- One row of the `UpsertAccounts` CTE.  Existing row: touched only when
    first_usage is lowered or the explicit metadata is not contained; chart
    defaults are not applied.  New row: `default || explicit`, NULL times replaced
    by `now`. -/
def upsertAccount (now : Time) (accounts : Map String Account) (r : AccIn) : Map String Account :=
  match accounts.get? r.address with
  | some a =>
    let lower := match r.firstUsage with | some f => decide (f < a.firstUsage) | none => false
    if lower || !metaContains a.metadata r.metadata then
      accounts.insert r.address
        { a with metadata := metaMerge a.metadata r.metadata,
                 firstUsage := (match r.firstUsage with
                                | some f => if f < a.firstUsage then f else a.firstUsage
                                | none => a.firstUsage),
                 updatedAt := (match r.updatedAt with | some x => x | none => now) }
    else accounts
  | none =>
    accounts.insert r.address
      { metadata := metaMerge r.defaults r.metadata,
        firstUsage := (match r.firstUsage with | some x => x | none => now),
        insertionDate := (match r.insertionDate with | some x => x | none => now),
        updatedAt := (match r.updatedAt with | some x => x | none => now) }

def upsertAccounts (now : Time) (rows : List AccIn) (d : Db) : Db :=
  { d with accounts := rows.foldl (upsertAccount now) d.accounts }

/-- One row of `UpdateAccountsMetadata(m, at)` (import path): insert with all
    three dates = `at`; on conflict merge, `updated_at = at`, first_usage lowered
    to `at` — only when the metadata is not already contained. -/
def updateAccountMeta (w : Time) (accounts : Map String Account) (e : String × Meta) : Map String Account :=
  match accounts.get? e.1 with
  | some a =>
    if metaContains a.metadata e.2 then accounts
    else accounts.insert e.1
      { a with metadata := metaMerge a.metadata e.2, updatedAt := w,
               firstUsage := if w < a.firstUsage then w else a.firstUsage }
  | none =>
    accounts.insert e.1 { metadata := metaMerge [] e.2, firstUsage := w, insertionDate := w, updatedAt := w }

def updateAccountsMeta (now : Time) (m : Map String Meta) (at_ : Option Time) (d : Db) : Db :=
  let w := match at_ with | some x => x | none => now
  { d with accounts := m.foldl (updateAccountMeta w) d.accounts }

/-- `DeleteAccountMetadata(address, key)`: `SET metadata = metadata - key, updated_at =
    transaction_date()`; no row, no error. -/
def deleteAccountMeta (now : Time) (address key : String) (d : Db) : Db :=
  match d.accounts.get? address with
  | some a => { d with accounts := d.accounts.insert address { a with metadata := a.metadata.erase key, updatedAt := now } }
  | none => d

/-! ### schemas -/

/-- `InsertSchema`: `none` = unique violation on (ledger, version)
    (`postgres.ErrConstraintsFailed`); the statement failed, nothing is written. -/
def insertSchema (now : Time) (s : SchemaIn) (d : Db) : Option Schema × Db :=
  if d.schemas.any (fun x => x.version = s.version) then (none, d)
  else
    let row : Schema := { version := s.version, createdAt := (match s.createdAt with | some x => x | none => now),
                          chartRaw := s.chartRaw, chart := s.chart, templates := s.templates }
    (some row, { d with schemas := d.schemas ++ [row] })

def findSchema (v : String) (d : Db) : Option Schema := d.schemas.find? (·.version == v)

/-- `ORDER BY created_at DESC LIMIT 1` (ties: the row inserted last). -/
def latestSchema : List Schema → Option Schema
  | [] => none
  | s :: r =>
    match latestSchema r with
    | none => some s
    | some b => if s.createdAt ≤ b.createdAt then some b else some s

def findLatestSchemaVersion (d : Db) : Option String := (latestSchema d.schemas).map (·.version)

/-! ### logs -/

/-- `InsertLog`: id from the sequence unless given, date defaults to `now`, unique
    idempotency key; a duplicate id is a unique violation, reported as an error
    (unreachable through the controller, which only inserts ids above every existing one). -/
def insertLog (now : Time) (l : LogIn) (d : Db) (sq : Seqs) : Seqs × Except StoreErr (Log × Db) :=
  let (id, sq') := match l.id with
    | some i => (i, sq)
    | none => (sq.log + 1, { sq with log := sq.log + 1 })
  let row : Log := { id := id, payload := l.payload, date := (match l.date with | some x => x | none => now),
                     ik := l.ik, ihash := l.ihash, schemaVersion := l.schemaVersion }
  if d.logs.any (fun x => x.id = id) then (sq', .error .constraint)
  else if l.ik ≠ "" ∧ d.logs.any (fun x => x.ik = l.ik) then (sq', .error .ikConflict)
  else (sq', .ok (row, { d with logs := d.logs ++ [row] }))

/-- `WHERE idempotency_key = ?`: an empty key is stored as NULL, which equals nothing. -/
def readLogWithIK (ik : String) (d : Db) : Option Log :=
  if ik = "" then none else d.logs.find? (·.ik == ik)

/-! ### the calls of the `Store` interface -/

inductive Call where
  | readLogIK (ik : String)
  | findSchema (v : String)
  | findLatestSchemaVersion
  | getBalances (q : List Key)
  | getAccount (address : String)
  | commitTransaction (t : TxIn)
  | upsertAccounts (rows : List AccIn)
  | revertTransaction (id : Nat) (at_ : Option Time)
  | updateTxMeta (id : Nat) (m : Meta) (at_ : Option Time)
  | deleteTxMeta (id : Nat) (key : String) (at_ : Option Time)
  | updateAccountsMeta (m : Map String Meta) (at_ : Option Time)
  | deleteAccountMeta (address key : String)
  | insertSchema (s : SchemaIn)
  | insertLog (l : LogIn)
  deriving Repr

/-- Result type of each call ("no rows" is a value where the controller looks at it). -/
@[reducible] def Call.Ret : Call → Type
  | .readLogIK _ => Option Log
  | .findSchema _ => Option Schema
  | .findLatestSchemaVersion => Option String
  | .getBalances _ => Balances
  | .getAccount _ => Option Account
  | .commitTransaction _ => Tx
  | .upsertAccounts _ => Unit
  | .revertTransaction _ _ => Tx × Bool
  | .updateTxMeta _ _ _ => Tx × Bool
  | .deleteTxMeta _ _ _ => Tx × Bool
  | .updateAccountsMeta _ _ => Unit
  | .deleteAccountMeta _ _ => Unit
  | .insertSchema _ => Option Schema
  | .insertLog _ => Log

/-- The contract: what a call does to the tables and the sequences. -/
def exec (now : Time) : (c : Call) → Db → Seqs → Seqs × Except StoreErr (c.Ret × Db)
  | .readLogIK ik, d, sq => (sq, .ok (readLogWithIK ik d, d))
  | .findSchema v, d, sq => (sq, .ok (findSchema v d, d))
  | .findLatestSchemaVersion, d, sq => (sq, .ok (findLatestSchemaVersion d, d))
  | .getBalances q, d, sq => (sq, .ok (getBalances q d))
  | .getAccount a, d, sq => (sq, .ok (d.accounts.get? a, d))
  | .commitTransaction t, d, sq => commitTransaction now t d sq
  | .upsertAccounts rows, d, sq => (sq, .ok ((), upsertAccounts now rows d))
  | .revertTransaction id w, d, sq => (sq, revertTransaction now id w d)
  | .updateTxMeta id m w, d, sq => (sq, updateTxMeta now id m w d)
  | .deleteTxMeta id k w, d, sq => (sq, deleteTxMeta now id k w d)
  | .updateAccountsMeta m w, d, sq => (sq, .ok ((), updateAccountsMeta now m w d))
  | .deleteAccountMeta a k, d, sq => (sq, .ok ((), deleteAccountMeta now a k d))
  | .insertSchema s, d, sq => (sq, .ok (insertSchema now s d))
  | .insertLog l, d, sq => insertLog now l d sq

/-- Method name as it appears in the trace. -/
def Call.name : Call → String
  | .readLogIK _ => "ReadLogWithIdempotencyKey"
  | .findSchema _ => "FindSchema"
  | .findLatestSchemaVersion => "FindLatestSchemaVersion"
  | .getBalances q => "GetBalances " ++ ",".intercalate (q.map (fun k => k.1 ++ "/" ++ k.2))
  | .getAccount a => "Accounts.GetOne " ++ a
  | .commitTransaction _ => "CommitTransaction"
  | .upsertAccounts _ => "UpsertAccounts"
  | .revertTransaction _ _ => "RevertTransaction"
  | .updateTxMeta _ _ _ => "UpdateTransactionMetadata"
  | .deleteTxMeta _ _ _ => "DeleteTransactionMetadata"
  | .updateAccountsMeta _ _ => "UpdateAccountsMetadata"
  | .deleteAccountMeta _ _ => "DeleteAccountMetadata"
  | .insertSchema _ => "InsertSchema"
  | .insertLog _ => "InsertLog"

def StoreErr.toString : StoreErr → String
  | .notFound => "not-found"
  | .referenceConflict => "reference-conflict"
  | .ikConflict => "ik-conflict"
  | .concurrentTx => "concurrent-transaction"
  | .constraint => "constraint"
  | .injected => "injected"
  | .deadlock => "deadlock"
  | .canceled => "canceled"

/-- Answers the trace reports with an error label although the controller looks
    at them as values: "no rows" (`!not-found`), duplicate schema (`!constraint`). -/
def Call.answerLabel : (c : Call) → c.Ret → String
  | .readLogIK _, r => if r.isNone then "not-found" else ""
  | .findSchema _, r => if r.isNone then "not-found" else ""
  | .getAccount _, r => if r.isNone then "not-found" else ""
  | .insertSchema _, r => if r.isNone then "constraint" else ""
  | _, _ => ""

end Ledger.Ctrl
