import Ledger.Ctrl.Store

/-!
Controller layer, part 3: controller code as a *program over store calls*
(free monad) and its runner.

A `Prog α` is the code that runs between `BeginTX` and `Commit`/`Rollback` on ONE
store handle (the transaction handle): every store call it makes is an explicit
`call` node, so "every write goes through the transaction handle" holds by
construction of the model — and is compared against the real code through the
trace (`handle method`) that the runner emits and memstore records.

The runner counts store calls (to inject a fault at the k-th one), threads the
tables and the sequences, and stops at the first failing call.
-/
namespace Ledger.Ctrl
open Ledger.Base Ledger.Core

/-- Controller-level errors (the response enum of the harness). -/
inductive Err where
  | store (e : StoreErr)
  | invalidIdempotencyInput
  | schemaNotFound
  | schemaNotSpecified
  | schemaValidation
  | schemaAlreadyExists
  | invalidSchema
  | alreadyReverted
  | insufficientFunds
  | metadataOverride
  | noPostings
  /-- an error of the Numscript runtime (oracle): its class -/
  | machine (kind : String)
  /-- injected COMMIT failure -/
  | commitFailed
  /-- the Go code panics (nil map entry in the non-forced revert check) -/
  | panic
  /-- the model's script oracle is missing / unreachable branch of the model -/
  | model (what : String)
  /-- the model's retry loop ran out of fuel (proved unreachable: `retryLoop_fuel_enough`) -/
  | outOfFuel
  deriving DecidableEq, Repr, Inhabited

def Err.toString : Err → String
  | .store e => e.toString
  | .invalidIdempotencyInput => "invalid-idempotency-input"
  | .schemaNotFound => "schema-not-found"
  | .schemaNotSpecified => "schema-not-specified"
  | .schemaValidation => "schema-validation"
  | .schemaAlreadyExists => "schema-already-exists"
  | .invalidSchema => "invalid-schema"
  | .alreadyReverted => "already-reverted"
  | .insufficientFunds => "insufficient-funds"
  | .metadataOverride => "metadata-override"
  | .noPostings => "no-postings"
  | .machine k => k
  | .commitFailed => "commit-failed"
  | .panic => "panic"
  | .model w => "model:" ++ w
  | .outOfFuel => "model:retry loop out of fuel"

inductive Prog (α : Type) where
  | pure : α → Prog α
  | fail : Err → Prog α
  | call : (c : Call) → (c.Ret → Prog α) → Prog α

namespace Prog

def bind {α β : Type} : Prog α → (α → Prog β) → Prog β
  | .pure a, f => f a
  | .fail e, _ => .fail e
  | .call c k, f => .call c (fun r => bind (k r) f)

instance : Monad Prog where
  pure := Prog.pure
  bind := Prog.bind

/-- One store call. -/
def op (c : Call) : Prog c.Ret := .call c .pure

end Prog

inductive FaultKind where
  | error | deadlock | cancel | ikConflict
  deriving DecidableEq, Repr, Inhabited

def FaultKind.err : FaultKind → StoreErr
  | .error => .injected
  | .deadlock => .deadlock
  | .cancel => .canceled
  | .ikConflict => .ikConflict

/-- Fail the `at`-th store call of the operation (1-based, counted over every
    call on any handle, `BeginTX` / `Commit` / `Rollback` included). -/
structure Fault where
  at_ : Nat
  kind : FaultKind
  deriving DecidableEq, Repr, Inhabited

/-- Runner state: the transaction's working tables, the (shared) sequences, the
    number of store calls made so far in this operation, the trace. -/
structure RunSt where
  db : Db
  seq : Seqs
  n : Nat := 0
  trace : List String := []
  deriving Repr, Inhabited

/-- A fault plan: any number of one-shot faults, each at its own call number
    (e.g. a deadlock in the first attempt and another one in the retried attempt). -/
abbrev Faults := List Fault

def fires (f : Faults) (n : Nat) : Option FaultKind :=
  match f.find? (fun x => x.at_ == n) with
  | some x => some x.kind
  | none => none

def traceEntry (h name err : String) : String :=
  h ++ " " ++ name ++ (if err = "" then "" else " !" ++ err)

/-- Run a program on handle `h`. -/
def run {α : Type} (now : Time) (h : String) (f : Faults) : Prog α → RunSt → Except Err α × RunSt
  | .pure a, st => (.ok a, st)
  | .fail e, st => (.error e, st)
  | .call c k, st =>
    let n := st.n + 1
    match fires f n with
    | some kind =>
      (.error (.store kind.err),
       { st with n := n, trace := st.trace ++ [traceEntry h c.name kind.err.toString] })
    | none =>
      match exec now c st.db st.seq with
      | (sq, .error e) =>
        (.error (.store e), { st with seq := sq, n := n, trace := st.trace ++ [traceEntry h c.name e.toString] })
      | (sq, .ok (r, d)) =>
        run now h f (k r)
          { db := d, seq := sq, n := n,
            trace := st.trace ++ [traceEntry h c.name (c.answerLabel r)] }

end Ledger.Ctrl
