import Ledger.Ctrl.Prog

/-!
Controller layer, part 4: the write operations of `DefaultController`
(/repo/internal/controller/ledger/controller_default.go) and the log processor
(/repo/internal/controller/ledger/log_process.go: `forgeLog`, `runLog`,
`forgeLogRetry`/`runTx`, `fetchLogWithIK`), following the Go control flow.

The Numscript runtime is modelled elsewhere: for a script-form create the
operation carries what the real runtime answered (`MachineObs`, an oracle), for a
postings-form create (the script `TxToScriptData` renders) its behaviour is
computed here (`postingsMachine`).
-/
namespace Ledger.Ctrl
open Ledger.Base Ledger.Core

/-- A store call made by the Numscript runtime. -/
inductive MCall where
  | balances (q : List Key)
  | account (address : String)
  deriving DecidableEq, Repr, Inhabited

/-- What the real runtime answered for one `Execute` (or `Parse` failure). -/
structure MachineObs where
  err : String := ""
  postings : List Posting := []
  txMeta : Meta := []
  accountMeta : Map String Meta := []
  calls : List MCall := []
  /-- the attempt (1 = first, 2… = retries) during which the runtime ran -/
  attempt : Nat := 1
  deriving DecidableEq, Repr, Inhabited

structure MachineResult where
  postings : List Posting
  txMeta : Meta
  accountMeta : Map String Meta
  deriving DecidableEq, Repr, Inhabited

/-- Request fields shared by both create forms. -/
structure CreateIn where
  timestamp : Option Time := none
  reference : String := ""
  metadata : Meta := []
  accountMeta : Option (Map String Meta) := none
  /-- `Input.Template` (script-form creates only) -/
  template : String := ""
  deriving DecidableEq, Repr, Inhabited

inductive OpKind where
  | createP (c : CreateIn) (postings : List Posting) (force : Bool)
  | createS (c : CreateIn) (obs : List MachineObs)
  | revert (id : Nat) (force atEffectiveDate : Bool) (m : Meta)
  | saveTxMeta (id : Nat) (m : Meta)
  | saveAccMeta (address : String) (m : Meta)
  | delTxMeta (id : Nat) (key : String)
  | delAccMeta (address : String) (key : String)
  /-- `chart = none`: `SchemaData` without chart; `templates`: ids of the transaction
      templates; `tplBad`: the templates are rejected (unknown runtime, or a script the
      compiler refuses — oracle) -/
  | insertSchema (version : String) (chart : Option (String × List (String × Meta)))
      (templates : List String) (tplBad : Bool)
  deriving DecidableEq, Repr, Inhabited

/-- `OUTPUT.NeedsSchema()` of the operation's payload type. -/
def OpKind.needsSchema : OpKind → Bool
  | .insertSchema .. => false
  | _ => true

/-- `Parameters[INPUT]` + the logical clock. `ihash` = `ComputeIdempotencyHash(Input)`
    (opaque here: equal inputs ⇔ equal hashes is the hash builder's concern). -/
structure Op where
  kind : OpKind
  now : Time
  dry : Bool := false
  ik : String := ""
  ihash : String := ""
  sv : String := ""
  deriving DecidableEq, Repr, Inhabited

/-! ### postings-form create: the script of `TxToScriptData` on the machine -/

/-- `Program.NeededBalances`: (source, asset) of every send whose source is not
    `@world`; none when every source allows an unbounded overdraft (`force`). -/
def neededBalances (ps : List Posting) (force : Bool) : List Key :=
  if force then [] else
  (ps.foldl (fun (m : Map Key Unit) p => if p.source = "world" then m else m.insert p.srcKey ()) []).keys

/-- One `send [asset amount] (source = s destination = d)`: a bounded source must
    cover a positive amount; tracked balances follow the postings. `none` =
    insufficient funds. -/
def fundStep (bal : Balances) (p : Posting) : Option Balances :=
  let credit (b : Balances) : Balances := if b.contains p.dstKey then b.adjust p.dstKey (· + p.amount) else b
  if p.source = "world" then some (credit bal)
  else match bal.get? p.srcKey with
    | none => some (credit bal)
    | some b => if 0 < p.amount ∧ b < p.amount then none
                else some (credit (bal.adjust p.srcKey (· - p.amount)))

def fundsOk : Balances → List Posting → Bool
  | _, [] => true
  | b, p :: ps => match fundStep b p with
    | none => false
    | some b' => fundsOk b' ps

def postingsMachine (ps : List Posting) (force : Bool) : Prog MachineResult :=
  let q := neededBalances ps force
  if q = [] then .pure { postings := ps, txMeta := [], accountMeta := [] }
  else .call (.getBalances q) fun bal =>
    if fundsOk bal ps then .pure { postings := ps, txMeta := [], accountMeta := [] }
    else .fail .insufficientFunds

/-! ### script-form create: replay of the oracle -/

def replayCalls : List MCall → Prog Unit
  | [] => .pure ()
  | .balances q :: r => .call (.getBalances q) fun _ => replayCalls r
  | .account a :: r => .call (.getAccount a) fun _ => replayCalls r

/-- The observation an attempt consumes: the one recorded during that attempt. -/
def pickObs (obs : List MachineObs) (attempt : Nat) : Option MachineObs :=
  obs.find? (fun o => o.attempt == attempt)

def scriptMachine (obs : List MachineObs) (attempt : Nat) : Prog MachineResult :=
  match pickObs obs attempt with
  | none => .fail (.model "no machine observation")
  | some o => Prog.bind (replayCalls o.calls) fun _ =>
    if o.err ≠ "" then .fail (.machine o.err)
    else .pure { postings := o.postings, txMeta := o.txMeta, accountMeta := o.accountMeta }

/-! ### `createTransaction` -/

/-- `for k, v := range Input.Metadata { if finalMetadata[k] != "" → ErrMetadataOverride }` -/
def metaOverride (machineMeta input : Meta) : Bool :=
  input.any fun e => match machineMeta.get? e.1 with
    | some v => v ≠ ""
    | none => false

/-- `accountMetadata[account][k] = v` for the request's account metadata. -/
def mergeAccountMeta (m : Map String Meta) (input : Option (Map String Meta)) : Map String Meta :=
  match input with
  | none => m
  | some inp => inp.foldl (fun acc e =>
      acc.insert e.1 (metaMerge (match acc.get? e.1 with | some x => x | none => []) e.2)) m

/-- `tx.InvolvedAccounts()` ∪ keys of the account metadata, sorted, deduplicated. -/
def accountsToUpsert (ps : List Posting) (am : Map String Meta) : List String :=
  ((am.foldl (fun (m : Map String Unit) e => m.insert e.1 ())
    (ps.foldl (fun (m : Map String Unit) p => (m.insert p.source ()).insert p.destination ()) []))).keys

/-- The chart's default metadata for `address` under the operation's schema (none: no defaults). -/
def defaultsOf (schema : Option Schema) (address : String) : Meta :=
  match schema with
  | some sc => (match sc.find address with | some d => d | none => [])
  | none => []

/-- `tx.AccountsWithDefaultMetadata(schema, accountMetadata)` -/
def accountRows (schema : Option Schema) (tx : Tx) (am : Map String Meta) : List AccIn :=
  (accountsToUpsert tx.postings am).map fun a =>
    { address := a,
      metadata := (match am.get? a with | some m => m | none => []),
      firstUsage := some tx.timestamp, insertionDate := some tx.insertedAt, updatedAt := some tx.insertedAt,
      defaults := defaultsOf schema a }

/-- The template rules at the head of `createTransaction`: on a schema with
    transaction templates a request without template is refused in strict mode
    (only logged in audit mode) and an unknown template is refused; a template on a
    schema without templates (or without schema) is refused. -/
def templateRefused (strict : Bool) (schema : Option Schema) (template : String) : Bool :=
  match schema with
  | some sc =>
    if sc.templates ≠ [] then
      if template = "" then strict else !sc.templates.contains template
    else template ≠ ""
  | none => template ≠ ""

def createBody (strict : Bool) (schema : Option Schema) (c : CreateIn) (machine : Prog MachineResult) : Prog Payload :=
  if templateRefused strict schema c.template then .fail .schemaValidation else
  Prog.bind machine fun r =>
  if r.postings = [] then .fail .noPostings
  else if metaOverride r.txMeta c.metadata then .fail .metadataOverride
  else
    let am := mergeAccountMeta r.accountMeta c.accountMeta
    .call (.commitTransaction { postings := r.postings, metadata := metaMerge r.txMeta c.metadata,
                                 timestamp := c.timestamp, reference := c.reference,
                                 template := c.template }) fun tx =>
    .call (.upsertAccounts (accountRows schema tx am)) fun _ =>
    .pure (.created tx am)

/-! ### `revertTransaction` -/

/-- First loop of the non-forced check: debit the source of every reversed
    posting; credit its destination when `balances[destination][asset]` exists
    (the destination is also a source of the reversed transaction in that asset).
    `none`: `balances[source][asset]` is missing — `x.Add` on a nil `*big.Int`
    panics (unreachable: the query is `InvolvedDestinations` of the original). -/
def revertDebit : Balances → List Posting → Option Balances
  | b, [] => some b
  | b, p :: ps =>
    match b.get? p.srcKey with
    | none => none
    | some _ =>
      let b1 := b.adjust p.srcKey (· - p.amount)
      revertDebit (if b1.contains p.dstKey then b1.adjust p.dstKey (· + p.amount) else b1) ps

def revertBody (id : Nat) (force aed : Bool) (m : Meta) : Prog Payload :=
  .call (.revertTransaction id none) fun r =>
  if !r.2 then .fail .alreadyReverted else
  let orig := r.1
  .call (.getBalances (involvedDestinations orig.postings)) fun bal =>
  let ps := reversePostings orig.postings
  let ts := if aed then some orig.timestamp else orig.revertedAt
  let check : Option Err :=
    if force then none else
    match revertDebit bal ps with
    | none => some .panic
    | some b => if anyOverdrawn b then some .insufficientFunds else none
  match check with
  | some e => .fail e
  | none =>
    .call (.commitTransaction { postings := ps, metadata := markReverts m id, timestamp := ts }) fun tx =>
    .pure (.reverted orig tx)

/-! ### metadata, schema -/

def saveAccMetaBody (schema : Option Schema) (address : String) (m : Meta) : Prog Payload :=
  .call (.upsertAccounts [{ address := address, metadata := m, defaults := defaultsOf schema address }]) fun _ =>
  .pure (.savedMeta (.account address) m)

/-- The function passed to `forgeLog` for each operation. -/
def body (strict : Bool) (kind : OpKind) (attempt : Nat) (schema : Option Schema) : Prog Payload :=
  match kind with
  | .createP c ps force => createBody strict schema c (postingsMachine ps force)
  | .createS c obs => createBody strict schema c (scriptMachine obs attempt)
  | .revert id force aed m => revertBody id force aed m
  | .saveTxMeta id m =>
    .call (.updateTxMeta id m none) fun _ => .pure (.savedMeta (.transaction id) m)
  | .saveAccMeta a m => saveAccMetaBody schema a m
  | .delTxMeta id key =>
    .call (.deleteTxMeta id key none) fun r =>
      if r.2 then .pure (.deletedMeta (.transaction id) key) else .fail (.store .notFound)
  | .delAccMeta a key =>
    .call (.deleteAccountMeta a key) fun _ => .pure (.deletedMeta (.account a) key)
  | .insertSchema version chart templates tplBad =>
    match chart with
    | none => .fail .invalidSchema
    | some (raw, table) =>
      if tplBad then .fail .invalidSchema else
      -- `store.InsertSchema`: a unique violation becomes ErrSchemaAlreadyExists
      .call (.insertSchema { version := version, chartRaw := raw, chart := table, templates := templates }) fun r =>
        match r with
        | some s => .pure (.insertedSchema s)
        | none => .fail .schemaAlreadyExists

/-- `log.ValidateWithSchema(schema)`: only created transactions are validated —
    every posting's source and destination must be accounts of the chart. -/
def validPayload (sc : Schema) : Payload → Bool
  | .created tx _ => tx.postings.all fun p => (sc.find p.source).isSome && (sc.find p.destination).isSome
  | _ => true

/-- First part of `runLog`: which schema the operation runs under. -/
def schemaPhase (strict : Bool) (kind : OpKind) (sv : String) : Prog (Option Schema) :=
  if sv ≠ "" then
    .call (.findSchema sv) fun r =>
      match r with
      | some sc => .pure (some sc)
      | none => .call .findLatestSchemaVersion fun _ => .fail .schemaNotFound
  else if kind.needsSchema then
    .call .findLatestSchemaVersion fun latest =>
      if latest.isSome && strict then .fail .schemaNotSpecified else .pure none
  else .pure none

/-- Last part of `runLog`: schema validation of the payload, then `InsertLog`. -/
def logPhase (strict : Bool) (ik ihash sv : String) (schema : Option Schema) (payload : Payload) : Prog Log :=
  let bad := match schema with
    | some sc => strict && !validPayload sc payload
    | none => false
  if bad then .fail .schemaValidation
  else .call (.insertLog { payload := payload, ik := ik, ihash := ihash, schemaVersion := sv }) .pure

/-- `runLog`: schema lookup, the operation's function, log creation and insertion. -/
def runLog (strict : Bool) (kind : OpKind) (ik ihash sv : String) (attempt : Nat) : Prog Log :=
  Prog.bind (schemaPhase strict kind sv) fun schema =>
  Prog.bind (body strict kind attempt schema) fun payload =>
  logPhase strict ik ihash sv schema payload

/-- `fetchLogWithIK` (only when an idempotency key is given). -/
def ikLookup (ik ihash : String) : Prog (Option Log) :=
  if ik = "" then .pure none
  else .call (.readLogIK ik) fun r =>
    match r with
    | none => .pure none
    | some log =>
      if log.ihash ≠ "" ∧ log.ihash ≠ ihash then .fail .invalidIdempotencyInput
      else .pure (some log)

/-! ### `forgeLog` -/

structure Resp where
  err : Option Err := none
  hit : Bool := false
  log : Option Log := none
  deriving DecidableEq, Repr, Inhabited

def Resp.isError (r : Resp) : Bool := r.err.isSome

structure Outcome where
  state : State
  resp : Resp
  trace : List String
  deriving Repr, Inhabited

/-- The context was cancelled by a fault at an earlier call. -/
def alreadyCanceled (f : Faults) (n : Nat) : Bool :=
  f.any fun x => decide (x.kind = .cancel ∧ x.at_ < n)

/-- The `Rollback` call: counted, its own failure is only logged. After a
    cancelled context the transaction is already gone (`sql.ErrTxDone`). -/
def rollbackEntry (h : String) (f : Faults) (n : Nat) : String :=
  if alreadyCanceled f n = true then traceEntry h "Rollback" "tx-done"
  else match fires f n with
    | some kind => traceEntry h "Rollback" kind.err.toString
    | none => traceEntry h "Rollback" ""

/-- Rolled back: tables as before, sequences as consumed. -/
def rolledBack (s : State) (st : RunSt) (h : String) (f : Faults) (resp : Resp) : Outcome :=
  { state := { s with seq := st.seq }, resp := resp,
    trace := st.trace ++ [rollbackEntry h f (st.n + 1)] }

/-- `Commit` (call number `st.n + 1`). -/
def commitOrFail (s : State) (st : RunSt) (h : String) (f : Faults) (commitFault : Bool) (log : Log) : Outcome :=
  match fires f (st.n + 1) with
  | some kind =>
    { state := { s with seq := st.seq }, resp := { err := some (.store kind.err) },
      trace := st.trace ++ [traceEntry h "Commit" kind.err.toString] }
  | none =>
    if commitFault then
      { state := { s with seq := st.seq }, resp := { err := some .commitFailed },
        trace := st.trace ++ [traceEntry h "Commit" "commit-failed"] }
    else
      { state := { db := st.db, seq := st.seq }, resp := { log := some log },
        trace := st.trace ++ [traceEntry h "Commit" ""] }

/-- A failed attempt: `Rollback`, except after a panic — there is no deferred
    Rollback, the transaction handle is simply abandoned. -/
def failedAttempt (s : State) (st : RunSt) (h : String) (f : Faults) (e : Err) : Outcome :=
  if e = .panic then { state := { s with seq := st.seq }, resp := { err := some .panic }, trace := st.trace }
  else rolledBack s st h f { err := some e }

/-- A successful attempt: `Rollback` for a dry run, `Commit` otherwise. -/
def finish (s : State) (st : RunSt) (h : String) (f : Faults) (commitFault dry : Bool) (log : Log) : Outcome :=
  if dry then rolledBack s st h f { log := some log } else commitOrFail s st h f commitFault log

/-- `recordedOutcome`: after an attempt carrying an idempotency key failed for a
    reason of its own, the key is looked up once more — on the PARENT (root) handle,
    i.e. in the committed tables — as store call number `n`: a log found answers the
    request (hit, or the input-mismatch error); not found, or a failing lookup, keeps
    the attempt's own error `o`. -/
def recordedOutcome (op : Op) (f : Faults) (s : State) (n : Nat) (o : Outcome) : Outcome :=
  if op.ik = "" then o else
  if alreadyCanceled f n = true then { o with trace := o.trace ++ [traceEntry "root" "ReadLogWithIdempotencyKey" "canceled"] }
  else match fires f n with
  | some kind =>
    { o with trace := o.trace ++ [traceEntry "root" "ReadLogWithIdempotencyKey" kind.err.toString] }
  | none =>
    match readLogWithIK op.ik s.db with
    | none => { o with trace := o.trace ++ [traceEntry "root" "ReadLogWithIdempotencyKey" "not-found"] }
    | some log =>
      if log.ihash ≠ "" ∧ log.ihash ≠ op.ihash then
        { o with resp := { err := some .invalidIdempotencyInput },
                 trace := o.trace ++ [traceEntry "root" "ReadLogWithIdempotencyKey" ""] }
      else
        { o with resp := { hit := true, log := some log },
                 trace := o.trace ++ [traceEntry "root" "ReadLogWithIdempotencyKey" ""] }

/-- A failed attempt followed by `recordedOutcome` (a panic skips both the Rollback and the lookup). -/
def failedThenRecorded (op : Op) (s : State) (st : RunSt) (h : String) (f : Faults) (e : Err) : Outcome :=
  if e = .panic then failedAttempt s st h f e
  else recordedOutcome op f s (st.n + 2) (failedAttempt s st h f e)

/-- Result of one `runTx` (an attempt of the retry loop): a final outcome, or an
    error the loop has to classify (with the sequences, call count and trace so far). -/
inductive TxResult where
  | done (o : Outcome)
  | failed (e : Err) (seq : Seqs) (n : Nat) (trace : List String)
  deriving Repr, Inhabited

/-- `runTx` on a fresh transaction `t<i>`: BeginTX, `runLog`, then Rollback (error /
    dry run) or Commit. Every failure — BeginTX and Commit included — is returned to
    the loop. -/
def runTx (strict : Bool) (op : Op) (f : Faults) (commitFault : Bool) (s : State) (i tx : Nat)
    (seq : Seqs) (n : Nat) (trace : List String) : TxResult :=
  let h := "t" ++ toString tx
  match fires f (n + 1) with
  | some kind => .failed (.store kind.err) seq (n + 1) (trace ++ [traceEntry "root" "BeginTX" kind.err.toString])
  | none =>
    match run op.now h f (runLog strict op.kind op.ik op.ihash op.sv i)
            { db := s.db, seq := seq, n := n + 1, trace := trace ++ ["root BeginTX"] } with
    | (.error e, st1) =>
      if e = .panic then .done { state := { s with seq := st1.seq }, resp := { err := some .panic }, trace := st1.trace }
      else .failed e st1.seq (st1.n + 1) (st1.trace ++ [rollbackEntry h f (st1.n + 1)])
    | (.ok log, st1) =>
      if op.dry then .done (rolledBack s st1 h f { log := some log })
      else match fires f (st1.n + 1) with
        | some kind =>
          .failed (.store kind.err) st1.seq (st1.n + 1) (st1.trace ++ [traceEntry h "Commit" kind.err.toString])
        | none =>
          if commitFault then
            .failed .commitFailed st1.seq (st1.n + 1) (st1.trace ++ [traceEntry h "Commit" "commit-failed"])
          else .done { state := { db := st1.db, seq := st1.seq }, resp := { log := some log },
                       trace := st1.trace ++ [traceEntry h "Commit" ""] }

/-- The `ErrIdempotencyKeyConflict` branch of the loop: the key is read again on
    the root handle (call `n`); the log must be there (otherwise the Go code panics
    with "incoherent error" — unreachable under the store contract, see
    `Ledger.Ctrl.conflict_log_found`). -/
def fetchAfterConflict (op : Op) (f : Faults) (s : State) (seq : Seqs) (n : Nat) (trace : List String) : Outcome :=
  let st : State := { s with seq := seq }
  if alreadyCanceled f n = true then
    { state := st, resp := { err := some (.store .canceled) },
      trace := trace ++ [traceEntry "root" "ReadLogWithIdempotencyKey" "canceled"] }
  else match fires f n with
  | some kind =>
    { state := st, resp := { err := some (.store kind.err) },
      trace := trace ++ [traceEntry "root" "ReadLogWithIdempotencyKey" kind.err.toString] }
  | none =>
    match readLogWithIK op.ik s.db with
    | none => { state := st, resp := { err := some .panic },
                trace := trace ++ [traceEntry "root" "ReadLogWithIdempotencyKey" "not-found"] }
    | some log =>
      if log.ihash ≠ "" ∧ log.ihash ≠ op.ihash then
        { state := st, resp := { err := some .invalidIdempotencyInput },
          trace := trace ++ [traceEntry "root" "ReadLogWithIdempotencyKey" ""] }
      else { state := st, resp := { hit := true, log := some log },
             trace := trace ++ [traceEntry "root" "ReadLogWithIdempotencyKey" ""] }

/-- `forgeLogRetry`: `runTx` again and again while it answers a deadlock; an
    idempotency-key conflict ends in the lookup above, any other failure in
    `recordedOutcome`. `fuel` bounds the model's recursion; one more than the number
    of planned faults is always enough (`Ledger.Ctrl.retryLoop_fuel_enough`: only an
    injected fault produces a deadlock, and each fires once). -/
def retryLoop (strict : Bool) (op : Op) (f : Faults) (commitFault : Bool) (s : State) :
    Nat → Nat → Nat → Seqs → Nat → List String → Outcome
  | 0, _, _, seq, _, trace =>
    { state := { s with seq := seq }, resp := { err := some .outOfFuel }, trace := trace }
  | fuel + 1, i, tx, seq, n, trace =>
    match runTx strict op f commitFault s i tx seq n trace with
    | .done o => o
    | .failed e seq' n' trace' =>
      if e = .store .deadlock then
        -- `i`: attempt number (what the runtime oracle is indexed by); `tx`: number of the
        -- transaction handle (a failed BeginTX opens none)
        retryLoop strict op f commitFault s fuel (i + 1) (if (fires f (n + 1)).isSome then tx else tx + 1) seq' n' trace'
      else if e = .store .ikConflict then fetchAfterConflict op f s seq' (n' + 1) trace'
      else recordedOutcome op f s (n' + 1)
        { state := { s with seq := seq' }, resp := { err := some e }, trace := trace' }

def forgeLog (strict : Bool) (op : Op) (f : Faults) (commitFault : Bool) (s : State) : Outcome :=
  match fires f 1 with
  | some kind =>
    { state := s, resp := { err := some (.store kind.err) }, trace := [traceEntry "root" "BeginTX" kind.err.toString] }
  | none =>
    match run op.now "t1" f (ikLookup op.ik op.ihash) { db := s.db, seq := s.seq, n := 1, trace := ["root BeginTX"] } with
    | (.error e, st1) => rolledBack s st1 "t1" f { err := some e }
    | (.ok (some log), st1) => rolledBack s st1 "t1" f { hit := true, log := some log }
    | (.ok none, st1) =>
      match run op.now "t1" f (runLog strict op.kind op.ik op.ihash op.sv 1) st1 with
      | (.error e, st2) =>
        if e = .store .deadlock ∨ e = .store .ikConflict then
          retryLoop strict op f commitFault s (f.length + 1) 2 2 st2.seq (st2.n + 1)
            (st2.trace ++ [rollbackEntry "t1" f (st2.n + 1)])
        else failedThenRecorded op s st2 "t1" f e
      | (.ok log, st2) => finish s st2 "t1" f commitFault op.dry log

/-- One write operation without faults. -/
def step (strict : Bool) (s : State) (op : Op) : State × Resp :=
  let o := forgeLog strict op [] false s
  (o.state, o.resp)

/-- One write operation under a fault plan (faults at given store calls, failing COMMIT). -/
def stepF (strict : Bool) (s : State) (op : Op) (f : Faults) (commitFault : Bool) : State × Resp :=
  let o := forgeLog strict op f commitFault s
  (o.state, o.resp)

/-- A sequential history. -/
def runHist (strict : Bool) (s : State) : List Op → State
  | [] => s
  | op :: r => runHist strict (step strict s op).1 r

end Ledger.Ctrl
