import Ledger.Ctrl.Controller
import Ledger.Ctrl.Spec
import Ledger.Spec.Accounts

/-!
Controller layer, part 8: the abstraction from the controller's store contract
(`Ledger.Ctrl.Store`) to the abstract reference store of `Ledger/Spec/Store.lean`
(`Spec.Store`: `accounts_volumes`, `transactions` with `post_commit_volumes`,
`accounts`; the `moves` table is not part of the controller's contract and is left
empty — statements about it stay at the Spec / SQL level).
-/
namespace Ledger.Ctrl
open Ledger.Base Ledger.Core

/-- A `transactions` row as the Spec sees it (`updated_at` and `template` dropped). -/
def absTx (t : Tx) : Spec.TxRow :=
  { tx := { id := t.id, postings := t.postings, timestamp := t.timestamp, insertedAt := t.insertedAt,
            reference := t.reference, metadata := t.metadata, revertedAt := t.revertedAt },
    pcv := t.pcv }

def absAccount (a : Account) : Spec.AccountRow :=
  { firstUsage := a.firstUsage, insertionDate := a.insertionDate, updatedAt := a.updatedAt, metadata := a.metadata }

/-- Tables + sequences of the controller's store as a `Spec.Store`: the next
    transaction id is the next value of the (gap-leaving) sequence. -/
def abs (s : State) : Spec.Store :=
  { accountsVolumes := s.db.volumes
    txs := s.db.txs.map absTx
    moves := []
    accounts := s.db.accounts.map fun e => (e.1, absAccount e.2)
    nextTxId := s.seq.tx + 1
    nextSeq := 1 }

/-- What `CommitTransaction(t)` asks of the Spec store: dates resolved with the
    transaction clock, accounts upserted separately (`upsertTransactionAccounts`). -/
def specTxIn (now : Time) (t : TxIn) : Spec.TxIn :=
  { postings := t.postings
    timestamp := (match t.timestamp with | some x => x | none => now)
    insertedAt := (match t.insertedAt with | some x => x | none => now)
    reference := t.reference, metadata := t.metadata, upsertAccounts := false }

/-- The transactions of the tables as the journal entries the Spec folds read. -/
def recsOf (d : Db) : List Spec.TxRec := d.txs.map fun t => (absTx t).tx

/-- `(first_usage, insertion_date)` of an account row, `none` when there is no row. -/
def datesOfRow (accounts : Map String Account) (a : String) : Option (Int × Int) :=
  (accounts.get? a).map fun r => (r.firstUsage, r.insertionDate)

/-- The Spec store operations on `accounts` a committed log stands for: a new
    transaction upserts its accounts (`upsertTransactionAccounts`), a revert does not, an
    account metadata save creates the account when absent; nothing else touches the
    dates of an account. -/
def opsOfLog (l : Log) : List Spec.StoreOp :=
  match l.payload with
  | .created tx am =>
    [.commit { postings := tx.postings, timestamp := tx.timestamp, insertedAt := tx.insertedAt,
               reference := tx.reference, metadata := tx.metadata, accountMetadata := am, upsertAccounts := true }]
  | .reverted _ rev =>
    [.commit { postings := rev.postings, timestamp := rev.timestamp, insertedAt := rev.insertedAt,
               reference := rev.reference, metadata := rev.metadata, upsertAccounts := false }]
  | .savedMeta (.account a) m => [.saveAccountMeta a l.date m]
  | _ => []

/-- The Spec store operations of a journal. -/
def specOpsOf (logs : List Log) : List Spec.StoreOp := logs.flatMap opsOfLog

end Ledger.Ctrl
