import Ledger.Ctrl.Import

/-!
Controller layer, part 6: when does replaying the journal (`Export` then
`Import`/`importLog` into an empty ledger) reproduce the tables?  `logSafe` is the
decidable condition, per committed log, that excludes exactly the known ways in
which `importLog` differs from the live write path (see `Ledger/Props/C08.lean`):

* account `SET_METADATA` that CREATES the account under a schema whose chart gives
  it default metadata (live: `UpsertAccounts` with defaults; replay:
  `UpdateAccountsMetadata`, no defaults);
* account `SET_METADATA` on an account whose `first_usage` lies after the log date
  (replay lowers `first_usage` to the log date);
* account `DELETE_METADATA` on an existing account (replay restamps `updated_at` with
  the import's `transaction_date()`).

`accounts_volumes` is compared as VALUES (DESIGN §3.0): a `(0,0)` row equals the
empty fold.  The live write path creates such rows when the Numscript runtime locks a
balance (`GetBalances`: `INSERT (0,0) ON CONFLICT DO NOTHING`) that no posting then
touches; `importLog` never locks.  `Db.norm` drops them on both sides.
-/
namespace Ledger.Ctrl
open Ledger.Base Ledger.Core

/-- `accounts_volumes` as values: `(0,0)` rows dropped. -/
def normVolumes (v : PCV) : PCV := v.filter fun e => e.2 ≠ Volumes.zero

/-- The tables, volumes up to zero rows. -/
def Db.norm (d : Db) : Db := { d with volumes := normVolumes d.volumes }

/-- `l`, committed on tables `d`, is replayed faithfully by `importLog`. -/
def logSafe (d : Db) (l : Log) : Bool :=
  match l.payload with
  | .savedMeta (.account a) m =>
    match d.accounts.get? a with
    | none =>
      decide (metaMerge (defaultsOf (if l.schemaVersion ≠ "" then findSchema l.schemaVersion d else none) a) m
                = metaMerge [] m)
    | some acc => metaContains acc.metadata m || !decide (l.date < acc.firstUsage)
  | .deletedMeta (.account a) _ => (d.accounts.get? a).isNone
  | _ => true

/-- Every log a history commits is safe (failed, dry-run and idempotent operations commit none). -/
def replaySafe (strict : Bool) : State → List Op → Bool
  | _, [] => true
  | s, op :: r =>
    ((step strict s op).1.db.logs.drop s.db.logs.length).all (logSafe s.db)
      && replaySafe strict (step strict s op).1 r

end Ledger.Ctrl
