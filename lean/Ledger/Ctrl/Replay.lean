import Ledger.Ctrl.Import

/-!
Controller layer, part 6: when does replaying the journal (`Export` then
`Import`/`importLog` into an empty ledger) reproduce the tables?  `logSafe` is the
decidable condition, per committed log, that excludes exactly the known ways in
which `importLog` differs from the live write path (see `Ledger/Props/C08.lean`):

* account `SET_METADATA` that CREATES the account under a schema whose chart gives
  it default metadata (live: `UpsertAccounts` with defaults; replay:
  `UpdateAccountsMetadata`, no defaults);
* account `SET_METADATA` on an account whose `first_usage` lies after the log date
  (replay lowers `first_usage` to the log date);
* account `DELETE_METADATA` on an existing account (replay restamps `updated_at` with
  the import's `transaction_date()`);
* a transaction whose Numscript run locked (`GetBalances`: `INSERT (0,0) ON CONFLICT
  DO NOTHING`) an `accounts_volumes` row that none of its postings touches: the live
  ledger keeps that zero row, the replay never creates it.
-/
namespace Ledger.Ctrl
open Ledger.Base Ledger.Core

/-- Every `accounts_volumes` row after the write existed before or is touched by the postings. -/
def volumesCovered (d d' : Db) (ps : List Posting) : Bool :=
  d'.volumes.keys.all fun k => d.volumes.contains k || (volumeUpdates ps).contains k

/-- `l`, committed on tables `d` with result `d'`, is replayed faithfully by `importLog`. -/
def logSafe (d d' : Db) (l : Log) : Bool :=
  match l.payload with
  | .created tx _ => volumesCovered d d' tx.postings
  | .reverted _ rev => volumesCovered d d' rev.postings
  | .savedMeta (.account a) m =>
    match d.accounts.get? a with
    | none =>
      decide (metaMerge (defaultsOf (if l.schemaVersion ≠ "" then findSchema l.schemaVersion d else none) a) m
                = metaMerge [] m)
    | some acc => metaContains acc.metadata m || !decide (l.date < acc.firstUsage)
  | .deletedMeta (.account a) _ => (d.accounts.get? a).isNone
  | _ => true

/-- Every log a history commits is safe (failed, dry-run and idempotent operations commit none). -/
def replaySafe (strict : Bool) : State → List Op → Bool
  | _, [] => true
  | s, op :: r =>
    ((step strict s op).1.db.logs.drop s.db.logs.length).all (logSafe s.db (step strict s op).1.db)
      && replaySafe strict (step strict s op).1 r

end Ledger.Ctrl
