import Ledger.Core.Revert

/-!
Controller layer, part 1: the observable state of one ledger and the values the
controller exchanges with its store (model of the rows behind
/repo/internal/controller/ledger/store.go's `Store` interface).

Times are microseconds since the epoch (`Int`); a Go zero `time.Time` / SQL NULL
is `none`.  Maps are `Ledger.Base.Map` (key-sorted association lists).
-/
namespace Ledger.Ctrl
open Ledger.Base Ledger.Core

abbrev Time := Int
abbrev Meta := Map String String

/-- jsonb `a @> d` on flat string maps. -/
def metaContains (a d : Meta) : Bool := d.all (fun e => a.get? e.1 == some e.2)

/-- jsonb `a || d` (right side wins). -/
def metaMerge (a d : Meta) : Meta := d.foldl (fun acc e => acc.insert e.1 e.2) a

/-- A row of `transactions` (also: the `Transaction` value inside log payloads). -/
structure Tx where
  id : Nat
  postings : List Posting
  metadata : Meta
  reference : String
  timestamp : Time
  insertedAt : Time
  updatedAt : Time
  revertedAt : Option Time := none
  pcv : PCV := []
  template : String := ""
  deriving DecidableEq, Repr, Inhabited

/-- A row of `accounts`. -/
structure Account where
  metadata : Meta
  firstUsage : Time
  insertionDate : Time
  updatedAt : Time
  deriving DecidableEq, Repr, Inhabited

/-- A row of `schemas`.  The chart of accounts is modelled elsewhere (C29/C30);
    here it is the table `address ↦ default metadata` of the addresses the chart
    accepts as accounts (`FindAccountSchema` succeeds), plus its canonical JSON
    (opaque, for equality of snapshots). -/
structure Schema where
  version : String
  createdAt : Time
  chartRaw : String
  chart : List (String × Meta)
  /-- ids of the transaction templates (`schema.Transactions`), sorted -/
  templates : List String := []
  deriving DecidableEq, Repr, Inhabited

/-- `chart.FindAccountSchema(address)` → default metadata. -/
def Schema.find (s : Schema) (address : String) : Option Meta := s.chart.lookup address

inductive Target where
  | account (address : String)
  | transaction (id : Nat)
  deriving DecidableEq, Repr, Inhabited

/-- `LogPayload`. -/
inductive Payload where
  | created (tx : Tx) (accountMeta : Map String Meta)
  | reverted (orig : Tx) (rev : Tx)
  | savedMeta (target : Target) (m : Meta)
  | deletedMeta (target : Target) (key : String)
  | insertedSchema (s : Schema)
  deriving DecidableEq, Repr, Inhabited

/-- `payload.NeedsSchema()` -/
def Payload.needsSchema : Payload → Bool
  | .insertedSchema _ => false
  | _ => true

/-- A row of `logs`. -/
structure Log where
  id : Nat
  payload : Payload
  date : Time
  ik : String := ""
  ihash : String := ""
  schemaVersion : String := ""
  deriving DecidableEq, Repr, Inhabited

/-- The tables of one ledger.  `txs`, `logs`, `schemas` in insertion order. -/
structure Db where
  txs : List Tx := []
  accounts : Map String Account := []
  volumes : PCV := []
  logs : List Log := []
  schemas : List Schema := []
  deriving DecidableEq, Repr, Inhabited

/-- The two per-ledger sequences: non-transactional (never rolled back). -/
structure Seqs where
  tx : Nat := 0
  log : Nat := 0
  deriving DecidableEq, Repr, Inhabited

/-- Committed state of a ledger. -/
structure State where
  db : Db := {}
  seq : Seqs := {}
  deriving DecidableEq, Repr, Inhabited

/-- Everything observable: the tables.  Sequences are the documented exception
    (a failed write may leave a gap). -/
def observe (s : State) : Db := s.db

def Db.findTx (d : Db) (id : Nat) : Option Tx := d.txs.find? (·.id == id)

end Ledger.Ctrl
