import Ledger.Machine.Resolve

/-!
Model of the Numscript INTERPRETER runtime, `github.com/formancehq/numscript` v0.0.24
(`internal/interpreter/*.go`), hand-written from the library source (core-only,
executable).  Part 1: values, expression evaluation, variable parsing, the funds
queue.

The model runs on the SAME abstract syntax as the machine model
(`Ledger.Machine.Ast`, the machine grammar).  The interpreter's own parser accepts a
larger language; the translation of the shared constructs is:

* `max X from S`                      ↦ `SourceCapped{From: S, Cap: X}`
* `@a` / `$v` as a source             ↦ `SourceAccount`
* `… allowing overdraft up to X`       ↦ `SourceOverdraft{Bounded: &X}`
* `… allowing unbounded overdraft`     ↦ `SourceOverdraft{Bounded: nil}`
* `{ S₁ … Sₙ }`                       ↦ `SourceInorder`, `{ p from S … }` ↦ `SourceAllotment`
* destinations                        ↦ `DestinationAccount / Inorder / Allotment`, `kept` ↦ `DestinationKept`
* a PORTION token `n/d`               ↦ `BinaryInfix{Div, NumberLiteral n, NumberLiteral d}` (base 10,
                                         no range check, division by zero is a run-time error)
* a PORTION token `x.y%`              ↦ `PercentageLiteral` (no range check)
* `set_tx_meta("k", e)`               ↦ `FnCall{set_tx_meta, [StringLiteral k, e]}` (same for `set_account_meta`)
* `meta(a, "k")`, `balance(a, c)`     ↦ `FnCall` in variable-origin position
* `save X from a`, `save [C *] from a` ↦ `SaveStatement`

Out of the shared language (only one side has them): `print`, `fail` (machine only: the
interpreter's parser rejects the text — modelled as the error kind `"Parse"`; so does it
reject a `send` whose `destination =` clause is written before `source =`, a text-only
variation the AST does not record: the driver handles it); `oneof`,
colours, scaling, `overdraft()`, `get_asset()`, `get_amount()`, account interpolation,
parentheses, unary minus, `/` on arbitrary numbers, mid-script function calls, feature
flags (interpreter only: no machine AST for them).

Values: the interpreter's `Value` types are mapped onto the machine model's `Value`
(`MonetaryInt ↦ number`, `Monetary ↦ monetary a (some v)`, `Portion ↦ portion (.specific r)`,
`String ↦ str`, `Asset ↦ asset`, `AccountAddress ↦ account`); `monetary _ none` and
`portion .remaining` never arise on the interpreter side.

Errors are the Go type name of the `InterpreterError` (compared with the real one by
the `interpmodel` workload).
-/
namespace Ledger.Interp
open Ledger.Machine

/-! ## Portion literals as the interpreter's parser reads them -/

/-- A PORTION token of the machine grammar read by the interpreter's parser:
    `x.y%` is a `PercentageLiteral` (`ToRatio`: digits / 10^(2+|y|)), `n/d` is the infix
    division of two base-10 number literals (`divOp`).  Neither is range-checked. -/
def litPortion (t : String) : Except String Value :=
  match matchPercent t.toList with
  | some (i, f) =>
    .ok (.portion (.specific ((digitsVal (i ++ f) : Int) / ((10 ^ (f.length + 2) : Nat) : Int))))
  | none =>
    match matchFraction t.toList with
    | some (n, d) =>
      if digitsVal d = 0 then .error "DivideByZero"
      else .ok (.portion (.specific ((digitsVal n : Int) / (digitsVal d : Int))))
    | none => .error "Parse"

/-! ## `evaluateExpr` -/

/-- `evaluateExpr` on the shared expression syntax.  `plusOp`/`subOp`: the left operand
    must be a monetary or a number, the right one must have the same type. -/
def evalExpr (env : Env) : Expr → Except String Value
  | .acct s => if validAccount s then .ok (.account s) else .error "InvalidAccountName"
  | .asset s => .ok (.asset s)
  | .num n => .ok (.number n)
  | .str s => .ok (.str s)
  | .portion t => litPortion t
  | .mon a n =>
    match evalExpr env a with
    | .ok (.asset s) => .ok (.monetary s (some n))
    | .ok _ => .error "TypeError"
    | .error e => .error e
  | .var x =>
    match env.lookup x with
    | some v => .ok v
    | none => .error "UnboundVariableErr"
  | .add l r =>
    match evalExpr env l with
    | .error e => .error e
    | .ok (.number x) =>
      match evalExpr env r with
      | .error e => .error e
      | .ok (.number y) => .ok (.number (x + y))
      | .ok _ => .error "TypeError"
    | .ok (.monetary a1 (some x)) =>
      match evalExpr env r with
      | .error e => .error e
      | .ok (.monetary a2 (some y)) =>
        if a1 ≠ a2 then .error "MismatchedCurrencyError" else .ok (.monetary a1 (some (x + y)))
      | .ok _ => .error "TypeError"
    | .ok _ => .error "TypeError"
  | .sub l r =>
    match evalExpr env l with
    | .error e => .error e
    | .ok (.number x) =>
      match evalExpr env r with
      | .error e => .error e
      | .ok (.number y) => .ok (.number (x - y))
      | .ok _ => .error "TypeError"
    | .ok (.monetary a1 (some x)) =>
      match evalExpr env r with
      | .error e => .error e
      | .ok (.monetary a2 (some y)) =>
        if a1 ≠ a2 then .error "MismatchedCurrencyError" else .ok (.monetary a1 (some (x - y)))
      | .ok _ => .error "TypeError"
    | .ok _ => .error "TypeError"

/-- `evaluateExprAs(…, expectAccount)`. -/
def evalAcct (env : Env) (e : Expr) : Except String String :=
  match evalExpr env e with
  | .ok (.account s) => .ok s
  | .ok _ => .error "TypeError"
  | .error x => .error x

/-- `evaluateExprAs(…, expectAsset)`. -/
def evalAsset (env : Env) (e : Expr) : Except String String :=
  match evalExpr env e with
  | .ok (.asset s) => .ok s
  | .ok _ => .error "TypeError"
  | .error x => .error x

/-- `evaluateExprAs(…, expectMonetary)`. -/
def evalMon (env : Env) (e : Expr) : Except String (String × Int) :=
  match evalExpr env e with
  | .ok (.monetary a (some v)) => .ok (a, v)
  | .ok _ => .error "TypeError"
  | .error x => .error x

/-- `evaluateExprAs(…, expectMonetaryOfAsset(asset))`. -/
def evalMonOf (env : Env) (asset : String) (e : Expr) : Except String Int :=
  match evalMon env e with
  | .error x => .error x
  | .ok (a, v) => if a ≠ asset then .error "MismatchedCurrencyError" else .ok v

/-! ## `parseVar` -/

/-- `strings.Split(s, " ")`. -/
def splitSpaces : List Char → List (List Char)
  | [] => [[]]
  | c :: cs =>
    if c = ' ' then [] :: splitSpaces cs
    else
      match splitSpaces cs with
      | w :: ws => (c :: w) :: ws
      | [] => [[c]]

/-- `parseVar(type_, rawValue)`.  Numbers and monetary amounts are read by
    `big.Int.SetString(s, 10)` (sign allowed, no JSON rules, negative monetary accepted). -/
def parseVar (ty : Ty) (raw : String) : Except String Value :=
  match ty with
  | .monetary =>
    match splitSpaces raw.toList with
    | [a, n] =>
      match parseBigInt10 n with
      | none => .error "InvalidNumberLiteral"
      | some v =>
        if validAsset (String.ofList a) then .ok (.monetary (String.ofList a) (some v))
        else .error "InvalidAsset"
    | _ => .error "InvalidMonetaryLiteral"
  | .account => if validAccount raw then .ok (.account raw) else .error "InvalidAccountName"
  | .portion =>
    match parsePortionGo raw with
    | .ok (.specific r) => .ok (.portion (.specific r))
    | _ => .error "BadPortionParsingErr"
  | .asset => if validAsset raw then .ok (.asset raw) else .error "InvalidAsset"
  | .number =>
    match parseBigInt10 raw.toList with
    | some v => .ok (.number v)
    | none => .error "InvalidNumberLiteral"
  | .string => .ok (.str raw)

/-- `ParsedVars[name] = value` (a Go map: a later declaration of the same name wins). -/
def setVar (env : Env) (name : String) (v : Value) : Env := (name, v) :: env

/-- `parseVars`: declarations in order.  Returns the variables and the (account, asset)
    pairs `balance()` origins fetched into `CachedBalances` (`getBalance`; `@world` is
    never queried and reads as 0). -/
def resolveVars (inp : Input) : List VarDecl → Env → List (String × String) →
    Except String (Env × List (String × String))
  | [], env, cached => .ok (env, cached)
  | d :: ds, env, cached =>
    match d.orig with
    | .none =>
      match inp.vars.lookup d.name with
      | none => .error "MissingVariableErr"
      | some raw =>
        match parseVar d.ty raw with
        | .error e => .error e
        | .ok v => resolveVars inp ds (setVar env d.name v) cached
    | .accountMeta accE key =>
      -- `handleFnCall`: both arguments are evaluated, then `meta()`
      match evalExpr env accE with
      | .error e => .error e
      | .ok av =>
        match av with
        | .account acc =>
          match inp.accountMeta acc with
          | none => .error "QueryMetadataError"
          | some md =>
            match md.lookup key with
            | none => .error "MetadataNotFound"
            | some raw =>
              match parseVar d.ty raw with
              | .error e => .error e
              | .ok v => resolveVars inp ds (setVar env d.name v) cached
        | _ => .error "TypeError"
    | .balance accE assetE =>
      match evalExpr env accE with
      | .error e => .error e
      | .ok av =>
        match evalExpr env assetE with
        | .error e => .error e
        | .ok cv =>
          match av, cv with
          | .account acc, .asset c =>
            if acc = "world" then
              resolveVars inp ds (setVar env d.name (.monetary c (some 0))) cached
            else if inp.balance acc c < 0 then .error "NegativeBalanceError"
            else resolveVars inp ds (setVar env d.name (.monetary c (some (inp.balance acc c))))
                   (cached ++ [(acc, c)])
          | _, _ => .error "TypeError"

/-! ## The funds queue (`funds_queue.go`)

A sender is a `Machine.Part` (name, amount); colours do not exist in the shared
language. -/

/-- `Pull` with `compactTop` fused into the loop: `a` is the head being compacted with
    what follows it (zero-amount followers are dropped, followers of the same name are
    merged), then compared with the required amount.  Returns (pulled, rest of the
    queue).  PRE: `req ≠ 0`. -/
def pullGo (a : Part) : List Part → Int → List Part × List Part
  | [], req =>
    if a.amount < req then ([a], [])
    else if req < a.amount then ([⟨a.account, req⟩], [⟨a.account, a.amount - req⟩])
    else ([⟨a.account, req⟩], [])
  | s :: rest, req =>
    if s.amount = 0 then pullGo a rest req
    else if a.account = s.account then pullGo ⟨a.account, a.amount + s.amount⟩ rest req
    else if a.amount < req then
      ((a :: (pullGo s rest (req - a.amount)).1), (pullGo s rest (req - a.amount)).2)
    else if req < a.amount then ([⟨a.account, req⟩], ⟨a.account, a.amount - req⟩ :: s :: rest)
    else ([⟨a.account, req⟩], s :: rest)

/-- `fundsQueue.PullAnything(required)`. -/
def pull (q : List Part) (req : Int) : List Part × List Part :=
  if req = 0 then ([], q)
  else
    match q with
    | [] => ([], [])
    | a :: rest => pullGo a rest req

end Ledger.Interp
