import Ledger.Interp.Run

/-!
The fragments of the shared language on which the agreement of the two runtime MODELS
is proved (`Ledger/Props/C26i.lean`), as decidable predicates (core-only: the
`interpmodel` handler evaluates them on every generated case, so the evidence says how
many cases the theorems cover, and names — by the first failing condition — the class of
every program outside them).

F2 = programs the machine compiles, made of `send` / `send [A *]` from plain, `max`,
in-order sources (bounded / unbounded overdraft, `@world`) and allotment sources, to account
/ in-order / allotment destinations (arbitrarily nested), `set_tx_meta`, `set_account_meta`,
any variable declarations; WITHOUT `kept`, `save`, `print`, `fail`, portion variables in
allotments; whose expressions evaluate (on the machine) to values of the expected kind, with
  * caps, overdraft bounds and destination maxima that are monetaries ≥ 0 in the
    asset of the statement (a negative one is refused by the machine but read as 0 by
    the interpreter; one in another asset is only looked at by the interpreter while
    funds remain);
  * no account VARIABLE holding `world` in source position (the machine refuses it,
    the interpreter treats it as `@world`);
  * portion literals both parsers read alike (`010/100` is octal for the machine);
  * allotments made of literal portions and `remaining` on which both runtimes compute the
    same shares, ≥ 0 and summing to 1 (`allotOK`; true of every allotment the compiler
    accepts, decided here instead of derived from the compiler's checks), and a sent amount
    ≥ 0 when the source is an allotment;
  * the two front ends resolving the input alike (`FrontAgree`: decided by running both —
    NOT proved in general: extraneous variables, number / monetary text formats and
    `balance(@world)` are handled differently by the two runtimes; PROVED for programs
    without variable declarations, `frontAgree_novars`).
F1 = the allotment-free programs of F2.
-/
namespace Ledger.Interp
open Ledger.Machine

/-! ## Literals -/

/-- A PORTION token both parsers read as the same number. -/
def portionLitOK (t : String) : Bool :=
  match parsePortionGo t, litPortion t with
  | .ok p, .ok (.portion q) => decide (p = q)
  | _, _ => false

/-- Account literals are well-formed addresses and portion literals are read alike. -/
def litsOK : Expr → Bool
  | .acct s => validAccount s
  | .portion t => portionLitOK t
  | .mon a _ => litsOK a
  | .add l r => litsOK l && litsOK r
  | .sub l r => litsOK l && litsOK r
  | _ => true

/-! ## Expressions of the expected kind (evaluated with the MACHINE's `evalExpr`) -/

/-- An account expression that evaluates to a well-formed address. -/
def okAcct (env : Env) (e : Expr) : Bool :=
  litsOK e &&
  match evalAccount env e with
  | .ok a => validAccount a
  | .error _ => false

/-- A cap / overdraft bound / destination maximum: a monetary ≥ 0 in `asset`. -/
def okCap (env : Env) (asset : String) (e : Expr) : Bool :=
  litsOK e &&
  match evalMonetary env e with
  | .ok (a, some v) => decide (a = asset) && decide (0 ≤ v)
  | _ => false

/-- Any expression that evaluates. -/
def okVal (env : Env) (e : Expr) : Bool :=
  litsOK e &&
  match Machine.evalExpr env e with
  | .ok _ => true
  | .error _ => false

def isNilSrc : SourceList → Bool
  | .nil => true
  | .cons _ _ => false

def odIsNone : Overdraft → Bool
  | .none => true
  | .upTo _ => false
  | .unbounded => false

/-- An overdraft bound (if any) is a cap. -/
def odWf (env : Env) (asset : String) : Overdraft → Bool
  | .none => true
  | .unbounded => true
  | .upTo x => okCap env asset x

def notWorld (env : Env) (e : Expr) : Bool :=
  match evalAccount env e with
  | .ok a => decide (a ≠ "world")
  | .error _ => false

/-- A source leaf: `@world` carries no overdraft clause; any other account expression does
    not evaluate to `world`, and its overdraft bound (if any) is a cap. -/
def leafWf (env : Env) (asset : String) (e : Expr) (od : Overdraft) : Bool :=
  okAcct env e && (if e.isWorld then odIsNone od else notWorld env e && odWf env asset od)

mutual
  def srcWf (env : Env) (asset : String) : Source → Bool
    | .account e od => leafWf env asset e od
    | .maxed m s => okCap env asset m && srcWf env asset s
    | .inorder ss => !isNilSrc ss && srcsWf env asset ss
  /-- every source but the last one is bounded (`fallback = none`) -/
  def srcsWf (env : Env) (asset : String) : SourceList → Bool
    | .nil => true
    | .cons s rest =>
      srcWf env asset s && srcsWf env asset rest && (isNilSrc rest || s.fallback.isNone)
end

/-! ### Allotments (F2) -/

def noVarPortions : List PortionE → Bool
  | [] => true
  | .var _ :: _ => false
  | _ :: r => noVarPortions r

/-- An allotment of F2: literal portions and `remaining` only, for which both runtimes
    compute the same list of shares (the machine's `NewAllotment`, the interpreter's
    `makeAllotment` fix-up of the last `remaining`), non-negative and summing to 1.  (The
    machine's compiler guarantees all of it for the allotments it accepts; here it is a
    decided condition, so that no inversion of the compiler's checks is needed.) -/
def allotOK (env : Env) (ps : List PortionE) : Bool :=
  noVarPortions ps &&
  match Machine.makeAllotment env ps, evalAllotItems env ps with
  | .ok a, .ok items =>
    decide (a = fillItems items (sumSome items)) &&
    !((lastRemaining items).isNone && decide (sumSome items ≠ 1)) &&
    decide (a.sum = 1) && a.all (fun p => decide (0 ≤ p))
  | _, _ => false

def allotSrcWf (env : Env) (asset : String) : AllotSrcList → Bool
  | .nil => true
  | .cons _ s rest => srcWf env asset s && allotSrcWf env asset rest

mutual
  def dstWf (env : Env) (asset : String) : Dest → Bool
    | .account e => okAcct env e
    | .inorder items remaining => inOrderWf env asset items && kdWf env asset remaining
    | .allot items => allotOK env items.portions && allotDstWf env asset items
  def kdWf (env : Env) (asset : String) : KeptOrDest → Bool
    | .kept => false
    | .to d => dstWf env asset d
  def inOrderWf (env : Env) (asset : String) : InOrderDstList → Bool
    | .nil => true
    | .cons m d rest => okCap env asset m && kdWf env asset d && inOrderWf env asset rest
  def allotDstWf (env : Env) (asset : String) : AllotDstList → Bool
    | .nil => true
    | .cons _ d rest => kdWf env asset d && allotDstWf env asset rest
end

/-- Statements of F2 (relative to the resolved variables). -/
def stmtWf (env : Env) : Stmt → Bool
  | .send mon (.src s) d =>
    litsOK mon &&
    (match evalMonetary env mon with
     | .ok (a, some _) => validAsset a && srcWf env a s && dstWf env a d
     | _ => false)
  | .send mon (.allot items) d =>
    litsOK mon &&
    (match evalMonetary env mon with
     | .ok (a, some v) =>
       decide (0 ≤ v) && validAsset a && allotOK env items.portions && allotSrcWf env a items &&
       dstWf env a d
     | _ => false)
  | .sendAll ae (.src s) d =>
    litsOK ae &&
    (match evalAssetE env ae with
     | .ok a => validAsset a && srcWf env a s && s.fallback.isNone && dstWf env a d
     | .error _ => false)
  | .setTxMeta _ e => okVal env e
  | .setAccountMeta acc _ e => okAcct env acc && okVal env e
  | _ => false

/-! ### Allotment-free (F1 ⊆ F2) -/

mutual
  def dstNoAllot : Dest → Bool
    | .account _ => true
    | .inorder items remaining => inOrderNoAllot items && kdNoAllot remaining
    | .allot _ => false
  def kdNoAllot : KeptOrDest → Bool
    | .kept => true
    | .to d => dstNoAllot d
  def inOrderNoAllot : InOrderDstList → Bool
    | .nil => true
    | .cons _ d rest => kdNoAllot d && inOrderNoAllot rest
end

def stmtNoAllot : Stmt → Bool
  | .send _ (.src _) d => dstNoAllot d
  | .send _ (.allot _) _ => false
  | .sendAll _ (.src _) d => dstNoAllot d
  | .sendAll _ (.allot _) _ => false
  | _ => true

/-! ## The bounded sources are tracked

`ResolveBalances` fetches the balance of every bounded source account of every `send`
(`NeededBalances`); the statements below say so for one statement, relative to the list
of tracked pairs. -/

def leavesIn (P : List (String × String)) (env : Env) (c : String) (es : List Expr) : Bool :=
  es.all fun e =>
    match evalAccount env e with
    | .ok a => P.contains (a, c)
    | .error _ => false

def stmtLeavesIn (P : List (String × String)) (env : Env) : Stmt → Bool
  | .send mon (.src s) _ =>
    (match evalMonetary env mon with
     | .ok (c, _) => leavesIn P env c s.neededAccts
     | .error _ => false)
  | .send mon (.allot items) _ =>
    (match evalMonetary env mon with
     | .ok (c, _) => leavesIn P env c items.neededAccts
     | .error _ => false)
  | .sendAll ae (.src s) _ =>
    (match evalAssetE env ae with
     | .ok c => leavesIn P env c s.neededAccts
     | .error _ => false)
  | _ => true

/-! ## The two front ends -/

/-- The interpreter's front end: variables, then the balance preload. -/
def front (s : Script) (inp : Input) : Except String (Env × List (String × String)) :=
  if s.stmts.any Stmt.unsupported then .error "Parse"
  else
    match resolveVars inp s.vars [] [] with
    | .error e => .error e
    | .ok (env, cached) =>
      match preload env s.stmts with
      | .error e => .error e
      | .ok queried => .ok (env, cached ++ queried)

/-- `monetary _ none` (the machine's unresolved `balance()` placeholder) does not occur. -/
def valGood : Value → Bool
  | .monetary _ none => false
  | _ => true

/-- Same variables on both sides, by lookup. -/
def envAgree (names : List String) (env ienv : Env) : Bool :=
  names.all (fun x => decide (env.lookup x = ienv.lookup x)) &&
  env.all (fun kv => names.contains kv.1 && valGood kv.2) &&
  ienv.all (fun kv => names.contains kv.1)

/-- The two front ends agree on the input: both fail, or they bind every variable to the
    same value, the interpreter has fetched every balance the machine tracks, and the
    machine tracks the balance of every bounded source of the statements of the fragment. -/
def FrontAgree (s : Script) (inp : Input) : Bool :=
  match prepare Cfg.fixed s inp, front s inp with
  | .error _, .error _ => true
  | .ok (env, _, pairs), .ok (ienv, queried) =>
    envAgree (s.vars.map (·.name)) env ienv &&
    pairs.all (fun p => p.1 = "world" || queried.contains p) &&
    s.stmts.all (fun st => !stmtWf env st || stmtLeavesIn pairs env st)
  | _, _ => false

/-! ## F2 and F1 -/

/-- The machine's compiler accepts the program. -/
def compiles (p : Script) : Bool :=
  match typecheck p with
  | .ok _ => true
  | .error _ => false

/-- First condition of F2 that fails (`""` = the program is in F2). -/
def whyNotF2 (s : Script) (inp : Input) : String :=
  match typecheck s with
  | .error _ => "machine-compile-error"
  | .ok _ =>
    if !FrontAgree s inp then "front-ends-differ"
    else
      match prepare Cfg.fixed s inp with
      | .error _ => ""   -- both front ends fail: in the fragment (both runtimes fail)
      | .ok (env, _, _) => if s.stmts.all (stmtWf env) then "" else "statement-outside-F2"

/-- F2 = F1 + allotment sources and destinations (literal portions, `remaining`). -/
def InF2 (s : Script) (inp : Input) : Bool := whyNotF2 s inp = ""

/-- F1 = the allotment-free programs of F2. -/
def InF1 (s : Script) (inp : Input) : Bool := InF2 s inp && s.stmts.all stmtNoAllot

end Ledger.Interp
