import Ledger.Interp.Base

/-!
Model of the Numscript INTERPRETER runtime (numscript v0.0.24), part 2: program state,
sources (`tryTakingUpTo`, `takeAll`), destinations (`sendTo`), allotments
(`makeAllotment`), `save`, metadata statements, balance preloading, `RunProgram`.
-/
namespace Ledger.Interp
open Ledger.Machine

/-- `programState` (the observable part). -/
structure IState where
  /-- `CachedBalances`: a pair that is not cached reads as 0 (`fetchBalance`) -/
  bal : String → String → Int
  /-- `fundsQueue` (it is NOT reset between statements) -/
  queue : List Part
  postings : List Posting
  txMeta : List (String × Value)
  /-- `SetAccountsMeta`: values are stored as strings -/
  accMeta : List (String × String × String)
  /-- `CurrentAsset` -/
  asset : String

def upd (bal : String → String → Int) (a c : String) (d : Int) : String → String → Int :=
  fun a' c' => if a' = a ∧ c' = c then bal a' c' + d else bal a' c'

/-- `Value.String()`. -/
def valStr : Value → String
  | .account s => s
  | .asset s => s
  | .number n => toString n
  | .str s => s
  | .monetary a v => a ++ " " ++ toString (nilAsZero v)
  | .portion .remaining => "remaining"
  | .portion (.specific r) => toString r.num ++ "/" ++ toString r.den

def KEPT : String := "<kept>"

/-- `pushSender`. -/
def pushSender (a : String) (amt : Int) (st : IState) : IState :=
  if amt = 0 then st
  else { st with bal := upd st.bal a st.asset (-amt), queue := st.queue ++ [⟨a, amt⟩] }

/-- The loop of `pushReceiver` over the pulled senders. -/
def receive (name : String) : List Part → IState → IState
  | [], st => st
  | s :: rest, st =>
    if name = KEPT then receive name rest { st with bal := upd st.bal s.account st.asset s.amount }
    else
      receive name rest
        { st with bal := upd st.bal name st.asset s.amount,
                  postings := st.postings ++ [⟨s.account, name, st.asset, s.amount⟩] }

/-- `pushReceiver`. -/
def pushReceiver (name : String) (amt : Int) (st : IState) : IState :=
  if amt = 0 then st
  else receive name (pull st.queue amt).1 { st with queue := (pull st.queue amt).2 }

/-! ## Sources -/

/-- `tryTakingFromAccount`: `od = none` is the unbounded overdraft (always for `@world`). -/
def fromAccount (env : Env) (e : Expr) (amt : Int) (od : Option Int) (st : IState) :
    Except String (Int × IState) :=
  match evalAcct env e with
  | .error x => .error x
  | .ok a =>
    let sent : Int :=
      if a = "world" then amt
      else
        match od with
        | none => amt
        | some o => min (max (st.bal a st.asset + o) 0) amt
    .ok (sent, pushSender a sent st)

mutual
  /-- `tryTakingUpTo`: pulls up to `amt`, returns what was pulled. -/
  def tryUpTo (env : Env) : Source → Int → IState → Except String (Int × IState)
    | .account e od, amt, st =>
      match od with
      | .none => fromAccount env e amt (some 0) st
      | .unbounded => fromAccount env e amt none st
      | .upTo x =>
        match evalMonOf env st.asset x with
        | .error err => .error err
        | .ok c => fromAccount env e amt (some (max c 0)) st
    | .maxed m s, amt, st =>
      match evalMonOf env st.asset m with
      | .error err => .error err
      | .ok c => tryUpTo env s (max (min amt c) 0) st
    | .inorder ss, amt, st =>
      match tryUpToList env ss amt st with
      | .error err => .error err
      | .ok (left, st1) => .ok (amt - left, st1)
  /-- The loop of `SourceInorder`: `left` is `totalLeft`. -/
  def tryUpToList (env : Env) : SourceList → Int → IState → Except String (Int × IState)
    | .nil, left, st => .ok (left, st)
    | .cons s rest, left, st =>
      match tryUpTo env s left st with
      | .error err => .error err
      | .ok (sent, st1) => tryUpToList env rest (left - sent) st1
end

/-- `tryTakingExact`. -/
def tryExact (env : Env) (s : Source) (amt : Int) (st : IState) : Except String IState :=
  match tryUpTo env s amt st with
  | .error err => .error err
  | .ok (sent, st1) => if sent ≠ amt then .error "MissingFundsErr" else .ok st1

/-- `takeAllFromAccount`. -/
def allFromAccount (env : Env) (e : Expr) (od : Option Int) (st : IState) :
    Except String (Int × IState) :=
  match evalAcct env e with
  | .error x => .error x
  | .ok a =>
    match od with
    | none => .error "InvalidUnboundedInSendAll"
    | some o =>
      if a = "world" then .error "InvalidUnboundedInSendAll"
      else .ok (max (st.bal a st.asset + o) 0, pushSender a (max (st.bal a st.asset + o) 0) st)

mutual
  /-- `takeAll` (`send [A *]`). -/
  def takeAll (env : Env) : Source → IState → Except String (Int × IState)
    | .account e od, st =>
      match od with
      | .none => allFromAccount env e (some 0) st
      | .unbounded => allFromAccount env e none st
      | .upTo x =>
        match evalMonOf env st.asset x with
        | .error err => .error err
        | .ok c => allFromAccount env e (some (max c 0)) st
    | .maxed m s, st =>
      match evalMonOf env st.asset m with
      | .error err => .error err
      | .ok c => tryUpTo env s (max c 0) st
    | .inorder ss, st => takeAllList env ss 0 st
  def takeAllList (env : Env) : SourceList → Int → IState → Except String (Int × IState)
    | .nil, tot, st => .ok (tot, st)
    | .cons s rest, tot, st =>
      match takeAll env s st with
      | .error err => .error err
      | .ok (sent, st1) => takeAllList env rest (tot + sent) st1
end

/-! ## Allotments -/

/-- One item of `makeAllotment`: `none` = `remaining`. -/
def evalAllotItem (env : Env) : PortionE → Except String (Option Rat)
  | .remaining => .ok none
  | .lit t =>
    match litPortion t with
    | .ok (.portion (.specific r)) => .ok (some r)
    | .ok _ => .error "TypeError"
    | .error e => .error e
  | .var x =>
    match env.lookup x with
    | some (.portion (.specific r)) => .ok (some r)
    | some _ => .error "TypeError"
    | none => .error "UnboundVariableErr"

def evalAllotItems (env : Env) : List PortionE → Except String (List (Option Rat))
  | [] => .ok []
  | p :: ps =>
    match evalAllotItem env p with
    | .error e => .error e
    | .ok v =>
      match evalAllotItems env ps with
      | .error e => .error e
      | .ok vs => .ok (v :: vs)

def sumSome : List (Option Rat) → Rat
  | [] => 0
  | none :: r => sumSome r
  | some x :: r => x + sumSome r

/-- Index of the LAST `remaining` (`remainingAllotmentIndex`). -/
def lastRemaining (items : List (Option Rat)) : Option Nat :=
  (items.zipIdx.filter fun x => x.1.isNone).getLast?.map (·.2)

/-- The portions after the `remaining` fix-up: an earlier `remaining` stays 0. -/
def fillItems (items : List (Option Rat)) (total : Rat) : List Rat :=
  items.zipIdx.map fun x =>
    match x.1 with
    | some r => r
    | none => if lastRemaining items = some x.2 then 1 - total else 0

/-- `makeAllotment(monetary, items)`: no check that the portions stay within 100 % when a
    `remaining` is present (the remaining share can be negative). -/
def makeAllotment (env : Env) (amt : Int) (ps : List PortionE) : Except String (List Int) :=
  match evalAllotItems env ps with
  | .error e => .error e
  | .ok items =>
    let total := sumSome items
    if (lastRemaining items).isNone ∧ total ≠ 1 then .error "InvalidAllotmentSum"
    else
      let parts := (fillItems items total).map (floorPart amt)
      .ok (distribute parts (amt - parts.sum))

/-- `SourceAllotment` in `tryTakingUpTo`: `tryTakingExact` of every share. -/
def takeAllot (env : Env) : AllotSrcList → List Int → IState → Except String IState
  | .nil, _, st => .ok st
  | .cons _ _ _, [], _ => .error "Internal:allotment-length"
  | .cons _ s rest, p :: ps, st =>
    match tryExact env s p st with
    | .error err => .error err
    | .ok st1 => takeAllot env rest ps st1

/-! ## Destinations -/

mutual
  /-- `sendTo`. -/
  def sendTo (env : Env) : Dest → Int → IState → Except String IState
    | .account e, amt, st =>
      match evalAcct env e with
      | .error err => .error err
      | .ok a => .ok (pushReceiver a amt st)
    | .inorder items remaining, amt, st =>
      match sendInOrder env items amt st with
      | .error err => .error err
      | .ok (left, st1) =>
        -- `handler(destination.Remaining, remainingAmount)`
        if left = 0 then .ok st1 else sendKD env remaining left st1
    | .allot items, amt, st =>
      match makeAllotment env amt items.portions with
      | .error err => .error err
      | .ok parts => sendAllot env items parts st
  /-- `sendToKeptOrDest`. -/
  def sendKD (env : Env) : KeptOrDest → Int → IState → Except String IState
    | .kept, amt, st => .ok (pushReceiver KEPT amt st)
    | .to d, amt, st => sendTo env d amt st
  /-- The clause loop of `DestinationInorder`: `left` is `remainingAmount`.  The cap is
      evaluated before the `remainingAmount == 0 → break` test. -/
  def sendInOrder (env : Env) : InOrderDstList → Int → IState → Except String (Int × IState)
    | .nil, left, st => .ok (left, st)
    | .cons m d rest, left, st =>
      match evalMonOf env st.asset m with
      | .error err => .error err
      | .ok c =>
        if left = 0 then .ok (left, st)
        else if max (min c left) 0 = 0 then sendInOrder env rest left st
        else
          match sendKD env d (max (min c left) 0) st with
          | .error err => .error err
          | .ok st1 => sendInOrder env rest (left - max (min c left) 0) st1
  /-- The item loop of `DestinationAllotment`. -/
  def sendAllot (env : Env) : AllotDstList → List Int → IState → Except String IState
    | .nil, _, st => .ok st
    | .cons _ _ _, [], _ => .error "Internal:allotment-length"
    | .cons _ d rest, p :: ps, st =>
      match sendKD env d p st with
      | .error err => .error err
      | .ok st1 => sendAllot env rest ps st1
end

/-! ## Statements -/

/-- `runStatement`.  `print` and `fail` do not exist in the interpreter's grammar. -/
def evalStmt (env : Env) : Stmt → IState → Except String IState
  | .print _, _ => .error "Parse"
  | .fail, _ => .error "Parse"
  | .setTxMeta k e, st =>
    match evalExpr env e with
    | .error err => .error err
    | .ok v => .ok { st with txMeta := setMeta st.txMeta k v }
  | .setAccountMeta acc k e, st =>
    -- `evaluateExpressions(args)`: account, key, value in order; then `expectAccount`
    match evalExpr env acc with
    | .error err => .error err
    | .ok av =>
      match evalExpr env e with
      | .error err => .error err
      | .ok v =>
        match av with
        | .account a =>
          .ok { st with accMeta := (st.accMeta.filter (fun x => ¬ (x.1 = a ∧ x.2.1 = k))) ++ [(a, k, valStr v)] }
        | _ => .error "TypeError"
  | .save mon acc, st =>
    match evalMon env mon with
    | .error err => .error err
    | .ok (asset, amt) =>
      match evalAcct env acc with
      | .error err => .error err
      | .ok a =>
        if amt < 0 then .error "NegativeAmountErr"
        else .ok { st with bal := fun a' c' =>
                     if a' = a ∧ c' = asset then max (st.bal a asset - amt) 0 else st.bal a' c' }
  | .saveAll assetE acc, st =>
    match evalAsset env assetE with
    | .error err => .error err
    | .ok asset =>
      match evalAcct env acc with
      | .error err => .error err
      | .ok a =>
        .ok { st with bal := fun a' c' =>
                if a' = a ∧ c' = asset then (if 0 < st.bal a asset then 0 else st.bal a asset) else st.bal a' c' }
  | .send mon (.src s) dst, st =>
    match evalMon env mon with
    | .error err => .error err
    | .ok (asset, amt) =>
      if amt < 0 then .error "NegativeAmountErr"
      else
        match tryExact env s amt { st with asset := asset } with
        | .error err => .error err
        | .ok st1 => sendTo env dst amt st1
  | .send mon (.allot items) dst, st =>
    match evalMon env mon with
    | .error err => .error err
    | .ok (asset, amt) =>
      if amt < 0 then .error "NegativeAmountErr"
      else
        match makeAllotment env amt items.portions with
        | .error err => .error err
        | .ok parts =>
          match takeAllot env items parts { st with asset := asset } with
          | .error err => .error err
          | .ok st1 => sendTo env dst amt st1
  | .sendAll assetE (.src s) dst, st =>
    match evalAsset env assetE with
    | .error err => .error err
    | .ok asset =>
      match takeAll env s { st with asset := asset } with
      | .error err => .error err
      | .ok (sent, st1) => sendTo env dst sent st1
  | .sendAll assetE (.allot _) _, _ =>
    match evalAsset env assetE with
    | .error err => .error err
    | .ok _ => .error "InvalidAllotmentInSendAll"

def runStmts (env : Env) : List Stmt → IState → Except String IState
  | [], st => .ok st
  | s :: ss, st =>
    match evalStmt env s st with
    | .error err => .error err
    | .ok st1 => runStmts env ss st1

/-! ## Balance preloading (`batch_balances_query.go`) -/

/-- `batchQuery`: `@world` is never queried. -/
def batch (a c : String) : List (String × String) := if a = "world" then [] else [(a, c)]

mutual
  /-- `findBalancesQueries`: an unbounded-overdraft source is skipped WITHOUT evaluating
      its account; the bound of a bounded one is not evaluated here. -/
  def srcQueries (env : Env) (asset : String) : Source → Except String (List (String × String))
    | .account e od =>
      match od with
      | .unbounded => .ok []
      | _ =>
        match evalAcct env e with
        | .error err => .error err
        | .ok a => .ok (batch a asset)
    | .maxed _ s => srcQueries env asset s
    | .inorder ss => srcsQueries env asset ss
  def srcsQueries (env : Env) (asset : String) : SourceList → Except String (List (String × String))
    | .nil => .ok []
    | .cons s rest =>
      match srcQueries env asset s with
      | .error err => .error err
      | .ok q =>
        match srcsQueries env asset rest with
        | .error err => .error err
        | .ok r => .ok (q ++ r)
end

def allotQueries (env : Env) (asset : String) : AllotSrcList → Except String (List (String × String))
  | .nil => .ok []
  | .cons _ s rest =>
    match srcQueries env asset s with
    | .error err => .error err
    | .ok q =>
      match allotQueries env asset rest with
      | .error err => .error err
      | .ok r => .ok (q ++ r)

def vsrcQueries (env : Env) (asset : String) : VSource → Except String (List (String × String))
  | .src s => srcQueries env asset s
  | .allot items => allotQueries env asset items

/-- `findBalancesQueriesInStatement`. -/
def stmtQueries (env : Env) : Stmt → Except String (List (String × String))
  | .print _ => .error "Parse"
  | .fail => .error "Parse"
  | .setTxMeta _ _ => .ok []
  | .setAccountMeta _ _ _ => .ok []
  | .save mon acc =>
    match evalMon env mon with
    | .error err => .error err
    | .ok (asset, _) =>
      match evalAcct env acc with
      | .error err => .error err
      | .ok a => .ok (batch a asset)
  | .saveAll assetE acc =>
    match evalAsset env assetE with
    | .error err => .error err
    | .ok asset =>
      match evalAcct env acc with
      | .error err => .error err
      | .ok a => .ok (batch a asset)
  | .send mon src _ =>
    match evalMon env mon with
    | .error err => .error err
    | .ok (asset, _) => vsrcQueries env asset src
  | .sendAll assetE src _ =>
    match evalAsset env assetE with
    | .error err => .error err
    | .ok asset => vsrcQueries env asset src

def preload (env : Env) : List Stmt → Except String (List (String × String))
  | [] => .ok []
  | s :: ss =>
    match stmtQueries env s with
    | .error err => .error err
    | .ok q =>
      match preload env ss with
      | .error err => .error err
      | .ok r => .ok (q ++ r)

/-! ## `RunProgram` -/

structure Result where
  postings : List Posting
  txMeta : List (String × Value)
  accMeta : List (String × String × String)
  final : IState

/-- `CachedBalances` after the preload: the store's value for a queried pair, else 0. -/
def initBal (inp : Input) (queried : List (String × String)) : String → String → Int :=
  fun a c => if queried.any (fun p => p.1 = a ∧ p.2 = c) then inp.balance a c else 0

def initState (inp : Input) (queried : List (String × String)) : IState :=
  { bal := initBal inp queried, queue := [], postings := [], txMeta := [], accMeta := [], asset := "" }

/-- `checkPostingInvariants`. -/
def badPosting (p : Posting) : Bool :=
  p.amount < 0 || !validAsset p.asset || !validAccount p.source || !validAccount p.destination

/-- The parser of the interpreter rejects the text of these statements. -/
def Stmt.unsupported : Stmt → Bool
  | .print _ => true
  | .fail => true
  | _ => false

/-- The end of `RunProgram`: `checkPostingInvariants` on every posting, then the result. -/
def finish (r : Except String IState) : Except String Result :=
  match r with
  | .error e => .error e
  | .ok st =>
    if st.postings.any badPosting then .error "InternalError"
    else .ok { postings := st.postings, txMeta := st.txMeta, accMeta := st.accMeta, final := st }

/-- `InterpreterNumscriptParser.Parse` + `DefaultInterpreterMachineAdapter.Execute`
    (`RunProgram`): variables, balance preload, statements, posting invariants. -/
def run (s : Script) (inp : Input) : Except String Result :=
  if s.stmts.any Stmt.unsupported then .error "Parse"
  else
    match resolveVars inp s.vars [] [] with
    | .error e => .error e
    | .ok (env, cached) =>
      match preload env s.stmts with
      | .error e => .error e
      | .ok queried => finish (runStmts env s.stmts (initState inp (cached ++ queried)))

end Ledger.Interp
