import Ledger.Query.Filter
import Ledger.Query.Date

/-!
Filter templates (core-only, executable).

Model of `/repo/internal/queries/substitution.go` (`ParseTemplate`,
`ReplaceVariables`, `jsonToString`), `filter_template.go`
(`ResolveFilterTemplate`, `resolveFilter`, `resolveValue`, `extractVariable`),
`variables.go` (`validateValueType`) and `schema.go` (`GetFieldType`).

`ParseTemplate` walks the *bytes* of the string and copies every literal byte
verbatim (fix `36e323f`).  `$`, `{`, `}` and identifier bytes are ASCII, so they
never split a multi-byte sequence: the result is the code-point reading of the
template (`units := codePoints`).  Before the fix the code appended `string(b)` —
the UTF-8 encoding of the *code point* `b` — for every literal byte, re-encoding
non-ASCII literals (`é` = C3 A9 became `Ã©`): `units := utf8Bytes`, kept as
`resolveTemplatePreFix`.
-/
namespace Ledger.Query

-- ---------------------------------------------------------------------------
-- ParseTemplate
-- ---------------------------------------------------------------------------

inductive Piece
  | lit (s : List Char)
  | var (name : String)
  deriving DecidableEq, Repr

inductive TErr
  /-- `ParsingError`: expected a lowercase char / `}` -/
  | syntax_
  | missingVar
  | varKind        -- jsonToString: unexpected variable type
  | decimals       -- jsonToString: numbers with decimals are not allowed
  | notVarRef      -- extractVariableName: expected a "${variable}" string
  | varType        -- extractVariable: cannot use variable as type
  | notInteger
  | fieldType      -- resolveValue: unexpected FieldType (un-indexed map)
  | expectedArray
  | existsNonMap
  | fieldName | unknownField | indexing
  | invalidVar     -- call variable of the wrong type
  | unknownResource
  deriving DecidableEq, Repr

def TErr.toString : TErr → String
  | .syntax_ => "template-syntax" | .missingVar => "missing-var" | .varKind => "var-kind"
  | .decimals => "decimals" | .notVarRef => "not-a-var-ref" | .varType => "var-type"
  | .notInteger => "not-integer" | .fieldType => "field-type" | .expectedArray => "expected-array"
  | .existsNonMap => "exists-non-map" | .fieldName => "field-name"
  | .unknownField => "unknown-field" | .indexing => "indexing" | .invalidVar => "invalid-var"
  | .unknownResource => "unknown-resource"

def isVarHead (b : Nat) : Bool := 97 ≤ b && b ≤ 122
def isVarTail (b : Nat) : Bool := isVarHead b || (48 ≤ b && b ≤ 57) || b == 95

/-- `parseVarIdent`: one lowercase letter, then letters / digits / `_`. -/
def parseIdent (bs : List Nat) : Except TErr (String × List Nat) :=
  match bs with
  | b :: rest =>
    if isVarHead b then
      let tl := rest.takeWhile isVarTail
      .ok (String.ofList ((b :: tl).map Char.ofNat), rest.dropWhile isVarTail)
    else .error .syntax_
  | [] => .error .syntax_

/-- `parseSimpleVar` (after the `$`): `{ident}` or a bare `ident`. -/
def parseVar (bs : List Nat) : Except TErr (String × List Nat) :=
  match bs with
  | 123 :: rest =>
    match parseIdent rest with
    | .error e => .error e
    | .ok (name, 125 :: rest') => .ok (name, rest')
    | .ok _ => .error .syntax_
  | _ => parseIdent bs

/-- `ParseTemplate`, as the ordered list of pieces.  (The Go function returns the
    literals and the variable names in two slices, pushing the current literal —
    even when empty — before each variable; `ReplaceVariables` re-interleaves them
    in the same order, so only the order of pieces matters.) `fuel` bounds the
    number of loop iterations (one per consumed `$` or literal byte). -/
def parseTemplateAux : Nat → List Nat → List Char → Except TErr (List Piece)
  | 0, _, _ => .ok []
  | _ + 1, [], cur => .ok (if cur.isEmpty then [] else [.lit cur.reverse])
  | fuel + 1, b :: rest, cur =>
    if b == 36 then
      match parseVar rest with
      | .error e => .error e
      | .ok (name, rest') =>
        match parseTemplateAux fuel rest' [] with
        | .error e => .error e
        | .ok ps => .ok (.lit cur.reverse :: .var name :: ps)
    else parseTemplateAux fuel rest (Char.ofNat b :: cur)

/-- Pre-fix reading: each UTF-8 byte becomes the code point of the same number. -/
def utf8Bytes (s : String) : List Nat := s.toUTF8.toList.map (·.toNat)

/-- The code (and the specification reading): literals are kept as they are, i.e.
    the template is a sequence of code points (coincides with `utf8Bytes` on ASCII). -/
def codePoints (s : String) : List Nat := s.toList.map Char.toNat

/-- `ParseTemplate` over the given units (`codePoints` = the code). -/
def parseTemplate (units : String → List Nat) (s : String) : Except TErr (List Piece) :=
  let bs := units s
  parseTemplateAux (bs.length + 1) bs []

-- ---------------------------------------------------------------------------
-- Variables
-- ---------------------------------------------------------------------------

/-- A variable value as Go sees it (`map[string]any`). -/
inductive VarVal
  | str (s : String)
  /-- `json.Number` (defaults are decoded with `UseNumber`) — its literal text -/
  | num (lit : String)
  /-- `float64` (request variables are decoded without `UseNumber`): `m · 2^e` -/
  | float (m : Int) (e : Int)
  | bool (b : Bool)
  | null
  /-- array / object -/
  | other
  deriving DecidableEq, Repr, Inhabited

abbrev Vars := List (String × VarVal)

/-- Decimal integer literal `-?[0-9]+` (what `big.Int.SetString(s, 10)` accepts
    among JSON number literals). -/
def digitsToNat (ds : List Char) : Nat := ds.foldl (fun acc c => acc * 10 + (c.toNat - 48)) 0

def intLit? (s : String) : Option Int :=
  match s.toList with
  | '-' :: ds => if !ds.isEmpty && ds.all Char.isDigit then some (-(digitsToNat ds : Int)) else none
  | ds => if !ds.isEmpty && ds.all Char.isDigit then some (digitsToNat ds : Int) else none

/-- Value of `m · 2^e` when it is an integer. -/
def floatInt? (m e : Int) : Option Int :=
  if e ≥ 0 then some (m * 2 ^ e.toNat)
  else
    let d : Int := 2 ^ (-e).toNat
    if m % d == 0 then some (m / d) else none

/-- Go `int64(f)` for an integral `f` (amd64: out of range gives `math.MinInt64`). -/
def toInt64 (v : Int) : Int :=
  if -9223372036854775808 ≤ v ∧ v ≤ 9223372036854775807 then v else -9223372036854775808

/-- `jsonToString`. -/
def jsonToString : VarVal → Except TErr String
  | .float m e =>
    match floatInt? m e with
    | none => .error .decimals
    | some v => .ok (toString (toInt64 v))
  | .num lit => .ok lit
  | .str s => .ok s
  | .bool b => .ok (if b then "true" else "false")
  | _ => .error .varKind

def renderPieces (vars : Vars) : List Piece → Except TErr String
  | [] => .ok ""
  | .lit s :: ps =>
    match renderPieces vars ps with
    | .error e => .error e
    | .ok r => .ok (String.ofList s ++ r)
  | .var n :: ps =>
    match vars.lookup n with
    | none => .error .missingVar
    | some v =>
      match jsonToString v with
      | .error e => .error e
      | .ok s =>
        match renderPieces vars ps with
        | .error e => .error e
        | .ok r => .ok (s ++ r)

/-- `ReplaceVariables`. -/
def replaceVariables (units : String → List Nat) (s : String) (vars : Vars) : Except TErr String :=
  match parseTemplate units s with
  | .error e => .error e
  | .ok ps => renderPieces vars ps

/-- `extractVariableName`: the whole string is `${name}` with `name ∈ [a-z_]+`. -/
def varRefName? (s : String) : Option String :=
  match s.toList with
  | '$' :: '{' :: rest =>
    match rest.reverse with
    | '}' :: nameRev =>
      let name := nameRev.reverse
      if !name.isEmpty && name.all (fun c => ('a' ≤ c && c ≤ 'z') || c == '_') then
        some (String.ofList name) else none
    | _ => none
  | _ => none

def lookupVarRef (s : String) (vars : Vars) : Except TErr VarVal :=
  match varRefName? s with
  | none => .error .notVarRef
  | some n =>
    match vars.lookup n with
    | none => .error .missingVar
    | some v => .ok v

/-- `resolveValue(fieldType, value, vars)` for a string `value`. -/
def resolveValue (units : String → List Nat) (parseInt : String → Option Int) (ft : FType)
    (value : String) (vars : Vars) : Except TErr Scalar :=
  match ft with
  | .string => (replaceVariables units value vars).map Scalar.str
  | .boolean =>
    match lookupVarRef value vars with
    | .error e => .error e
    | .ok (.bool b) => .ok (.bool b)
    | .ok _ => .error .varType
  | .date =>
    match lookupVarRef value vars with
    | .error e => .error e
    | .ok (.str s) => .ok (.str s)
    | .ok _ => .error .varType
  | .numeric =>
    match lookupVarRef value vars with
    | .error e => .error e
    | .ok (.num lit) =>
      (match parseInt lit with
        | some n => .ok (.int n)
        | none => .error .notInteger)
    | .ok (.float m e) =>
      (match floatInt? m e with
        | some n => .ok (.int n)
        | none => .error .notInteger)
    | .ok _ => .error .varType
  | .map _ => .error .fieldType

def resolveScalar (units : String → List Nat) (parseInt : String → Option Int) (ft : FType)
    (vars : Vars) : Scalar → Except TErr Scalar
  | .str s => resolveValue units parseInt ft s vars
  | x => .ok x

def resolveScalars (units : String → List Nat) (parseInt : String → Option Int) (ft : FType)
    (vars : Vars) : List Scalar → Except TErr (List Scalar)
  | [] => .ok []
  | x :: xs =>
    match resolveScalar units parseInt ft vars x with
    | .error e => .error e
    | .ok y =>
      match resolveScalars units parseInt ft vars xs with
      | .error e => .error e
      | .ok ys => .ok (y :: ys)

/-- `resolveFilter(operator, fieldType, value, vars)`. -/
def resolveLeafValue (units : String → List Nat) (parseInt : String → Option Int) (op : Op)
    (ft : FType) (v : Val) (vars : Vars) : Except TErr Val :=
  match op with
  | .in_ =>
    (match v with
      | .arr l => (resolveScalars units parseInt ft vars l).map Val.arr
      | _ => .error .expectedArray)
  | .exists_ =>
    (match ft with
      | .map u =>
        (match v with
          | .sc s => (resolveScalar units parseInt u vars s).map Val.sc
          | x => .ok x)
      | _ => .error .existsNonMap)
  | _ =>
    (match v with
      | .sc s => (resolveScalar units parseInt ft vars s).map Val.sc
      | x => .ok x)

-- ---------------------------------------------------------------------------
-- Schema access: `GetFieldType`
-- ---------------------------------------------------------------------------

def isIdxChar (c : Char) : Bool := c.isAlphanum || c == '_' || c == '/'

/-- `parseAccess`: `^([a-z_]+)(?:\[([a-zA-Z0-9_/]+)\])?$`. -/
def parseAccess (s : String) : Option (String × Option String) :=
  let cs := s.toList
  let k := cs.takeWhile (fun c => ('a' ≤ c && c ≤ 'z') || c == '_')
  let rest := cs.dropWhile (fun c => ('a' ≤ c && c ≤ 'z') || c == '_')
  if k.isEmpty then none else
  match rest with
  | [] => some (String.ofList k, none)
  | '[' :: r =>
    let idx := r.takeWhile isIdxChar
    if !idx.isEmpty && r.dropWhile isIdxChar == [']'] then
      some (String.ofList k, some (String.ofList idx)) else none
  | _ => none

def Schema.byNameOrAlias (s : Schema) (name : String) : Option Field :=
  s.find? fun f => f.name == name || f.aliases.contains name

/-- `EntitySchema.GetFieldType(access)`. -/
def Schema.fieldType (s : Schema) (access : String) : Except TErr FType :=
  match parseAccess access with
  | none => .error .fieldName
  | some (key, idx) =>
    match s.byNameOrAlias key with
    | none => .error .unknownField
    | some f =>
      match idx, f.type with
      | none, t => .ok t
      | some _, .map u => .ok u
      | some _, _ => .error .indexing

/-- Template resources (`GetResourceSchema`). -/
def templateSchema : String → Option Schema
  | "transactions" => some transactionSchema
  | "accounts" => some accountSchema
  | "logs" => some logSchema
  | "volumes" => some volumeSchema
  | _ => none

-- ---------------------------------------------------------------------------
-- ResolveFilterTemplate
-- ---------------------------------------------------------------------------

structure VarDecl where
  type : FType
  default : VarVal := .null
  deriving Repr, Inhabited

/-- `validateValueType` (nil is always accepted). -/
def validVarValue (parseDate : String → Option Int) (t : FType) (v : VarVal) : Bool :=
  match v with
  | .null => true
  | _ =>
    match t, v with
    | .boolean, .bool _ => true
    | .date, .str s => (parseDate s).isSome
    | .numeric, .num lit => (intLit? lit).isSome
    | .numeric, .float m e => (floatInt? m e).isSome
    | .string, .str _ => true
    | _, _ => false

def setVar (vars : Vars) (k : String) (v : VarVal) : Vars := (k, v) :: vars.filter (·.1 != k)

/-- The variable environment: non-nil defaults, overridden by the *declared* call
    variables (each checked against its declared type). -/
def buildVars (parseDate : String → Option Int) (decls : List (String × VarDecl)) (call : Vars) :
    Except TErr Vars :=
  let defaults : Vars := decls.filterMap fun (k, d) =>
    match d.default with | .null => none | v => some (k, v)
  call.foldl (fun acc (k, v) =>
    match acc with
    | .error e => .error e
    | .ok vars =>
      match decls.lookup k with
      | none => .ok vars
      | some d => if validVarValue parseDate d.type v then .ok (setVar vars k v) else .error .invalidVar)
    (.ok defaults)

mutual
/-- The walk of `ResolveFilterTemplate`: every leaf value is replaced by its
    resolution; the first error (walk order) aborts. -/
def resolveTree (leaf : Op → String → Val → Except TErr Val) : Filter → Except TErr Filter
  | .and fs => (resolveTreeList leaf fs).map Filter.and
  | .or fs => (resolveTreeList leaf fs).map Filter.or
  | .not f => (resolveTree leaf f).map Filter.not
  | .leaf op k v => (leaf op k v).map (Filter.leaf op k)
def resolveTreeList (leaf : Op → String → Val → Except TErr Val) :
    List Filter → Except TErr (List Filter)
  | [] => .ok []
  | f :: fs =>
    match resolveTree leaf f with
    | .error e => .error e
    | .ok g =>
      match resolveTreeList leaf fs with
      | .error e => .error e
      | .ok gs => .ok (g :: gs)
end

mutual
/-- The template's tree with every leaf value replaced by `σ op key value`; the
    `$and` / `$or` / `$not` structure, the operators and the keys are untouched. -/
def substTree (σ : Op → String → Val → Val) : Filter → Filter
  | .and fs => .and (substTreeList σ fs)
  | .or fs => .or (substTreeList σ fs)
  | .not f => .not (substTree σ f)
  | .leaf op k v => .leaf op k (σ op k v)
def substTreeList (σ : Op → String → Val → Val) : List Filter → List Filter
  | [] => []
  | f :: fs => substTree σ f :: substTreeList σ fs
end

/-- The value a leaf resolves to (the leaf's own value when resolution fails — only
    used under the hypothesis that it does not). -/
def resolvedValue (leaf : Op → String → Val → Except TErr Val) (op : Op) (k : String) (v : Val) : Val :=
  match leaf op k v with
  | .ok v' => v'
  | .error _ => v

/-- What the walk does on one leaf. -/
def resolveLeaf (units : String → List Nat) (parseInt : String → Option Int) (schema : Schema)
    (vars : Vars) (op : Op) (key : String) (v : Val) : Except TErr Val :=
  match schema.fieldType key with
  | .error e => .error e
  | .ok ft => resolveLeafValue units parseInt op ft v vars

structure Template where
  resource : String
  /-- `none` = empty / null body -/
  body : Option Filter
  vars : List (String × VarDecl)
  deriving Repr, Inhabited

/-- `ResolveFilterTemplate(resource, body, varDecls, callVars)`; `units := codePoints`
    is the code, `units := utf8Bytes` the code before fix `36e323f`. -/
def resolveTemplateWith (units : String → List Nat) (parseDate : String → Option Int)
    (t : Template) (call : Vars) : Except TErr (Option Filter) :=
  match buildVars parseDate t.vars call with
  | .error e => .error e
  | .ok vars =>
    match templateSchema t.resource with
    | none => .error .unknownResource
    | some schema =>
      match t.body with
      | none => .ok none
      | some f => (resolveTree (resolveLeaf units intLit? schema vars) f).map some

/-- The code. -/
def resolveTemplate (parseDate : String → Option Int) (t : Template) (call : Vars) :
    Except TErr (Option Filter) :=
  resolveTemplateWith codePoints parseDate t call

/-- The code before fix `36e323f` (byte-wise re-encoding of literals). -/
def resolveTemplatePreFix (parseDate : String → Option Int) (t : Template) (call : Vars) :
    Except TErr (Option Filter) :=
  resolveTemplateWith utf8Bytes parseDate t call

end Ledger.Query
