import Ledger.Query.Template
import Ledger.Query.Cursor

/-!
`RunQuery` (core-only, executable).

Model of `QueryTemplateParams.UnmarshalJSON` / `Overwrite`
(`/repo/internal/query_template.go`) and of `DefaultController.RunQuery`,
`runQueryFromCursor`, `templateParamsToQuery`
(`/repo/internal/controller/ledger/controller_default.go`).

`QueryTemplateParams.UnmarshalJSON` decodes the object into a fresh struct and
assigns `PIT`, `OOT`, `Expand`, `PageSize` and the sort column / order only when
the key is present (fix `04cc4e9`; before it the first four were assigned
unconditionally — `applyParamsPreFix`).
-/
namespace Ledger.Query

/-- One `params` JSON object, field by field: `none` = key absent (or `null`). -/
structure ParamsJson where
  endTime : Option String := none
  startTime : Option String := none
  expand : Option (List String) := none
  sort : Option String := none
  pageSize : Option Nat := none
  /-- volumes only -/
  groupBy : Option Int := none
  insertionDate : Option Bool := none
  deriving DecidableEq, Repr, Inhabited

/-- Resource-specific options (`GetVolumesOptions`; the other resources carry none
    that the paginated query uses). -/
structure VolOpts where
  useInsertionDate : Bool := false
  groupLvl : Int := 0
  deriving DecidableEq, Repr, Inhabited

structure Params where
  pit : Option Int := none
  oot : Option Int := none
  expand : List String := []
  sortColumn : String
  sortOrder : Option Order
  pageSize : Nat
  opts : VolOpts := {}
  deriving DecidableEq, Repr, Inhabited

inductive PErr
  | badDate | badSortColumn | badOrder
  deriving DecidableEq, Repr

def PErr.toString : PErr → String
  | .badDate => "bad-date" | .badSortColumn => "bad-sort-column" | .badOrder => "bad-order"

/-- `strcase.ToSnake` on plain identifiers (letters, digits, `_`): an upper-case
    letter that follows a lower-case letter or digit starts a new word. -/
def toSnakeAux : Option Char → List Char → List Char
  | _, [] => []
  | prev, c :: cs =>
    let sep := c.isUpper && (match prev with | some p => p.isLower || p.isDigit | none => false)
    (if sep then ['_', c.toLower] else [c.toLower]) ++ toSnakeAux (some c) cs

def toSnake (s : String) : String := String.ofList (toSnakeAux none s.toList)

def lowerStr (s : String) : String := String.ofList (s.toList.map Char.toLower)

/-- Go `strings.SplitN(s, ":", 2)`. -/
def splitN2 (s : String) : String × Option String :=
  match s.toList.span (· ≠ ':') with
  | (h, []) => (String.ofList h, none)
  | (h, _ :: t) => (String.ofList h, some (String.ofList t))

def isSpaceChar (c : Char) : Bool := c == ' ' || c == '\t' || c == '\n' || c == '\r'

def optDate (parseDate : String → Option Int) : Option String → Except PErr (Option Int)
  | none => .ok none
  | some s =>
    match parseDate s with
    | some t => .ok (some t)
    | none => .error .badDate

/-- The sort / opts part of `UnmarshalJSON` (unchanged by the fix). -/
def applySortOpts (p : Params) (j : ParamsJson) : Except PErr Params := do
  let p ← (match j.sort with
    | none | some "" => pure p
    | some s =>
      let (col, ord) := splitN2 s
      if col.toList.all isSpaceChar then throw PErr.badSortColumn else
      let p := { p with sortColumn := toSnake col }
      match ord with
      | none => pure p
      | some o =>
        if lowerStr o == "desc" then pure { p with sortOrder := some Order.desc }
        else if lowerStr o == "asc" then pure { p with sortOrder := some Order.asc }
        else throw PErr.badOrder)
  pure { p with opts := {
    useInsertionDate := j.insertionDate.getD p.opts.useInsertionDate,
    groupLvl := j.groupBy.getD p.opts.groupLvl } }

/-- `QueryTemplateParams.UnmarshalJSON` followed by the decoding of the same
    object into `Opts` (one iteration of `Overwrite`): a key that is present
    overrides, an absent (or `null`) key keeps the current value. -/
def applyParams (parseDate : String → Option Int) (p : Params) (j : ParamsJson) :
    Except PErr Params := do
  let pit ← optDate parseDate j.endTime
  let oot ← optDate parseDate j.startTime
  let p := { p with
    pit := if j.endTime.isSome then pit else p.pit,
    oot := if j.startTime.isSome then oot else p.oot,
    expand := j.expand.getD p.expand,
    pageSize := j.pageSize.getD p.pageSize }
  applySortOpts p j

/-- The same before fix `04cc4e9`: `PIT`, `OOT`, `Expand`, `PageSize` assigned
    unconditionally (zero values when the key is absent). -/
def applyParamsPreFix (parseDate : String → Option Int) (p : Params) (j : ParamsJson) :
    Except PErr Params := do
  let pit ← optDate parseDate j.endTime
  let oot ← optDate parseDate j.startTime
  let p := { p with pit, oot, expand := j.expand.getD [], pageSize := j.pageSize.getD 0 }
  applySortOpts p j

/-- `Overwrite(others...)`: `none` = empty / `null` raw message (skipped). -/
def overwrite (parseDate : String → Option Int) (p : Params) :
    List (Option ParamsJson) → Except PErr Params
  | [] => .ok p
  | none :: rest => overwrite parseDate p rest
  | some j :: rest =>
    match applyParams parseDate p j with
    | .error e => .error e
    | .ok p' => overwrite parseDate p' rest

/-- The defaults `RunQuery` starts from, per resource. -/
def defaultParams (resource : String) (defaultPageSize : Nat) : Option Params :=
  match resource with
  | "transactions" => some { sortColumn := "id", sortOrder := some .desc, pageSize := defaultPageSize }
  | "accounts" => some { sortColumn := "address", sortOrder := some .asc, pageSize := defaultPageSize }
  | "logs" => some { sortColumn := "id", sortOrder := some .desc, pageSize := defaultPageSize }
  | "volumes" => some { sortColumn := "account", sortOrder := some .asc, pageSize := defaultPageSize }
  | _ => none

/-- The `ResourceQuery` part of a paginated query. -/
structure ResourceQuery where
  pit : Option Int
  oot : Option Int
  builder : Option Filter
  expand : List String
  opts : VolOpts
  deriving Repr, Inhabited

/-- `templateParamsToQuery`. -/
def templateParamsToQuery (p : Params) (builder : Option Filter) (maxPageSize : Nat) :
    InitialQuery ResourceQuery :=
  { column := p.sortColumn, order := p.sortOrder,
    pageSize := if p.pageSize > maxPageSize then maxPageSize else p.pageSize,
    options := { pit := p.pit, oot := p.oot, builder, expand := p.expand, opts := p.opts } }

/-- What the request of the `run query` endpoint carries. -/
structure RunRequest (C : Type) where
  params : Option ParamsJson := none
  vars : Vars := []
  cursor : Option C := none

structure StoredTemplate where
  tmpl : Template
  params : Option ParamsJson

inductive RErr
  | resolve (e : TErr)
  | params (e : PErr)
  | cursor
  | invalidResource
  deriving DecidableEq, Repr

/-- The query `RunQuery` hands to `store.<Resource>().Paginate`:
    `.inl c` = the decoded cursor, `.inr q` = an initial query. -/
def runQueryTarget {C D : Type} (parseDate : String → Option Int) (decode : C → Option D)
    (defaultPageSize maxPageSize : Nat) (t : StoredTemplate) (r : RunRequest C) :
    Except RErr (D ⊕ InitialQuery ResourceQuery) :=
  match r.cursor with
  | some c =>
    if (templateSchema t.tmpl.resource).isNone then .error .invalidResource else
    match decode c with
    | none => .error .cursor
    | some d => .ok (.inl d)
  | none =>
    match resolveTemplate parseDate t.tmpl r.vars with
    | .error e => .error (.resolve e)
    | .ok builder =>
      match defaultParams t.tmpl.resource defaultPageSize with
      | none => .error .invalidResource
      | some d =>
        match overwrite parseDate d [t.params, r.params] with
        | .error e => .error (.params e)
        | .ok p => .ok (.inr (templateParamsToQuery p builder maxPageSize))

/-- `RunQuery` over an abstract store: `paginate resource query` is
    `store.<Resource>().Paginate(ctx, query)` — the same entry point, with the same
    argument types, as the list endpoints use. -/
def runQuery {C D R : Type} (parseDate : String → Option Int) (decode : C → Option D)
    (paginate : String → D ⊕ InitialQuery ResourceQuery → R)
    (defaultPageSize maxPageSize : Nat) (t : StoredTemplate) (r : RunRequest C) :
    Except RErr (String × R) :=
  match runQueryTarget parseDate decode defaultPageSize maxPageSize t r with
  | .error e => .error e
  | .ok q => .ok (t.tmpl.resource, paginate t.tmpl.resource q)

/-- `Overwrite` before fix `04cc4e9`. -/
def overwritePreFix (parseDate : String → Option Int) (p : Params) :
    List (Option ParamsJson) → Except PErr Params
  | [] => .ok p
  | none :: rest => overwritePreFix parseDate p rest
  | some j :: rest =>
    match applyParamsPreFix parseDate p j with
    | .error e => .error e
    | .ok p' => overwritePreFix parseDate p' rest

/-- A params object that spells out all four "always assigned" keys. -/
def ParamsJson.complete (j : ParamsJson) : Bool :=
  j.endTime.isSome && j.startTime.isSome && j.expand.isSome && j.pageSize.isSome

end Ledger.Query
