import Ledger.Query.Address

/-!
Filter AST of the list endpoints (core-only, executable).

`Filter` mirrors the go-libs query builder tree (`set{and,or}` / `not` /
`keyValue`), `Filter.eval` is the documented meaning of a filter on an abstract
entity, and `validate` models `ResourceRepository.validateFilters`
(`/repo/internal/storage/common/resource.go`) over the schemas of
`/repo/internal/queries/resources.go`.

The evaluation of the *rendered SQL* is not modelled here (it needs the Postgres
model); `eval` is the specification side of C20 and the semantics used by the
lateral-pushdown theorems.
-/
namespace Ledger.Query

/-- A JSON scalar as it appears as a filter value after `query.ParseJSON`
    (numbers are integers there: non-integers are rejected by the parser). -/
inductive Scalar
  | str (s : String)
  | int (i : Int)
  | bool (b : Bool)
  | null
  /-- an object or a nested array -/
  | other
  deriving DecidableEq, Repr, Inhabited

inductive Val
  | sc (s : Scalar)
  | arr (l : List Scalar)
  deriving DecidableEq, Repr, Inhabited

inductive Op
  | match_ | lt | lte | gt | gte | like | in_ | exists_
  deriving DecidableEq, Repr, Inhabited

def Op.toString : Op → String
  | .match_ => "$match" | .lt => "$lt" | .lte => "$lte" | .gt => "$gt" | .gte => "$gte"
  | .like => "$like" | .in_ => "$in" | .exists_ => "$exists"

def Op.ofString? : String → Option Op
  | "$match" => some .match_ | "$lt" => some .lt | "$lte" => some .lte | "$gt" => some .gt
  | "$gte" => some .gte | "$like" => some .like | "$in" => some .in_ | "$exists" => some .exists_
  | _ => none

inductive Filter
  | and (fs : List Filter)
  | or (fs : List Filter)
  | not (f : Filter)
  | leaf (op : Op) (key : String) (v : Val)
  deriving Repr, Inhabited

-- ---------------------------------------------------------------------------
-- Evaluation
-- ---------------------------------------------------------------------------

mutual
/-- Meaning of a filter given the meaning of its leaves.  An empty `$and` and an
    empty `$or` both render `1 = 1` (go-libs `set.Build`), hence both are true. -/
def Filter.eval (sem : Op → String → Val → Bool) : Filter → Bool
  | .and fs => Filter.evalAll sem fs
  | .or fs => fs.isEmpty || Filter.evalAny sem fs
  | .not f => !(Filter.eval sem f)
  | .leaf op k v => sem op k v
def Filter.evalAll (sem : Op → String → Val → Bool) : List Filter → Bool
  | [] => true
  | f :: fs => Filter.eval sem f && Filter.evalAll sem fs
def Filter.evalAny (sem : Op → String → Val → Bool) : List Filter → Bool
  | [] => false
  | f :: fs => Filter.eval sem f || Filter.evalAny sem fs
end

mutual
/-- Leaves in `Walk` order. -/
def Filter.leaves : Filter → List (Op × String × Val)
  | .and fs => Filter.leavesList fs
  | .or fs => Filter.leavesList fs
  | .not f => Filter.leaves f
  | .leaf op k v => [(op, k, v)]
def Filter.leavesList : List Filter → List (Op × String × Val)
  | [] => []
  | f :: fs => Filter.leaves f ++ Filter.leavesList fs
end

mutual
def Filter.depth : Filter → Nat
  | .and fs => Filter.depthList fs + 1
  | .or fs => Filter.depthList fs + 1
  | .not f => Filter.depth f + 1
  | .leaf _ _ _ => 0
def Filter.depthList : List Filter → Nat
  | [] => 0
  | f :: fs => max (Filter.depth f) (Filter.depthList fs)
end

-- ---------------------------------------------------------------------------
-- Entities and leaf semantics
-- ---------------------------------------------------------------------------

/-- What a filter can observe of a listed entity (account, volume row,
    aggregated-balance input row, transaction, log). Dates are µs since epoch. -/
structure Entity where
  /-- account address (accounts / volumes / aggregated balances) -/
  address : List Seg := []
  /-- source / destination accounts (transactions) -/
  sources : List (List Seg) := []
  destinations : List (List Seg) := []
  metadata : List (String × String) := []
  /-- balance per asset -/
  balances : List (String × Int) := []
  /-- date fields by name (`first_usage`, `timestamp`, `insertion_date`, …) -/
  dates : List (String × Int) := []
  /-- numeric fields by name (`id`) -/
  nums : List (String × Int) := []
  /-- string fields by name (`reference`, `type`) -/
  strs : List (String × String) := []
  reverted : Bool := false
  deriving Repr, Inhabited

def cmpInt (op : Op) (a b : Int) : Bool :=
  match op with
  | .match_ => a == b | .lt => a < b | .lte => a ≤ b | .gt => a > b | .gte => a ≥ b
  | _ => false

/-- `key[index]` → `(key, some index)`; `key` → `(key, none)`. -/
def splitKey (k : String) : String × Option String :=
  match k.toList.span (· ≠ '[') with
  | (h, []) => (String.ofList h, none)
  | (h, _ :: t) =>
    (String.ofList h, some (String.ofList (if t.getLast? == some ']' then t.dropLast else t)))

/-- Is `k` one of the keys the lateral-pushdown code treats as an address
    (`isAddressKey`)? -/
def isAddressKey (k : String) : Bool := k == "address" || k == "account"

/-- Address leaf: `$in` = one of the exact addresses; any other operator goes
    through `filterAccountAddress` (exact / partial / prefix). -/
def addrLeaf (tx : Bool) (v : Val) (as : List (List Seg)) : Bool :=
  match v with
  | .sc (.str s) => matchesAny (if tx then Pattern.ofStringTx s else Pattern.ofString s) as
  | .arr l => l.any fun
      | .str s => as.any (· == segments s.toList)
      | _ => false
  | _ => false

/-- Documented meaning of a leaf on an entity; `parseDate` turns a date literal
    into µs (`none` = invalid, such leaves never pass validation). -/
def leafSem (parseDate : String → Option Int) (e : Entity) (op : Op) (key : String) (v : Val) : Bool :=
  let (k, idx) := splitKey key
  match k, idx with
  | "address", none => addrLeaf false v [e.address]
  | "account", none =>
    if e.sources.isEmpty && e.destinations.isEmpty then addrLeaf false v [e.address]
    else addrLeaf true v (e.sources ++ e.destinations)
  | "source", none => addrLeaf true v e.sources
  | "destination", none => addrLeaf true v e.destinations
  | "metadata", some i =>
    (match op, v with
      | .match_, .sc (.str s) => e.metadata.lookup i == some s
      | .in_, .arr l => l.any fun | .str s => e.metadata.lookup i == some s | _ => false
      | _, _ => false)
  | "metadata", none =>
    (match op, v with
      | .exists_, .sc (.str s) => (e.metadata.lookup s).isSome
      | _, _ => false)
  | "balance", some a =>
    (match v with
      | .sc (.int n) => (match e.balances.lookup a with | some b => cmpInt op b n | none => false)
      | _ => false)
  | "reverted", none =>
    (match op, v with | .match_, .sc (.bool b) => e.reverted == b | _, _ => false)
  | _, none =>
    (match v with
      | .sc (.int n) => (match e.nums.lookup k with | some x => cmpInt op x n | none => false)
      | .sc (.str s) =>
        (match e.dates.lookup k with
          | some d => (match parseDate s with | some t => cmpInt op d t | none => false)
          | none => (match op with
              | .match_ => e.strs.lookup k == some s
              | _ => false))
      | .arr l => l.any fun | .str s => e.strs.lookup k == some s | _ => false
      | _ => false)
  | _, _ => false

-- ---------------------------------------------------------------------------
-- Schemas and validation (`validateFilters`)
-- ---------------------------------------------------------------------------

inductive FType
  | string | date | numeric | boolean
  | map (underlying : FType)
  deriving DecidableEq, Repr, Inhabited

structure Field where
  name : String
  aliases : List String := []
  type : FType
  paginated : Bool := false
  deriving Repr, Inhabited

abbrev Schema := List Field

def FType.isMap : FType → Bool
  | .map _ => true
  | _ => false

/-- `FieldType.Operators()`. -/
def FType.operators : FType → List Op
  | .string => [.match_, .like, .in_]
  | .date => [.match_, .lt, .gt, .lte, .gte]
  | .numeric => [.match_, .lt, .gt, .lte, .gte]
  | .boolean => [.match_]
  | .map u => u.operators ++ [.match_, .exists_]

/-- `FieldType.IsPaginated()` — the column paginator is used for these, the
    offset paginator otherwise. -/
def FType.columnPaginated : FType → Bool
  | .date | .numeric => true
  | _ => false

/-- `FieldType.ValidateValue(operator, value)` for values produced by
    `query.ParseJSON` (integers arrive as `*big.Int`). -/
def FType.validateValue (parseDate : String → Option Int) : FType → Op → Val → Bool
  | .string, .in_, .arr l => l.all fun | .str _ => true | _ => false
  | .string, .in_, _ => false
  | .string, _, .sc (.str _) => true
  | .string, _, _ => false
  | .date, _, .sc (.str s) => (parseDate s).isSome
  | .date, _, _ => false
  | .numeric, _, .sc (.int _) => true
  | .numeric, _, _ => false
  | .boolean, _, .sc (.bool _) => true
  | .boolean, _, _ => false
  | .map u, op, v => FType.validateValue parseDate u op v

def accountSchema : Schema := [
  { name := "address", type := .string, paginated := true },
  { name := "first_usage", type := .date, paginated := true },
  { name := "balance", type := .map .numeric },
  { name := "metadata", type := .map .string },
  { name := "insertion_date", type := .date, paginated := true },
  { name := "updated_at", type := .date, paginated := true }]

def aggregatedSchema : Schema := [
  { name := "address", type := .string, paginated := true },
  { name := "metadata", type := .map .string }]

def logSchema : Schema := [
  { name := "date", type := .date, paginated := true },
  { name := "id", type := .numeric, paginated := true },
  { name := "type", type := .string }]

def transactionSchema : Schema := [
  { name := "reverted", type := .boolean },
  { name := "account", type := .string },
  { name := "source", type := .string },
  { name := "destination", type := .string },
  { name := "timestamp", type := .date, paginated := true },
  { name := "metadata", type := .map .string },
  { name := "id", type := .numeric, paginated := true },
  { name := "reference", type := .string },
  { name := "inserted_at", type := .date, paginated := true },
  { name := "updated_at", type := .date, paginated := true },
  { name := "reverted_at", type := .date, paginated := true }]

def volumeSchema : Schema := [
  { name := "address", aliases := ["account"], type := .string, paginated := true },
  { name := "balance", type := .map .numeric },
  { name := "first_usage", type := .date },
  { name := "metadata", type := .map .string }]

def schemaOf : String → Option Schema
  | "accounts" => some accountSchema
  | "aggregated" => some aggregatedSchema
  | "logs" => some logSchema
  | "transactions" => some transactionSchema
  | "volumes" => some volumeSchema
  | _ => none

/-- Go `strings.Split(key, "[")[0]`. -/
def beforeBracket (k : String) : String := String.ofList (k.toList.takeWhile (· ≠ '['))

/-- The property a filter key addresses in `validateFilters`: map-typed
    properties compare the key up to its first `[`, the others the whole key. -/
def Field.matchesKey (f : Field) (key : String) : Bool :=
  let k := if f.type.isMap then beforeBracket key else key
  k == f.name || f.aliases.contains k

def Schema.fieldForKey (s : Schema) (key : String) : Option Field := s.find? (·.matchesKey key)

inductive VErr
  | unknownKey | operatorNotAllowed | invalidValue
  deriving DecidableEq, Repr

def VErr.toString : VErr → String
  | .unknownKey => "unknown-key" | .operatorNotAllowed => "operator-not-allowed"
  | .invalidValue => "invalid-value"

def validateLeaf (parseDate : String → Option Int) (s : Schema) (l : Op × String × Val) :
    Except VErr String :=
  match s.fieldForKey l.2.1 with
  | none => .error .unknownKey
  | some f =>
    if !(f.type.operators.contains l.1) then .error .operatorNotAllowed
    else if !(f.type.validateValue parseDate l.1 l.2.2) then .error .invalidValue
    else .ok f.name

/-- `validateFilters`: first error in walk order, otherwise the values seen per
    property name (walk order). -/
def validateLeaves (parseDate : String → Option Int) (s : Schema) :
    List (Op × String × Val) → Except VErr (List (String × Val))
  | [] => .ok []
  | l :: ls =>
    match validateLeaf parseDate s l with
    | .error e => .error e
    | .ok name =>
      match validateLeaves parseDate s ls with
      | .error e => .error e
      | .ok r => .ok ((name, l.2.2) :: r)

def validate (parseDate : String → Option Int) (s : Schema) (f : Filter) :
    Except VErr (List (String × Val)) :=
  validateLeaves parseDate s f.leaves

end Ledger.Query
