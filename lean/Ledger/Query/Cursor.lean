import Ledger.Query.Paginate

/-!
Cursor encoding (core-only, executable).

A cursor is `base64url(json(query))` (`paginate.EncodeCursor`,
`common.UnmarshalCursor` in `/repo/internal/storage/common/cursor.go`).  The JSON
*text* and base64 layers are executed (Go's `encoding/json`, `encoding/base64`),
not modelled; this file models the JSON *tree* of a cursor and its decoding:
an object with the key `offset` present and non-null is an offset cursor, anything
else a column cursor.
-/
namespace Ledger.Query

/-- JSON trees (objects as association lists, integers only). -/
inductive J
  | null
  | bool (b : Bool)
  | num (n : Int)
  | str (s : String)
  | arr (l : List J)
  | obj (kvs : List (String × J))
  deriving Repr, Inhabited

def J.get (j : J) (k : String) : Option J :=
  match j with
  | .obj kvs => kvs.lookup k
  | _ => none

def Order.toJ : Order → J
  | .asc => .num 0
  | .desc => .num 1

def optJ {α : Type} (f : α → J) : Option α → J
  | none => .null
  | some a => f a

/-- What the rest of a cursor carries: the sort column and the `filters` object
    (`ResourceQuery`: pit, oot, qb, expand, opts), opaque here. -/
structure CursorRest where
  column : String
  filters : J
  deriving Repr, Inhabited

/-- `json.Marshal(ColumnPaginatedQuery)`. -/
def encodeCol (q : ColQuery CursorRest) : J :=
  .obj [("column", .str q.rest.column), ("order", optJ Order.toJ q.order),
        ("pageSize", .num q.pageSize), ("filters", q.rest.filters),
        ("bottom", optJ J.num q.bottom), ("paginationID", optJ J.num q.paginationID),
        ("reverse", .bool q.reverse)]

/-- `json.Marshal(OffsetPaginatedQuery)`. -/
def encodeOff (q : OffQuery CursorRest) : J :=
  .obj [("column", .str q.rest.column), ("order", optJ Order.toJ q.order),
        ("pageSize", .num q.pageSize), ("filters", q.rest.filters),
        ("offset", .num q.offset)]

def decOrder : Option J → Except String (Option Order)
  | none | some .null => .ok none
  | some (.num 0) => .ok (some .asc)
  | some (.num 1) => .ok (some .desc)
  | some (.num _) => .error "bad-order"   -- decodes, but `Order.String` panics later
  | _ => .error "type"

def decNat : Option J → Except String Nat
  | none | some .null => .ok 0
  | some (.num n) => if n < 0 then .error "type" else .ok n.toNat
  | _ => .error "type"

def decOptInt : Option J → Except String (Option Int)
  | none | some .null => .ok none
  | some (.num n) => .ok (some n)
  | _ => .error "type"

def decBool : Option J → Except String Bool
  | none | some .null => .ok false
  | some (.bool b) => .ok b
  | _ => .error "type"

def decStr : Option J → Except String String
  | none | some .null => .ok ""
  | some (.str s) => .ok s
  | _ => .error "type"

inductive DecodedCursor
  | column (q : ColQuery CursorRest)
  | offset (q : OffQuery CursorRest)
  deriving Repr

/-- `UnmarshalCursor` on the JSON tree (the `filters` member is kept as is; its own
    decoding — `ResourceQuery.UnmarshalJSON` + `query.ParseJSON` — is the filter
    parser's business). -/
def decodeCursor (j : J) : Except String DecodedCursor :=
  match j with
  | .obj _ => do
    let column ← decStr (j.get "column")
    let order ← decOrder (j.get "order")
    let pageSize ← decNat (j.get "pageSize")
    let filters := (j.get "filters").getD .null
    match j.get "offset" with
    | some (.num o) =>
      if o < 0 then .error "type" else
      .ok (.offset { pageSize, order, offset := o.toNat, rest := { column, filters } })
    | none | some .null =>
      let bottom ← decOptInt (j.get "bottom")
      let paginationID ← decOptInt (j.get "paginationID")
      let reverse ← decBool (j.get "reverse")
      .ok (.column { pageSize, order, bottom, paginationID, reverse, rest := { column, filters } })
    | _ => .error "type"
  -- `json.Unmarshal("null", &q)` leaves the interface nil: "invalid cursor" (fix
  -- 2262951; the unchecked type assertion used to panic)
  | _ => .error "type"

end Ledger.Query
