/-!
Column and offset paginators (core-only, executable).

Model of `/repo/internal/storage/common/paginator_column.go`,
`paginator_offset.go` and of the part of `PaginatedResourceRepository.Paginate`
(`resource.go`) that chooses the paginator and defaults the query.

The SQL the real paginator adds to the dataset query is the fragment
`WHERE col ⋈ paginationID  ORDER BY col dir  LIMIT pageSize+1` (column) resp.
`ORDER BY col dir OFFSET o LIMIT pageSize+1` (offset).  `fetchCol` / `fetchOff`
give that fragment its relational meaning on an in-memory table (filter, sort,
take); `buildCursorCol` / `buildCursorOff` are `BuildCursor`.

`φ` is everything else a cursor carries unchanged (column, filters, expand, …).
-/
namespace Ledger.Query

inductive Order
  | asc | desc
  deriving DecidableEq, Repr, Inhabited

def Order.rev : Order → Order
  | .asc => .desc
  | .desc => .asc

/-- A listed row: its pagination key (`id`, or a date in µs) and an opaque payload
    identity. -/
structure Row where
  key : Int
  tag : Nat
  deriving DecidableEq, Repr, Inhabited

/-- `paginate.QueryDefaultPageSize`. -/
def defaultPageSize : Nat := 15

def effPageSize (n : Nat) : Nat := if n = 0 then defaultPageSize else n

def Order.le (o : Order) (a b : Row) : Bool :=
  match o with
  | .asc => decide (a.key ≤ b.key)
  | .desc => decide (b.key ≤ a.key)

/-- `ORDER BY col dir`. -/
def orderBy (o : Order) (rows : List Row) : List Row := rows.mergeSort (o.le)

-- ---------------------------------------------------------------------------
-- Column paginator
-- ---------------------------------------------------------------------------

structure ColQuery (φ : Type) where
  pageSize : Nat
  /-- `*paginate.Order`; `none` = nil pointer (only a hand-crafted cursor has it) -/
  order : Option Order
  bottom : Option Int
  paginationID : Option Int
  reverse : Bool
  rest : φ
  deriving DecidableEq, Repr

structure Page (Q : Type) where
  data : List Row
  pageSize : Nat
  hasMore : Bool
  next : Option Q
  previous : Option Q
  deriving DecidableEq, Repr

/-- The `WHERE` fragment of `columnPaginator.Paginate`. -/
def colWhere (order : Order) (reverse : Bool) (pid : Option Int) (k : Int) : Bool :=
  match pid with
  | none => true
  | some p =>
    match reverse, order with
    | true, .asc => decide (k < p)
    | true, .desc => decide (k > p)
    | false, .asc => decide (k ≥ p)
    | false, .desc => decide (k ≤ p)

/-- The `ORDER BY` direction of `columnPaginator.Paginate`. -/
def colOrder (order : Order) (reverse : Bool) : Order := if reverse then order.rev else order

/-- Rows the paginated query returns: WHERE, ORDER BY, LIMIT pageSize+1. -/
def fetchCol (order : Order) (reverse : Bool) (pid : Option Int) (pageSize : Nat)
    (table : List Row) : List Row :=
  (orderBy (colOrder order reverse) (table.filter fun r => colWhere order reverse pid r.key)).take
    (effPageSize pageSize + 1)

/-- `if o.query.Bottom == nil { o.query.Bottom = paginationID }`, executed on the
    first fetched row. -/
def firstBottom (bottom : Option Int) (ids : List Int) : Option Int :=
  match bottom with
  | some b => some b
  | none => ids.head?

/-- `columnPaginator.BuildCursor`. Go panics are explicit errors. -/
def buildCursorCol {φ : Type} (q : ColQuery φ) (order : Order) (ret : List Row) :
    Except String (Page (ColQuery φ)) :=
  let ps := effPageSize q.pageSize
  let ids := ret.map (·.key)
  let q : ColQuery φ := { q with bottom := firstBottom q.bottom ids }
  let hasMore := decide (ret.length > ps)
  let kept := if hasMore then ret.dropLast else ret
  let data := if q.reverse then kept.reverse else kept
  if q.reverse then
    let next : ColQuery φ := { q with reverse := false }
    if hasMore then
      match ids[ids.length - 2]? with
      | none => .error "panic: index out of range"
      | some pid =>
        .ok { data, pageSize := ps, hasMore := true, next := some next,
              previous := some { q with paginationID := some pid } }
    else
      .ok { data, pageSize := ps, hasMore := true, next := some next, previous := none }
  else
    let next : Option (ColQuery φ) :=
      if hasMore then some { q with paginationID := ids.getLast? } else none
    match q.paginationID with
    | none => .ok { data, pageSize := ps, hasMore := next.isSome, next, previous := none }
    | some pid =>
      match q.bottom with
      -- `PaginationID != nil && Bottom != nil` (fix 2262951; a nil bottom used to panic)
      | none => .ok { data, pageSize := ps, hasMore := next.isSome, next, previous := none }
      | some b =>
        let prev : Option (ColQuery φ) :=
          if (order == .asc && decide (pid > b)) || (order == .desc && decide (pid < b)) then
            some { q with reverse := true }
          else none
        .ok { data, pageSize := ps, hasMore := next.isSome, next, previous := prev }

/-- `Paginate` + scan + `BuildCursor` for a column-paginated query whose order is
    set (`PaginatedResourceRepository.Paginate` sets a missing order first:
    `ColQuery.withOrder`). -/
def paginateCol {φ : Type} (q : ColQuery φ) (table : List Row) : Except String (Page (ColQuery φ)) :=
  match q.order with
  | none => .error "order not set"
  | some order =>
    buildCursorCol q order (fetchCol order q.reverse q.paginationID q.pageSize table)

/-- `if v.Order == nil { v.Order = &r.defaultOrder }` — a cursor without order gets
    the repository's default order (fix 2262951; it used to panic). -/
def ColQuery.withOrder {φ : Type} (dflt : Order) (q : ColQuery φ) : ColQuery φ :=
  { q with order := some (q.order.getD dflt) }

/-- The first page of a listing (`InitialPaginatedQuery` turned into a
    `ColumnPaginatedQuery`). -/
def ColQuery.initial {φ : Type} (pageSize : Nat) (order : Order) (rest : φ) : ColQuery φ :=
  { pageSize, order := some order, bottom := none, paginationID := none, reverse := false, rest }

/-- Pages obtained by following `next` (at most `fuel` of them). -/
def walkNextCol {φ : Type} : Nat → ColQuery φ → List Row → List (Page (ColQuery φ))
  | 0, _, _ => []
  | fuel + 1, q, table =>
    match paginateCol q table with
    | .error _ => []
    | .ok p =>
      p :: (match p.next with
        | some q' => walkNextCol fuel q' table
        | none => [])

-- ---------------------------------------------------------------------------
-- Offset paginator
-- ---------------------------------------------------------------------------

structure OffQuery (φ : Type) where
  pageSize : Nat
  order : Option Order
  offset : Nat
  rest : φ
  deriving DecidableEq, Repr

def maxInt32 : Nat := 2147483647
def maxUint64 : Nat := 18446744073709551615

/-- ORDER BY, OFFSET, LIMIT pageSize+1 (no LIMIT when pageSize = 0). -/
def fetchOff (order : Order) (offset pageSize : Nat) (table : List Row) : List Row :=
  let d := (orderBy order table).drop offset
  if pageSize > 0 then d.take (pageSize + 1) else d

/-- `OffsetPaginator.BuildCursor`. -/
def buildCursorOff {φ : Type} (q : OffQuery φ) (ret : List Row) : Except String (Page (OffQuery φ)) :=
  let previous : Option (OffQuery φ) :=
    if q.offset > 0 then
      some { q with offset := if q.offset < q.pageSize then 0 else q.offset - q.pageSize }
    else none
  if q.pageSize ≠ 0 && decide (ret.length > q.pageSize) then
    if q.offset > maxUint64 - q.pageSize then .error "offset overflow"
    else
      .ok { data := ret.dropLast, pageSize := q.pageSize, hasMore := true,
            next := some { q with offset := q.offset + q.pageSize }, previous }
  else
    .ok { data := ret, pageSize := q.pageSize, hasMore := false, next := none, previous }

def OffQuery.withOrder {φ : Type} (dflt : Order) (q : OffQuery φ) : OffQuery φ :=
  { q with order := some (q.order.getD dflt) }

def paginateOff {φ : Type} (q : OffQuery φ) (table : List Row) : Except String (Page (OffQuery φ)) :=
  match q.order with
  | none => .error "order not set"
  | some order =>
    if q.offset > maxInt32 then .error "offset value exceeds maximum allowed value"
    else buildCursorOff q (fetchOff order q.offset q.pageSize table)

def OffQuery.initial {φ : Type} (pageSize : Nat) (order : Order) (rest : φ) : OffQuery φ :=
  { pageSize, order := some order, offset := 0, rest }

def walkNextOff {φ : Type} : Nat → OffQuery φ → List Row → List (Page (OffQuery φ))
  | 0, _, _ => []
  | fuel + 1, q, table =>
    match paginateOff q table with
    | .error _ => []
    | .ok p =>
      p :: (match p.next with
        | some q' => walkNextOff fuel q' table
        | none => [])

-- ---------------------------------------------------------------------------
-- `PaginatedResourceRepository.Paginate`: defaulting and paginator choice
-- ---------------------------------------------------------------------------

/-- An `InitialPaginatedQuery`: column, order, page size, and the resource query
    (`ρ`: PIT, OOT, filter, expand, opts). -/
structure InitialQuery (ρ : Type) where
  column : String
  order : Option Order
  pageSize : Nat
  options : ρ
  deriving DecidableEq, Repr

inductive AnyQuery (ρ : Type)
  | initial (q : InitialQuery ρ)
  | column (q : ColQuery (String × ρ))
  | offset (q : OffQuery (String × ρ))
  deriving DecidableEq, Repr

inductive PaginatorKind
  | column | offset
  deriving DecidableEq, Repr

/-- What `Paginate` does to an initial query before building the paginator:
    default column / order / page size, then column paginator for numeric and date
    fields, offset paginator otherwise. `fieldKind col` is the schema lookup:
    `none` = unknown property, `some none` = not paginated. -/
def normalizeInitial {ρ : Type} (defaultColumn : String) (defaultOrder : Order)
    (fieldKind : String → Option (Option PaginatorKind)) (q : InitialQuery ρ) :
    Except String (AnyQuery ρ) :=
  let column := if q.column == "" then defaultColumn else q.column
  let order := match q.order with | some o => o | none => defaultOrder
  let pageSize := if q.pageSize = 0 then defaultPageSize else q.pageSize
  match fieldKind column with
  | none => .error "invalid-property"
  | some none => .error "not-paginated"
  | some (some .column) =>
    .ok (.column { pageSize, order := some order, bottom := none, paginationID := none,
                   reverse := false, rest := (column, q.options) })
  | some (some .offset) =>
    .ok (.offset { pageSize, order := some order, offset := 0, rest := (column, q.options) })

end Ledger.Query
