import Ledger.Query.Filter

/-!
Lateral-join pushdown of address filters (core-only, executable).

Model, exactly as written, of `collectAddressFilters`,
`nodeContainsAddressFilter`, `isNodeSafeForLateral`,
`canPushAddressFilterToLateral`, `applyLateralAddressFilter`
(`/repo/internal/storage/ledger/utils.go`) and of the conditions under which
`resource_volumes.go` / `resource_aggregated_balances.go` add the pushed filter
to the `join lateral (…) accounts on true` sub-query.

The real functions walk the JSON re-encoding of the builder
(`{"$op": {"key": value}}`, `{"$and": [...]}`, `{"$not": {...}}`); every node of
that encoding has exactly one key, so the walk is the structural recursion below.
-/
namespace Ledger.Query

mutual
/-- `nodeContainsAddressFilter`: some leaf (of ANY operator, `$in` included) is on
    an address key. -/
def containsAddr : Filter → Bool
  | .leaf _ k _ => isAddressKey k
  | .not f => containsAddr f
  | .and fs => containsAddrAny fs
  | .or fs => containsAddrAny fs
def containsAddrAny : List Filter → Bool
  | [] => false
  | f :: fs => containsAddr f || containsAddrAny fs
end

/-- `hasAddr && hasNonAddr` over the branches of a `$or`. -/
def mixesAddr : List Filter → Bool
  | fs => fs.any containsAddr && fs.any (fun f => !containsAddr f)

mutual
/-- `isNodeSafeForLateral(node, insideNot)`. -/
def safeLateral : Filter → Bool → Bool
  | .leaf _ k _, insideNot => !(insideNot && isAddressKey k)
  | .not f, _ => safeLateral f true
  | .and fs, n => safeLateralAll fs n
  | .or fs, true => !containsAddrAny fs
  | .or fs, false => !(decide (fs.length > 1) && mixesAddr fs) && safeLateralAll fs false
def safeLateralAll : List Filter → Bool → Bool
  | [], _ => true
  | f :: fs, n => safeLateral f n && safeLateralAll fs n
end

/-- `canPushAddressFilterToLateral(builder)` (`none` = nil builder). -/
def canPush : Option Filter → Bool
  | none => true
  | some f => safeLateral f false

/-- The strings an address-filter value contributes to `collectAddressFilters`:
    a string itself; the string members of an `$in` array when `collectIn` (the
    current code — before the fix `df74127` arrays were skipped: `collectIn = false`). -/
def leafAddrs (collectIn : Bool) : Val → List String
  | .sc (.str s) => [s]
  | .arr l => if collectIn then l.filterMap fun | .str s => some s | _ => none else []
  | _ => []

/-- Only plain string values can make `needSegments` true. -/
def leafNeedsSegments : Val → Bool
  | .sc (.str s) => isPartial (segments s.toList)
  | _ => false

/-- `collectAddressFilters`: the addresses of the leaves validated against the
    schema property `address`, in walk order, and whether a *string* one is partial.
    `validated` is `validateFilters`' result. -/
def collectAddressFiltersWith (collectIn : Bool) (validated : List (String × Val)) :
    List String × Bool :=
  let vals := validated.filterMap fun (n, v) => if n == "address" then some v else none
  ((vals.map (leafAddrs collectIn)).flatten, vals.any leafNeedsSegments)

/-- The current code. -/
def collectAddressFilters (validated : List (String × Val)) : List String × Bool :=
  collectAddressFiltersWith true validated

/-- The same on a filter whose address keys are `address` / `account` (the volumes
    schema; on the aggregated-balances schema the key `account` is rejected by
    validation before the dataset is built). -/
def addrsWith (collectIn : Bool) (f : Filter) : List String :=
  (f.leaves.map fun (_, k, v) => if isAddressKey k then leafAddrs collectIn v else []).flatten

/-- The current code. -/
def addrs (f : Filter) : List String := addrsWith true f

/-- Before `df74127`: `$in` arrays were skipped. -/
def addrsPreFix (f : Filter) : List String := addrsWith false f

def needSegments (f : Filter) : Bool :=
  f.leaves.any fun (_, k, v) => isAddressKey k && leafNeedsSegments v

def useFilter (validated : List (String × Val)) (name : String) : Bool :=
  validated.any (·.1 == name)

/-- Which dataset is being built. -/
inductive Dataset
  | volumes | volumesPit | aggregated | aggregatedPit
  deriving DecidableEq, Repr

/-- Does `BuildDataset` put `buildAddressFilterForLateral(addresses)` into the
    lateral sub-query?  (`applyLateralAddressFilter` needs addresses and `canPush`;
    each dataset has its own guard around the call.) -/
def pushdownApplied (d : Dataset) (validated : List (String × Val)) (can : Bool) : Bool :=
  let (as, need) := collectAddressFilters validated
  let guard := match d with
    | .volumes | .volumesPit | .aggregatedPit => need
    | .aggregated => (useFilter validated "metadata" || need) && useFilter validated "address"
  guard && !as.isEmpty && can

/-- Rows the lateral join keeps: those whose account matches one of the pushed
    address filters (`(f1) OR (f2) …`). -/
def lateralKeeps (pushed : List String) (account : List Seg) : Bool :=
  pushed.any fun s => matchesAddress (Pattern.ofString s) account

/-- No `$in` on an address key. -/
def noAddrIn (f : Filter) : Bool :=
  f.leaves.all fun (op, k, _) => !(isAddressKey k && op == .in_)


end Ledger.Query
