/-!
Address patterns of list filters (core-only, executable).

Model of `/repo/internal/storage/ledger/utils.go` (`isPartialAddress`,
`filterAccountAddress`, `explodeAddress`) and `transactions.go`
(`filterAccountAddressOnTransactions`), hand-written and tied to the real
functions by the `addrmatch` correspondence workload.

Strings are `List Char` here; `:` is ASCII, so Go's byte-wise
`strings.Split(s, ":")` coincides with the code-point-wise split on valid UTF-8.
An account row is represented by its segment list (`accounts.address_array` is
`strings.Split(address, ":")`, see `accounts.go`).
-/
namespace Ledger.Query

abbrev Seg := List Char

/-- `(first segment, remaining segments)` of `strings.Split(s, ":")` — never empty. -/
def splitColon : List Char → Seg × List Seg
  | [] => ([], [])
  | c :: cs =>
    let r := splitColon cs
    if c = ':' then ([], r.1 :: r.2) else (c :: r.1, r.2)

/-- Go `strings.Split(s, ":")`. -/
def segments (s : List Char) : List Seg := (splitColon s).1 :: (splitColon s).2

/-- Go `strings.Join(segs, ":")`. -/
def joinColon : List Seg → List Char
  | [] => []
  | [s] => s
  | s :: t => s ++ ':' :: joinColon t

def dots : Seg := ['.', '.', '.']

/-- `isPartialAddress` on the split address: some segment is empty, or the last
    segment is `...`. -/
def isPartial (src : List Seg) : Bool :=
  src.any (fun s => s.isEmpty) || src.getLast? == some dots

/-- What an address filter constrains, as rendered into SQL:
    * `exact segs` — `key = 'a:b'`;
    * `part len cs` — optional `jsonb_array_length(key_array) = len` and, for each
      `(i, s) ∈ cs`, `key_array @@ ('$[i] == "s"')`. -/
inductive Pattern
  | exact (segs : List Seg)
  | part (len : Option Nat) (cs : List (Nat × Seg))
  deriving DecidableEq, Repr

/-- The `(index, segment)` constraints of `filterAccountAddress`: every segment
    that is neither empty nor `...` (at any position). -/
def constraintsFrom : List Seg → Nat → List (Nat × Seg)
  | [], _ => []
  | s :: t, i =>
    if s.isEmpty || s == dots then constraintsFrom t (i + 1)
    else (i, s) :: constraintsFrom t (i + 1)

/-- The constraints of `filterAccountAddressOnTransactions`: every non-empty
    segment, except a *final* `...` (a `...` in the middle is a literal). -/
def constraintsTxFrom : List Seg → Nat → List (Nat × Seg)
  | [], _ => []
  | [s], i => if s.isEmpty || s == dots then [] else [(i, s)]
  | s :: t, i =>
    if s.isEmpty then constraintsTxFrom t (i + 1)
    else (i, s) :: constraintsTxFrom t (i + 1)

def lenConstraint (src : List Seg) : Option Nat :=
  if src.getLast? == some dots then none else some src.length

/-- `filterAccountAddress` (accounts / volumes / aggregated balances). -/
def Pattern.ofSegs (src : List Seg) : Pattern :=
  if isPartial src then .part (lenConstraint src) (constraintsFrom src 0) else .exact src

/-- `filterAccountAddressOnTransactions`. -/
def Pattern.ofSegsTx (src : List Seg) : Pattern :=
  if isPartial src then .part (lenConstraint src) (constraintsTxFrom src 0) else .exact src

def Pattern.ofString (s : String) : Pattern := .ofSegs (segments s.toList)
def Pattern.ofStringTx (s : String) : Pattern := .ofSegsTx (segments s.toList)

/-- Meaning of the rendered condition on an account given by its segments.
    `$[i] == "s"` on a shorter array selects nothing (lax jsonpath): `a[i]? = some s`. -/
def matchesAddress : Pattern → List Seg → Bool
  | .exact segs, a => segs == a
  | .part len cs, a =>
    (match len with | none => true | some n => a.length == n) &&
    cs.all (fun c => a[c.1]? == some c.2)

/-- `explodeAddress`: `{"0": seg0, …, "n-1": seg(n-1), "n": null}`. -/
def explodeFrom : List Seg → Nat → List (Nat × Option Seg)
  | [], i => [(i, none)]
  | s :: t, i => (i, some s) :: explodeFrom t (i + 1)

def explode (a : List Seg) : List (Nat × Option Seg) := explodeFrom a 0

/-- The JSON object `filterAccountAddressOnTransactions` puts inside
    `sources_arrays @> '[{…}]'` for a partial address. -/
def Pattern.toMap : Pattern → List (Nat × Option Seg)
  | .exact _ => []
  | .part len cs =>
    cs.map (fun c => (c.1, some c.2)) ++ (match len with | none => [] | some n => [(n, none)])

/-- jsonb containment of a flat object in a flat object. -/
def mapContains (m ex : List (Nat × Option Seg)) : Bool :=
  m.all (fun kv => ex.lookup kv.1 == some kv.2)

/-- A transaction matches an `account`-like filter when one of its (source /
    destination) addresses does. -/
def matchesAny (p : Pattern) (as : List (List Seg)) : Bool := as.any (matchesAddress p)

-- ---------------------------------------------------------------------------
-- SQL text rendered by `filterAccountAddress` (compared verbatim with the real one)
-- ---------------------------------------------------------------------------

def replaceChar (c : Char) (by_ : List Char) (s : List Char) : List Char :=
  s.flatMap (fun x => if x = c then by_ else [x])

/-- `escapeSQL`. -/
def escapeSQL (s : List Char) : List Char := replaceChar '\'' ['\'', '\''] s

/-- `escapeJSONPath`: backslash first, then the double quote, then `escapeSQL`. -/
def escapeJSONPath (s : List Char) : List Char :=
  escapeSQL (replaceChar '"' ['\\', '"'] (replaceChar '\\' ['\\', '\\'] s))

def renderPart (key : String) (c : Nat × Seg) : String :=
  key ++ "_array @@ ('$[" ++ toString c.1 ++ "] == \"" ++ String.ofList (escapeJSONPath c.2) ++ "\"')::jsonpath"

/-- The text `filterAccountAddress(address, key)` returns. -/
def renderFilterAccountAddress (address key : String) : String :=
  let src := segments address.toList
  match Pattern.ofSegs src with
  | .exact _ => key ++ " = '" ++ String.ofList (escapeSQL address.toList) ++ "'"
  | .part len cs =>
    let parts :=
      (match len with
        | none => []
        | some n => ["jsonb_array_length(" ++ key ++ "_array) = " ++ toString n]) ++
      cs.map (renderPart key)
    if parts.isEmpty then "1 = 1" else " and ".intercalate parts

/-- `buildAddressFilterForLateral`. -/
def renderLateral (addresses : List String) : String :=
  match addresses with
  | [a] => renderFilterAccountAddress a "address"
  | as => " OR ".intercalate (as.map fun a => "(" ++ renderFilterAccountAddress a "address" ++ ")")

end Ledger.Query
