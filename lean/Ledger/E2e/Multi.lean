import Ledger.Ctrl.Controller

/-!
Multi-ledger version of the controller-level model (C19), core-only.

* `MState`: ledger name ↦ `Ledger.Ctrl.State`; every operation names its ledger and rewrites
  that one component.
* `DriverState`: the part of the storage driver that maintains the alone-in-bucket hint
  (`internal/storage/driver.Driver.CreateLedger / OpenLedger`, `ledgerstore.DefaultFactory`):
  the rows (name, bucket) of `_system.ledgers` and ONE shared flag per bucket, set to
  `CountLedgersInBucket = 1` by every create / open of a ledger of that bucket.
  One ledger process per database is assumed (DESIGN §2.7).
-/
namespace Ledger.E2e
open Ledger.Base Ledger.Core Ledger.Ctrl

structure MState where
  ledgers : String → State

/-- One write (possibly with an injected fault) on ledger `l`. -/
def stepM (strict : Bool) (m : MState) (l : String) (op : Op) (f : Faults := []) (cf : Bool := false) : MState × Resp :=
  let r := Ledger.Ctrl.stepF strict (m.ledgers l) op f cf
  ({ ledgers := fun x => if x = l then r.1 else m.ledgers x }, r.2)

/-- An interleaved history: (ledger, op) in commit order. -/
def runM (strict : Bool) (m : MState) : List (String × Op) → MState
  | [] => m
  | (l, op) :: r => runM strict (stepM strict m l op).1 r

/-- The sub-history of one ledger. -/
def opsOf (l : String) (h : List (String × Op)) : List Op :=
  h.filterMap fun e => if e.1 = l then some e.2 else none

/-! ### the storage driver's alone-in-bucket hint -/

structure DriverState where
  /-- rows of `_system.ledgers`: (name, bucket), in creation order -/
  ledgers : List (String × String) := []
  /-- `DefaultFactory.bucketFlags`: one shared hint per bucket (absent = no store created yet) -/
  flags : Map String Bool := []
  deriving DecidableEq, Repr, Inhabited

/-- `systemStore.CountLedgersInBucket` -/
def DriverState.count (d : DriverState) (bucket : String) : Nat := (d.ledgers.filter (·.2 == bucket)).length

inductive DriverOp where
  | create (name bucket : String)
  | openLedger (name : String)
  deriving DecidableEq, Repr, Inhabited

/-- `Driver.CreateLedger` (a duplicate name is refused by the unique index: no effect) and
    `Driver.OpenLedger` (unknown name: not found, no effect). Both end with
    `factory.Create(bucket).SetAloneInBucket(count == 1)`. -/
def driverStep (d : DriverState) : DriverOp → DriverState
  | .create name bucket =>
    if d.ledgers.any (·.1 == name) then d
    else
      let ledgers := d.ledgers ++ [(name, bucket)]
      { ledgers := ledgers, flags := d.flags.insert bucket (decide ((ledgers.filter (·.2 == bucket)).length = 1)) }
  | .openLedger name =>
    match d.ledgers.find? (·.1 == name) with
    | none => d
    | some (_, bucket) => { d with flags := d.flags.insert bucket (decide (d.count bucket = 1)) }

def driverRun (d : DriverState) : List DriverOp → DriverState
  | [] => d
  | op :: r => driverRun (driverStep d op) r

/-- The hint says what it should: every bucket that has a hint has `hint = (count = 1)`. -/
def DriverState.HintsCorrect (d : DriverState) : Prop :=
  ∀ b v, d.flags.get? b = some v → v = decide (d.count b = 1)

end Ledger.E2e
