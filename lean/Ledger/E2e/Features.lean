import Ledger.Ctrl.Controller

/-!
The controller-level model parameterised by a FEATURE SET (C35), core-only.

`Ledger.Ctrl.State` (transactions, accounts, volumes, logs, schemas, sequences) is what the
controller and its store contract compute; none of its definitions mentions a feature. What
the per-ledger features switch — by triggers and feature-gated statements of the SQL store
(`bucket.ledgerSetups`, `Store.CommitTransaction`, trigger `set_log_hash`) — is a set of
DERIVED tables, each a function of the successive core states:

* `moves` (MOVES_HISTORY=ON: two rows per posting of every inserted transaction; the column
  `post_commit_effective_volumes` is filled iff …_POST_COMMIT_EFFECTIVE_VOLUMES=SYNC),
* `logs.hash` (HASH_LOGS=SYNC: set on every inserted log),
* `accounts_metadata` (ACCOUNT_METADATA_HISTORY=SYNC: one revision per inserted / updated account row),
* `transactions_metadata` (TRANSACTION_METADATA_HISTORY=SYNC: one revision per inserted / updated transaction row).

The derived part is hand-written and tied to the code by the `features` workload (row counts of
LeanPG's dump per feature set), not by a proof.
-/
namespace Ledger.E2e
open Ledger.Base Ledger.Core Ledger.Ctrl

inductive HashMode where
  | sync | async | disabled
  deriving DecidableEq, Repr, Inhabited

structure FeatureSet where
  movesHistory : Bool
  pcev : Bool
  hashLogs : HashMode
  accMetaHist : Bool
  txMetaHist : Bool
  deriving DecidableEq, Repr, Inhabited

/-- The 48 feature sets. -/
def allFeatureSets : List FeatureSet :=
  [true, false].flatMap fun mh => [true, false].flatMap fun pc =>
    [HashMode.sync, .async, .disabled].flatMap fun h => [true, false].flatMap fun am =>
      [true, false].map fun tm => ⟨mh, pc, h, am, tm⟩

/-- A row of `moves`. -/
structure Move where
  txId : Nat
  account : String
  asset : String
  amount : Int
  isSource : Bool
  /-- `post_commit_effective_volumes` is filled (trigger `set_effective_volumes`) -/
  hasPcev : Bool
  deriving DecidableEq, Repr, Inhabited

/-- The tables a feature is documented to switch. -/
structure Derived where
  moves : List Move := []
  /-- ids of the logs whose `hash` column is set -/
  hashed : List Nat := []
  /-- one entry (the address) per `accounts_metadata` revision -/
  accHist : List String := []
  /-- one entry (the transaction id) per `transactions_metadata` revision -/
  txHist : List Nat := []
  deriving DecidableEq, Repr, Inhabited

structure FState where
  core : State := {}
  derived : Derived := {}
  deriving DecidableEq, Repr, Inhabited

def movesOf (pcev : Bool) (t : Ledger.Ctrl.Tx) : List Move :=
  t.postings.flatMap fun p =>
    [⟨t.id, p.source, p.asset, p.amount, true, pcev⟩, ⟨t.id, p.destination, p.asset, p.amount, false, pcev⟩]

/-- transactions inserted between two core states -/
def newTxs (old new : Db) : List Ledger.Ctrl.Tx := new.txs.filter fun t => !(old.txs.any (·.id == t.id))

/-- transaction rows updated between two core states -/
def changedTxs (old new : Db) : List Ledger.Ctrl.Tx :=
  new.txs.filter fun t => match old.findTx t.id with
    | some o => decide (o ≠ t)
    | none => false

/-- logs inserted between two core states (the journal is append-only, `Ledger.C08.journal_append_only`) -/
def newLogs (old new : Db) : List Log := new.logs.drop old.logs.length

/-- account rows inserted or updated between two core states -/
def touchedAccounts (old new : Db) : List String :=
  (new.accounts.filter fun e => decide (old.accounts.get? e.1 ≠ some e.2)).map (·.1)

/-- What the triggers / gated statements add to the derived tables for one committed change of the core. -/
def derive (f : FeatureSet) (old new : Db) (d : Derived) : Derived :=
  { moves := d.moves ++ (if f.movesHistory then (newTxs old new).flatMap (movesOf f.pcev) else []),
    hashed := d.hashed ++ (if f.hashLogs = .sync then (newLogs old new).map (·.id) else []),
    accHist := d.accHist ++ (if f.accMetaHist then touchedAccounts old new else []),
    txHist := d.txHist ++ (if f.txMetaHist then ((newTxs old new) ++ (changedTxs old new)).map (·.id) else []) }

/-- One write on a ledger created with feature set `f`. -/
def stepWith (f : FeatureSet) (strict : Bool) (s : FState) (op : Op) : FState × Resp :=
  let r := step strict s.core op
  ({ core := r.1, derived := derive f s.core.db r.1.db s.derived }, r.2)

/-- A sequential history: final state and the answers in order. -/
def runHistWith (f : FeatureSet) (strict : Bool) (s : FState) : List Op → FState × List Resp
  | [] => (s, [])
  | op :: r =>
    let x := stepWith f strict s op
    let y := runHistWith f strict x.1 r
    (y.1, x.2 :: y.2)

/-- The answers of the unparameterised controller model over a history. -/
def respsHist (strict : Bool) (s : State) : List Op → List Resp
  | [] => []
  | op :: r => (step strict s op).2 :: respsHist strict (step strict s op).1 r

/-- The projection C35 speaks about: transactions, logs (the model's logs carry no hash),
    current volumes / balances, current metadata (accounts), schemas, sequences — and the answers. -/
def project (x : FState × List Resp) : State × List Resp := (x.1.core, x.2)

end Ledger.E2e
