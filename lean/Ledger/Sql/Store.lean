import Ledger.Sql.Builtins

/-!
# LeanPG storage: tables, row versions, sequences, sessions

Row versions carry PostgreSQL-style visibility information
(`xmin/cmin/xmax/cmax`, documentation 13.2 / "5.5 System Columns"):

* a version is visible to a statement of transaction `T` with snapshot `S` and
  command id `C` iff its creator is visible (`xmin = T ∧ cmin < C`, or `xmin`
  committed before `S`) and its deleter is not;
* `rid` is the stable identity of the logical row across versions (the ledger
  never updates a key column), used to find the latest version of a row for
  READ COMMITTED re-checks (EvalPlanQual) and row locks;
* aborted work is removed physically (on ROLLBACK / ROLLBACK TO / statement
  failure), so every xid that is not in `World.active` is committed.

Core-only.
-/
namespace Ledger.Sql

structure ColDef where
  name : String
  ty : SqlType
  notNull : Bool := false
  dflt : Option Expr := none
  deriving Inhabited

structure UniqueIdx where
  name : String
  cols : List String
  /-- partial-index predicate -/
  pred : Option Expr := none
  primary : Bool := false
  deriving Inhabited

structure CheckDef where
  name : String
  e : Expr
  deriving Inhabited

structure TriggerDef where
  name : String
  timing : TrigTiming
  event : TrigEvent
  ofCols : List String := []
  when_ : Option Expr := none
  /-- fully qualified function name `bucket.fn` -/
  fname : String
  deriving Inhabited

structure FkDef where
  name : String
  cols : List String
  /-- referenced table (`schema.table` once instantiated) and columns -/
  refTable : String
  refCols : List String
  /-- ON DELETE CASCADE (otherwise NO ACTION) -/
  cascade : Bool := false
  deriving Inhabited

structure Ver where
  rid : Nat
  xmin : Nat
  cmin : Nat
  xmax : Nat := 0
  cmax : Nat := 0
  /-- holder of a row lock (`SELECT … FOR UPDATE`), 0 = none -/
  locker : Nat := 0
  lockCid : Nat := 0
  vals : List Value
  deriving Inhabited

structure Table where
  /-- `schema.table` -/
  name : String
  cols : List ColDef
  uniques : List UniqueIdx := []
  checks : List CheckDef := []
  triggers : List TriggerDef := []
  fks : List FkDef := []
  /-- newest first (so that snapshots share structure); scans reverse it -/
  rows : List Ver := []
  nextRid : Nat := 1
  deriving Inhabited

def Table.colNames (t : Table) : List String := t.cols.map (·.name)

structure Seq where
  name : String
  last : Int := 1
  called : Bool := false
  deriving Inhabited

structure AdvLock where
  key : Int
  /-- owning session -/
  sid : Nat
  /-- `true` = transaction-scoped (`pg_advisory_xact_lock`) -/
  xact : Bool
  /-- command id at acquisition (for ROLLBACK TO SAVEPOINT) -/
  cid : Nat
  deriving Inhabited

structure Savepoint where
  name : String
  cid : Nat
  deriving Inhabited

/-- a statement that answered `blocked` keeps its snapshot for the retry -/
structure Snapshot where
  /-- xids in progress when the snapshot was taken -/
  xip : List Nat
  /-- first xid not yet assigned when the snapshot was taken -/
  xmax : Nat
  deriving Inhabited

structure Session where
  id : Nat
  /-- current transaction id, 0 = none -/
  xid : Nat := 0
  /-- inside BEGIN … COMMIT -/
  explicit : Bool := false
  /-- failed statement inside a transaction block: 25P02 until ROLLBACK [TO] -/
  aborted : Bool := false
  /-- next command id -/
  cid : Nat := 0
  savepoints : List Savepoint := []
  /-- value of `transaction_date()` in this transaction -/
  txDate : Option Int := none
  /-- `now()` of this transaction -/
  txStart : Int := 0
  pending : Option Snapshot := none
  /-- the session this one is waiting for (its last statement answered `blocked`), 0 = none -/
  waitsFor : Nat := 0
  deriving Inhabited

structure CompositeDef where
  name : String
  fields : List (String × SqlType)
  deriving Inhabited

/-- see `World.bucketTemplate` (a forward reference: the tables of the template) -/
structure BucketSchemaRef where
  tables : List Table
  funcs : List PlFunc
  composites : List (String × List (String × SqlType))
  enums : List (String × List String)
  seqs : List String
  migrations : Nat
  deriving Inhabited

structure World where
  tables : List Table := []
  seqs : List Seq := []
  funcs : List (String × PlFunc) := []
  types : TypeEnv := {}
  sessions : List Session := []
  advisory : List AdvLock := []
  nextXid : Nat := 1
  active : List Nat := []
  /-- logical clock, microseconds since the epoch -/
  clock : Int := 1700000000000000
  buckets : List String := []
  /-- schema of a migrated bucket and the number of its migrations: a bucket that
      is referenced but does not exist yet is instantiated from it (migrating a
      bucket is treated as instantaneous and out of band) -/
  bucketTemplate : Option (BucketSchemaRef) := none
  deriving Inhabited

/-- the bucket-relative schema produced by T2 (`Ledger.Generated.Schema`) -/
structure BucketSchema where
  tables : List Table
  funcs : List PlFunc
  composites : List (String × List (String × SqlType))
  enums : List (String × List String)
  /-- sequences owned by serial columns -/
  seqs : List String
  deriving Inhabited

def BucketSchema.toRef (s : BucketSchema) (migrations : Nat) : BucketSchemaRef :=
  { tables := s.tables, funcs := s.funcs, composites := s.composites, enums := s.enums, seqs := s.seqs,
    migrations := migrations }

def sqlTy (n : String) : SqlType := .mk "" n "" false

/-- the go-libs migrator's bookkeeping table, with every migration applied -/
def versionsTable (bucket : String) (migrations : Nat) (now : Int) : Table :=
  { name := bucket ++ ".goose_db_version"
    cols := [
      { name := "version_id", ty := sqlTy "int8", notNull := true },
      { name := "is_applied", ty := sqlTy "bool", notNull := true, dflt := some (.bool false) },
      { name := "tstamp", ty := sqlTy "timestamp", notNull := true, dflt := some (.call "" "now" []) },
      { name := "id", ty := sqlTy "int4", notNull := true },
      { name := "max_counter", ty := sqlTy "numeric" },
      { name := "actual_counter", ty := sqlTy "numeric" },
      { name := "terminated_at", ty := sqlTy "timestamp" } ]
    uniques := [
      { name := "goose_db_version_pkey", cols := ["id"], primary := true },
      { name := "idx_goose_db_version_version_id", cols := ["version_id"] } ]
    rows := (List.range (migrations + 1)).reverse.map (fun i =>
      { rid := i + 1, xmin := 0, cmin := 0,
        vals := [.int i, .bool true, .ts now, .int (i + 1), .null, .null, .ts now] })
    nextRid := migrations + 2 }

/-- create the objects of a (fully migrated) bucket under the given schema name -/
def instantiateBucket (w : World) (sch : BucketSchemaRef) (bucket : String) : World :=
  if w.buckets.contains bucket then w else
  let tables := sch.tables.map (fun t =>
    { t with name := bucket ++ "." ++ t.name,
             triggers := t.triggers.map (fun tr => { tr with fname := bucket ++ "." ++ tr.fname }),
             fks := t.fks.map (fun fk => { fk with refTable := bucket ++ "." ++ fk.refTable }) })
  { w with
    tables := w.tables ++ tables ++ [versionsTable bucket sch.migrations w.clock]
    funcs := w.funcs ++ sch.funcs.map (fun f => (bucket ++ "." ++ f.name, f))
    seqs := w.seqs ++ sch.seqs.map (fun s => { name := bucket ++ "." ++ s })
    -- composite types and enums are looked up by bare name (every bucket defines the same ones)
    types := { composites := w.types.composites ++ sch.composites.filter (fun c => !(w.types.composites.any (·.1 == c.1))),
               enums := w.types.enums ++ sch.enums.filter (fun e => !(w.types.enums.any (·.1 == e.1))) }
    buckets := w.buckets ++ [bucket] }

def World.table? (w : World) (name : String) : Option Table :=
  w.tables.find? (·.name == name)

def World.setTable (w : World) (t : Table) : World :=
  { w with tables := w.tables.map (fun x => if x.name == t.name then t else x) }

def World.session (w : World) (sid : Nat) : Session :=
  (w.sessions.find? (·.id == sid)).getD { id := sid }

def World.setSession (w : World) (s : Session) : World :=
  if w.sessions.any (·.id == s.id) then
    { w with sessions := w.sessions.map (fun x => if x.id == s.id then s else x) }
  else { w with sessions := w.sessions ++ [s] }

/-! ## visibility -/

structure View where
  xid : Nat
  cid : Nat
  snap : Snapshot
  deriving Inhabited

def xidVisible (v : View) (x c : Nat) : Bool :=
  if x == 0 then true            -- frozen: committed long ago
  else if x == v.xid then c < v.cid
  else x < v.snap.xmax && !v.snap.xip.contains x

def Ver.visible (v : View) (r : Ver) : Bool :=
  xidVisible v r.xmin r.cmin && !(r.xmax != 0 && xidVisible v r.xmax r.cmax)

/-- visible versions in heap order (oldest first) -/
def Table.scan (t : Table) (v : View) : List Ver :=
  t.rows.foldl (fun acc r => if r.visible v then r :: acc else acc) []

/-- "latest" view of a session: everything committed plus all own writes -/
def latestView (w : World) (xid : Nat) : View :=
  { xid := xid, cid := 1000000000, snap := { xip := w.active.filter (· != xid), xmax := w.nextXid } }

/-! ## physical undo -/

/-- remove the effects of transaction `xid` with command id ≥ `fromCid` -/
def Table.undo (t : Table) (xid fromCid : Nat) : Table :=
  { t with rows := t.rows.filterMap (fun r =>
      if r.xmin == xid && r.cmin ≥ fromCid then none
      else
        let r := if r.xmax == xid && r.cmax ≥ fromCid then { r with xmax := 0, cmax := 0 } else r
        let r := if r.locker == xid && r.lockCid ≥ fromCid then { r with locker := 0, lockCid := 0 } else r
        some r) }

def World.undo (w : World) (xid fromCid : Nat) : World :=
  { w with tables := w.tables.map (·.undo xid fromCid) }

/-- after commit with no snapshot outstanding: freeze committed creators, drop
    versions deleted by committed transactions, release row locks -/
def Table.vacuum (t : Table) (active : List Nat) : Table :=
  { t with rows := t.rows.filterMap (fun r =>
      if r.xmax != 0 && !active.contains r.xmax then none
      else
        let r := if r.xmin != 0 && !active.contains r.xmin then { r with xmin := 0, cmin := 0 } else r
        let r := if r.locker != 0 && !active.contains r.locker then { r with locker := 0, lockCid := 0 } else r
        some r) }

def World.vacuum (w : World) : World :=
  if w.sessions.any (·.pending.isSome) then w
  else { w with tables := w.tables.map (·.vacuum w.active) }

end Ledger.Sql
